//! Level C for C12 (least privilege): every delegated-admin instruction executed by the REAL handler
//! (through `marginfi::entry`) in the sim runtime, with a byte-level frame check: the full bytes of
//! the target bank are compared before/after FIELD BY FIELD (a table of named byte ranges that must
//! tile the 1856-byte `Bank` exactly, paddings included) and every other account of the store is
//! compared as a whole; the names of what changed are part of the output line, so a write outside the
//! role's remit shows up both in the model comparison and in the property oracle.
//!
//! World: fee state, one group whose seven roles have seven DISTINCT keys (+ one stranger), one SPL
//! mint (6 decimals), banks 0 and 1 by fixture (config / flags from the header; oracle keys 1..4 set
//! to marker keys), a metadata account per bank created by the real init_bank_metadata, three
//! emissions mints A B C with a funding token account per mint owned by the emissions admin
//! (FUNDING tokens each), the emissions vault of (bank i, B) pre-created (lets the update handler
//! be reached with a mint that is not the bank's), and -- when the header says bank 0's emissions
//! are set up -- the vault of (bank 0, A).
//!
//! case: now <cfg0> osetup0 fixed0 flags0 em0 rate0 rem0 <cfg1> osetup1 fixed1 flags1 n step_1 .. step_n
//!   <cfg>, <opt>, <iropt>, entries as in suite `config`; s = signer role 0 admin 1 emode 2 curve
//!   3 limit 4 emissions 5 metadata 6 risk 7 stranger; i = bank index
//!   CFG s i <opt>             lending_pool_configure_bank
//!   IRO s i <iropt>           lending_pool_configure_bank_interest_only
//!   LIM s i od ob ol          lending_pool_configure_bank_limits_only
//!   EM  s i tag (tag flags init maint)x10   lending_pool_configure_bank_emode
//!   CL  s i j                 lending_pool_clone_emode (from i to j)
//!   ORA s i setup okey rem    lending_pool_configure_bank_oracle (okey: identity token, 3 = the pyth
//!                             fixture feed; rem 1 = pass the pyth fixture account)
//!   FIX s i price             lending_pool_set_fixed_oracle_price
//!   ESET s i flags rate total lending_pool_setup_emissions (mint A if the bank has none, else C)
//!   EUPD s i m oflags orate oadd   lending_pool_update_emissions_parameters (m: 1 = A, 2 = B)
//!   META s i oticker odesc    write_bank_metadata (bytes as hex, "-" = empty)
//!   FTC s i                   lending_pool_force_tokenless_repay_complete
//!   SSI <staked>              init_staked_settings (admin)        PR i   propagate_staked_settings
//! out: B0 <pdump> | B1 <pdump> | step ...
//!   step = OK B<i> <pdump> D <changed bank fields | -> A <changed other accounts | -> | E<code> | PANIC | PE:<text> | EXISTS | ABSENT
//!   <pdump> = <bank dump of suite config> osetup fixed_price em_rate em_remaining em_mint
use crate::sim::fixtures::*;
use crate::sim::ixs;
use crate::sim::runtime::{Acct, ExecError, Ix, World};
use crate::suites::config::*;
use crate::util::*;
use anchor_lang::prelude::AccountMeta;
use fixed::types::I80F48;
use marginfi::{accounts as acc, instruction as ixd};
use marginfi_type_crate::constants::{METADATA_SEED, STAKED_SETTINGS_SEED};
use marginfi_type_crate::types::{
    Bank, BankConfig, BankMetadata, EmodeSettings, MarginfiGroup, OracleSetup, WithdrawWindowCache,
};
use solana_program::pubkey::Pubkey;
use solana_program::system_program;
use std::collections::BTreeMap;
use std::mem::{offset_of, size_of};

pub const FUNDING: u64 = 1u64 << 62;

pub fn err_s(e: &ExecError) -> String {
    match e {
        ExecError::Custom(n) => format!("E{}", n),
        ExecError::Panic => "PANIC".into(),
        ExecError::Program(s) => format!("PE:{}", s.replace(' ', "_")),
    }
}

/// A named byte range of an account body (offsets exclude the 8-byte discriminator).
pub struct Field {
    pub name: &'static str,
    pub off: usize,
    pub len: usize,
}

macro_rules! fld {
    ($v:ident, $name:expr, $base:expr, $ty:ty, $f:ident, $fty:ty) => {
        $v.push(Field { name: $name, off: $base + offset_of!($ty, $f), len: size_of::<$fty>() })
    };
}

/// the table must tile [0, total) exactly: no gap, no overlap, nothing unnamed
fn check_tiling(t: &[Field], total: usize, what: &str) {
    let mut pos = 0usize;
    for f in t {
        assert!(f.off == pos, "{}: field {} starts at {} but previous ended at {}", what, f.name, f.off, pos);
        pos = f.off + f.len;
    }
    assert!(pos == total, "{}: table ends at {} of {}", what, pos, total);
}

pub fn bank_fields() -> Vec<Field> {
    use marginfi_type_crate::types::{BankCache, InterestRateConfig, WrappedI80F48 as W};
    let mut v: Vec<Field> = Vec::new();
    fld!(v, "mint", 0, Bank, mint, Pubkey);
    fld!(v, "mint_decimals", 0, Bank, mint_decimals, u8);
    fld!(v, "group", 0, Bank, group, Pubkey);
    fld!(v, "_pad0", 0, Bank, _pad0, [u8; 7]);
    fld!(v, "asset_share_value", 0, Bank, asset_share_value, W);
    fld!(v, "liability_share_value", 0, Bank, liability_share_value, W);
    fld!(v, "liquidity_vault", 0, Bank, liquidity_vault, Pubkey);
    fld!(v, "liquidity_vault_bump", 0, Bank, liquidity_vault_bump, u8);
    fld!(v, "liquidity_vault_authority_bump", 0, Bank, liquidity_vault_authority_bump, u8);
    fld!(v, "insurance_vault", 0, Bank, insurance_vault, Pubkey);
    fld!(v, "insurance_vault_bump", 0, Bank, insurance_vault_bump, u8);
    fld!(v, "insurance_vault_authority_bump", 0, Bank, insurance_vault_authority_bump, u8);
    fld!(v, "_pad1", 0, Bank, _pad1, [u8; 4]);
    fld!(v, "collected_insurance_fees_outstanding", 0, Bank, collected_insurance_fees_outstanding, W);
    fld!(v, "fee_vault", 0, Bank, fee_vault, Pubkey);
    fld!(v, "fee_vault_bump", 0, Bank, fee_vault_bump, u8);
    fld!(v, "fee_vault_authority_bump", 0, Bank, fee_vault_authority_bump, u8);
    fld!(v, "_pad2", 0, Bank, _pad2, [u8; 6]);
    fld!(v, "collected_group_fees_outstanding", 0, Bank, collected_group_fees_outstanding, W);
    fld!(v, "total_liability_shares", 0, Bank, total_liability_shares, W);
    fld!(v, "total_asset_shares", 0, Bank, total_asset_shares, W);
    fld!(v, "last_update", 0, Bank, last_update, i64);
    let c = offset_of!(Bank, config);
    fld!(v, "cfg.awi", c, BankConfig, asset_weight_init, W);
    fld!(v, "cfg.awm", c, BankConfig, asset_weight_maint, W);
    fld!(v, "cfg.lwi", c, BankConfig, liability_weight_init, W);
    fld!(v, "cfg.lwm", c, BankConfig, liability_weight_maint, W);
    fld!(v, "cfg.dep", c, BankConfig, deposit_limit, u64);
    fld!(v, "cfg.ir", c, BankConfig, interest_rate_config, InterestRateConfig);
    fld!(v, "cfg.op", c, BankConfig, operational_state, u8);
    fld!(v, "cfg.osetup", c, BankConfig, oracle_setup, u8);
    v.push(Field { name: "cfg.okey0", off: c + offset_of!(BankConfig, oracle_keys), len: 32 });
    v.push(Field { name: "cfg.okeys1_4", off: c + offset_of!(BankConfig, oracle_keys) + 32, len: 128 });
    fld!(v, "cfg._pad0", c, BankConfig, _pad0, [u8; 6]);
    fld!(v, "cfg.bor", c, BankConfig, borrow_limit, u64);
    fld!(v, "cfg.tier", c, BankConfig, risk_tier, u8);
    fld!(v, "cfg.tag", c, BankConfig, asset_tag, u8);
    fld!(v, "cfg.cflags", c, BankConfig, config_flags, u8);
    fld!(v, "cfg._pad1", c, BankConfig, _pad1, [u8; 5]);
    fld!(v, "cfg.lim", c, BankConfig, total_asset_value_init_limit, u64);
    fld!(v, "cfg.age", c, BankConfig, oracle_max_age, u16);
    fld!(v, "cfg._padding0", c, BankConfig, _padding0, [u8; 2]);
    fld!(v, "cfg.conf", c, BankConfig, oracle_max_confidence, u32);
    fld!(v, "cfg.fixed_price", c, BankConfig, fixed_price, W);
    fld!(v, "cfg._padding1", c, BankConfig, _padding1, [u8; 16]);
    fld!(v, "flags", 0, Bank, flags, u64);
    fld!(v, "emissions_rate", 0, Bank, emissions_rate, u64);
    fld!(v, "emissions_remaining", 0, Bank, emissions_remaining, W);
    fld!(v, "emissions_mint", 0, Bank, emissions_mint, Pubkey);
    fld!(v, "collected_program_fees_outstanding", 0, Bank, collected_program_fees_outstanding, W);
    let e = offset_of!(Bank, emode);
    fld!(v, "emode.tag", e, EmodeSettings, emode_tag, u16);
    fld!(v, "emode.pad0", e, EmodeSettings, pad0, [u8; 6]);
    fld!(v, "emode.ts", e, EmodeSettings, timestamp, i64);
    fld!(v, "emode.flags", e, EmodeSettings, flags, u64);
    let ee = e + offset_of!(EmodeSettings, emode_config);
    v.push(Field { name: "emode.entries", off: ee, len: size_of::<EmodeSettings>() - offset_of!(EmodeSettings, emode_config) });
    fld!(v, "fees_destination_account", 0, Bank, fees_destination_account, Pubkey);
    fld!(v, "cache", 0, Bank, cache, BankCache);
    fld!(v, "lending_position_count", 0, Bank, lending_position_count, i32);
    fld!(v, "borrowing_position_count", 0, Bank, borrowing_position_count, i32);
    fld!(v, "_padding_0", 0, Bank, _padding_0, [u8; 16]);
    fld!(v, "integration_acc_1", 0, Bank, integration_acc_1, Pubkey);
    fld!(v, "integration_acc_2", 0, Bank, integration_acc_2, Pubkey);
    fld!(v, "integration_acc_3", 0, Bank, integration_acc_3, Pubkey);
    fld!(v, "_padding_1", 0, Bank, _padding_1, [[u64; 2]; 13]);
    check_tiling(&v, size_of::<Bank>(), "Bank");
    v
}

pub fn group_fields() -> Vec<Field> {
    use marginfi_type_crate::types::{FeeStateCache, PanicStateCache};
    let mut v: Vec<Field> = Vec::new();
    fld!(v, "g.admin", 0, MarginfiGroup, admin, Pubkey);
    fld!(v, "g.group_flags", 0, MarginfiGroup, group_flags, u64);
    fld!(v, "g.fee_state_cache", 0, MarginfiGroup, fee_state_cache, FeeStateCache);
    fld!(v, "g.banks", 0, MarginfiGroup, banks, u16);
    fld!(v, "g.pad0", 0, MarginfiGroup, pad0, [u8; 6]);
    fld!(v, "g.emode_admin", 0, MarginfiGroup, emode_admin, Pubkey);
    fld!(v, "g.curve_admin", 0, MarginfiGroup, delegate_curve_admin, Pubkey);
    fld!(v, "g.limit_admin", 0, MarginfiGroup, delegate_limit_admin, Pubkey);
    fld!(v, "g.emissions_admin", 0, MarginfiGroup, delegate_emissions_admin, Pubkey);
    fld!(v, "g.panic_state_cache", 0, MarginfiGroup, panic_state_cache, PanicStateCache);
    let w = offset_of!(MarginfiGroup, deleverage_withdraw_window_cache);
    fld!(v, "g.win.limit", w, WithdrawWindowCache, daily_limit, u32);
    fld!(v, "g.win.withdrawn", w, WithdrawWindowCache, withdrawn_today, u32);
    fld!(v, "g.win.last_reset", w, WithdrawWindowCache, last_daily_reset_timestamp, i64);
    fld!(v, "g.risk_admin", 0, MarginfiGroup, risk_admin, Pubkey);
    fld!(v, "g.metadata_admin", 0, MarginfiGroup, metadata_admin, Pubkey);
    fld!(v, "g.emode_max_init_leverage", 0, MarginfiGroup, emode_max_init_leverage, u32);
    fld!(v, "g.emode_max_maint_leverage", 0, MarginfiGroup, emode_max_maint_leverage, u32);
    fld!(v, "g._padding", 0, MarginfiGroup, _padding, [u8; 8]);
    fld!(v, "g._padding_0", 0, MarginfiGroup, _padding_0, [[u64; 2]; 11]);
    fld!(v, "g._padding_1", 0, MarginfiGroup, _padding_1, [[u64; 2]; 32]);
    check_tiling(&v, size_of::<MarginfiGroup>(), "MarginfiGroup");
    v
}

pub fn meta_fields() -> Vec<Field> {
    let mut v: Vec<Field> = Vec::new();
    fld!(v, "bank", 0, BankMetadata, bank, Pubkey);
    fld!(v, "placeholder", 0, BankMetadata, placeholder, u64);
    fld!(v, "ticker", 0, BankMetadata, ticker, [u8; 64]);
    fld!(v, "description", 0, BankMetadata, description, [u8; 128]);
    fld!(v, "data_blob", 0, BankMetadata, data_blob, [u8; 256]);
    fld!(v, "end_description_byte", 0, BankMetadata, end_description_byte, u16);
    fld!(v, "end_data_blob", 0, BankMetadata, end_data_blob, u16);
    fld!(v, "end_ticker_byte", 0, BankMetadata, end_ticker_byte, u8);
    fld!(v, "bump", 0, BankMetadata, bump, u8);
    fld!(v, "_pad0", 0, BankMetadata, _pad0, [u8; 2]);
    check_tiling(&v, size_of::<BankMetadata>(), "BankMetadata");
    v
}

/// names of the table entries whose bytes differ; account bodies start after the 8-byte discriminator.
/// A change of length, owner, lamports or discriminator is reported as "<acct>".
pub fn diff_fields(t: &[Field], a: &Acct, b: &Acct) -> Vec<String> {
    let mut out = Vec::new();
    if a.data.len() != b.data.len() || a.owner != b.owner || a.lamports != b.lamports || a.data[..8] != b.data[..8] {
        out.push("<acct>".to_string());
        if a.data.len() != b.data.len() {
            return out;
        }
    }
    for f in t {
        if a.data[8 + f.off..8 + f.off + f.len] != b.data[8 + f.off..8 + f.off + f.len] {
            out.push(f.name.to_string());
        }
    }
    out
}

fn list(v: &[String]) -> String {
    if v.is_empty() {
        "-".to_string()
    } else {
        v.join(" ")
    }
}

struct Env {
    w: World,
    roles: [Pubkey; 8],
    group: Pubkey,
    banks: [Pubkey; 2],
    metas: [Pubkey; 2],
    em_mints: [Pubkey; 3],
    funding: [Pubkey; 3],
    pyth: Pubkey,
    settings: Pubkey,
    labels: BTreeMap<Pubkey, String>,
    bank_tbl: Vec<Field>,
    group_tbl: Vec<Field>,
    meta_tbl: Vec<Field>,
}

fn mint_tok(e: &Env, k: &Pubkey) -> u8 {
    if *k == Pubkey::default() {
        0
    } else if *k == e.em_mints[0] {
        1
    } else if *k == e.em_mints[1] {
        2
    } else if *k == e.em_mints[2] {
        3
    } else {
        9
    }
}

/// oracle key identities: 0..2 as in suite config, 3 = the pyth fixture feed account
fn okey_p(e: &Env, i: u8) -> Pubkey {
    if i == 3 {
        e.pyth
    } else {
        okey(i)
    }
}
fn okey_tok_p(e: &Env, k: &Pubkey) -> u8 {
    if *k == e.pyth {
        3
    } else {
        okey_tok(k)
    }
}

fn pdump(e: &Env, i: usize) -> String {
    let b: Bank = e.w.get::<Bank>(&e.banks[i]).expect("bank vanished");
    // dump_bank prints the oracle key through okey_tok (9 = unknown); the pyth key gets its own token
    let mut c = b.config;
    let tok = okey_tok_p(e, &c.oracle_keys[0]);
    c.oracle_keys[0] = okey(if tok == 3 { 0 } else { tok });
    let d = dump_cfg(&c);
    // replace the last token (oracle key) by our token
    let cut = d.rfind(' ').unwrap();
    format!(
        "B{} {} {} {} {} {} {} {} {} {}",
        i,
        &d[..cut],
        tok,
        b.flags,
        dump_emode(&b.emode),
        b.config.oracle_setup as u8,
        fxb(b.config.fixed_price),
        b.emissions_rate,
        fxb(b.emissions_remaining),
        mint_tok(e, &b.emissions_mint)
    )
}

fn hex_bytes(s: &str) -> Vec<u8> {
    if s == "-" {
        return vec![];
    }
    (0..s.len() / 2).map(|k| u8::from_str_radix(&s[2 * k..2 * k + 2], 16).expect("bad hex")).collect()
}

fn opt_tok<T>(t: &mut Toks, f: impl FnOnce(&mut Toks) -> T) -> Option<T> {
    match t.s() {
        "N" => None,
        "S" => Some(f(t)),
        x => panic!("bad option token {}", x),
    }
}

/// run one instruction and describe what changed
fn step(e: &mut Env, ix: Ix, signer: Pubkey, target: usize) -> String {
    let before = e.w.accounts.clone();
    match e.w.exec(ix, &[signer]) {
        Err(x) => err_s(&x),
        Ok(()) => {
            let bk = e.banks[target];
            let d = diff_fields(&e.bank_tbl, &before[&bk], &e.w.accounts[&bk]);
            let mut a: Vec<String> = Vec::new();
            let mut keys: Vec<Pubkey> = before.keys().cloned().collect();
            for k in e.w.accounts.keys() {
                if !before.contains_key(k) {
                    keys.push(*k);
                }
            }
            let mut named: Vec<(String, Pubkey)> = keys
                .iter()
                .map(|k| (e.labels.get(k).cloned().unwrap_or_else(|| format!("acct?{}", k)), *k))
                .collect();
            named.sort();
            for (name, k) in named {
                if k == bk {
                    continue;
                }
                let (x, y) = (before.get(&k), e.w.accounts.get(&k));
                let same = match (x, y) {
                    (Some(x), Some(y)) => x.data == y.data && x.lamports == y.lamports && x.owner == y.owner,
                    (None, None) => true,
                    _ => false,
                };
                if !same {
                    if k == e.group {
                        if let (Some(x), Some(y)) = (x, y) {
                            a.push(format!("group:{}", diff_fields(&e.group_tbl, x, y).join("+")));
                            continue;
                        }
                    }
                    if k == e.metas[0] || k == e.metas[1] {
                        if let (Some(x), Some(y)) = (x, y) {
                            a.push(format!("{}:{}", name, diff_fields(&e.meta_tbl, x, y).join("+")));
                            continue;
                        }
                    }
                    a.push(name);
                }
            }
            format!("OK {} D {} A {}", pdump(e, target), list(&d), list(&a))
        }
    }
}

fn parse_bank_hdr(t: &mut Toks) -> (BankConfig, u8, I80F48, u64) {
    let cfg = parse_cfg(t);
    let osetup = t.u8();
    let fixed = t.fx();
    let flags = t.u64();
    (cfg, osetup, fixed, flags)
}

pub fn run(line: &str) -> String {
    let mut t = Toks::new(line);
    let now = t.i64();
    let (cfg0, os0, fp0, flags0) = parse_bank_hdr(&mut t);
    let em0 = t.u8();
    let rate0 = t.u64();
    let rem0 = t.fx();
    let (cfg1, os1, fp1, flags1) = parse_bank_hdr(&mut t);
    let n = t.usize();

    let mut w = World::new();
    w.set_clock(now);
    let mut roles = [Pubkey::default(); 8];
    for r in roles.iter_mut() {
        *r = mk_wallet(&mut w, 1_000_000_000_000);
    }
    let fee_wallet = mk_wallet(&mut w, 1_000_000_000);
    mk_fee_state(&mut w, roles[0], fee_wallet, FeeStateParams::default());
    let group = mk_group(&mut w, roles[0]);
    w.update::<MarginfiGroup>(&group, |g| {
        g.emode_admin = roles[1];
        g.delegate_curve_admin = roles[2];
        g.delegate_limit_admin = roles[3];
        g.delegate_emissions_admin = roles[4];
        g.metadata_admin = roles[5];
        g.risk_admin = roles[6];
    });
    let mint = mk_mint(&mut w, 6, TokenProgram::Spl);
    let pyth = mk_pyth_push_oracle(&mut w, [7u8; 32], 100_000_000, 10_000, -8, 100_000_000, 10_000, now);
    let mut labels: BTreeMap<Pubkey, String> = BTreeMap::new();
    let mut banks = [Pubkey::default(); 2];
    let mut metas = [Pubkey::default(); 2];
    for (i, (cfg, os, fp, flags)) in [(cfg0, os0, fp0, flags0), (cfg1, os1, fp1, flags1)].iter().enumerate() {
        let mut p = BankParams::default();
        p.flags = *flags;
        let b = mk_bank(&mut w, group, mint, p);
        let okey0 = cfg.oracle_keys[0];
        w.update::<Bank>(&b, |bk| {
            bk.config = *cfg;
            bk.config.oracle_setup = OracleSetup::from_u8(*os).expect("bad oracle setup token");
            bk.config.fixed_price = (*fp).into();
            bk.config.oracle_keys[0] = if okey0 == okey(3) { pyth } else { okey0 };
            for k in 1..5 {
                bk.config.oracle_keys[k] = Pubkey::new_from_array([0xA0 + k as u8; 32]);
            }
            bk.config.config_flags = 1;
            // a bank in USE whose interest was last accrued a day ago: an admin instruction that touches the accrual
            // clock, the cached rates or the share values (none of them may) becomes visible in the frame check
            bk.total_asset_shares = I80F48::from_num(1_000_000_000u64).into();
            bk.total_liability_shares = I80F48::from_num(400_000_000u64).into();
            bk.last_update = bk.last_update.saturating_sub(86_400).max(0);
        });
        banks[i] = b;
        let k = BankKeys::derive(&b);
        labels.insert(b, format!("bank{}", i));
        labels.insert(k.liquidity_vault, format!("liqvault{}", i));
        labels.insert(k.insurance_vault, format!("insvault{}", i));
        labels.insert(k.fee_vault, format!("feevault{}", i));
        // metadata by the real permissionless init_bank_metadata
        let meta = Pubkey::find_program_address(&[METADATA_SEED.as_bytes(), b.as_ref()], &marginfi::ID).0;
        let ix = ixs::build(
            acc::InitBankMetadata { bank: b, fee_payer: roles[7], metadata: meta, system_program: system_program::ID },
            ixd::InitBankMetadata {},
            vec![],
        );
        w.exec(ix, &[roles[7]]).expect("init_bank_metadata");
        metas[i] = meta;
        labels.insert(meta, format!("meta{}", i));
    }
    let mut em_mints = [Pubkey::default(); 3];
    let mut funding = [Pubkey::default(); 3];
    for j in 0..3 {
        em_mints[j] = mk_mint(&mut w, 6, TokenProgram::Spl);
        funding[j] = mk_token_account(&mut w, em_mints[j], roles[4], FUNDING);
        labels.insert(em_mints[j], format!("emmint{}", j));
        labels.insert(funding[j], format!("funding{}", j));
    }
    for i in 0..2 {
        for j in 0..3 {
            let (auth, vault) = ixs::emissions_pdas(&banks[i], &em_mints[j]);
            labels.insert(vault, format!("emvault{}{}", i, j));
            if j == 1 || (i == 0 && j == 0 && em0 == 1) {
                put_token_account(&mut w, vault, &em_mints[j], &auth, 0);
            }
        }
    }
    if em0 == 1 {
        let m = em_mints[0];
        w.update::<Bank>(&banks[0], |bk| {
            bk.emissions_mint = m;
            bk.emissions_rate = rate0;
            bk.emissions_remaining = rem0.into();
        });
    }
    let settings = Pubkey::find_program_address(&[STAKED_SETTINGS_SEED.as_bytes(), group.as_ref()], &marginfi::ID).0;
    labels.insert(group, "group".into());
    labels.insert(settings, "settings".into());
    labels.insert(mint, "mint".into());
    labels.insert(pyth, "pyth".into());
    labels.insert(fee_state_key(), "feestate".into());
    labels.insert(fee_wallet, "feewallet".into());
    for (r, name) in ["admin", "emode", "curve", "limit", "emissions", "metadata", "risk", "stranger"].iter().enumerate() {
        labels.insert(roles[r], format!("wallet:{}", name));
    }
    let mut e = Env {
        w,
        roles,
        group,
        banks,
        metas,
        em_mints,
        funding,
        pyth,
        settings,
        labels,
        bank_tbl: bank_fields(),
        group_tbl: group_fields(),
        meta_tbl: meta_fields(),
    };

    let mut out: Vec<String> = vec![pdump(&e, 0), pdump(&e, 1)];
    for _ in 0..n {
        let op = t.s();
        let s = match op {
            "SSI" => {
                let mut s = parse_staked(&mut t);
                if s.oracle == okey(3) {
                    s.oracle = e.pyth;
                }
                if e.w.account(&e.settings).is_some() {
                    "EXISTS".to_string()
                } else {
                    let a = e.roles[0];
                    let ix = ixs::build(
                        acc::InitStakedSettings {
                            marginfi_group: e.group,
                            admin: a,
                            fee_payer: a,
                            staked_settings: e.settings,
                            system_program: system_program::ID,
                        },
                        ixd::InitStakedSettings {
                            settings: marginfi::instructions::StakedSettingsConfig {
                                oracle: s.oracle,
                                asset_weight_init: s.asset_weight_init,
                                asset_weight_maint: s.asset_weight_maint,
                                deposit_limit: s.deposit_limit,
                                total_asset_value_init_limit: s.total_asset_value_init_limit,
                                oracle_max_age: s.oracle_max_age,
                                risk_tier: s.risk_tier,
                            },
                        },
                        vec![],
                    );
                    match e.w.exec(ix, &[a]) {
                        Ok(()) => "OK".to_string(),
                        Err(x) => err_s(&x),
                    }
                }
            }
            "PR" => {
                let i = t.usize();
                if e.w.account(&e.settings).is_none() {
                    "ABSENT".to_string()
                } else {
                    let ix = ixs::build(
                        acc::PropagateStakedSettings { marginfi_group: e.group, staked_settings: e.settings, bank: e.banks[i] },
                        ixd::PropagateStakedSettings {},
                        vec![],
                    );
                    let s = e.roles[7];
                    step(&mut e, ix, s, i)
                }
            }
            _ => {
                let s = e.roles[t.usize()];
                let i = t.usize();
                let bank = e.banks[i];
                let g = e.group;
                match op {
                    "CFG" => {
                        let o = parse_opt(&mut t);
                        step(&mut e, ixs::lending_pool_configure_bank(g, s, bank, o), s, i)
                    }
                    "IRO" => {
                        let o = parse_ir_opt(&mut t);
                        step(&mut e, ixs::lending_pool_configure_bank_interest_only(g, s, bank, o), s, i)
                    }
                    "LIM" => {
                        let d = opt_tok(&mut t, |t| t.u64());
                        let b = opt_tok(&mut t, |t| t.u64());
                        let l = opt_tok(&mut t, |t| t.u64());
                        step(&mut e, ixs::lending_pool_configure_bank_limits_only(g, s, bank, d, b, l), s, i)
                    }
                    "EM" => {
                        let tag = t.u16();
                        let entries = parse_entries(&mut t);
                        step(&mut e, ixs::lending_pool_configure_bank_emode(g, s, bank, tag, entries), s, i)
                    }
                    "CL" => {
                        let j = t.usize();
                        let to = e.banks[j];
                        step(&mut e, ixs::lending_pool_clone_emode(g, s, bank, to), s, j)
                    }
                    "ORA" => {
                        let setup = t.u8();
                        let ok = t.u8();
                        let rem = t.u8();
                        let key = okey_p(&e, ok);
                        let r = if rem == 1 { vec![AccountMeta::new_readonly(e.pyth, false)] } else { vec![] };
                        step(&mut e, ixs::lending_pool_configure_bank_oracle(g, s, bank, setup, key, r), s, i)
                    }
                    "FIX" => {
                        let p = t.fx();
                        step(&mut e, ixs::lending_pool_set_fixed_oracle_price(g, s, bank, p.into()), s, i)
                    }
                    "ESET" => {
                        let flags = t.u64();
                        let rate = t.u64();
                        let total = t.u64();
                        let cur = e.w.get::<Bank>(&bank).unwrap().emissions_mint;
                        let j = if cur == Pubkey::default() { 0 } else { 2 };
                        let ix = ixs::lending_pool_setup_emissions(
                            g, s, bank, e.em_mints[j], e.funding[j], spl_token::ID, flags, rate, total, vec![],
                        );
                        step(&mut e, ix, s, i)
                    }
                    "EUPD" => {
                        let m = t.usize();
                        let of = opt_tok(&mut t, |t| t.u64());
                        let or = opt_tok(&mut t, |t| t.u64());
                        let oa = opt_tok(&mut t, |t| t.u64());
                        let ix = ixs::lending_pool_update_emissions_parameters(
                            g, s, bank, e.em_mints[m - 1], e.funding[m - 1], spl_token::ID, of, or, oa, vec![],
                        );
                        step(&mut e, ix, s, i)
                    }
                    "META" => {
                        let ticker = opt_tok(&mut t, |t| hex_bytes(t.s()));
                        let desc = opt_tok(&mut t, |t| hex_bytes(t.s()));
                        let ix = ixs::build(
                            acc::WriteBankMetadata { group: g, bank, metadata_admin: s, metadata: e.metas[i] },
                            ixd::WriteBankMetadata { ticker, description: desc },
                            vec![],
                        );
                        let r = step(&mut e, ix, s, i);
                        if r.starts_with("OK") {
                            let m: BankMetadata = e.w.get::<BankMetadata>(&e.metas[i]).unwrap();
                            let hx = |b: &[u8]| -> String {
                                let s: String = b.iter().map(|x| format!("{:02x}", x)).collect();
                                s
                            };
                            format!("{} M {} {} {} {}", r, hx(&m.ticker), m.end_ticker_byte, hx(&m.description), m.end_description_byte)
                        } else {
                            r
                        }
                    }
                    "FTC" => step(&mut e, ixs::lending_pool_force_tokenless_repay_complete(g, s, bank), s, i),
                    x => panic!("unknown step {}", x),
                }
            }
        };
        out.push(s);
    }
    out.join(" | ")
}
