//! Level A for C13: the REAL configuration validators and `Bank::configure`.
//! case: <op> args...
//!   V    <cfg>                                  BankConfig::validate
//!   SV   oracle awi awm dep lim age tier        StakedSettings::validate
//!   LEV  cw lw                                  calculate_max_leverage
//!   EV   lwi lwm cap_i cap_m (tag flags init maint)x10   validate_entries_with_liability_weights
//!   U2B  v | B2U bits                           u32_to_basis / basis_to_u32
//!   CONF <cfg> flags <opt>                      Bank::configure on a Bank struct
//!   UNF  <cfg> flags <opt>                      Bank::configure_unfrozen_fields_only
//!   REC  k ((tag flags init maint)x10)xk        reconcile_emode_configs
//!   CV   amount price decimals weight           calc_value(.., Some(weight))
//! <cfg> = awi awm lwi lwm dep bor <ir: 20 tokens as in suite curve> orig op tier tag lim age conf okey
//! <opt> = BankConfigOpt in field order, each option "N" | "S v"; interest_rate_config "N" | "S" + 7 options + points "N" | "S" (u r)x5
//! out : OK[ dump] | E<code> | PANIC | bits
use crate::suites::curve::parse_ir;
use crate::util::*;
use bytemuck::Zeroable;
use marginfi::state::bank::BankImpl;
use marginfi::state::bank_config::BankConfigImpl;
use marginfi::state::emode::{calculate_max_leverage, EmodeSettingsImpl};
use marginfi::state::marginfi_account::calc_value;
use marginfi::state::staked_settings::StakedSettingsImpl;
use marginfi_type_crate::types::{
    basis_to_u32, reconcile_emode_configs, u32_to_basis, Bank, BankConfig, BankConfigOpt,
    BankOperationalState, EmodeConfig, EmodeEntry, EmodeSettings, InterestRateConfig,
    InterestRateConfigOpt, RatePoint, RiskTier, StakedSettings, MAX_EMODE_ENTRIES,
};
use solana_program::pubkey::Pubkey;

pub fn op_state(v: u8) -> BankOperationalState {
    match v {
        0 => BankOperationalState::Paused,
        1 => BankOperationalState::Operational,
        2 => BankOperationalState::ReduceOnly,
        3 => BankOperationalState::KilledByBankruptcy,
        _ => panic!("bad operational state token"),
    }
}
pub fn risk_tier(v: u8) -> RiskTier {
    match v {
        0 => RiskTier::Collateral,
        1 => RiskTier::Isolated,
        _ => panic!("bad risk tier token"),
    }
}
/// opaque oracle key identities used by the case lines
pub fn okey(i: u8) -> Pubkey {
    if i == 0 {
        Pubkey::default()
    } else {
        Pubkey::new_from_array([i; 32])
    }
}
pub fn okey_tok(k: &Pubkey) -> u8 {
    for i in 0..8u8 {
        if *k == okey(i) {
            return i;
        }
    }
    9
}

pub fn parse_cfg(t: &mut Toks) -> BankConfig {
    let mut c = BankConfig::zeroed();
    c.asset_weight_init = t.fx().into();
    c.asset_weight_maint = t.fx().into();
    c.liability_weight_init = t.fx().into();
    c.liability_weight_maint = t.fx().into();
    c.deposit_limit = t.u64();
    c.borrow_limit = t.u64();
    c.interest_rate_config = parse_ir(t);
    c.interest_rate_config.protocol_origination_fee = t.fx().into();
    c.operational_state = op_state(t.u8());
    c.risk_tier = risk_tier(t.u8());
    c.asset_tag = t.u8();
    c.total_asset_value_init_limit = t.u64();
    c.oracle_max_age = t.u16();
    c.oracle_max_confidence = t.u32();
    c.oracle_keys[0] = okey(t.u8());
    c
}

pub fn dump_ir(c: &InterestRateConfig) -> String {
    let mut s = format!(
        "{} {} {} {} {} {} {} {} {} {}",
        c.curve_type,
        fxb(c.optimal_utilization_rate),
        fxb(c.plateau_interest_rate),
        fxb(c.max_interest_rate),
        fxb(c.insurance_fee_fixed_apr),
        fxb(c.insurance_ir_fee),
        fxb(c.protocol_fixed_fee_apr),
        fxb(c.protocol_ir_fee),
        c.zero_util_rate,
        c.hundred_util_rate
    );
    for p in c.points.iter() {
        s.push_str(&format!(" {} {}", p.util, p.rate));
    }
    s
}

pub fn fxb(w: marginfi_type_crate::types::WrappedI80F48) -> i128 {
    fixed::types::I80F48::from(w).to_bits()
}

pub fn dump_cfg(c: &BankConfig) -> String {
    format!(
        "{} {} {} {} {} {} {} {} {} {} {} {} {} {} {}",
        fxb(c.asset_weight_init),
        fxb(c.asset_weight_maint),
        fxb(c.liability_weight_init),
        fxb(c.liability_weight_maint),
        c.deposit_limit,
        c.borrow_limit,
        dump_ir(&c.interest_rate_config),
        fxb(c.interest_rate_config.protocol_origination_fee),
        c.operational_state as u8,
        c.risk_tier as u8,
        c.asset_tag,
        c.total_asset_value_init_limit,
        c.oracle_max_age,
        c.oracle_max_confidence,
        okey_tok(&c.oracle_keys[0])
    )
}

pub fn dump_entries(es: &[EmodeEntry]) -> String {
    let mut v = Vec::new();
    for e in es {
        v.push(format!("{} {} {} {}", e.collateral_bank_emode_tag, e.flags, fxb(e.asset_weight_init), fxb(e.asset_weight_maint)));
    }
    v.join(" ")
}

pub fn dump_emode(e: &EmodeSettings) -> String {
    format!("{} {} {} {}", e.emode_tag, e.timestamp, e.flags, dump_entries(&e.emode_config.entries))
}

/// canonical dump of the modelled part of a bank: config, flags, e-mode settings
pub fn dump_bank(b: &Bank) -> String {
    format!("{} {} {}", dump_cfg(&b.config), b.flags, dump_emode(&b.emode))
}

fn opt<T>(t: &mut Toks, f: impl FnOnce(&mut Toks) -> T) -> Option<T> {
    match t.s() {
        "N" => None,
        "S" => Some(f(t)),
        x => panic!("bad option token {}", x),
    }
}

pub fn parse_ir_opt(t: &mut Toks) -> InterestRateConfigOpt {
    InterestRateConfigOpt {
        insurance_fee_fixed_apr: opt(t, |t| t.fx().into()),
        insurance_ir_fee: opt(t, |t| t.fx().into()),
        protocol_fixed_fee_apr: opt(t, |t| t.fx().into()),
        protocol_ir_fee: opt(t, |t| t.fx().into()),
        protocol_origination_fee: opt(t, |t| t.fx().into()),
        zero_util_rate: opt(t, |t| t.u32()),
        hundred_util_rate: opt(t, |t| t.u32()),
        points: opt(t, |t| {
            let mut p = [RatePoint::new(0, 0); 5];
            for i in 0..5 {
                let u = t.u32();
                let r = t.u32();
                p[i] = RatePoint::new(u, r);
            }
            p
        }),
    }
}

pub fn parse_opt(t: &mut Toks) -> BankConfigOpt {
    BankConfigOpt {
        asset_weight_init: opt(t, |t| t.fx().into()),
        asset_weight_maint: opt(t, |t| t.fx().into()),
        liability_weight_init: opt(t, |t| t.fx().into()),
        liability_weight_maint: opt(t, |t| t.fx().into()),
        deposit_limit: opt(t, |t| t.u64()),
        borrow_limit: opt(t, |t| t.u64()),
        operational_state: opt(t, |t| op_state(t.u8())),
        interest_rate_config: opt(t, parse_ir_opt),
        risk_tier: opt(t, |t| risk_tier(t.u8())),
        asset_tag: opt(t, |t| t.u8()),
        total_asset_value_init_limit: opt(t, |t| t.u64()),
        oracle_max_confidence: opt(t, |t| t.u32()),
        oracle_max_age: opt(t, |t| t.u16()),
        permissionless_bad_debt_settlement: opt(t, |t| t.bool()),
        freeze_settings: opt(t, |t| t.bool()),
        tokenless_repayments_allowed: opt(t, |t| t.bool()),
    }
}

pub fn parse_entries(t: &mut Toks) -> [EmodeEntry; MAX_EMODE_ENTRIES] {
    let mut es = [EmodeEntry::zeroed(); MAX_EMODE_ENTRIES];
    for e in es.iter_mut() {
        e.collateral_bank_emode_tag = t.u16();
        e.flags = t.u8();
        e.asset_weight_init = t.fx().into();
        e.asset_weight_maint = t.fx().into();
    }
    es
}

pub fn parse_staked(t: &mut Toks) -> StakedSettings {
    let oracle = okey(t.u8());
    let awi = t.fx().into();
    let awm = t.fx().into();
    let dep = t.u64();
    let lim = t.u64();
    let age = t.u16();
    let tier = risk_tier(t.u8());
    StakedSettings::new(Pubkey::default(), Pubkey::default(), oracle, awi, awm, dep, lim, age, tier)
}

pub fn res_tok(r: anchor_lang::Result<()>) -> String {
    match r {
        Ok(()) => "OK".into(),
        Err(e) => err_tok(&e),
    }
}

pub fn run(line: &str) -> String {
    let mut t = Toks::new(line);
    match t.s() {
        "V" => {
            let c = parse_cfg(&mut t);
            guarded(|| res_tok(c.validate()))
        }
        "SV" => {
            let s = parse_staked(&mut t);
            guarded(|| res_tok(s.validate()))
        }
        "LEV" => {
            let cw = t.fx();
            let lw = t.fx();
            guarded(|| match calculate_max_leverage(cw, lw) {
                Ok(v) => format!("{}", v.to_bits()),
                Err(e) => err_tok(&e),
            })
        }
        "EV" => {
            let mut c = BankConfig::zeroed();
            c.liability_weight_init = t.fx().into();
            c.liability_weight_maint = t.fx().into();
            let ci = t.u32();
            let cm = t.u32();
            let mut es = EmodeSettings::zeroed();
            es.emode_config.entries = parse_entries(&mut t);
            guarded(|| res_tok(es.validate_entries_with_liability_weights(&c, ci, cm)))
        }
        "U2B" => {
            let v = t.u32();
            guarded(|| format!("{}", u32_to_basis(v).to_bits()))
        }
        "B2U" => {
            let v = t.fx();
            guarded(|| format!("{}", basis_to_u32(v)))
        }
        "CONF" | "UNF" => {
            let unf = line.trim_start().starts_with("UNF");
            let mut b = Bank::zeroed();
            b.config = parse_cfg(&mut t);
            b.flags = t.u64();
            let o = parse_opt(&mut t);
            guarded(move || {
                let r = if unf { b.configure_unfrozen_fields_only(&o) } else { b.configure(&o) };
                match r {
                    Ok(()) => format!("OK {} {}", dump_cfg(&b.config), b.flags),
                    Err(e) => err_tok(&e),
                }
            })
        }
        "REC" => {
            let k = t.usize();
            let mut cfgs: Vec<EmodeConfig> = Vec::new();
            for _ in 0..k {
                let mut c = EmodeConfig::zeroed();
                c.entries = parse_entries(&mut t);
                cfgs.push(c);
            }
            guarded(move || {
                let r = reconcile_emode_configs(cfgs);
                format!("OK {}", dump_entries(&r.entries))
            })
        }
        "CV" => {
            let a = t.fx();
            let p = t.fx();
            let d = t.u8();
            let w = t.fx();
            guarded(|| match calc_value(a, p, d, Some(w)) {
                Ok(v) => format!("{}", v.to_bits()),
                Err(e) => err_tok(&e),
            })
        }
        x => panic!("unknown op {}", x),
    }
}
