//! Level C (C08 authorization matrix, C14 gating matrix): every cell is one transaction executed by the
//! REAL program (`marginfi::entry` through the sim runtime) on a copy of a fixed fixture world.
//!
//! case lines
//!   S <account_flags> <authority> <group_admin> <signer> <allow_receivership>   (level A) the real
//!        is_signer_authorized / account_not_frozen_for_authority; keys are small integers; out: `<b> <b>`
//!   G <operational_state 0..3> <kind 0..3>       (level A) the real validate_bank_state; out: OK | E<code>
//!   W                                            dump the auth-relevant projection of the fixture world
//!   X ix=<name> m=<full|val> t=<clock delta> a=<field:obj,...> sg=<bits> wr=<bits> tw=<tweak;...|->
//!        a   : the instruction's accounts in struct order (field name is informational here)
//!        sg  : bit i = meta i is a signer and its key signs the transaction
//!        wr  : bit i = meta i is writable
//!        tw  : world tweaks applied before execution (see `apply_tweak`)
//!        mtw : ignored here (model-side pre-state of `end_liquidation` / `end_deleverage`, whose real
//!              transaction is [start_*, end_*]: the model validates end_* on the state start_* leaves)
//! objects: fixture names (see `build_fixture`), `~name` (byte-identical clone at a fresh address),
//!          `new:tag` (fresh, non-existent), `pda[prog;seed;...]`, `PROG:x`, `SYSVAR:x`, `NONE`
//! output
//!   full: OK | V <field> <code> | B <code>          (V = rejected by account validation, B = by the handler body)
//!   val : PASSV | V <field> <code>                   (only the account-validation verdict is reported)
//!   gate: PASSB | V <field> <code> | B <6016|6017|6084>  (venue instructions: validation verdict and the
//!         operational-state refusal of the handler; any other body outcome — the venue CPI cannot run — is PASSB)
//!   risk: as full (scenario cells of the reduce-only valuation rule)
//!   + " STORE-CHANGED" when a rejected transaction left any account different (never expected)
//!
//! The phase (validation vs body) and the offending field are read from the Anchor error log line, which on
//! the host goes to stdout (`solana_msg::sol_log` = println!), hence fd 1 is redirected to a scratch file.
use std::cell::RefCell;
use std::collections::BTreeMap;
use std::io::{Read, Seek, SeekFrom, Write};

use anchor_lang::{Discriminator, InstructionData};
use bytemuck::Zeroable;
use fixed::types::I80F48;
use marginfi::instruction as ixd;
use marginfi_type_crate::constants::discriminators;
use marginfi_type_crate::types::{
    Balance, Bank, BankConfigCompact, BankConfigOpt, BankMetadata, BankOperationalState, EmodeEntry, FeeState,
    InterestRateConfigCompact, InterestRateConfigOpt, LiquidationRecord, MarginfiAccount, MarginfiGroup,
    RiskTier, StakedSettings, MAX_EMODE_ENTRIES,
};
use solana_program::instruction::AccountMeta;
use solana_program::pubkey::Pubkey;
use solana_program::{system_program, sysvar};

use crate::sim::ixs;
use crate::sim::runtime::{Acct, ExecError, Ix, World, ATA_PROGRAM_ID};
use crate::sim::*;

// ---------------------------------------------------------------------------------------------
// stdout capture (Anchor error logs)

mod cap {
    use super::*;
    use std::fs::File;
    use std::os::unix::io::AsRawFd;
    extern "C" {
        fn dup2(oldfd: i32, newfd: i32) -> i32;
    }
    thread_local! {
        static RD: RefCell<Option<(File, u64)>> = RefCell::new(None);
    }
    pub fn init() {
        RD.with(|r| {
            if r.borrow().is_some() {
                return;
            }
            let path = std::env::temp_dir().join(format!("mfi-auth-{}.log", std::process::id()));
            let wr = File::create(&path).expect("capture file");
            let rd = File::open(&path).expect("capture file (read)");
            let _ = std::fs::remove_file(&path);
            unsafe {
                dup2(wr.as_raw_fd(), 1);
            }
            std::mem::forget(wr);
            *r.borrow_mut() = Some((rd, 0));
        });
    }
    /// everything printed to stdout since the previous call
    pub fn take() -> String {
        let _ = std::io::stdout().flush();
        RD.with(|r| {
            let mut b = r.borrow_mut();
            let (f, off) = b.as_mut().expect("capture not initialised");
            let _ = f.seek(SeekFrom::Start(*off));
            let mut s = Vec::new();
            let _ = f.read_to_end(&mut s);
            *off += s.len() as u64;
            String::from_utf8_lossy(&s).into_owned()
        })
    }
}

// ---------------------------------------------------------------------------------------------
// fixture

pub struct Fx {
    pub accounts: BTreeMap<Pubkey, Acct>,
    pub names: BTreeMap<String, Pubkey>,
    pub order: Vec<String>,
    /// name -> `pda[prog;seed;...]` for fixture objects whose address is program-derived
    pub derivs: BTreeMap<String, String>,
    pub now0: i64,
}

thread_local! {
    static FX: RefCell<Option<std::rc::Rc<Fx>>> = RefCell::new(None);
}

fn fixture() -> std::rc::Rc<Fx> {
    FX.with(|f| {
        if f.borrow().is_none() {
            *f.borrow_mut() = Some(std::rc::Rc::new(build_fixture()));
        }
        f.borrow().as_ref().unwrap().clone()
    })
}

const U: u64 = 1_000_000; // one token (6 decimals)
/// BankPaused, BankReduceOnly, BankKilledByBankruptcy: what mode `gate` reports of a handler-body refusal
const GATE_CODES: [u32; 3] = [6016, 6017, 6084];
pub const STRANGER_PROGRAM: Pubkey = solana_program::pubkey!("Stranger11111111111111111111111111111111111");

fn tagged_key(tag: &str) -> Pubkey {
    let h = solana_program::hash::hashv(&[b"auth-suite-key", tag.as_bytes()]);
    Pubkey::new_from_array(h.to_bytes())
}

struct B {
    w: World,
    names: BTreeMap<String, Pubkey>,
    order: Vec<String>,
    derivs: BTreeMap<String, String>,
}
impl B {
    /// register a program-derived address: the derivation is re-computed here and must give `k`
    fn pda(&mut self, n: &str, k: Pubkey, spec: &str) -> Pubkey {
        let got = resolve_pda(spec, &|x: &str| *self.names.get(x).unwrap_or_else(|| panic!("pda seed {}", x)));
        assert!(got == k, "fixture derivation of {} ({}) does not give its address", n, spec);
        self.derivs.insert(n.to_string(), spec.to_string());
        self.name(n, k)
    }
    fn name(&mut self, n: &str, k: Pubkey) -> Pubkey {
        assert!(self.names.insert(n.to_string(), k).is_none(), "duplicate fixture name {}", n);
        self.order.push(n.to_string());
        k
    }
    fn k(&self, n: &str) -> Pubkey {
        *self.names.get(n).unwrap_or_else(|| panic!("fixture name {}", n))
    }
    fn ok(&mut self, ix: Ix, signers: &[Pubkey], what: &str) {
        if let Err(e) = self.w.exec_tx(&[ix], signers) {
            panic!("fixture step failed: {}: {:?}", what, e);
        }
    }
}

fn fixed_bank(b: &mut B, name: &str, group: &str, mint: &str, price: f64) -> Pubkey {
    let p = BankParams::default().with_fixed_price(I80F48::from_num(price)).with_weights(0.8, 0.9, 1.2, 1.1);
    let (g, m) = (b.k(group), b.k(mint));
    let bank = mk_bank(&mut b.w, g, m, p);
    b.name(name, bank);
    let k = BankKeys::derive(&bank);
    for (sfx, key, seed) in [
        ("lv", k.liquidity_vault, "liquidity_vault"),
        ("lva", k.liquidity_vault_authority, "liquidity_vault_auth"),
        ("iv", k.insurance_vault, "insurance_vault"),
        ("iva", k.insurance_vault_authority, "insurance_vault_auth"),
        ("fv", k.fee_vault, "fee_vault"),
        ("fva", k.fee_vault_authority, "fee_vault_auth"),
    ] {
        b.pda(&format!("{}.{}", name, sfx), key, &format!("pda[marginfi;s:{};k:{}]", seed, name));
    }
    bank
}

fn build_fixture() -> Fx {
    let mut b = B { w: World::new(), names: BTreeMap::new(), order: vec![], derivs: BTreeMap::new() };
    let now0 = b.w.unix_timestamp;
    // wallets
    for n in ["u", "s", "payer", "adm", "emo", "cur", "lim", "emi", "met", "rsk", "fadm", "fwal", "admB", "liq", "nu", "v", "v2"] {
        let k = mk_wallet(&mut b.w, 1_000_000_000_000);
        b.name(n, k);
    }
    // fee state, groups
    let fs = mk_fee_state(
        &mut b.w,
        b.names["fadm"],
        b.names["fwal"],
        FeeStateParams {
            bank_init_flat_sol_fee: 10_000,
            liquidation_flat_sol_fee: 5_000,
            program_fee_fixed: I80F48::ZERO,
            program_fee_rate: I80F48::from_num(0.05),
            liquidation_max_fee: I80F48::from_num(0.1),
        },
    );
    b.pda("fs", fs, "pda[marginfi;s:feestate]");
    let ga = mk_group(&mut b.w, b.names["adm"]);
    b.name("gA", ga);
    let (emo, cur, lim, emi, met, rsk) = (b.k("emo"), b.k("cur"), b.k("lim"), b.k("emi"), b.k("met"), b.k("rsk"));
    b.w.update::<MarginfiGroup>(&ga, |g| {
        g.emode_admin = emo;
        g.delegate_curve_admin = cur;
        g.delegate_limit_admin = lim;
        g.delegate_emissions_admin = emi;
        g.metadata_admin = met;
        g.risk_admin = rsk;
    });
    let gb = mk_group(&mut b.w, b.names["admB"]);
    b.name("gB", gb);
    // mints
    for n in ["m1", "m2", "em"] {
        let k = mk_mint(&mut b.w, 6, TokenProgram::Spl);
        b.name(n, k);
    }
    // token accounts
    for wn in ["u", "s", "adm", "rsk", "liq", "v", "v2", "emi", "fadm"] {
        for (suffix, mint) in [("t1", "m1"), ("t2", "m2"), ("tem", "em")] {
            let k = mk_token_account(&mut b.w, b.names[mint], b.names[wn], 1_000_000 * U);
            b.name(&format!("{}.{}", wn, suffix), k);
        }
    }
    let fata = mk_ata(&mut b.w, b.names["m1"], b.names["fwal"], 0);
    b.pda("fwal.ata1", fata, "pda[ata;k:fwal;k:PROG:token;k:m1]");
    // a Pyth push oracle account (for lending_pool_configure_bank_oracle)
    let ora = mk_pyth_push_oracle(&mut b.w, [7u8; 32], 100_000_000, 0, -8, 100_000_000, 0, now0);
    b.name("ora", ora);
    // banks
    let bk1 = fixed_bank(&mut b, "bk1", "gA", "m1", 1.0);
    let bk2 = fixed_bank(&mut b, "bk2", "gA", "m2", 1.0);
    let bk3 = fixed_bank(&mut b, "bk3", "gA", "m1", 1.0);
    let _bke = fixed_bank(&mut b, "bkE", "gA", "m1", 1.0);
    let bkt = fixed_bank(&mut b, "bkT", "gA", "m1", 1.0);
    let bkb1 = fixed_bank(&mut b, "bkB1", "gB", "m1", 1.0);
    let _bkb2 = fixed_bank(&mut b, "bkB2", "gB", "m2", 1.0);
    // marginfi accounts
    for (n, g, auth) in [("accA", "gA", "u"), ("accB", "gB", "u"), ("accL", "gA", "liq"), ("accU", "gA", "v"),
                         ("accBad", "gA", "v2"), ("accE", "gA", "u"), ("accT", "gA", "v"), ("accBE", "gB", "u")] {
        let k = mk_marginfi_account(&mut b.w, b.names[g], b.names[auth]);
        b.name(n, k);
    }
    let dep = |b: &mut B, acc: &str, auth: &str, bank: Pubkey, tok: &str, amt: u64| {
        let g = b.w.get::<Bank>(&bank).unwrap().group;
        let ix = ixs::lending_account_deposit(g, b.k(acc), b.k(auth), bank, b.k(tok), spl_token::ID, amt, None, vec![]);
        let s = b.k(auth);
        b.ok(ix, &[s], &format!("deposit {}", acc));
    };
    let bor = |b: &mut B, acc: &str, auth: &str, bank: Pubkey, tok: &str, amt: u64| {
        let g = b.w.get::<Bank>(&bank).unwrap().group;
        let rem = remaining_for(&b.w, &b.k(acc), &[bank]);
        let ix = ixs::lending_account_borrow(g, b.k(acc), b.k(auth), bank, b.k(tok), spl_token::ID, amt, rem);
        let s = b.k(auth);
        b.ok(ix, &[s], &format!("borrow {}", acc));
    };
    dep(&mut b, "accL", "liq", bk1, "liq.t1", 100_000 * U);
    dep(&mut b, "accL", "liq", bk2, "liq.t2", 100_000 * U);
    dep(&mut b, "accA", "u", bk1, "u.t1", 1_000 * U);
    bor(&mut b, "accA", "u", bk2, "u.t2", 100 * U);
    dep(&mut b, "accU", "v", bk1, "v.t1", 100 * U);
    bor(&mut b, "accU", "v", bk2, "v.t2", 60 * U);
    dep(&mut b, "accBad", "v2", bk1, "v2.t1", 100 * U);
    bor(&mut b, "accBad", "v2", bk2, "v2.t2", 60 * U);
    dep(&mut b, "accB", "u", bkb1, "u.t1", 1_000 * U);
    // an active but empty balance of accA in bk3 (for close_balance)
    dep(&mut b, "accA", "u", bk3, "u.t1", 5 * U);
    {
        let rem = remaining_for(&b.w, &b.k("accA"), &[]);
        let ix = ixs::lending_account_withdraw(ga, b.k("accA"), b.k("u"), bk3, b.k("u.t1"), spl_token::ID, 5 * U, None, rem);
        let s = b.k("u");
        b.ok(ix, &[s], "withdraw bk3");
    }
    // accT: a liability-free balance in the tokenless-complete bank bkT (for purge_deleverage_balance)
    dep(&mut b, "accT", "v", bkt, "v.t1", 10 * U);
    b.w.update::<Bank>(&bkt, |bk| {
        bk.flags |= marginfi_type_crate::constants::TOKENLESS_REPAYMENTS_ALLOWED
            | marginfi_type_crate::constants::TOKENLESS_REPAYMENTS_COMPLETE;
    });
    // wipe accBad's collateral: pure bad debt
    {
        let acc = b.k("accBad");
        let (sh, _) = balance_of(&b.w, &acc, &bk1).unwrap();
        b.w.update::<MarginfiAccount>(&acc, |a| {
            for bal in a.lending_account.balances.iter_mut() {
                if bal.is_active() && bal.bank_pk == bk1 {
                    *bal = Balance::empty_deactivated();
                }
            }
        });
        b.w.update::<Bank>(&bk1, |bk| {
            let t: I80F48 = bk.total_asset_shares.into();
            bk.total_asset_shares = (t - sh).into();
            bk.lending_position_count -= 1;
        });
    }
    // the liability token is now worth $1.5: accU is unhealthy, accA stays healthy
    b.w.update::<Bank>(&bk2, |bk| bk.config.fixed_price = I80F48::from_num(1.5).into());
    // insurance for the bankruptcy cell
    set_token_balance(&mut b.w, &BankKeys::derive(&bk2).insurance_vault, 15 * U);
    // liquidation records
    for a in ["accU", "accA"] {
        let payer = b.k("payer");
        let acc = b.k(a);
        let r = mk_liquidation_record(&mut b.w, acc, payer);
        b.pda(&format!("{}.rec", a), r, &format!("pda[marginfi;s:liq_record;k:{}]", a));
    }
    // emissions on bk1 (mint em), set up through the real instruction by the emissions admin
    {
        let ix = ixs::lending_pool_setup_emissions(
            ga, b.k("emi"), bk1, b.k("em"), b.k("emi.tem"), spl_token::ID,
            marginfi_type_crate::constants::EMISSIONS_FLAG_LENDING_ACTIVE, 1_000_000, 500_000 * U, vec![],
        );
        let s = b.k("emi");
        b.ok(ix, &[s], "setup emissions");
        let (auth, vault) = ixs::emissions_pdas(&bk1, &b.k("em"));
        b.pda("bk1.eauth", auth, "pda[marginfi;s:emissions_auth_seed;k:bk1;k:em]");
        b.pda("bk1.evault", vault, "pda[marginfi;s:emissions_token_account_seed;k:bk1;k:em]");
    }
    // fees destination of bk1, fee buckets so that collect / withdraw move something
    {
        let dst = b.k("adm.t1");
        b.w.update::<Bank>(&bk1, |bk| {
            bk.fees_destination_account = dst;
            bk.collected_group_fees_outstanding = I80F48::from_num(3 * U).into();
            bk.collected_insurance_fees_outstanding = I80F48::from_num(2 * U).into();
            bk.collected_program_fees_outstanding = I80F48::from_num(U).into();
        });
        let k = BankKeys::derive(&bk1);
        set_token_balance(&mut b.w, &k.fee_vault, 50 * U);
        set_token_balance(&mut b.w, &k.insurance_vault, 50 * U);
    }
    // accA's registered emissions destination wallet = u, and u's ATA for the emissions mint
    {
        let (acc, u, em) = (b.k("accA"), b.k("u"), b.k("em"));
        b.w.update::<MarginfiAccount>(&acc, |a| a.emissions_destination_account = u);
        let ata = mk_ata(&mut b.w, em, u, 0);
        b.pda("u.ataem", ata, "pda[ata;k:u;k:PROG:token;k:em]");
    }
    // staked settings of both groups, bank metadata of bk1
    for (n, g, adm) in [("ssA", "gA", "adm"), ("ssB", "gB", "admB")] {
        let key = Pubkey::find_program_address(
            &[marginfi_type_crate::constants::STAKED_SETTINGS_SEED.as_bytes(), b.k(g).as_ref()],
            &marginfi::ID,
        )
        .0;
        let ix = ixs::build(
            marginfi::accounts::InitStakedSettings {
                marginfi_group: b.k(g),
                admin: b.k(adm),
                fee_payer: b.k("payer"),
                staked_settings: key,
                system_program: system_program::ID,
            },
            ixd::InitStakedSettings { settings: staked_cfg() },
            vec![],
        );
        let (s1, s2) = (b.k(adm), b.k("payer"));
        b.ok(ix, &[s1, s2], "init staked settings");
        b.pda(n, key, &format!("pda[marginfi;s:staked_settings;k:{}]", g));
    }
    for bn in ["bk1", "bkB1"] {
        let bank = b.k(bn);
        let key = metadata_key(&bank);
        let ix = ixs::build(
            marginfi::accounts::InitBankMetadata {
                bank,
                fee_payer: b.k("payer"),
                metadata: key,
                system_program: system_program::ID,
            },
            ixd::InitBankMetadata {},
            vec![],
        );
        let s = b.k("payer");
        b.ok(ix, &[s], "init bank metadata");
        b.pda(&format!("{}.meta", bn), key, &format!("pda[marginfi;s:metadata;k:{}]", bn));
    }

    // ------------------------------------------------------------------ venue (Kamino / Drift / Solend) objects
    // Only what account validation looks at: owner, discriminator, size and the cross-referencing keys.
    venue_fixture(&mut b);
    Fx { accounts: b.w.accounts.clone(), names: b.names, order: b.order, derivs: b.derivs, now0 }
}

fn put_venue<T: bytemuck::Pod>(b: &mut B, name: &str, key: Pubkey, owner: Pubkey, disc: &[u8], v: &T, len: Option<usize>) {
    let mut data = disc.to_vec();
    data.extend_from_slice(bytemuck::bytes_of(v));
    if let Some(l) = len {
        data.resize(l, 0);
    }
    let lamports = rent_exempt(data.len());
    b.w.put(key, Acct { lamports, data, owner, executable: false });
    if !b.names.contains_key(name) {
        b.name(name, key);
    }
}

fn venue_bank(b: &mut B, name: &str, tag: u8) -> Pubkey {
    let bank = fixed_bank(b, name, "gA", "m1", 1.0);
    b.w.update::<Bank>(&bank, |bk| bk.config.asset_tag = tag);
    bank
}

fn venue_fixture(b: &mut B) {
    use marginfi_type_crate::constants::{ASSET_TAG_DRIFT, ASSET_TAG_KAMINO, ASSET_TAG_SOLEND, ASSET_TAG_STAKED};
    let m1 = b.k("m1");
    for wn in ["payer"] {
        let k = mk_token_account(&mut b.w, m1, b.names[wn], 1_000_000 * U);
        b.name(&format!("{}.t1", wn), k);
    }
    let fata = mk_ata(&mut b.w, b.names["em"], b.names["fwal"], 0);
    b.pda("fwal.ataem", fata, "pda[ata;k:fwal;k:PROG:token;k:em]");
    // a staked-collateral bank (propagate_staked_settings)
    venue_bank(b, "bkSt", ASSET_TAG_STAKED);

    // ---- Kamino: reserve kres of lending market klm; bkK0 (obligation not yet created), bkK (obligation exists)
    let klm = tagged_key("fixture:klm");
    b.name("klm", klm);
    let kres = tagged_key("fixture:kres");
    let mut r = kamino_mocks::state::MinimalReserve::zeroed();
    r.lending_market = klm;
    r.mint_pubkey = m1;
    r.slot = b.w.slot;
    put_venue(b, "kres", kres, kamino_mocks::ID, &kamino_mocks::state::RESERVE_DISCRIMINATOR, &r, None);
    for (bn, exists) in [("bkK0", false), ("bkK", true)] {
        let bank = venue_bank(b, bn, ASSET_TAG_KAMINO);
        let lva = b.k(&format!("{}.lva", bn));
        let spec = format!("pda[kamino;n1:0;n1:0;k:{}.lva;k:klm;k:PROG:system;k:PROG:system]", bn);
        let obl = resolve_pda(&spec, &|x: &str| b.names[x]);
        b.pda(&format!("{}.kobl", bn), obl, &spec);
        b.w.update::<Bank>(&bank, |bk| {
            bk.integration_acc_1 = kres;
            bk.integration_acc_2 = obl;
        });
        if exists {
            let mut o = kamino_mocks::state::MinimalObligation::zeroed();
            o.lending_market = klm;
            o.owner = lva;
            o.deposits[0].deposit_reserve = kres;
            o.last_update_slot = b.w.slot;
            put_venue(b, &format!("{}.kobl", bn), obl, kamino_mocks::ID, &kamino_mocks::state::OBLIGATION_DISCRIMINATOR, &o, None);
        }
    }

    // ---- Drift: spot markets dsm (mint m1), dsm2 (mint m2); bkD0 (user not created), bkD (user + stats exist)
    for (n, mint, idx) in [("dsm", "m1", 1u16), ("dsm2", "m2", 2u16)] {
        let key = tagged_key(&format!("fixture:{}", n));
        let mut sm = drift_mocks::state::MinimalSpotMarket::default();
        sm.pubkey = key;
        sm.mint = b.k(mint);
        sm.market_index = idx;
        sm.decimals = 6;
        put_venue(b, n, key, drift_mocks::ID, &drift_mocks::state::SPOT_MARKET_DISCRIMINATOR, &sm, None);
    }
    for (bn, exists) in [("bkD0", false), ("bkD", true), ("bkDh", true)] {
        let bank = venue_bank(b, bn, ASSET_TAG_DRIFT);
        let lva = b.k(&format!("{}.lva", bn));
        let uspec = format!("pda[drift;s:user;k:{}.lva;n2:0]", bn);
        let sspec = format!("pda[drift;s:user_stats;k:{}.lva]", bn);
        let user = resolve_pda(&uspec, &|x: &str| b.names[x]);
        let stats = resolve_pda(&sspec, &|x: &str| b.names[x]);
        b.pda(&format!("{}.duser", bn), user, &uspec);
        b.pda(&format!("{}.dstats", bn), stats, &sspec);
        let dsm = b.k("dsm");
        b.w.update::<Bank>(&bank, |bk| {
            bk.integration_acc_1 = dsm;
            bk.integration_acc_2 = user;
            bk.integration_acc_3 = stats;
        });
        if exists {
            let mut u = drift_mocks::state::MinimalUser::zeroed();
            u.authority = lva;
            if bn == "bkDh" {
                // an "admin deposit" of the reward market dsm2 (index 2) in position 2: what harvest requires
                u.spot_positions[2].market_index = 2;
                u.spot_positions[2].scaled_balance = 1;
                u.spot_positions[2].balance_type = drift_mocks::state::SpotBalanceType::Deposit;
            }
            put_venue(b, &format!("{}.duser", bn), user, drift_mocks::ID, &drift_mocks::state::USER_DISCRIMINATOR, &u, None);
            let mut st = drift_mocks::state::MinimalUserStats::zeroed();
            st.authority = lva;
            put_venue(b, &format!("{}.dstats", bn), stats, drift_mocks::ID, &drift_mocks::state::USER_STATS_DISCRIMINATOR, &st, None);
        }
    }
    // ATA of bkD's vault authority for the reward mint (drift_harvest_reward)
    {
        let (lva, em) = (b.k("bkDh.lva"), b.k("em"));
        let ata = mk_ata(&mut b.w, em, lva, 0);
        b.pda("bkDh.lva.ataem", ata, "pda[ata;k:bkDh.lva;k:PROG:token;k:em]");
    }

    // ---- Solend: reserve sres; bkS0 (obligation not yet created), bkS (obligation exists)
    let sres = tagged_key("fixture:sres");
    let mut r = solend_mocks::state::SolendMinimalReserve::zeroed();
    r.liquidity_mint_pubkey = m1;
    r.last_update_slot = u64::MAX / 2;
    put_venue(b, "sres", sres, solend_mocks::ID, &solend_mocks::state::RESERVE_DISCRIMINATOR, &r, Some(solend_mocks::state::RESERVE_LEN));
    for (bn, exists) in [("bkS0", false), ("bkS", true)] {
        let bank = venue_bank(b, bn, ASSET_TAG_SOLEND);
        let spec = format!("pda[marginfi;s:solend_obligation;k:{}]", bn);
        let obl = resolve_pda(&spec, &|x: &str| b.names[x]);
        b.pda(&format!("{}.sobl", bn), obl, &spec);
        b.w.update::<Bank>(&bank, |bk| {
            bk.integration_acc_1 = sres;
            bk.integration_acc_2 = obl;
        });
        if exists {
            let data = vec![0u8; solend_mocks::state::OBLIGATION_LEN];
            let lamports = rent_exempt(data.len());
            b.w.put(obl, Acct { lamports, data, owner: solend_mocks::ID, executable: false });
        }
    }
}

fn metadata_key(bank: &Pubkey) -> Pubkey {
    Pubkey::find_program_address(
        &[marginfi_type_crate::constants::METADATA_SEED.as_bytes(), bank.as_ref()],
        &marginfi::ID,
    )
    .0
}

fn staked_cfg() -> marginfi::instructions::StakedSettingsConfig {
    marginfi::instructions::StakedSettingsConfig {
        oracle: tagged_key("staked-oracle"),
        asset_weight_init: I80F48::from_num(0.8).into(),
        asset_weight_maint: I80F48::from_num(0.9).into(),
        deposit_limit: 1_000_000_000,
        total_asset_value_init_limit: 1_000_000_000,
        oracle_max_age: 60,
        risk_tier: RiskTier::Collateral,
    }
}

fn bank_cfg() -> BankConfigCompact {
    BankConfigCompact {
        asset_weight_init: I80F48::from_num(0.5).into(),
        asset_weight_maint: I80F48::from_num(0.6).into(),
        liability_weight_init: I80F48::from_num(1.3).into(),
        liability_weight_maint: I80F48::from_num(1.2).into(),
        deposit_limit: 1_000_000 * U,
        interest_rate_config: InterestRateConfigCompact::from(default_interest_rate_config()),
        operational_state: BankOperationalState::Operational,
        borrow_limit: 1_000_000 * U,
        risk_tier: RiskTier::Collateral,
        asset_tag: 0,
        config_flags: 1,
        _pad0: [0; 5],
        total_asset_value_init_limit: 0,
        oracle_max_age: 60,
        oracle_max_confidence: 0,
    }
}

// ---------------------------------------------------------------------------------------------
// object names

struct Cell {
    w: World,
    fx: std::rc::Rc<Fx>,
    /// instruction arguments that occur in seeds (`ar=name:value,...`), shared with the model side
    args: BTreeMap<String, u64>,
    /// case-local object names (`al=name=obj|name=obj`), resolved in order
    aliases: BTreeMap<String, Pubkey>,
}
impl Cell {
    fn arg(&self, n: &str) -> u64 {
        *self.args.get(n).unwrap_or_else(|| panic!("case lacks instruction argument {}", n))
    }
}

/// `pda[prog;seed;...]`, seeds `s:<literal>` | `k:<object>` | `n8:<u64>` | `n2:<u16>` | `n1:<u8>`
fn resolve_pda(spec: &str, key_of: &dyn Fn(&str) -> Pubkey) -> Pubkey {
    let body = spec.strip_prefix("pda[").and_then(|x| x.strip_suffix(']')).expect("pda[...]");
    let mut parts = body.split(';');
    let prog = prog_key(parts.next().expect("pda program"));
    let mut seeds: Vec<Vec<u8>> = vec![];
    for p in parts {
        if let Some(l) = p.strip_prefix("s:") {
            seeds.push(l.as_bytes().to_vec());
        } else if let Some(kn) = p.strip_prefix("k:") {
            let k = if let Some(pn) = kn.strip_prefix("PROG:") { prog_key(pn) } else { key_of(kn) };
            seeds.push(k.to_bytes().to_vec());
        } else if let Some(n) = p.strip_prefix("n8:") {
            seeds.push(n.parse::<u64>().unwrap().to_le_bytes().to_vec());
        } else if let Some(n) = p.strip_prefix("n2:") {
            seeds.push(n.parse::<u16>().unwrap().to_le_bytes().to_vec());
        } else if let Some(n) = p.strip_prefix("n1:") {
            seeds.push(vec![n.parse::<u8>().unwrap()]);
        } else {
            panic!("bad pda seed {}", p);
        }
    }
    let refs: Vec<&[u8]> = seeds.iter().map(|s| s.as_slice()).collect();
    Pubkey::find_program_address(&refs, &prog).0
}

fn prog_key(n: &str) -> Pubkey {
    match n {
        "marginfi" => marginfi::ID,
        "system" => system_program::ID,
        "token" => spl_token::ID,
        "token22" => spl_token_2022::ID,
        "ata" => ATA_PROGRAM_ID,
        "kamino" => kamino_mocks::ID,
        "farms" => marginfi::constants::FARMS_PROGRAM_ID,
        "drift" => drift_mocks::ID,
        "solend" => solend_mocks::ID,
        "stranger" => STRANGER_PROGRAM,
        _ => panic!("unknown program {}", n),
    }
}

impl Cell {
    fn resolve(&mut self, obj: &str) -> Pubkey {
        if let Some(k) = self.aliases.get(obj) {
            return *k;
        }
        if let Some(k) = self.fx.names.get(obj) {
            return *k;
        }
        if obj == "NONE" {
            return marginfi::ID;
        }
        if let Some(p) = obj.strip_prefix("PROG:") {
            return prog_key(p);
        }
        if let Some(s) = obj.strip_prefix("SYSVAR:") {
            return match s {
                "ix" => sysvar::instructions::ID,
                "rent" => sysvar::rent::ID,
                _ => panic!("unknown sysvar {}", s),
            };
        }
        if let Some(t) = obj.strip_prefix("new:") {
            return tagged_key(&format!("new:{}", t));
        }
        if let Some(n) = obj.strip_prefix('~') {
            let src = self.resolve(n);
            let k = tagged_key(&format!("clone:{}", n));
            if let Some(a) = self.w.accounts.get(&src).cloned() {
                self.w.accounts.insert(k, a);
            }
            return k;
        }
        if obj == "zero.ataem" {
            // the associated token account of the DEFAULT pubkey (= the system program id) for the emissions mint: anybody can
            // create it with the stock ATA program; nobody controls it
            let em = self.resolve("em");
            let (program, _, _) = mint_info(&self.w, &em);
            let k = crate::sim::runtime::ata_address(&Pubkey::default(), &em, &program);
            if self.w.account(&k).is_none() {
                mk_ata(&mut self.w, em, Pubkey::default(), 0);
            }
            return k;
        }
        if obj.starts_with("pda[") {
            let mut lookups: Vec<(String, Pubkey)> = vec![];
            for p in obj[4..obj.len() - 1].split(';') {
                if let Some(kn) = p.strip_prefix("k:") {
                    lookups.push((kn.to_string(), self.resolve(kn)));
                }
            }
            return resolve_pda(obj, &|x: &str| lookups.iter().find(|(n, _)| n == x).expect("pda seed").1);
        }
        panic!("unknown object {}", obj);
    }

    fn apply_tweak(&mut self, t: &str) {
        let p: Vec<&str> = t.split(':').collect();
        match p[0] {
            // owner := a program that is none of the expected ones
            "own" => {
                let k = self.resolve(p[1]);
                self.w.accounts.get_mut(&k).expect("own: no account").owner = STRANGER_PROGRAM;
            }
            // discriminator := one that belongs to no account type
            "disc" => {
                let k = self.resolve(p[1]);
                let a = self.w.accounts.get_mut(&k).expect("disc: no account");
                a.data[..8].copy_from_slice(&[0xde, 0xad, 0xbe, 0xef, 1, 2, 3, 4]);
            }
            "aflag" => {
                let k = self.resolve(p[1]);
                let (mask, on): (u64, bool) = (p[2].parse().unwrap(), p[3] == "1");
                self.w.update::<MarginfiAccount>(&k, |a| {
                    if on {
                        a.account_flags |= mask
                    } else {
                        a.account_flags &= !mask
                    }
                });
            }
            "bflag" => {
                let k = self.resolve(p[1]);
                let (mask, on): (u64, bool) = (p[2].parse().unwrap(), p[3] == "1");
                self.w.update::<Bank>(&k, |a| {
                    if on {
                        a.flags |= mask
                    } else {
                        a.flags &= !mask
                    }
                });
            }
            "bstate" => {
                let k = self.resolve(p[1]);
                let st = match p[2] {
                    "0" => BankOperationalState::Paused,
                    "1" => BankOperationalState::Operational,
                    "2" => BankOperationalState::ReduceOnly,
                    "3" => BankOperationalState::KilledByBankruptcy,
                    _ => panic!("bstate"),
                };
                self.w.update::<Bank>(&k, |a| a.config.operational_state = st);
            }
            // group panic cache := (flags, start = now0 + delta)
            "gcache" => {
                let k = self.resolve(p[1]);
                let (fl, d): (u8, i64) = (p[2].parse().unwrap(), p[3].parse().unwrap());
                let now0 = self.fx.now0;
                self.w.update::<MarginfiGroup>(&k, |g| {
                    g.panic_state_cache.pause_flags = fl;
                    g.panic_state_cache.pause_start_timestamp = now0 + d;
                    g.panic_state_cache.last_cache_update = now0;
                });
            }
            // fee state panic state := (flags, start = now0 + delta, consecutive, daily)
            "fspause" => {
                let k = self.resolve("fs");
                let (fl, d, c, dl): (u8, i64, u8, u8) =
                    (p[1].parse().unwrap(), p[2].parse().unwrap(), p[3].parse().unwrap(), p[4].parse().unwrap());
                let now0 = self.fx.now0;
                self.w.update::<FeeState>(&k, |f| {
                    f.panic_state.pause_flags = fl;
                    f.panic_state.pause_start_timestamp = now0 + d;
                    f.panic_state.consecutive_pause_count = c;
                    f.panic_state.daily_pause_count = dl;
                    f.panic_state.last_daily_reset_timestamp = now0 - 10;
                });
            }
            "del" => {
                let k = self.resolve(p[1]);
                self.w.accounts.remove(&k);
            }
            // the account never registered an emissions destination (the state of every new account)
            "edest0" => {
                let k = self.resolve(p[1]);
                self.w.update::<MarginfiAccount>(&k, |a| a.emissions_destination_account = Pubkey::default());
            }
            // liquidation record receiver := obj (as start_liquidation / start_deleverage leave it)
            "recv" => {
                let k = self.resolve(p[1]);
                let r = self.resolve(p[2]);
                self.w.update::<LiquidationRecord>(&k, |x| x.liquidation_receiver = r);
            }
            _ => panic!("unknown tweak {}", t),
        }
    }
}

// ---------------------------------------------------------------------------------------------
// instruction data, remaining accounts, companion instructions

fn wrapped(v: f64) -> marginfi_type_crate::types::WrappedI80F48 {
    I80F48::from_num(v).into()
}

fn ix_data(name: &str, c: &mut Cell, m: &[AccountMeta]) -> Vec<u8> {
    let k = |c: &mut Cell, n: &str| c.resolve(n);
    match name {
        "marginfi_group_initialize" => ixd::MarginfiGroupInitialize {}.data(),
        "marginfi_group_configure" => ixd::MarginfiGroupConfigure {
            new_admin: k(c, "adm"),
            new_emode_admin: k(c, "emo"),
            new_curve_admin: k(c, "cur"),
            new_limit_admin: k(c, "lim"),
            new_emissions_admin: k(c, "emi"),
            new_metadata_admin: k(c, "met"),
            new_risk_admin: k(c, "rsk"),
            emode_max_init_leverage: None,
            emode_max_maint_leverage: None,
        }
        .data(),
        "lending_pool_add_bank" => ixd::LendingPoolAddBank { bank_config: bank_cfg() }.data(),
        "lending_pool_add_bank_with_seed" => ixd::LendingPoolAddBankWithSeed { bank_config: bank_cfg(), bank_seed: c.arg("bank_seed") }.data(),
        "lending_pool_clone_bank" => ixd::LendingPoolCloneBank { bank_seed: c.arg("bank_seed") }.data(),
        "lending_pool_add_bank_permissionless" => ixd::LendingPoolAddBankPermissionless { bank_seed: c.arg("bank_seed") }.data(),
        "lending_pool_configure_bank" => ixd::LendingPoolConfigureBank {
            bank_config_opt: BankConfigOpt { deposit_limit: Some(123_456_789_000_000), ..Default::default() },
        }
        .data(),
        "lending_pool_configure_bank_interest_only" => ixd::LendingPoolConfigureBankInterestOnly {
            interest_rate_config: InterestRateConfigOpt {
                protocol_origination_fee: Some(wrapped(0.01)),
                ..Default::default()
            },
        }
        .data(),
        "lending_pool_configure_bank_limits_only" => ixd::LendingPoolConfigureBankLimitsOnly {
            deposit_limit: None,
            borrow_limit: Some(777_000_000_000_000),
            total_asset_value_init_limit: None,
        }
        .data(),
        "lending_pool_force_tokenless_repay_complete" => ixd::LendingPoolForceTokenlessRepayComplete {}.data(),
        "lending_pool_configure_bank_oracle" => ixd::LendingPoolConfigureBankOracle { setup: 3, oracle: k(c, "ora") }.data(),
        "lending_pool_set_fixed_oracle_price" => ixd::LendingPoolSetFixedOraclePrice { price: wrapped(1.0) }.data(),
        "lending_pool_configure_bank_emode" => {
            let mut entries = [EmodeEntry::zeroed(); MAX_EMODE_ENTRIES];
            entries[0] = EmodeEntry {
                collateral_bank_emode_tag: 7,
                flags: 0,
                pad0: [0; 5],
                asset_weight_init: wrapped(0.85),
                asset_weight_maint: wrapped(0.9),
            };
            ixd::LendingPoolConfigureBankEmode { emode_tag: 3, entries }.data()
        }
        "lending_pool_clone_emode" => ixd::LendingPoolCloneEmode {}.data(),
        "lending_pool_setup_emissions" => ixd::LendingPoolSetupEmissions {
            flags: marginfi_type_crate::constants::EMISSIONS_FLAG_LENDING_ACTIVE,
            rate: 1_000_000,
            total_emissions: 1_000 * U,
        }
        .data(),
        "lending_pool_update_emissions_parameters" => ixd::LendingPoolUpdateEmissionsParameters {
            emissions_flags: None,
            emissions_rate: Some(2_000_000),
            additional_emissions: Some(U),
        }
        .data(),
        "lending_pool_handle_bankruptcy" => ixd::LendingPoolHandleBankruptcy {}.data(),
        "marginfi_account_initialize" => ixd::MarginfiAccountInitialize {}.data(),
        "marginfi_account_init_liq_record" => ixd::MarginfiAccountInitLiqRecord {}.data(),
        "marginfi_account_initialize_pda" => ixd::MarginfiAccountInitializePda { account_index: c.arg("account_index") as u16, third_party_id: None }.data(),
        "lending_account_deposit" => ixd::LendingAccountDeposit { amount: 10 * U, deposit_up_to_limit: None }.data(),
        "lending_account_repay" => ixd::LendingAccountRepay { amount: 10 * U, repay_all: None }.data(),
        "lending_account_withdraw" => ixd::LendingAccountWithdraw { amount: 10 * U, withdraw_all: None }.data(),
        "lending_account_borrow" => ixd::LendingAccountBorrow { amount: 10 * U }.data(),
        "lending_account_close_balance" => ixd::LendingAccountCloseBalance {}.data(),
        "lending_account_withdraw_emissions" => ixd::LendingAccountWithdrawEmissions {}.data(),
        "lending_account_settle_emissions" => ixd::LendingAccountSettleEmissions {}.data(),
        "lending_account_liquidate" => {
            let (nl, nr) = liquidate_counts(c, m);
            ixd::LendingAccountLiquidate { asset_amount: U, liquidatee_accounts: nl, liquidator_accounts: nr }.data()
        }
        "lending_account_start_flashloan" => ixd::LendingAccountStartFlashloan { end_index: 1 }.data(),
        "lending_account_end_flashloan" => ixd::LendingAccountEndFlashloan {}.data(),
        "marginfi_account_update_emissions_destination_account" => {
            ixd::MarginfiAccountUpdateEmissionsDestinationAccount {}.data()
        }
        "lending_pool_accrue_bank_interest" => ixd::LendingPoolAccrueBankInterest {}.data(),
        "lending_pool_collect_bank_fees" => ixd::LendingPoolCollectBankFees {}.data(),
        "lending_pool_withdraw_fees" => ixd::LendingPoolWithdrawFees { amount: U }.data(),
        "lending_pool_withdraw_fees_permissionless" => ixd::LendingPoolWithdrawFeesPermissionless { amount: U }.data(),
        "lending_pool_update_fees_destination_account" => ixd::LendingPoolUpdateFeesDestinationAccount {}.data(),
        "lending_pool_withdraw_insurance" => ixd::LendingPoolWithdrawInsurance { amount: U }.data(),
        "lending_pool_close_bank" => ixd::LendingPoolCloseBank {}.data(),
        "transfer_to_new_account" => ixd::TransferToNewAccount {}.data(),
        "transfer_to_new_account_pda" => ixd::TransferToNewAccountPda { account_index: c.arg("account_index") as u16, third_party_id: None }.data(),
        "marginfi_account_set_freeze" => ixd::MarginfiAccountSetFreeze { frozen: true }.data(),
        "marginfi_account_close" => ixd::MarginfiAccountClose {}.data(),
        "lending_account_withdraw_emissions_permissionless" => ixd::LendingAccountWithdrawEmissionsPermissionless {}.data(),
        "lending_account_pulse_health" => ixd::LendingAccountPulseHealth {}.data(),
        "lending_pool_pulse_bank_price_cache" => ixd::LendingPoolPulseBankPriceCache {}.data(),
        "init_global_fee_state" => ixd::InitGlobalFeeState {
            admin: k(c, "fadm"),
            fee_wallet: k(c, "fwal"),
            bank_init_flat_sol_fee: 10_000,
            liquidation_flat_sol_fee: 5_000,
            program_fee_fixed: wrapped(0.0),
            program_fee_rate: wrapped(0.05),
            liquidation_max_fee: wrapped(0.1),
        }
        .data(),
        "edit_global_fee_state" => ixd::EditGlobalFeeState {
            admin: k(c, "fadm"),
            fee_wallet: k(c, "fwal"),
            bank_init_flat_sol_fee: 10_000,
            liquidation_flat_sol_fee: 5_000,
            program_fee_fixed: wrapped(0.0),
            program_fee_rate: wrapped(0.05),
            liquidation_max_fee: wrapped(0.1),
        }
        .data(),
        "propagate_fee_state" => ixd::PropagateFeeState {}.data(),
        "config_group_fee" => ixd::ConfigGroupFee { enable_program_fee: true }.data(),
        "init_staked_settings" => ixd::InitStakedSettings { settings: staked_cfg() }.data(),
        "edit_staked_settings" => ixd::EditStakedSettings {
            settings: marginfi::instructions::StakedSettingsEditConfig {
                oracle: None,
                asset_weight_init: None,
                asset_weight_maint: None,
                deposit_limit: Some(2_000_000_000),
                total_asset_value_init_limit: None,
                oracle_max_age: None,
                risk_tier: None,
            },
        }
        .data(),
        "propagate_staked_settings" => ixd::PropagateStakedSettings {}.data(),
        "start_liquidation" => ixd::StartLiquidation {}.data(),
        "end_liquidation" => ixd::EndLiquidation {}.data(),
        "start_deleverage" => ixd::StartDeleverage {}.data(),
        "end_deleverage" => ixd::EndDeleverage {}.data(),
        "panic_pause" => ixd::PanicPause {}.data(),
        "panic_unpause" => ixd::PanicUnpause {}.data(),
        "panic_unpause_permissionless" => ixd::PanicUnpausePermissionless {}.data(),
        "migrate_curve" => ixd::MigrateCurve {}.data(),
        "init_bank_metadata" => ixd::InitBankMetadata {}.data(),
        "write_bank_metadata" => ixd::WriteBankMetadata { ticker: Some(b"TICK".to_vec()), description: None }.data(),
        "configure_deleverage_withdrawal_limit" => ixd::ConfigureDeleverageWithdrawalLimit { limit: 100 }.data(),
        "purge_deleverage_balance" => ixd::PurgeDeleverageBalance {}.data(),
        _ => venue_ix_data(name, c),
    }
}

fn venue_ix_data(name: &str, c: &mut Cell) -> Vec<u8> {
    match name {
        "kamino_init_obligation" => ixd::KaminoInitObligation { amount: 100 }.data(),
        "kamino_deposit" => ixd::KaminoDeposit { amount: 100 }.data(),
        "kamino_withdraw" => ixd::KaminoWithdraw { amount: 100, withdraw_all: None }.data(),
        "kamino_harvest_reward" => ixd::KaminoHarvestReward { reward_index: 0 }.data(),
        "drift_init_user" => ixd::DriftInitUser { amount: 100 }.data(),
        "drift_deposit" => ixd::DriftDeposit { amount: 100 }.data(),
        "drift_withdraw" => ixd::DriftWithdraw { amount: 100, withdraw_all: None }.data(),
        "drift_harvest_reward" => ixd::DriftHarvestReward {}.data(),
        "solend_init_obligation" => ixd::SolendInitObligation { amount: 100 }.data(),
        "solend_deposit" => ixd::SolendDeposit { amount: 100 }.data(),
        "solend_withdraw" => ixd::SolendWithdraw { amount: 100, withdraw_all: None }.data(),
        "lending_pool_add_bank_kamino" => ixd::LendingPoolAddBankKamino {
            bank_config: marginfi::state::kamino::KaminoConfigCompact {
                oracle: tagged_key("venue-oracle"),
                asset_weight_init: wrapped(0.8),
                asset_weight_maint: wrapped(0.9),
                deposit_limit: 1_000_000 * U,
                oracle_setup: marginfi_type_crate::types::OracleSetup::KaminoPythPush,
                operational_state: BankOperationalState::Operational,
                risk_tier: RiskTier::Collateral,
                config_flags: 1,
                total_asset_value_init_limit: 0,
                oracle_max_age: 60,
                oracle_max_confidence: 0,
            },
            bank_seed: c.arg("bank_seed"),
        }
        .data(),
        "lending_pool_add_bank_drift" => ixd::LendingPoolAddBankDrift {
            bank_config: marginfi::state::drift::DriftConfigCompact {
                oracle: tagged_key("venue-oracle"),
                asset_weight_init: wrapped(0.8),
                asset_weight_maint: wrapped(0.9),
                deposit_limit: 1_000_000 * U,
                oracle_setup: marginfi_type_crate::types::OracleSetup::DriftPythPull,
                operational_state: BankOperationalState::Operational,
                risk_tier: RiskTier::Collateral,
                config_flags: 1,
                total_asset_value_init_limit: 0,
                oracle_max_age: 60,
                oracle_max_confidence: 0,
            },
            bank_seed: c.arg("bank_seed"),
        }
        .data(),
        "lending_pool_add_bank_solend" => ixd::LendingPoolAddBankSolend {
            bank_config: marginfi::state::solend::SolendConfigCompact {
                oracle: tagged_key("venue-oracle"),
                asset_weight_init: wrapped(0.8),
                asset_weight_maint: wrapped(0.9),
                deposit_limit: 1_000_000 * U,
                oracle_setup: marginfi_type_crate::types::OracleSetup::SolendPythPull,
                operational_state: BankOperationalState::Operational,
                risk_tier: RiskTier::Collateral,
                config_flags: 1,
                total_asset_value_init_limit: 0,
                oracle_max_age: 60,
                oracle_max_confidence: 0,
            },
            bank_seed: c.arg("bank_seed"),
        }
        .data(),
        _ => panic!("no instruction data for {}", name),
    }
}

fn is_type(c: &Cell, k: &Pubkey, disc: [u8; 8]) -> bool {
    c.w.account(k).map(|x| x.owner == marginfi::ID && x.data.len() >= 8 && x.data[..8] == disc).unwrap_or(false)
}
fn acct_key(c: &Cell, m: &[AccountMeta], i: usize) -> Option<Pubkey> {
    m.get(i).map(|x| x.pubkey).filter(|k| is_type(c, k, discriminators::ACCOUNT))
}
fn bank_key(c: &Cell, m: &[AccountMeta], i: usize) -> Option<Pubkey> {
    m.get(i).map(|x| x.pubkey).filter(|k| is_type(c, k, discriminators::BANK))
}

fn liquidate_counts(c: &mut Cell, m: &[AccountMeta]) -> (u8, u8) {
    match (bank_key(c, m, 1), bank_key(c, m, 2), acct_key(c, m, 3), acct_key(c, m, 5)) {
        (Some(b1), Some(b2), Some(l), Some(u)) => {
            (remaining_for(&c.w, &u, &[]).len() as u8, remaining_for(&c.w, &l, &[b1, b2]).len() as u8)
        }
        _ => (0, 0),
    }
}

/// remaining accounts of the base transaction of `name` (fixture objects; all banks use Fixed prices, so
/// the risk-engine lists contain banks only)
fn remaining(name: &str, c: &mut Cell, m: &[AccountMeta]) -> Vec<AccountMeta> {
    let k = |c: &mut Cell, n: &str| c.resolve(n);
    match name {
        // group, marginfi_account, authority, bank, ...
        "lending_account_withdraw" => match acct_key(c, m, 1) {
            Some(a) => remaining_for(&c.w, &a, &[]),
            None => vec![],
        },
        "lending_account_borrow" => match (acct_key(c, m, 1), bank_key(c, m, 3)) {
            (Some(a), Some(b)) => remaining_for(&c.w, &a, &[b]),
            _ => vec![],
        },
        // group, asset_bank, liab_bank, liquidator_marginfi_account, authority, liquidatee_marginfi_account, ...
        "lending_account_liquidate" => {
            match (bank_key(c, m, 1), bank_key(c, m, 2), acct_key(c, m, 3), acct_key(c, m, 5)) {
                (Some(b1), Some(b2), Some(l), Some(u)) => {
                    let mut r = remaining_for(&c.w, &l, &[b1, b2]);
                    r.extend(remaining_for(&c.w, &u, &[]));
                    r
                }
                _ => vec![],
            }
        }
        "lending_pool_handle_bankruptcy" => {
            let a = k(c, "accBad");
            remaining_for(&c.w, &a, &[])
        }
        "lending_account_end_flashloan" | "lending_account_pulse_health" => {
            // the risk-engine accounts of whichever marginfi account the cell binds
            let a = m[0].pubkey;
            let is_acct = c.w.account(&a).map(|x| x.owner == marginfi::ID && x.data.len() >= 8 && x.data[..8] == discriminators::ACCOUNT).unwrap_or(false);
            if is_acct { remaining_for(&c.w, &a, &[]) } else { vec![] }
        }
        "start_liquidation" | "end_liquidation" | "start_deleverage" | "end_deleverage" => {
            let a = k(c, "accU");
            remaining_for(&c.w, &a, &[])
        }
        "lending_pool_configure_bank_oracle" => vec![ixs::ro(k(c, "ora"))],
        _ => vec![],
    }
}

/// Instructions that only succeed next to a companion in the same transaction: returns (before, after).
/// The companion acts on the same account / record / signer keys as the instruction under test (`m`).
fn companions(name: &str, c: &mut Cell, m: &[AccountMeta]) -> (Vec<Ix>, Vec<Ix>) {
    let k = |c: &mut Cell, n: &str| c.resolve(n);
    match name {
        // marginfi_account, authority, ixs_sysvar
        "lending_account_start_flashloan" => {
            let (a, u) = (m[0].pubkey, m[1].pubkey);
            let rem = if c.w.get::<MarginfiAccount>(&a).is_some() { remaining_for(&c.w, &a, &[]) } else { vec![] };
            (vec![], vec![ixs::lending_account_end_flashloan(a, u, rem)])
        }
        // marginfi_account, liquidation_record, liquidation_receiver, instruction_sysvar
        "start_liquidation" => {
            let (a, l, fw) = (m[0].pubkey, m[2].pubkey, k(c, "fwal"));
            let rem = if c.w.get::<MarginfiAccount>(&a).is_some() { remaining_for(&c.w, &a, &[]) } else { vec![] };
            (vec![], vec![ixs::end_liquidation(a, l, fw, rem).set_account(1, m[1].pubkey)])
        }
        // the preceding start_liquidation acts on the fixture's unhealthy account with receiver `liq`
        // (it only looks at the discriminator of the last instruction, so it succeeds whatever the end
        // instruction under test is bound to)
        "end_liquidation" => {
            let (a, l, r) = (k(c, "accU"), k(c, "liq"), k(c, "accU.rec"));
            let rem = remaining_for(&c.w, &a, &[]);
            (vec![ixs::start_liquidation(a, l, rem).set_account(1, r)], vec![])
        }
        // marginfi_account, liquidation_record, group, risk_admin, instruction_sysvar
        "start_deleverage" => {
            let (a, g, r) = (m[0].pubkey, m[2].pubkey, m[3].pubkey);
            let rem = if c.w.get::<MarginfiAccount>(&a).is_some() { remaining_for(&c.w, &a, &[]) } else { vec![] };
            (vec![], vec![ixs::end_deleverage(g, a, r, rem).set_account(1, m[1].pubkey)])
        }
        "end_deleverage" => {
            let (a, g, r, rec) = (k(c, "accU"), k(c, "gA"), k(c, "rsk"), k(c, "accU.rec"));
            let rem = remaining_for(&c.w, &a, &[]);
            (vec![ixs::start_deleverage(g, a, r, rem).set_account(1, rec)], vec![])
        }
        _ => (vec![], vec![]),
    }
}

// ---------------------------------------------------------------------------------------------
// classification of the outcome

#[derive(Debug)]
enum Phase {
    Validation(String),
    Body,
}

/// The last Anchor / Program error log line tells where the error was raised.
fn classify_log(log: &str) -> Option<(Phase, Option<u32>)> {
    let mut res = None;
    for l in log.lines() {
        let (is_anchor, rest) = if let Some(r) = l.strip_prefix("AnchorError ") {
            (true, r)
        } else if let Some(r) = l.strip_prefix("ProgramError ") {
            (false, r)
        } else {
            continue;
        };
        let num = rest
            .split("Error Number: ")
            .nth(1)
            .and_then(|x| x.split('.').next())
            .and_then(|x| x.trim().parse::<u32>().ok());
        let _ = is_anchor;
        if let Some(r) = rest.strip_prefix("caused by account: ") {
            let acct = r.split('.').next().unwrap_or("?").to_string();
            res = Some((Phase::Validation(acct), num));
        } else if rest.starts_with("thrown in ") {
            res = Some((Phase::Body, num));
        } else {
            // "occurred": no origin. Anchor's own constraint errors without an account name
            // (token::mint / token::authority ...) are 2000..2999 and 3000..3999; MarginfiError
            // raised via `.into()` without origin is a handler error.
            match num {
                Some(n) if (2000..4100).contains(&n) => res = Some((Phase::Validation("?".into()), num)),
                _ => res = Some((Phase::Body, num)),
            }
        }
    }
    res
}

fn err_code(e: &ExecError) -> String {
    match e {
        ExecError::Custom(n) => format!("{}", n),
        ExecError::Program(s) => format!("PE:{}", s.replace(' ', "_")),
        ExecError::Panic => "PANIC".into(),
    }
}

// ---------------------------------------------------------------------------------------------

fn field<'a>(toks: &BTreeMap<&'a str, &'a str>, k: &str) -> &'a str {
    toks.get(k).copied().unwrap_or_else(|| panic!("case line lacks {}=", k))
}

pub fn run(line: &str) -> String {
    cap::init();
    let fx = fixture();
    let mut it = line.split_whitespace();
    let kind = it.next().expect("empty case");
    if kind == "W" {
        return dump_world(&fx);
    }
    if kind == "S" {
        let v: Vec<&str> = it.collect();
        let key = |x: &str| {
            let mut b = [0u8; 32];
            b[..8].copy_from_slice(&x.parse::<u64>().expect("key").to_le_bytes());
            Pubkey::new_from_array(b)
        };
        let mut a = MarginfiAccount::zeroed();
        a.account_flags = v[0].parse::<u64>().expect("flags");
        a.authority = key(v[1]);
        let (admin, signer, allow) = (key(v[2]), key(v[3]), v[4] == "1");
        let r1 = marginfi::state::marginfi_account::is_signer_authorized(&a, admin, signer, allow);
        let r2 = marginfi::state::marginfi_account::account_not_frozen_for_authority(&a, signer);
        return format!("{} {}", r1 as u8, r2 as u8);
    }
    if kind == "G" {
        use marginfi::utils::InstructionKind as K;
        let v: Vec<&str> = it.collect();
        let mut b = Bank::zeroed();
        b.config.operational_state = match v[0] {
            "0" => BankOperationalState::Paused,
            "1" => BankOperationalState::Operational,
            "2" => BankOperationalState::ReduceOnly,
            "3" => BankOperationalState::KilledByBankruptcy,
            _ => panic!("state"),
        };
        let k = match v[1] {
            "0" => K::Unrestricted,
            "1" => K::FailsInReduceState,
            "2" => K::FailsInPausedState,
            "3" => K::FailsIfPausedOrReduceState,
            _ => panic!("kind"),
        };
        if v.len() > 2 {
            b.flags = v[2].parse().unwrap();      // the gate must not depend on the bank's flag word
        }
        return match marginfi::utils::validate_bank_state(&b, k) {
            Ok(()) => "OK".to_string(),
            Err(e) => crate::util::err_tok(&e),
        };
    }
    let toks: BTreeMap<&str, &str> = it.filter_map(|t| t.split_once('=')).collect();
    let name = field(&toks, "ix");
    let mode = field(&toks, "m");
    let dt: i64 = field(&toks, "t").parse().expect("t");
    let mut w = World::new();
    w.accounts = fx.accounts.clone();
    w.unix_timestamp = fx.now0 + dt;
    let mut args = BTreeMap::new();
    let ar = field(&toks, "ar");
    if ar != "-" {
        for a in ar.split(',') {
            let (n, v) = a.split_once(':').expect("ar");
            args.insert(n.to_string(), v.parse::<u64>().expect("ar value"));
        }
    }
    let mut c = Cell { w, fx: fx.clone(), args, aliases: BTreeMap::new() };
    let al = field(&toks, "al");
    if al != "-" {
        for a in al.split('|') {
            let (n, o) = a.split_once('=').expect("al");
            let k = c.resolve(o);
            c.aliases.insert(n.to_string(), k);
        }
    }
    let tw = field(&toks, "tw");
    if tw != "-" {
        for t in tw.split(';') {
            c.apply_tweak(t);
        }
    }
    let sg = field(&toks, "sg").as_bytes();
    let wr = field(&toks, "wr").as_bytes();
    let mut metas = vec![];
    let mut signers = vec![];
    for (i, fo) in field(&toks, "a").split(',').enumerate() {
        let obj = fo.split_once(':').map(|x| x.1).unwrap_or(fo);
        let key = c.resolve(obj);
        let (s, wflag) = (sg[i] == b'1', wr[i] == b'1');
        metas.push(AccountMeta { pubkey: key, is_signer: s, is_writable: wflag });
        if s && !signers.contains(&key) {
            signers.push(key);
        }
    }
    let data = ix_data(name, &mut c, &metas);
    let rem = remaining(name, &mut c, &metas);
    metas.extend(rem);
    let ix = Ix { program_id: marginfi::ID, accounts: metas, data };
    let (before_ixs, after_ixs) = companions(name, &mut c, &ix.accounts);
    for cix in before_ixs.iter().chain(after_ixs.iter()) {
        for m in cix.accounts.iter() {
            if m.is_signer && !signers.contains(&m.pubkey) {
                signers.push(m.pubkey);
            }
        }
    }
    let idx = before_ixs.len();
    let mut tx = before_ixs;
    tx.push(ix);
    tx.extend(after_ixs);
    let before = c.w.accounts.clone();
    let _ = cap::take();
    let r = c.w.exec_tx(&tx, &signers);
    let log = cap::take();
    // what a handler-body failure prints: `full`/`risk`: the code; `val`: PASSV (only validation is compared);
    // `gate`: the code if it is a program error number, PASSB otherwise (venue CPI not available)
    let body_fail = |e: &ExecError, prefix: &str| -> String {
        match mode {
            "val" => "PASSV".to_string(),
            "gate" => match e {
                ExecError::Custom(n) if GATE_CODES.contains(n) => format!("B {}{}", prefix, n),
                _ => "PASSB".to_string(),
            },
            _ => format!("B {}{}", prefix, err_code(e)),
        }
    };
    let mut out = match &r {
        Ok(()) => match mode {
            "val" => "PASSV".to_string(),
            "gate" => "PASSB".to_string(),
            _ => "OK".to_string(),
        },
        Err((i, e)) => {
            let cls = classify_log(&log);
            if *i != idx {
                // the companion failed: the instruction under test passed validation and its body
                body_fail(e, &format!("companion{}:", i))
            } else {
                match cls {
                    Some((Phase::Validation(f), n)) => {
                        let code = n.map(|x| x.to_string()).unwrap_or_else(|| err_code(e));
                        format!("V {} {}", f, code)
                    }
                    _ => body_fail(e, ""),
                }
            }
        }
    };
    if r.is_err() && c.w.accounts != before {
        out.push_str(" STORE-CHANGED");
    }
    if mode == "emis" && r.is_ok() {
        // emissions payout bookkeeping of the executed instruction: outstanding emissions of the position before / after,
        // change of the emissions vault, of the destination token account and of the bank's funded remaining amount
        let mut keys: BTreeMap<String, Pubkey> = BTreeMap::new();
        for fo in field(&toks, "a").split(',') {
            if let Some((fname, obj)) = fo.split_once(':') {
                let k = c.resolve(obj);
                keys.insert(fname.to_string(), k);
            }
        }
        let key_of_field = |n: &str| -> Option<Pubkey> { keys.get(n).copied() };
        let mut w0 = World::new();
        w0.accounts = before.clone();
        if let (Some(acc), Some(bank)) = (key_of_field("marginfi_account"), key_of_field("bank")) {
            let out_of = |w: &World| -> i128 {
                w.get::<MarginfiAccount>(&acc)
                    .and_then(|a| {
                        a.lending_account
                            .balances
                            .iter()
                            .find(|b| b.is_active() && b.bank_pk == bank)
                            .map(|b| I80F48::from(b.emissions_outstanding).to_bits())
                    })
                    .unwrap_or(0)
            };
            let rem_of = |w: &World| -> i128 {
                w.get::<Bank>(&bank).map(|b| I80F48::from(b.emissions_remaining).to_bits()).unwrap_or(0)
            };
            let (v, d) = (key_of_field("emissions_vault"), key_of_field("destination_account"));
            let bal = |w: &World, k: &Option<Pubkey>| -> i128 { k.map(|k| w.token_balance(&k) as i128).unwrap_or(0) };
            out.push_str(&format!(
                " E {} {} {} {} {}",
                out_of(&w0),
                out_of(&c.w),
                bal(&c.w, &v) - bal(&w0, &v),
                bal(&c.w, &d) - bal(&w0, &d),
                rem_of(&c.w) - rem_of(&w0)
            ));
        }
    }
    out
}

// ---------------------------------------------------------------------------------------------
// projection of the fixture world (compared with the model's abstract fixture)

fn dump_world(fx: &Fx) -> String {
    let rev: BTreeMap<Pubkey, &String> = fx.names.iter().map(|(n, k)| (*k, n)).collect();
    let nm = |k: &Pubkey| -> String {
        if *k == Pubkey::default() {
            return "0".into();
        }
        if let Some(n) = rev.get(k) {
            return (*n).clone();
        }
        for p in ["marginfi", "system", "token", "token22", "kamino", "drift", "solend"] {
            if prog_key(p) == *k {
                return format!("PROG:{}", p);
            }
        }
        "?".into()
    };
    let mut out = vec![format!("NOW0!{}", fx.now0)];
    for n in fx.order.iter() {
        let key = fx.names[n];
        let n = &match fx.derivs.get(n) {
            Some(d) => format!("{}@{}", n, d),
            None => n.clone(),
        };
        let a = match fx.accounts.get(&key) {
            Some(a) => a,
            None => {
                out.push(format!("{}!ABSENT", n));
                continue;
            }
        };
        let owner = if a.owner == system_program::ID {
            "PROG:system".to_string()
        } else {
            let o = nm(&a.owner);
            if o == "?" { "PROG:other".to_string() } else { o }
        };
        let d8: [u8; 8] = if a.data.len() >= 8 { a.data[..8].try_into().unwrap() } else { [0; 8] };
        let body = || &a.data[8..];
        let (disc, keys, nums): (&str, Vec<(&str, Pubkey)>, Vec<(&str, i128)>) = if a.owner == marginfi::ID {
            if d8 == discriminators::GROUP {
                let g: MarginfiGroup = bytemuck::pod_read_unaligned(&body()[..std::mem::size_of::<MarginfiGroup>()]);
                (
                    "MarginfiGroup",
                    vec![("admin", g.admin), ("emode_admin", g.emode_admin), ("delegate_curve_admin", g.delegate_curve_admin),
                         ("delegate_limit_admin", g.delegate_limit_admin), ("delegate_emissions_admin", g.delegate_emissions_admin),
                         ("metadata_admin", g.metadata_admin), ("risk_admin", g.risk_admin)],
                    vec![("pause_flags", g.panic_state_cache.pause_flags as i128),
                         ("pause_start", g.panic_state_cache.pause_start_timestamp as i128)],
                )
            } else if d8 == discriminators::BANK {
                let bk: Bank = bytemuck::pod_read_unaligned(&body()[..std::mem::size_of::<Bank>()]);
                let awi: I80F48 = bk.config.asset_weight_init.into();
                (
                    "Bank",
                    vec![("group", bk.group), ("mint", bk.mint), ("liquidity_vault", bk.liquidity_vault),
                         ("insurance_vault", bk.insurance_vault), ("fee_vault", bk.fee_vault),
                         ("emissions_mint", bk.emissions_mint), ("fees_destination_account", bk.fees_destination_account),
                         ("integration_acc_1", bk.integration_acc_1), ("integration_acc_2", bk.integration_acc_2),
                         ("integration_acc_3", bk.integration_acc_3)],
                    vec![("flags", bk.flags as i128), ("asset_tag", bk.config.asset_tag as i128),
                         ("operational_state", bk.config.operational_state as u8 as i128),
                         ("asset_weight_init", awi.to_bits())],
                )
            } else if d8 == discriminators::ACCOUNT {
                let m: MarginfiAccount = bytemuck::pod_read_unaligned(&body()[..std::mem::size_of::<MarginfiAccount>()]);
                (
                    "MarginfiAccount",
                    vec![("group", m.group), ("authority", m.authority), ("liquidation_record", m.liquidation_record),
                         ("emissions_destination_account", m.emissions_destination_account)],
                    vec![("account_flags", m.account_flags as i128)],
                )
            } else if d8 == discriminators::FEE_STATE {
                let f: FeeState = bytemuck::pod_read_unaligned(&body()[..std::mem::size_of::<FeeState>()]);
                ("FeeState", vec![("global_fee_admin", f.global_fee_admin), ("global_fee_wallet", f.global_fee_wallet)], vec![])
            } else if d8 == discriminators::LIQUIDATION_RECORD {
                let r: LiquidationRecord = bytemuck::pod_read_unaligned(&body()[..std::mem::size_of::<LiquidationRecord>()]);
                (
                    "LiquidationRecord",
                    vec![("marginfi_account", r.marginfi_account), ("liquidation_receiver", r.liquidation_receiver)],
                    vec![],
                )
            } else if d8 == discriminators::STAKED_SETTINGS {
                let r: StakedSettings = bytemuck::pod_read_unaligned(&body()[..std::mem::size_of::<StakedSettings>()]);
                ("StakedSettings", vec![("marginfi_group", r.marginfi_group)], vec![])
            } else if d8[..] == BankMetadata::DISCRIMINATOR[..] {
                let r: BankMetadata = bytemuck::pod_read_unaligned(&body()[..std::mem::size_of::<BankMetadata>()]);
                ("BankMetadata", vec![("bank", r.bank)], vec![])
            } else {
                ("?", vec![], vec![])
            }
        } else if a.owner == spl_token::ID || a.owner == spl_token_2022::ID {
            if a.data.len() == 82 {
                ("Mint", vec![], vec![])
            } else {
                let mint = Pubkey::new_from_array(a.data[0..32].try_into().unwrap());
                let own = Pubkey::new_from_array(a.data[32..64].try_into().unwrap());
                ("TokenAccount", vec![("mint", mint), ("owner", own)], vec![])
            }
        } else if a.owner == system_program::ID {
            ("", vec![], vec![])
        } else {
            venue_projection(a)
        };
        let ks: Vec<String> = keys.iter().map(|(f, k)| format!("{}={}", f, nm(k))).collect();
        let ns: Vec<String> = nums.iter().map(|(f, v)| format!("{}={}", f, v)).collect();
        out.push(format!("{}!{}!{}!{}!{}", n, owner, disc, ks.join(","), ns.join(",")));
    }
    out.join(" | ")
}

fn venue_projection(a: &Acct) -> (&'static str, Vec<(&'static str, Pubkey)>, Vec<(&'static str, i128)>) {
    let d8: [u8; 8] = if a.data.len() >= 8 { a.data[..8].try_into().unwrap() } else { [0; 8] };
    let pk = |off: usize| Pubkey::new_from_array(a.data[off..off + 32].try_into().unwrap());
    if a.owner == kamino_mocks::ID && d8 == kamino_mocks::state::RESERVE_DISCRIMINATOR {
        let r: kamino_mocks::state::MinimalReserve =
            bytemuck::pod_read_unaligned(&a.data[8..8 + std::mem::size_of::<kamino_mocks::state::MinimalReserve>()]);
        ("MinimalReserve", vec![("lending_market", r.lending_market), ("mint_pubkey", r.mint_pubkey)], vec![])
    } else if a.owner == kamino_mocks::ID && d8 == kamino_mocks::state::OBLIGATION_DISCRIMINATOR {
        ("MinimalObligation", vec![], vec![])
    } else if a.owner == drift_mocks::ID && d8 == drift_mocks::state::SPOT_MARKET_DISCRIMINATOR {
        ("MinimalSpotMarket", vec![("mint", pk(8 + 64))], vec![])
    } else if a.owner == drift_mocks::ID && d8 == drift_mocks::state::USER_DISCRIMINATOR {
        ("MinimalUser", vec![], vec![])
    } else if a.owner == drift_mocks::ID && d8 == drift_mocks::state::USER_STATS_DISCRIMINATOR {
        ("MinimalUserStats", vec![], vec![])
    } else if a.owner == solend_mocks::ID && a.data.len() == solend_mocks::state::RESERVE_LEN && a.data[0] == 1 {
        ("SolendMinimalReserve", vec![("liquidity_mint_pubkey", pk(1 + 41))], vec![])
    } else {
        ("?", vec![], vec![])
    }
}
