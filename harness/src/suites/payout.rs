//! Level C (C19): every instruction that draws down a bank's FEE vault, INSURANCE vault or EMISSIONS vault (outside
//! bankruptcy cover) and the two that fix the destinations, as HISTORIES through `marginfi::entry` in the sim runtime:
//! lending_pool_withdraw_fees / _permissionless / update_fees_destination_account / withdraw_insurance,
//! lending_account_withdraw_emissions / _permissionless / settle_emissions,
//! marginfi_account_update_emissions_destination_account.  Model: coq/model/Payout.v.
//! case: emprog emdec dep rate total fee0 ins0 t0 nops <op>*
//!   emprog 0 = SPL Token, 1 = Token-2022 (emissions mint); the bank mint is SPL with 6 decimals
//!   signers s: 1 = group admin, 2 = account authority, 3 = a stranger
//!   token accounts: 10 / 11 / 12 bank-mint accounts of admin / authority / stranger; 20 = the stranger's emissions-mint
//!     account; 1000 + w = the associated emissions-mint account of wallet w (w = 0: Pubkey::default(), 1, 2: two wallets)
//!   ops: 1 s d amt  withdraw_fees            2 d amt  withdraw_fees_permissionless   3 s d  update_fees_destination
//!        4 s d amt  withdraw_insurance       5 s e    withdraw_emissions             6 e    withdraw_emissions_permissionless
//!        7          settle_emissions         8 s w    update_emissions_destination   9 dt   clock += dt
//!        10 flags   account_flags := flags (scaffolding)
//! out : initial state, then per op `<res> <state>`, joined by " | ";
//!   state = fee_vault ins_vault em_vault fee_dest em_wallet acct_last em_outstanding em_remaining bal_last b10 b11 b12 b20 b1000 b1001 b1002
use crate::sim::*;
use crate::util::*;
use anchor_lang::prelude::Pubkey;
use solana_program::instruction::AccountMeta;
use fixed::types::I80F48;
use marginfi::accounts as acc;
use marginfi::instruction as ixd;
use marginfi_type_crate::types::{Bank, MarginfiAccount};

fn err_s(e: &ExecError) -> String {
    match e {
        ExecError::Custom(n) => format!("E{}", n),
        ExecError::Program(s) => format!("PE:{}", s.split_whitespace().next().unwrap_or("?")),
        ExecError::Panic => "PANIC".into(),
    }
}

struct Pw {
    w: World,
    group: Pubkey,
    bank: Pubkey,
    acct: Pubkey,
    em: Pubkey,
    em_prog: Pubkey,
    em_rem: Vec<AccountMeta>,
    signers: [Pubkey; 4],
    wallets: [Pubkey; 3],
    toks: Vec<(u64, Pubkey)>,
    keys: BankKeys,
    em_vault: Pubkey,
}

impl Pw {
    fn tok(&self, id: u64) -> Pubkey {
        self.toks.iter().find(|(i, _)| *i == id).map(|(_, k)| *k).expect("unknown token account id")
    }
    fn tok_id(&self, k: &Pubkey) -> u64 {
        if *k == Pubkey::default() {
            return 0;
        }
        self.toks.iter().find(|(_, x)| x == k).map(|(i, _)| *i).unwrap_or(99)
    }
    fn wallet_id(&self, k: &Pubkey) -> u64 {
        self.wallets.iter().position(|x| x == k).map(|i| i as u64).unwrap_or(99)
    }
    fn state(&self) -> String {
        let b: Bank = self.w.get::<Bank>(&self.bank).unwrap();
        let a: MarginfiAccount = self.w.get::<MarginfiAccount>(&self.acct).unwrap();
        let bal = a.lending_account.balances.iter().find(|x| x.is_active() && x.bank_pk == self.bank);
        let (out, last) = match bal {
            Some(x) => (I80F48::from(x.emissions_outstanding).to_bits(), x.last_update),
            None => (0, 0),
        };
        let mut s = format!(
            "{} {} {} {} {} {} {} {} {}",
            self.w.token_balance(&self.keys.fee_vault),
            self.w.token_balance(&self.keys.insurance_vault),
            self.w.token_balance(&self.em_vault),
            self.tok_id(&b.fees_destination_account),
            self.wallet_id(&a.emissions_destination_account),
            a.last_update,
            out,
            I80F48::from(b.emissions_remaining).to_bits(),
            last
        );
        for (_, k) in &self.toks {
            s.push_str(&format!(" {}", self.w.token_balance(k)));
        }
        s
    }
}

pub fn run(line: &str) -> String {
    let mut t = Toks::new(line);
    let emprog = t.u8();
    let emdec = t.u8();
    let dep = t.u64();
    let rate = t.u64();
    let total = t.u64();
    let fee0 = t.u64();
    let ins0 = t.u64();
    let t0 = t.i64();
    let nops = t.usize();
    let mut ops: Vec<Vec<u64>> = Vec::new();
    for _ in 0..nops {
        let code = t.u64();
        let n = match code {
            1 | 4 => 3,
            2 | 3 | 5 | 8 => 2,
            6 | 9 | 10 => 1,
            _ => 0,
        };
        let mut v = vec![code];
        for _ in 0..n {
            v.push(t.u64());
        }
        ops.push(v);
    }
    guarded(|| {
        let mut w = World::new();
        w.set_clock(t0);
        let admin = mk_wallet(&mut w, 1000 * 1_000_000_000);
        let authority = mk_wallet(&mut w, 1000 * 1_000_000_000);
        let stranger = mk_wallet(&mut w, 1000 * 1_000_000_000);
        let u1 = mk_wallet(&mut w, 1_000_000_000);
        let u2 = mk_wallet(&mut w, 1_000_000_000);
        let fee_wallet = mk_wallet(&mut w, 1_000_000_000);
        mk_fee_state(&mut w, admin, fee_wallet, FeeStateParams::default());
        let group = mk_group(&mut w, admin);
        let bank_mint = mk_mint(&mut w, 6, TokenProgram::Spl);
        let bank = mk_bank(&mut w, group, bank_mint, BankParams::default().with_fixed_price(I80F48::ONE));
        let tp = if emprog == 0 { TokenProgram::Spl } else { TokenProgram::T22 };
        let em = mk_mint(&mut w, emdec, tp);
        let em_rem = if emprog == 0 { vec![] } else { vec![AccountMeta::new_readonly(em, false)] };
        let _ = &em_rem;
        let acct = mk_marginfi_account(&mut w, group, authority);
        let user_ta = mk_token_account(&mut w, bank_mint, authority, dep);
        let ctx = bank_ctx(&w, &bank);
        w.exec(
            ixs::lending_account_deposit(group, acct, authority, bank, user_ta, ctx.token_program, dep, None, ctx.mint_prefix.clone()),
            &[authority],
        )
        .expect("fixture deposit");
        let funding = mk_token_account(&mut w, em, admin, total);
        w.exec(ixs::lending_pool_setup_emissions(group, admin, bank, em, funding, tp.id(), 2, rate, total, vec![]), &[admin])
            .expect("fixture setup_emissions");
        let keys = BankKeys::derive(&bank);
        set_token_balance(&mut w, &keys.fee_vault, fee0);
        set_token_balance(&mut w, &keys.insurance_vault, ins0);
        let (_eauth, em_vault) = ixs::emissions_pdas(&bank, &em);
        let toks = vec![
            (10u64, mk_token_account(&mut w, bank_mint, admin, 0)),
            (11, mk_token_account(&mut w, bank_mint, authority, 0)),
            (12, mk_token_account(&mut w, bank_mint, stranger, 0)),
            (20, mk_token_account(&mut w, em, stranger, 0)),
            (1000, mk_ata(&mut w, em, Pubkey::default(), 0)),
            (1001, mk_ata(&mut w, em, u1, 0)),
            (1002, mk_ata(&mut w, em, u2, 0)),
        ];
        let mut p = Pw {
            w,
            group,
            bank,
            acct,
            em,
            em_prog: tp.id(),
            em_rem: vec![],
            signers: [Pubkey::default(), admin, authority, stranger],
            wallets: [Pubkey::default(), u1, u2],
            toks,
            keys,
            em_vault,
        };
        let mut out = vec![p.state()];
        for op in &ops {
            let sg = |i: u64| p.signers[i as usize];
            let r: Result<(), ExecError> = match op[0] {
                1 => {
                    let s = sg(op[1]);
                    p.w.exec(ixs::lending_pool_withdraw_fees(p.group, p.bank, s, p.tok(op[2]), spl_token::ID, op[3], vec![]), &[s])
                }
                2 => {
                    let ix = ixs::build(
                        acc::LendingPoolWithdrawFeesPermissionless {
                            group: p.group,
                            bank: p.bank,
                            fee_vault: p.keys.fee_vault,
                            fee_vault_authority: p.keys.fee_vault_authority,
                            fees_destination_account: p.tok(op[1]),
                            token_program: spl_token::ID,
                        },
                        ixd::LendingPoolWithdrawFeesPermissionless { amount: op[2] },
                        vec![],
                    );
                    p.w.exec(ix, &[p.signers[3]])
                }
                3 => {
                    let s = sg(op[1]);
                    let ix = ixs::build(
                        acc::LendingPoolUpdateFeesDestinationAccount { group: p.group, bank: p.bank, admin: s, destination_account: p.tok(op[2]) },
                        ixd::LendingPoolUpdateFeesDestinationAccount {},
                        vec![],
                    );
                    p.w.exec(ix, &[s])
                }
                4 => {
                    let s = sg(op[1]);
                    p.w.exec(ixs::lending_pool_withdraw_insurance(p.group, p.bank, s, p.tok(op[2]), spl_token::ID, op[3], vec![]), &[s])
                }
                5 => {
                    let s = sg(op[1]);
                    p.w.exec(
                        ixs::lending_account_withdraw_emissions(p.group, p.acct, s, p.bank, p.em, p.tok(op[2]), p.em_prog, p.em_rem.clone()),
                        &[s],
                    )
                }
                6 => {
                    let (emissions_auth, emissions_vault) = ixs::emissions_pdas(&p.bank, &p.em);
                    let ix = ixs::build(
                        acc::LendingAccountWithdrawEmissionsPermissionless {
                            group: p.group,
                            marginfi_account: p.acct,
                            bank: p.bank,
                            emissions_mint: p.em,
                            emissions_auth,
                            emissions_vault,
                            destination_account: p.tok(op[1]),
                            token_program: p.em_prog,
                        },
                        ixd::LendingAccountWithdrawEmissionsPermissionless {},
                        vec![],
                    );
                    p.w.exec(ix, &[p.signers[3]])
                }
                7 => p.w.exec(ixs::lending_account_settle_emissions(p.acct, p.bank), &[p.signers[3]]),
                8 => {
                    let s = sg(op[1]);
                    let ix = ixs::build(
                        acc::MarginfiAccountUpdateEmissionsDestinationAccount {
                            marginfi_account: p.acct,
                            authority: s,
                            destination_account: p.wallets[op[2] as usize],
                        },
                        ixd::MarginfiAccountUpdateEmissionsDestinationAccount {},
                        vec![],
                    );
                    p.w.exec(ix, &[s])
                }
                9 => {
                    p.w.advance_clock(op[1] as i64);
                    Ok(())
                }
                10 => {
                    let f = op[1];
                    let k = p.acct;
                    p.w.update::<MarginfiAccount>(&k, |a| a.account_flags = f);
                    Ok(())
                }
                _ => panic!("bad op"),
            };
            let rs = match &r {
                Ok(()) => "OK".to_string(),
                Err(e) => err_s(e),
            };
            out.push(format!("{} {}", rs, p.state()));
        }
        out.join(" | ")
    })
}
