//! Suite registry: one module per correspondence suite; `lookup` maps a suite name to its runner.
pub mod auth;
pub mod curve;
pub mod panic;

pub fn lookup(name: &str) -> Option<fn(&str) -> String> {
    Some(match name {
        "panic" => panic::run,
        "curve" => curve::run,
        "auth" => auth::run,
        _ => return None,
    })
}
