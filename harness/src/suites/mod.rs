//! Suite registry: one module per correspondence suite; `lookup` maps a suite name to its runner.
pub mod bankops;
pub mod cfgsim;
pub mod config;
pub mod auth;
pub mod curve;
pub mod delevsim;
pub mod hops;
pub mod oracle;
pub mod panic;
pub mod prefee;
pub mod emfund;
pub mod risk;
pub mod privsim;
pub mod xrate;
pub mod tx;
pub mod acctlife;
pub mod payout;
pub mod roles;

pub fn lookup(name: &str) -> Option<fn(&str) -> String> {
    Some(match name {
        "panic" => panic::run,
        "curve" => curve::run,
        "bankops" => bankops::run,
        "hops" => hops::run,
        "hopsref" => hops::run_ref,
        "prefee" => prefee::run,
        "emfund" => emfund::run,
        "risk" => risk::run,
        "xrate" => xrate::run,
        "oracle" => oracle::run,
        "oraclerisk" => oracle::run_risk,
        "oracleliq" => oracle::run_liq,
        "config" => config::run,
        "cfgsim" => cfgsim::run,
        "privsim" => privsim::run,
        "delevsim" => delevsim::run,
        "auth" => auth::run,
        "txconsts" => tx::run_consts,
        "txval" => tx::run_val,
        "txsim" => tx::run_sim,
        "txend" => tx::run_end,
        "acctlife" => acctlife::run,
        "payout" => payout::run,
        "roles" => roles::run,
        _ => return None,
    })
}
