//! Suite registry: one module per correspondence suite; `lookup` maps a suite name to its runner.
pub mod curve;
pub mod oracle;
pub mod panic;

pub fn lookup(name: &str) -> Option<fn(&str) -> String> {
    Some(match name {
        "panic" => panic::run,
        "curve" => curve::run,
        "oracle" => oracle::run,
        "oraclerisk" => oracle::run_risk,
        "oracleliq" => oracle::run_liq,
        _ => return None,
    })
}
