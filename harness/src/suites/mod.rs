pub mod panic;
pub mod curve;
