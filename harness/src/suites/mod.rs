pub mod panic;
