//! Suite registry: one module per correspondence suite; `lookup` maps a suite name to its runner.
pub mod curve;
pub mod panic;
pub mod tx;

pub fn lookup(name: &str) -> Option<fn(&str) -> String> {
    Some(match name {
        "panic" => panic::run,
        "curve" => curve::run,
        "txconsts" => tx::run_consts,
        "txval" => tx::run_val,
        "txsim" => tx::run_sim,
        "txend" => tx::run_end,
        _ => return None,
    })
}
