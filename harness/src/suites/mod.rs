//! Suite registry: one module per correspondence suite; `lookup` maps a suite name to its runner.
pub mod cfgsim;
pub mod config;
pub mod curve;
pub mod panic;

pub fn lookup(name: &str) -> Option<fn(&str) -> String> {
    Some(match name {
        "panic" => panic::run,
        "curve" => curve::run,
        "config" => config::run,
        "cfgsim" => cfgsim::run,
        _ => return None,
    })
}
