//! Level A: the REAL integration exchange-rate math (C20).
//!   type-crate/src/types/price.rs, kamino-mocks / solend-mocks / drift-mocks state.rs + constants.rs,
//!   and the Kamino / Solend / Drift arms of OraclePriceFeedAdapter::try_from_bank_with_max_age
//!   (programs/marginfi/src/state/price.rs) on synthesised oracle + venue accounts.
//!
//! case: `<op> args…` (all numbers decimal; I80F48 as raw bits).  out: segments joined by " | ".
//!   consts
//!   i80 x                                  -> bits | NONE
//!   adj <i128|i64|u64> n (raw ratio)*n     -> v | NONE              per pair
//!   c2l n (collateral tl tc)*n             -> collateral_to_liquidity_from_scaled
//!   l2c n (liquidity tl tc)*n              -> liquidity_to_collateral_from_scaled
//!   ratio tl tc                            -> liq_to_col_ratio | col_to_liq_ratio
//!   scale tl_raw tc_raw dec                -> "tl tc" | NONE
//!   convdec n from to
//!   u68 bits                               -> u68f60_to_i80f48
//!   dec2fx raw                             -> decimal_to_i80f48
//!   k  <slot avail borrowed prot ref pend dec supply> cur_slot col liq
//!        -> total_supply | scaled | c2l(col) | l2c(liq) | c2l(l2c(liq)) | l2c(c2l(col)) | stale
//!   s  <slot dec avail borrowed fees supply> cur_slot col liq
//!        -> total | scaled | c2l | l2c | c2l(l2c) | l2c(c2l) | stale | rate | rate_c2l(col) | rate_l2c(liq)
//!           | rate_c2l(rate_l2c(liq)) | rate_l2c(rate_c2l(col))
//!   d  <cum_interest last_ts decimals> now amount scaled
//!        -> inc(amount) | dec(amount) | withdraw(scaled) | withdraw(inc(amount)) | dec(withdraw(scaled)) | stale
//!   dadj <i128|i64|u64> n (cum_interest raw)*n
//!   dprec decimals | dlimit limit mint_decimals
//!   kpyth <k-reserve 8> cur_slot price ema conf ema_conf     -> "price_bits ema_bits" | E…
//!   kswb  <k-reserve 8> cur_slot value std_dev               -> "value std_dev" | E…
//!   spyth / sswb <s-reserve 6> cur_slot …        dpyth / dswb <d-market 3> now …
use crate::sim;
use crate::util::*;
use anchor_lang::prelude::{AccountInfo, Clock, Pubkey};
use anchor_lang::Discriminator;
use bytemuck::Zeroable;
use drift_mocks::state::MinimalSpotMarket;
use fixed::types::I80F48;
use kamino_mocks::state::MinimalReserve;
use marginfi::state::price::{OraclePriceFeedAdapter, OraclePriceType, PriceAdapter, PriceBias};
use marginfi_type_crate::types::price as tp;
use marginfi_type_crate::types::{Bank, OracleSetup};
use solend_mocks::state::{CollateralExchangeRate, SolendMinimalReserve};

type AResult<T> = anchor_lang::Result<T>;

fn opt_u64(o: Option<u64>) -> String {
    o.map(|v| v.to_string()).unwrap_or_else(|| "NONE".into())
}
fn res_s<T: ToString>(r: AResult<T>) -> String {
    match r {
        Ok(v) => v.to_string(),
        Err(e) => err_tok(&e),
    }
}
fn res_fx(r: AResult<I80F48>) -> String {
    match r {
        Ok(v) => v.to_bits().to_string(),
        Err(e) => err_tok(&e),
    }
}
fn res_pair(r: AResult<(I80F48, I80F48)>) -> String {
    match r {
        Ok((a, b)) => format!("{} {}", a.to_bits(), b.to_bits()),
        Err(e) => err_tok(&e),
    }
}
/// second = g(first) when first is Ok, else "-"
fn then_s(first: &AResult<u64>, g: impl FnOnce(u64) -> AResult<u64>) -> String {
    match first {
        Ok(v) => res_s(g(*v)),
        Err(_) => "-".into(),
    }
}

fn parse_k(t: &mut Toks) -> Box<MinimalReserve> {
    let mut r: Box<MinimalReserve> = Box::new(MinimalReserve::zeroed());
    r.slot = t.u64();
    r.available_amount = t.u64();
    r.borrowed_amount_sf = t.u128().to_le_bytes();
    r.accumulated_protocol_fees_sf = t.u128().to_le_bytes();
    r.accumulated_referrer_fees_sf = t.u128().to_le_bytes();
    r.pending_referrer_fees_sf = t.u128().to_le_bytes();
    r.mint_decimals = t.u64();
    r.mint_total_supply = t.u64();
    r
}

fn parse_s(t: &mut Toks) -> SolendMinimalReserve {
    let mut r = SolendMinimalReserve::zeroed();
    r.last_update_slot = t.u64();
    r.liquidity_mint_decimals = t.u8();
    r.liquidity_available_amount = t.u64();
    r.liquidity_borrowed_amount_wads = t.u128().to_le_bytes();
    r.liquidity_accumulated_protocol_fees_wads = t.u128().to_le_bytes();
    r.collateral_mint_total_supply = t.u64();
    r
}

fn parse_d(t: &mut Toks) -> MinimalSpotMarket {
    let mut m = MinimalSpotMarket::default();
    m.cumulative_deposit_interest = t.u128().to_le_bytes();
    m.last_interest_ts = t.u64();
    m.decimals = t.u32();
    m
}

const NOW: i64 = 1_700_000_000;

/// 8-aligned account data = discriminator + struct bytes
fn account_bytes(disc: &[u8], body: &[u8]) -> Vec<u64> {
    let n = disc.len() + body.len();
    let mut v = vec![0u64; (n + 7) / 8];
    {
        let b: &mut [u8] = bytemuck::cast_slice_mut(&mut v);
        b[..disc.len()].copy_from_slice(disc);
        b[disc.len()..n].copy_from_slice(body);
    }
    v
}

/// Run the real `OraclePriceFeedAdapter::try_from_bank_with_max_age` for an integration oracle setup:
/// accounts = [oracle (Pyth PriceUpdateV2 / Switchboard pull feed), venue reserve / spot market].
fn adapter(
    setup: OracleSetup,
    mut oracle_data: Vec<u8>,
    oracle_owner: Pubkey,
    venue_words: &mut Vec<u64>,
    venue_len: usize,
    venue_owner: Pubkey,
    slot: u64,
    unix_timestamp: i64,
) -> AResult<OraclePriceFeedAdapter> {
    sim::runtime::set_global_clock_slot(unix_timestamp, slot);
    let okey = Pubkey::new_from_array([7u8; 32]);
    let vkey = Pubkey::new_from_array([9u8; 32]);
    let mut bank: Box<Bank> = Box::new(Bank::zeroed());
    bank.config.oracle_setup = setup;
    bank.config.oracle_keys[0] = okey;
    bank.config.oracle_keys[1] = vkey;
    let clock = Clock { slot, unix_timestamp, ..Clock::default() };
    let (mut l0, mut l1) = (1u64, 1u64);
    let vbytes: &mut [u8] = &mut bytemuck::cast_slice_mut::<u64, u8>(venue_words)[..venue_len];
    let ais = [
        AccountInfo::new(&okey, false, false, &mut l0, &mut oracle_data[..], &oracle_owner, false, 0),
        AccountInfo::new(&vkey, false, false, &mut l1, vbytes, &venue_owner, false, 0),
    ];
    // the adapter wants `&'info [AccountInfo<'info>]`; the accounts outlive the call
    let ais_static: &'static [AccountInfo<'static>] = unsafe { std::mem::transmute(&ais[..]) };
    OraclePriceFeedAdapter::try_from_bank_with_max_age(&bank, ais_static, &clock, 60)
}

fn pyth_bytes(t: &mut Toks) -> Vec<u8> {
    let price = t.i64();
    let ema = t.i64();
    let conf = t.u64();
    let ema_conf = t.u64();
    sim::fixtures::pyth_price_update_v2_bytes([3u8; 32], price, conf, 0, ema, ema_conf, NOW, 1)
}

fn swb_bytes(t: &mut Toks) -> Vec<u8> {
    let value = t.i128();
    let std_dev = t.i128();
    let mut w = sim::World::new();
    let k = sim::fixtures::mk_switchboard_pull_oracle(&mut w, value, std_dev, NOW);
    w.accounts.get(&k).expect("swb account").data.clone()
}

fn pyth_out(r: AResult<OraclePriceFeedAdapter>) -> String {
    match r {
        Err(e) => err_tok(&e),
        Ok(a) => {
            let p = a.get_price_of_type(OraclePriceType::RealTime, None, 0);
            let e = a.get_price_of_type(OraclePriceType::TimeWeighted, None, 0);
            // the adjusted confidences are private fields: observed through the low-biased prices
            let lp = guarded(|| res_fx(a.get_price_of_type(OraclePriceType::RealTime, Some(PriceBias::Low), 0)));
            let le = guarded(|| res_fx(a.get_price_of_type(OraclePriceType::TimeWeighted, Some(PriceBias::Low), 0)));
            format!("{} {} {} {}", res_fx(p), res_fx(e), lp, le)
        }
    }
}

fn swb_out(r: AResult<OraclePriceFeedAdapter>) -> String {
    match r {
        Err(e) => err_tok(&e),
        Ok(OraclePriceFeedAdapter::SwitchboardPull(f)) => {
            format!("{} {}", f.feed.result.value, f.feed.result.std_dev)
        }
        Ok(_) => "WRONG-ADAPTER".into(),
    }
}

fn venue_k(r: &MinimalReserve) -> (Vec<u64>, usize) {
    let body = bytemuck::bytes_of(r);
    let d = MinimalReserve::DISCRIMINATOR;
    (account_bytes(d, body), d.len() + body.len())
}
fn venue_s(r: &SolendMinimalReserve) -> (Vec<u64>, usize) {
    let body = bytemuck::bytes_of(r);
    let d = SolendMinimalReserve::DISCRIMINATOR;
    (account_bytes(d, body), d.len() + body.len())
}
fn venue_d(m: &MinimalSpotMarket) -> (Vec<u64>, usize) {
    let body = bytemuck::bytes_of(m);
    let d = MinimalSpotMarket::DISCRIMINATOR;
    (account_bytes(d, body), d.len() + body.len())
}

pub fn run(line: &str) -> String {
    let mut t = Toks::new(line);
    let op = t.s();
    let mut out: Vec<String> = Vec::new();
    match op {
        "consts" => {
            use drift_mocks::constants as dc;
            out.push(format!(
                "{} {} {}",
                dc::SPOT_CUMULATIVE_INTEREST_PRECISION,
                dc::DRIFT_PRECISION_EXP,
                dc::DRIFT_SCALED_BALANCE_DECIMALS
            ));
            out.push(dc::EXP_10.iter().map(|v| v.to_string()).collect::<Vec<_>>().join(" "));
            out.push(dc::EXP_10_I80F48.iter().map(|v| v.to_bits().to_string()).collect::<Vec<_>>().join(" "));
            out.push(format!(
                "{} {} {} {} {} {}",
                u32::from(drift_mocks::DriftMocksError::ScalingOverflow),
                u32::from(drift_mocks::DriftMocksError::MathError),
                u32::from(kamino_mocks::KaminoMocksError::MathError),
                u32::from(solend_mocks::SolendMocksError::MathError),
                u32::from(solend_mocks::SolendMocksError::ReserveStale),
                u32::from(anchor_lang::error::ErrorCode::InvalidNumericConversion),
            ));
            out.push(
                marginfi_type_crate::constants::EXP_10_I80F48
                    .iter()
                    .map(|v| v.to_bits().to_string())
                    .collect::<Vec<_>>()
                    .join(" "),
            );
        }
        "i80" => {
            let x = t.i128();
            out.push(guarded(|| opt_fx(tp::i80_from_i128_checked(x))));
        }
        "adj" => {
            let kind = t.s();
            let n = t.usize();
            for _ in 0..n {
                match kind {
                    "i128" => {
                        let raw = t.i128();
                        let r = t.fx();
                        out.push(guarded(|| match tp::adjust_i128(raw, r) {
                            Some(v) => v.to_string(),
                            None => "NONE".into(),
                        }));
                    }
                    "i64" => {
                        let raw = t.i64();
                        let r = t.fx();
                        out.push(guarded(|| match tp::adjust_i64(raw, r) {
                            Some(v) => v.to_string(),
                            None => "NONE".into(),
                        }));
                    }
                    "u64" => {
                        let raw = t.u64();
                        let r = t.fx();
                        out.push(guarded(|| opt_u64(tp::adjust_u64(raw, r))));
                    }
                    _ => panic!("bad kind"),
                }
            }
        }
        "c2l" | "l2c" => {
            let n = t.usize();
            for _ in 0..n {
                let a = t.u64();
                let tl = t.fx();
                let tc = t.fx();
                out.push(guarded(|| {
                    opt_u64(if op == "c2l" {
                        tp::collateral_to_liquidity_from_scaled(a, tl, tc)
                    } else {
                        tp::liquidity_to_collateral_from_scaled(a, tl, tc)
                    })
                }));
            }
        }
        "ratio" => {
            let tl = t.fx();
            let tc = t.fx();
            out.push(guarded(|| opt_fx(tp::liq_to_col_ratio(tl, tc))));
            out.push(guarded(|| opt_fx(tp::col_to_liq_ratio(tl, tc))));
        }
        "scale" => {
            let tl = t.fx();
            let tc = t.u64();
            let d = t.u8();
            out.push(guarded(|| match tp::scale_supplies(tl, tc, d) {
                Some((a, b)) => format!("{} {}", a.to_bits(), b.to_bits()),
                None => "NONE".into(),
            }));
        }
        "convdec" => {
            let n = t.fx();
            let f = t.u8();
            let to = t.u8();
            out.push(guarded(|| opt_fx(tp::convert_decimals(n, f, to))));
        }
        "u68" => {
            let b = t.u128();
            out.push(guarded(|| kamino_mocks::state::u68f60_to_i80f48(b.to_le_bytes()).to_bits().to_string()));
        }
        "dec2fx" => {
            let b = t.u128();
            out.push(guarded(|| res_fx(solend_mocks::state::decimal_to_i80f48(b.to_le_bytes()))));
        }
        "k" => {
            let r = parse_k(&mut t);
            let cur = t.u64();
            let col = t.u64();
            let liq = t.u64();
            out.push(guarded(|| r.calculate_total_supply_i80f48().to_bits().to_string()));
            out.push(guarded(|| res_pair(r.scaled_supplies())));
            out.push(guarded(|| res_s(r.collateral_to_liquidity(col))));
            out.push(guarded(|| res_s(r.liquidity_to_collateral(liq))));
            out.push(guarded(|| then_s(&r.liquidity_to_collateral(liq), |c| r.collateral_to_liquidity(c))));
            out.push(guarded(|| then_s(&r.collateral_to_liquidity(col), |l| r.liquidity_to_collateral(l))));
            out.push(guarded(|| format!("B{}", r.is_stale(cur) as u8)));
        }
        "s" => {
            let r = parse_s(&mut t);
            let cur = t.u64();
            let col = t.u64();
            let liq = t.u64();
            sim::runtime::set_global_clock_slot(NOW, cur);
            out.push(guarded(|| res_fx(r.calculate_total_liquidity())));
            out.push(guarded(|| res_pair(r.scaled_supplies())));
            out.push(guarded(|| res_s(r.collateral_to_liquidity(col))));
            out.push(guarded(|| res_s(r.liquidity_to_collateral(liq))));
            out.push(guarded(|| then_s(&r.liquidity_to_collateral(liq), |c| r.collateral_to_liquidity(c))));
            out.push(guarded(|| then_s(&r.collateral_to_liquidity(col), |l| r.liquidity_to_collateral(l))));
            out.push(guarded(|| match r.is_stale() {
                Ok(b) => format!("B{}", b as u8),
                Err(e) => err_tok(&e),
            }));
            let rate = guarded(|| match CollateralExchangeRate::from_reserve(&r) {
                Ok(x) => x.0.to_bits().to_string(),
                Err(e) => err_tok(&e),
            });
            out.push(rate);
            match CollateralExchangeRate::from_reserve(&r) {
                Ok(x) => {
                    out.push(guarded(|| res_s(x.collateral_to_liquidity(col))));
                    out.push(guarded(|| res_s(x.liquidity_to_collateral(liq))));
                    out.push(guarded(|| then_s(&x.liquidity_to_collateral(liq), |c| x.collateral_to_liquidity(c))));
                    out.push(guarded(|| then_s(&x.collateral_to_liquidity(col), |l| x.liquidity_to_collateral(l))));
                }
                Err(_) => {
                    for _ in 0..4 {
                        out.push("-".into());
                    }
                }
            }
        }
        "d" => {
            let m = parse_d(&mut t);
            let now = t.i64();
            let amount = t.u64();
            let sb = t.u64();
            out.push(guarded(|| res_s(m.get_scaled_balance_increment(amount))));
            out.push(guarded(|| res_s(m.get_scaled_balance_decrement(amount))));
            out.push(guarded(|| res_s(m.get_withdraw_token_amount(sb))));
            out.push(guarded(|| then_s(&m.get_scaled_balance_increment(amount), |s| m.get_withdraw_token_amount(s))));
            out.push(guarded(|| then_s(&m.get_withdraw_token_amount(sb), |a| m.get_scaled_balance_decrement(a))));
            out.push(guarded(|| format!("B{}", m.is_stale(now) as u8)));
        }
        "dadj" => {
            let kind = t.s();
            let n = t.usize();
            for _ in 0..n {
                let mut m = MinimalSpotMarket::default();
                m.cumulative_deposit_interest = t.u128().to_le_bytes();
                match kind {
                    "i128" => {
                        let raw = t.i128();
                        out.push(guarded(|| res_s(m.adjust_i128(raw))));
                    }
                    "i64" => {
                        let raw = t.i64();
                        // adjust_oracle_price delegates to adjust_i64; both must agree
                        out.push(guarded(|| {
                            let a = res_s(m.adjust_i64(raw));
                            let b = res_s(m.adjust_oracle_price(raw));
                            if a == b {
                                a
                            } else {
                                format!("MISMATCH {} {}", a, b)
                            }
                        }));
                    }
                    "u64" => {
                        let raw = t.u64();
                        out.push(guarded(|| res_s(m.adjust_u64(raw))));
                    }
                    _ => panic!("bad kind"),
                }
            }
        }
        "dprec" => {
            let d = t.u32();
            out.push(guarded(|| res_s(drift_mocks::constants::get_precision_increase(d))));
        }
        "dlimit" => {
            let l = t.u64();
            let d = t.u8();
            out.push(guarded(|| res_fx(drift_mocks::constants::scale_drift_deposit_limit(l, d))));
        }
        "kpyth" | "kswb" => {
            let r = parse_k(&mut t);
            let cur = t.u64();
            let (mut words, len) = venue_k(&r);
            if op == "kpyth" {
                let od = pyth_bytes(&mut t);
                out.push(guarded(|| {
                    pyth_out(adapter(OracleSetup::KaminoPythPush, od, sim::fixtures::PYTH_RECEIVER_ID, &mut words, len, kamino_mocks::ID, cur, NOW))
                }));
            } else {
                let od = swb_bytes(&mut t);
                out.push(guarded(|| {
                    swb_out(adapter(OracleSetup::KaminoSwitchboardPull, od, sim::fixtures::SWITCHBOARD_PULL_ID, &mut words, len, kamino_mocks::ID, cur, NOW))
                }));
            }
        }
        "spyth" | "sswb" => {
            let r = parse_s(&mut t);
            let cur = t.u64();
            let (mut words, len) = venue_s(&r);
            if op == "spyth" {
                let od = pyth_bytes(&mut t);
                out.push(guarded(|| {
                    pyth_out(adapter(OracleSetup::SolendPythPull, od, sim::fixtures::PYTH_RECEIVER_ID, &mut words, len, solend_mocks::ID, cur, NOW))
                }));
            } else {
                let od = swb_bytes(&mut t);
                out.push(guarded(|| {
                    swb_out(adapter(OracleSetup::SolendSwitchboardPull, od, sim::fixtures::SWITCHBOARD_PULL_ID, &mut words, len, solend_mocks::ID, cur, NOW))
                }));
            }
        }
        "dpyth" | "dswb" => {
            let m = parse_d(&mut t);
            let now = t.i64();
            let (mut words, len) = venue_d(&m);
            if op == "dpyth" {
                // the Pyth update is published `now` so that only the venue can be stale
                let price = t.i64();
                let ema = t.i64();
                let conf = t.u64();
                let ema_conf = t.u64();
                // optional trailing token: the age of the Pyth update (published `now - age`, below the 60 s default max age), so
                // that a venue refreshed AFTER the publication but BEFORE now is exercised; without it: published `now`
                let age = if t.done() { 0 } else { t.i64() };
                let od = sim::fixtures::pyth_price_update_v2_bytes([3u8; 32], price, conf, 0, ema, ema_conf, now - age, 1);
                out.push(guarded(|| {
                    pyth_out(adapter(OracleSetup::DriftPythPull, od, sim::fixtures::PYTH_RECEIVER_ID, &mut words, len, drift_mocks::ID, 1000, now))
                }));
            } else {
                let value = t.i128();
                let std_dev = t.i128();
                let age = if t.done() { 0 } else { t.i64() };
                let mut w = sim::World::new();
                let k = sim::fixtures::mk_switchboard_pull_oracle(&mut w, value, std_dev, now - age);
                let od = w.accounts.get(&k).expect("swb account").data.clone();
                out.push(guarded(|| {
                    swb_out(adapter(OracleSetup::DriftSwitchboardPull, od, sim::fixtures::SWITCHBOARD_PULL_ID, &mut words, len, drift_mocks::ID, 1000, now))
                }));
            }
        }
        _ => panic!("bad op"),
    }
    out.join(" | ")
}
