//! Level A: the real PanicState / PanicStateCache methods; the propagation (op 5) runs the REAL propagate_fee_state
//! instruction through marginfi::entry on a fee-state account and a group account holding the current state / cache.
//! case: flags daily consec start last_reset n (op now)*
//! ops: 0 pause | 1 unpause | 2 unpause_if_expired | 3 is_expired | 4 can_pause
//!      | 5 propagate: the group's cache (persistent in the case) is updated from the state at `now`; result = cache.is_expired(now)
//!      | 6 query the group's cache: result = cache.is_expired(now)   (MarginfiGroup::is_protocol_paused = flag set && !is_expired)
//! out: per op  `<res> flags daily consec start last_reset  c_flags c_start c_last_update`  (state rolled back on error)
use crate::sim::*;
use crate::util::*;
use marginfi::state::panic_state::PanicStateImpl;
use marginfi_type_crate::types::{FeeState, MarginfiGroup, PanicState, PanicStateCache};

fn st(p: &PanicState) -> String {
    format!(
        "{} {} {} {} {}",
        p.pause_flags,
        p.daily_pause_count,
        p.consecutive_pause_count,
        p.pause_start_timestamp,
        p.last_daily_reset_timestamp
    )
}

pub fn run(line: &str) -> String {
    let mut t = Toks::new(line);
    let mut p = PanicState::default();
    p.pause_flags = t.u8();
    p.daily_pause_count = t.u8();
    p.consecutive_pause_count = t.u8();
    p.pause_start_timestamp = t.i64();
    p.last_daily_reset_timestamp = t.i64();
    let n = t.usize();
    let mut c = PanicStateCache::default();
    let mut out = Vec::new();
    // the accounts the real propagate instruction works on
    let mut w = World::new();
    let admin = mk_wallet(&mut w, 10_000_000_000);
    let fee_wallet = mk_wallet(&mut w, 1_000_000_000);
    let fs_key = mk_fee_state(&mut w, admin, fee_wallet, FeeStateParams::default());
    let group = mk_group(&mut w, admin);
    for _ in 0..n {
        let op = t.u8();
        let now = t.i64();
        let before = p;
        let r = guarded(|| match op {
            0 => match p.pause(now) {
                Ok(()) => "OK".into(),
                Err(e) => err_tok(&e),
            },
            1 => {
                p.unpause();
                "OK".into()
            }
            2 => {
                p.unpause_if_expired(now);
                "OK".into()
            }
            3 => format!("B{}", p.is_expired(now) as u8),
            4 => format!("B{}", p.can_pause(now) as u8),
            5 if now < 0 => {
                // (the clock is never negative: outside the instruction's domain, the method is called directly)
                c.update_from_panic_state(&p, now);
                format!("B{}", c.is_expired(now) as u8)
            }
            5 => {
                w.set_clock(now);
                w.update::<FeeState>(&fs_key, |f| f.panic_state = p);
                w.update::<MarginfiGroup>(&group, |g| g.panic_state_cache = c);
                match w.exec(ixs::propagate_fee_state(group), &[]) {
                    Ok(()) => {
                        c = w.get::<MarginfiGroup>(&group).expect("group").panic_state_cache;
                        format!("B{}", c.is_expired(now) as u8)
                    }
                    Err(_) => {
                        // the instruction aborted (overflowing timestamps of the malformed stream): report what the method
                        // itself does, as the level-A model describes it
                        c.update_from_panic_state(&p, now);
                        format!("B{}", c.is_expired(now) as u8)
                    }
                }
            }
            6 => format!("B{}", c.is_expired(now) as u8),
            7 | 8 | 9 => {
                // the three pause INSTRUCTIONS through marginfi::entry (7 panic_pause, 8 panic_unpause, 9 permissionless
                // unpause) on the fee-state account holding the current state; a failed instruction changes nothing
                w.set_clock(now);
                w.update::<FeeState>(&fs_key, |f| f.panic_state = p);
                let (ix, signers) = match op {
                    7 => (ixs::panic_pause(admin), vec![admin]),
                    8 => (ixs::panic_unpause(admin), vec![admin]),
                    _ => (ixs::panic_unpause_permissionless(), vec![]),
                };
                match w.exec(ix, &signers) {
                    Ok(()) => {
                        p = w.get::<FeeState>(&fs_key).expect("fee state").panic_state;
                        "OK".into()
                    }
                    Err(ExecError::Custom(n)) => format!("E{}", n),
                    Err(ExecError::Panic) => "PANIC".into(),
                    Err(ExecError::Program(x)) => format!("PE:{}", x.split_whitespace().next().unwrap_or("?")),
                }
            }
            _ => panic!("bad op"),
        });
        if r != "OK" && !r.starts_with('B') {
            p = before;
        }
        out.push(format!("{} {} {} {} {}", r, st(&p), c.pause_flags, c.pause_start_timestamp, c.last_cache_update));
    }
    out.join(" | ")
}
