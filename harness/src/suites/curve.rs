//! Level A: InterestRateConfig::validate + InterestRateCalc::calc_interest_rate (real code).
//! case: curve_type optimal plateau max ins_fixed ins_ir grp_fixed grp_ir zero hundred (util rate)x5
//!       prog_on prog_fixed prog_rate n ur_1..ur_n
//! out : <validate> | <base lending borrowing group insurance protocol | NONE | PANIC> | ...
use crate::util::*;
use bytemuck::Zeroable;
use marginfi::state::interest_rate::InterestRateConfigImpl;
use marginfi::state::marginfi_group::MarginfiGroupImpl;
use marginfi_type_crate::types::{InterestRateConfig, MarginfiGroup, RatePoint};

pub fn parse_ir(t: &mut Toks) -> InterestRateConfig {
    let mut c = InterestRateConfig::zeroed();
    c.curve_type = t.u8();
    c.optimal_utilization_rate = t.fx().into();
    c.plateau_interest_rate = t.fx().into();
    c.max_interest_rate = t.fx().into();
    c.insurance_fee_fixed_apr = t.fx().into();
    c.insurance_ir_fee = t.fx().into();
    c.protocol_fixed_fee_apr = t.fx().into();
    c.protocol_ir_fee = t.fx().into();
    c.zero_util_rate = t.u32();
    c.hundred_util_rate = t.u32();
    for i in 0..5 {
        let u = t.u32();
        let r = t.u32();
        c.points[i] = RatePoint::new(u, r);
    }
    c
}

pub fn parse_group_fees(t: &mut Toks) -> MarginfiGroup {
    let mut g = MarginfiGroup::zeroed();
    let on = t.bool();
    g.set_program_fee_enabled(on);
    g.fee_state_cache.program_fee_fixed = t.fx().into();
    g.fee_state_cache.program_fee_rate = t.fx().into();
    g
}

pub fn run(line: &str) -> String {
    let mut t = Toks::new(line);
    let c = parse_ir(&mut t);
    let g = parse_group_fees(&mut t);
    let n = t.usize();
    let mut out = Vec::new();
    out.push(guarded(|| match c.validate() {
        Ok(()) => "OK".into(),
        Err(e) => err_tok(&e),
    }));
    for _ in 0..n {
        let ur = t.fx();
        out.push(guarded(|| {
            let calc = c.create_interest_rate_calculator(&g);
            match calc.calc_interest_rate(ur) {
                None => "NONE".into(),
                Some(r) => format!(
                    "{} {} {} {} {} {}",
                    r.base_rate_apr.to_bits(),
                    r.lending_rate_apr.to_bits(),
                    r.borrowing_rate_apr.to_bits(),
                    r.group_fee_apr.to_bits(),
                    r.insurance_fee_apr.to_bits(),
                    r.protocol_fee_apr.to_bits()
                ),
            }
        }));
    }
    out.join(" | ")
}
