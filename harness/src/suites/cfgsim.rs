//! Level C for C13: sequences of admin instructions executed by the REAL handlers (through
//! `marginfi::entry`) in the sim runtime; the modelled part of the bank bytes is dumped after every
//! successful instruction.
//!
//! World: fee state (no flat fee), one group whose every admin role is `admin`, one SPL mint, banks 0
//! and 1 (absent until an ADD step creates them with the real lending_pool_add_bank), bank 2 (a
//! staked-collateral bank placed by fixture: asset tag STAKED, config given in the header, oracle key
//! identity 1), the group's StakedSettings PDA (absent until SSI).
//!
//! case: now <cfg bank2> flags2 n step_1 .. step_n          (<cfg>, <opt> as in suite `config`)
//!   ADD i <compact>        lending_pool_add_bank        compact = awi awm lwi lwm dep insf insr grpf grpr orig zero hundred (u r)x5 op bor tier tag lim age conf
//!   ADS i <compact>        lending_pool_add_bank_with_seed (seed = i)
//!   CFG i <opt>            lending_pool_configure_bank
//!   IRO i <iropt>          lending_pool_configure_bank_interest_only
//!   LIM i od ob ol         lending_pool_configure_bank_limits_only
//!   EM  i tag (tag flags init maint)x10   lending_pool_configure_bank_emode
//!   CL  i j                lending_pool_clone_emode (from i to j)
//!   GC  oi om              marginfi_group_configure (admins unchanged, leverage caps oi / om)
//!   SSI <staked>           init_staked_settings      staked = oracle awi awm dep lim age tier
//!   SSE <stakedopt>        edit_staked_settings      7 options in field order
//!   PR                     propagate_staked_settings to bank 2 (no remaining accounts)
//!   MIG i                  migrate_curve (permissionless)
//!   HP k (i liab shares price)xk   health probe: fixture balances + Fixed prices, the real lending_account_pulse_health; store restored
//!   KILL i                 fixture debt + the real lending_pool_handle_bankruptcy: bank i ends KilledByBankruptcy
//! out: G ci cm B2 <bank dump> | step | step ...
//!   step = OK B<i> <bank dump> | OK G ci cm | OK S <staked dump> | H ai li am lm | E<code> | PANIC | PE:<text> | ABSENT | EXISTS
use crate::sim::fixtures::*;
use crate::sim::ixs;
use crate::sim::runtime::{ExecError, Ix, World};
use crate::suites::config::*;
use crate::util::*;
use anchor_lang::prelude::AccountMeta;
use fixed::types::I80F48;
use marginfi::{accounts as acc, instruction as ixd};
use marginfi_type_crate::constants::{discriminators, ASSET_TAG_STAKED, STAKED_SETTINGS_SEED};
use marginfi_type_crate::types::{
    Balance, Bank, BankConfigCompact, BankOperationalState, InterestRateConfigCompact, MarginfiAccount,
    MarginfiGroup, OracleSetup, RatePoint, StakedSettings, WrappedI80F48,
};
use solana_program::pubkey::Pubkey;
use solana_program::system_program;

fn err_s(e: &ExecError) -> String {
    match e {
        ExecError::Custom(n) => format!("E{}", n),
        ExecError::Panic => "PANIC".into(),
        ExecError::Program(s) => format!("PE:{}", s.replace(' ', "_")),
    }
}

fn parse_compact(t: &mut Toks) -> BankConfigCompact {
    let awi = t.fx().into();
    let awm = t.fx().into();
    let lwi = t.fx().into();
    let lwm = t.fx().into();
    let dep = t.u64();
    let mut ir = InterestRateConfigCompact::default();
    ir.insurance_fee_fixed_apr = t.fx().into();
    ir.insurance_ir_fee = t.fx().into();
    ir.protocol_fixed_fee_apr = t.fx().into();
    ir.protocol_ir_fee = t.fx().into();
    ir.protocol_origination_fee = t.fx().into();
    ir.zero_util_rate = t.u32();
    ir.hundred_util_rate = t.u32();
    for i in 0..5 {
        let u = t.u32();
        let r = t.u32();
        ir.points[i] = RatePoint::new(u, r);
    }
    let op = op_state(t.u8());
    let bor = t.u64();
    let tier = risk_tier(t.u8());
    let tag = t.u8();
    let lim = t.u64();
    let age = t.u16();
    let conf = t.u32();
    BankConfigCompact {
        asset_weight_init: awi,
        asset_weight_maint: awm,
        liability_weight_init: lwi,
        liability_weight_maint: lwm,
        deposit_limit: dep,
        interest_rate_config: ir,
        operational_state: op,
        borrow_limit: bor,
        risk_tier: tier,
        asset_tag: tag,
        config_flags: 1,
        _pad0: [0; 5],
        total_asset_value_init_limit: lim,
        oracle_max_age: age,
        oracle_max_confidence: conf,
    }
}

fn opt_tok<T>(t: &mut Toks, f: impl FnOnce(&mut Toks) -> T) -> Option<T> {
    match t.s() {
        "N" => None,
        "S" => Some(f(t)),
        x => panic!("bad option token {}", x),
    }
}

fn dump_staked(s: &StakedSettings) -> String {
    format!(
        "{} {} {} {} {} {} {}",
        okey_tok(&s.oracle),
        fxb(s.asset_weight_init),
        fxb(s.asset_weight_maint),
        s.deposit_limit,
        s.total_asset_value_init_limit,
        s.oracle_max_age,
        s.risk_tier as u8
    )
}

struct Env {
    w: World,
    admin: Pubkey,
    fee_wallet: Pubkey,
    group: Pubkey,
    mint: Pubkey,
    banks: [Pubkey; 3],
    kp: [Pubkey; 2],
    settings: Pubkey,
}

impl Env {
    fn bank_exists(&self, i: usize) -> bool {
        self.w.account(&self.banks[i]).map(|a| a.owner == marginfi::ID && !a.data.is_empty()).unwrap_or(false)
    }
    fn dump(&self, i: usize) -> String {
        let b: Bank = self.w.get::<Bank>(&self.banks[i]).expect("bank vanished");
        format!("B{} {}", i, dump_bank(&b))
    }
    fn caps(&self) -> String {
        let g: MarginfiGroup = self.w.get::<MarginfiGroup>(&self.group).unwrap();
        format!("G {} {}", g.emode_max_init_leverage, g.emode_max_maint_leverage)
    }
    fn exec(&mut self, ix: Ix, signers: &[Pubkey]) -> Result<(), ExecError> {
        self.w.exec(ix, signers)
    }
}

fn kill_bank(e: &mut Env, i: usize) -> Result<(), ExecError> {
    // debt "as if" lent and borrowed: one depositor's 1000 shares, one borrower owing 1000 shares, no
    // collateral left, no insurance: socialize_loss wipes the bank out and the REAL handler kills it
    let bank = e.banks[i];
    let now = e.w.unix_timestamp;
    e.w.update::<Bank>(&bank, |b| {
        b.config.oracle_setup = OracleSetup::Fixed;
        b.config.oracle_keys[0] = Pubkey::default();
        b.config.fixed_price = I80F48::ONE.into();
        b.config.operational_state = BankOperationalState::Operational;
        b.total_asset_shares = I80F48::from_num(1000).into();
        b.total_liability_shares = I80F48::from_num(1000).into();
        b.asset_share_value = I80F48::ONE.into();
        b.liability_share_value = I80F48::ONE.into();
        b.last_update = now;
        b.borrowing_position_count = 1;
        b.lending_position_count = 1;
    });
    // the bankruptcy handler is a "standard" instruction: it refuses integration asset tags, which
    // configure_bank can set freely; the tag is put back after the external event
    let asset_tag_saved = e.w.get::<Bank>(&bank).unwrap().config.asset_tag;
    let asset_tag = 0u8;
    e.w.update::<Bank>(&bank, |b| b.config.asset_tag = asset_tag);
    let borrower = mk_marginfi_account(&mut e.w, e.group, e.admin);
    e.w.update::<MarginfiAccount>(&borrower, |a| {
        let mut bal = Balance::empty_deactivated();
        bal.active = 1;
        bal.bank_pk = bank;
        bal.bank_asset_tag = asset_tag;
        bal.liability_shares = I80F48::from_num(1000).into();
        bal.last_update = now as u64;
        a.lending_account.balances[0] = bal;
    });
    let ix = ixs::lending_pool_handle_bankruptcy(
        e.group,
        e.admin,
        bank,
        borrower,
        spl_token::ID,
        vec![AccountMeta::new_readonly(bank, false)],
    );
    let admin = e.admin;
    let r = e.exec(ix, &[admin]);
    e.w.update::<Bank>(&bank, |b| b.config.asset_tag = asset_tag_saved);
    r
}

/// Observation only (the store is restored afterwards): give every probed bank a Fixed oracle with
/// the given price and unit share values, build an account holding the given balances by fixture and
/// run the REAL lending_account_pulse_health; report the Initial and Maintenance components it cached.
fn health_probe(e: &mut Env, pos: &[(usize, bool, I80F48, I80F48)]) -> String {
    let snapshot = e.w.accounts.clone();
    let now = e.w.unix_timestamp;
    for &(i, liab, shares, price) in pos {
        e.w.update::<Bank>(&e.banks[i].clone(), |b| {
            b.config.oracle_setup = OracleSetup::Fixed;
            b.config.oracle_keys[0] = Pubkey::default();
            b.config.fixed_price = price.into();
            b.asset_share_value = I80F48::ONE.into();
            b.liability_share_value = I80F48::ONE.into();
            b.total_asset_shares = (if liab { I80F48::ZERO } else { shares }).into();
            b.total_liability_shares = (if liab { shares } else { I80F48::ZERO }).into();
            b.last_update = now;
        });
    }
    let acct = mk_marginfi_account(&mut e.w, e.group, e.admin);
    let mut sorted: Vec<(Pubkey, bool, I80F48, u8)> = pos
        .iter()
        .map(|&(i, liab, shares, _)| (e.banks[i], liab, shares, e.w.get::<Bank>(&e.banks[i]).unwrap().config.asset_tag))
        .collect();
    sorted.sort_by(|a, b| b.0.cmp(&a.0));
    e.w.update::<MarginfiAccount>(&acct, |a| {
        for (j, (bank, liab, shares, tag)) in sorted.iter().enumerate() {
            let mut bal = Balance::empty_deactivated();
            bal.active = 1;
            bal.bank_pk = *bank;
            bal.bank_asset_tag = *tag;
            if *liab {
                bal.liability_shares = (*shares).into();
            } else {
                bal.asset_shares = (*shares).into();
            }
            bal.last_update = now as u64;
            a.lending_account.balances[j] = bal;
        }
    });
    let rem = remaining_for(&e.w, &acct, &[]);
    let ix = ixs::lending_account_pulse_health(acct, rem);
    let r = e.exec(ix, &[]);
    let s = match r {
        Ok(()) => {
            let a: MarginfiAccount = e.w.get::<MarginfiAccount>(&acct).unwrap();
            let h = a.health_cache;
            format!("H {} {} {} {}", fxb(h.asset_value), fxb(h.liability_value), fxb(h.asset_value_maint), fxb(h.liability_value_maint))
        }
        Err(x) => err_s(&x),
    };
    e.w.accounts = snapshot;
    s
}

pub fn run(line: &str) -> String {
    let mut t = Toks::new(line);
    let now = t.i64();
    let cfg2 = parse_cfg(&mut t);
    let flags2 = t.u64();
    let n = t.usize();

    let mut w = World::new();
    w.set_clock(now);
    let admin = mk_wallet(&mut w, 1_000_000_000_000);
    let fee_wallet = mk_wallet(&mut w, 1_000_000_000);
    mk_fee_state(&mut w, admin, fee_wallet, FeeStateParams::default());
    let group = mk_group(&mut w, admin);
    let mint = mk_mint(&mut w, 6, TokenProgram::Spl);
    let b0 = w.new_key();
    let b1 = w.new_key();
    // bank 2 by fixture
    let mut p = BankParams::default();
    p.oracle_setup = OracleSetup::StakedWithPythPush;
    p.flags = flags2;
    let b2 = mk_bank(&mut w, group, mint, p);
    w.update::<Bank>(&b2, |b| {
        let keys = b.config.oracle_keys;
        b.config = cfg2;
        b.config.oracle_setup = OracleSetup::StakedWithPythPush;
        b.config.oracle_keys = keys;
        b.config.oracle_keys[0] = okey(1);
        b.config.asset_tag = ASSET_TAG_STAKED;
        b.config.config_flags = 1;
    });
    let settings = Pubkey::find_program_address(&[STAKED_SETTINGS_SEED.as_bytes(), group.as_ref()], &marginfi::ID).0;
    let mut e = Env { w, admin, fee_wallet, group, mint, banks: [b0, b1, b2], kp: [b0, b1], settings };

    let mut out: Vec<String> = Vec::new();
    out.push(format!("{} {}", e.caps(), e.dump(2)));
    for _ in 0..n {
        let op = t.s();
        let s = match op {
            "ADD" | "ADS" => {
                let i = t.usize();
                let cc = parse_compact(&mut t);
                if e.bank_exists(i) {
                    "EXISTS".to_string()
                } else if op == "ADD" {
                    e.banks[i] = e.kp[i];
                    let ix = ixs::lending_pool_add_bank(e.group, e.admin, e.admin, e.fee_wallet, e.mint, e.banks[i], spl_token::ID, cc);
                    let (a, b) = (e.admin, e.banks[i]);
                    match e.exec(ix, &[a, b]) {
                        Ok(()) => format!("OK {}", e.dump(i)),
                        Err(x) => err_s(&x),
                    }
                } else {
                    let seed = i as u64;
                    let bank = Pubkey::find_program_address(&[e.group.as_ref(), e.mint.as_ref(), &seed.to_le_bytes()], &marginfi::ID).0;
                    e.banks[i] = bank;
                    let k = BankKeys::derive(&bank);
                    let ix = ixs::build(
                        acc::LendingPoolAddBankWithSeed {
                            marginfi_group: e.group,
                            admin: e.admin,
                            fee_payer: e.admin,
                            fee_state: fee_state_key(),
                            global_fee_wallet: e.fee_wallet,
                            bank_mint: e.mint,
                            bank,
                            liquidity_vault_authority: k.liquidity_vault_authority,
                            liquidity_vault: k.liquidity_vault,
                            insurance_vault_authority: k.insurance_vault_authority,
                            insurance_vault: k.insurance_vault,
                            fee_vault_authority: k.fee_vault_authority,
                            fee_vault: k.fee_vault,
                            token_program: spl_token::ID,
                            system_program: system_program::ID,
                        },
                        ixd::LendingPoolAddBankWithSeed { bank_config: cc, bank_seed: seed },
                        vec![],
                    );
                    let a = e.admin;
                    match e.exec(ix, &[a]) {
                        Ok(()) => format!("OK {}", e.dump(i)),
                        Err(x) => err_s(&x),
                    }
                }
            }
            "CFG" => {
                let i = t.usize();
                let o = parse_opt(&mut t);
                if !e.bank_exists(i) {
                    "ABSENT".to_string()
                } else {
                    let ix = ixs::lending_pool_configure_bank(e.group, e.admin, e.banks[i], o);
                    let a = e.admin;
                    match e.exec(ix, &[a]) {
                        Ok(()) => format!("OK {}", e.dump(i)),
                        Err(x) => err_s(&x),
                    }
                }
            }
            "IRO" => {
                let i = t.usize();
                let o = parse_ir_opt(&mut t);
                if !e.bank_exists(i) {
                    "ABSENT".to_string()
                } else {
                    let ix = ixs::lending_pool_configure_bank_interest_only(e.group, e.admin, e.banks[i], o);
                    let a = e.admin;
                    match e.exec(ix, &[a]) {
                        Ok(()) => format!("OK {}", e.dump(i)),
                        Err(x) => err_s(&x),
                    }
                }
            }
            "LIM" => {
                let i = t.usize();
                let d = opt_tok(&mut t, |t| t.u64());
                let b = opt_tok(&mut t, |t| t.u64());
                let l = opt_tok(&mut t, |t| t.u64());
                if !e.bank_exists(i) {
                    "ABSENT".to_string()
                } else {
                    let ix = ixs::lending_pool_configure_bank_limits_only(e.group, e.admin, e.banks[i], d, b, l);
                    let a = e.admin;
                    match e.exec(ix, &[a]) {
                        Ok(()) => format!("OK {}", e.dump(i)),
                        Err(x) => err_s(&x),
                    }
                }
            }
            "EM" => {
                let i = t.usize();
                let tag = t.u16();
                let entries = parse_entries(&mut t);
                if !e.bank_exists(i) {
                    "ABSENT".to_string()
                } else {
                    let ix = ixs::lending_pool_configure_bank_emode(e.group, e.admin, e.banks[i], tag, entries);
                    let a = e.admin;
                    match e.exec(ix, &[a]) {
                        Ok(()) => format!("OK {}", e.dump(i)),
                        Err(x) => err_s(&x),
                    }
                }
            }
            "CL" => {
                let i = t.usize();
                let j = t.usize();
                if !e.bank_exists(i) || !e.bank_exists(j) {
                    "ABSENT".to_string()
                } else {
                    let ix = ixs::lending_pool_clone_emode(e.group, e.admin, e.banks[i], e.banks[j]);
                    let a = e.admin;
                    match e.exec(ix, &[a]) {
                        Ok(()) => format!("OK {}", e.dump(j)),
                        Err(x) => err_s(&x),
                    }
                }
            }
            "GC" => {
                let oi: Option<WrappedI80F48> = opt_tok(&mut t, |t| t.fx().into());
                let om: Option<WrappedI80F48> = opt_tok(&mut t, |t| t.fx().into());
                let a = e.admin;
                let ix = ixs::marginfi_group_configure(e.group, a, a, a, a, a, a, a, a, oi, om);
                match e.exec(ix, &[a]) {
                    Ok(()) => format!("OK {}", e.caps()),
                    Err(x) => err_s(&x),
                }
            }
            "SSI" => {
                let s = parse_staked(&mut t);
                if e.w.account(&e.settings).is_some() {
                    "EXISTS".to_string()
                } else {
                    let ix = ixs::build(
                        acc::InitStakedSettings {
                            marginfi_group: e.group,
                            admin: e.admin,
                            fee_payer: e.admin,
                            staked_settings: e.settings,
                            system_program: system_program::ID,
                        },
                        ixd::InitStakedSettings {
                            settings: marginfi::instructions::StakedSettingsConfig {
                                oracle: s.oracle,
                                asset_weight_init: s.asset_weight_init,
                                asset_weight_maint: s.asset_weight_maint,
                                deposit_limit: s.deposit_limit,
                                total_asset_value_init_limit: s.total_asset_value_init_limit,
                                oracle_max_age: s.oracle_max_age,
                                risk_tier: s.risk_tier,
                            },
                        },
                        vec![],
                    );
                    let a = e.admin;
                    match e.exec(ix, &[a]) {
                        Ok(()) => format!("OK S {}", dump_staked(&e.w.get::<StakedSettings>(&e.settings).unwrap())),
                        Err(x) => err_s(&x),
                    }
                }
            }
            "SSE" => {
                let cfg = marginfi::instructions::StakedSettingsEditConfig {
                    oracle: opt_tok(&mut t, |t| okey(t.u8())),
                    asset_weight_init: opt_tok(&mut t, |t| t.fx().into()),
                    asset_weight_maint: opt_tok(&mut t, |t| t.fx().into()),
                    deposit_limit: opt_tok(&mut t, |t| t.u64()),
                    total_asset_value_init_limit: opt_tok(&mut t, |t| t.u64()),
                    oracle_max_age: opt_tok(&mut t, |t| t.u16()),
                    risk_tier: opt_tok(&mut t, |t| risk_tier(t.u8())),
                };
                if e.w.account(&e.settings).is_none() {
                    "ABSENT".to_string()
                } else {
                    let ix = ixs::build(
                        acc::EditStakedSettings { marginfi_group: e.group, admin: e.admin, staked_settings: e.settings },
                        ixd::EditStakedSettings { settings: cfg },
                        vec![],
                    );
                    let a = e.admin;
                    match e.exec(ix, &[a]) {
                        Ok(()) => format!("OK S {}", dump_staked(&e.w.get::<StakedSettings>(&e.settings).unwrap())),
                        Err(x) => err_s(&x),
                    }
                }
            }
            "PR" => {
                if e.w.account(&e.settings).is_none() {
                    "ABSENT".to_string()
                } else {
                    let ix = ixs::build(
                        acc::PropagateStakedSettings { marginfi_group: e.group, staked_settings: e.settings, bank: e.banks[2] },
                        ixd::PropagateStakedSettings {},
                        vec![],
                    );
                    match e.exec(ix, &[]) {
                        Ok(()) => format!("OK {}", e.dump(2)),
                        Err(x) => err_s(&x),
                    }
                }
            }
            "KILL" => {
                let i = t.usize();
                if !e.bank_exists(i) {
                    "ABSENT".to_string()
                } else {
                    match kill_bank(&mut e, i) {
                        Ok(()) => format!("OK {}", e.dump(i)),
                        Err(x) => err_s(&x),
                    }
                }
            }
            "MIG" => {
                let i = t.usize();
                if !e.bank_exists(i) {
                    "ABSENT".to_string()
                } else {
                    let ix = ixs::build(acc::MigrateCurve { bank: e.banks[i] }, ixd::MigrateCurve {}, vec![]);
                    match e.exec(ix, &[]) {
                        Ok(()) => format!("OK {}", e.dump(i)),
                        Err(x) => err_s(&x),
                    }
                }
            }
            "HP" => {
                let k = t.usize();
                let mut pos: Vec<(usize, bool, I80F48, I80F48)> = Vec::new();
                for _ in 0..k {
                    let i = t.usize();
                    let liab = t.bool();
                    let shares = t.fx();
                    let price = t.fx();
                    pos.push((i, liab, shares, price));
                }
                if pos.iter().any(|p| !e.bank_exists(p.0)) {
                    "ABSENT".to_string()
                } else {
                    health_probe(&mut e, &pos)
                }
            }
            x => panic!("unknown step {}", x),
        };
        out.push(s);
    }
    let _ = discriminators::BANK;
    let _ = BankOperationalState::Paused;
    out.join(" | ")
}
