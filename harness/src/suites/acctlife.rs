//! Account lifecycle (C16): the REAL `marginfi_account_close` and `transfer_to_new_account`
//! instructions (through marginfi::entry in the sim runtime) on marginfi accounts whose bytes are
//! written from the case line.
//! case: na now paused  <acct>*na  nops <op>*
//!   acct: 0 | 1 flags auth group mto mfrom emis last_update nbal (idx active bank tag a l em last)*nbal
//!         auth / emis : wallet id 1..9 (0 = Pubkey::default()); group: 1 = the group passed to the
//!         instructions, 2 = another group; mto / mfrom : key id (0 default, k = key of slot k-1, else foreign)
//!   ops : 1 a signer                      marginfi_account_close
//!         2 old new signer new_auth fw    transfer_to_new_account (fw: 20 = the real global fee wallet, else wallet id)
//!         6 old new signer new_auth fw    transfer_to_new_account_pda (same arguments; the new account is a PDA)
//!         3 a flags                       poke account_flags (scaffolding)
//!         4 t                             clock
//!         5 p                             protocol paused (group.panic_state_cache)
//! out : per op `<res> # <acct dump>;...` joined by " | "; acct dump = `X` (no marginfi account) or
//!       `flags auth group mto mfrom emis last_update b0,...,b15` with b = active:bank:tag:a:l:em:last
use crate::sim::*;
use crate::suites::bankops::{bank_pk, pk_id};
use crate::util::*;
use anchor_lang::prelude::Pubkey;
use bytemuck::Zeroable;
use fixed::types::I80F48;
use marginfi_type_crate::constants::discriminators;
use marginfi_type_crate::types::{MarginfiAccount, MarginfiGroup};

struct Lw {
    w: World,
    group: Pubkey,
    group2: Pubkey,
    wallets: Vec<Pubkey>, // index 1..=9 (0 unused)
    fee_wallet: Pubkey,
    fee_payer: Pubkey,
    accts: Vec<Pubkey>,
    paused: bool,
}

fn err_s(e: &ExecError) -> String {
    match e {
        ExecError::Custom(n) => format!("E{}", n),
        ExecError::Program(s) => format!("PE:{}", s.split_whitespace().next().unwrap_or("?")),
        ExecError::Panic => "PANIC".into(),
    }
}

fn foreign_key(id: u64) -> Pubkey {
    let h = solana_program::hash::hashv(&[b"acctlife-foreign", &id.to_le_bytes()]);
    Pubkey::new_from_array(h.to_bytes())
}

impl Lw {
    fn wallet(&self, id: u64) -> Pubkey {
        if id == 0 {
            Pubkey::default()
        } else {
            self.wallets[id as usize]
        }
    }
    fn wallet_id(&self, k: &Pubkey) -> u64 {
        if *k == Pubkey::default() {
            return 0;
        }
        for i in 1..self.wallets.len() {
            if self.wallets[i] == *k {
                return i as u64;
            }
        }
        99
    }
    fn key_of_id(&self, id: u64) -> Pubkey {
        if id == 0 {
            Pubkey::default()
        } else if (id as usize) <= self.accts.len() {
            self.accts[id as usize - 1]
        } else {
            foreign_key(id)
        }
    }
    fn id_of_key(&self, k: &Pubkey) -> u64 {
        if *k == Pubkey::default() {
            return 0;
        }
        for (i, a) in self.accts.iter().enumerate() {
            if a == k {
                return i as u64 + 1;
            }
        }
        for id in 50..60u64 {
            if foreign_key(id) == *k {
                return id;
            }
        }
        99
    }
    fn set_pause(&mut self) {
        let (p, now) = (self.paused, self.w.unix_timestamp);
        for g in [self.group, self.group2] {
            self.w.update::<MarginfiGroup>(&g, |g| {
                g.panic_state_cache.pause_flags = if p { 1 } else { 0 };
                g.panic_state_cache.pause_start_timestamp = if p { now } else { 0 };
                g.panic_state_cache.last_cache_update = now;
            });
        }
    }
    fn dump(&self) -> String {
        let mut v = Vec::new();
        for k in self.accts.iter() {
            let is_mfi = self
                .w
                .account(k)
                .map(|a| a.owner == marginfi::ID && a.data.len() >= 8 + std::mem::size_of::<MarginfiAccount>() && a.data[..8] == discriminators::ACCOUNT)
                .unwrap_or(false);
            if !is_mfi {
                v.push("X".to_string());
                continue;
            }
            let a: MarginfiAccount = self.w.get::<MarginfiAccount>(k).unwrap();
            let bals: Vec<String> = a
                .lending_account
                .balances
                .iter()
                .map(|b| {
                    format!(
                        "{}:{}:{}:{}:{}:{}:{}",
                        if b.active != 0 { 1 } else { 0 },
                        pk_id(&b.bank_pk),
                        b.bank_asset_tag,
                        I80F48::from(b.asset_shares).to_bits(),
                        I80F48::from(b.liability_shares).to_bits(),
                        I80F48::from(b.emissions_outstanding).to_bits(),
                        b.last_update
                    )
                })
                .collect();
            let g = if a.group == self.group {
                1
            } else if a.group == self.group2 {
                2
            } else {
                99
            };
            v.push(format!(
                "{} {} {} {} {} {} {} {}",
                a.account_flags,
                self.wallet_id(&a.authority),
                g,
                self.id_of_key(&a.migrated_to),
                self.id_of_key(&a.migrated_from),
                self.wallet_id(&a.emissions_destination_account),
                a.last_update,
                bals.join(",")
            ));
        }
        v.join(";")
    }
}

pub fn run(line: &str) -> String {
    let mut t = Toks::new(line);
    let na = t.usize();
    let now = t.i64();
    let paused = t.bool();
    let mut w = World::new();
    w.set_clock(now);
    let admin = mk_wallet(&mut w, 10_000_000_000);
    let fee_wallet = mk_wallet(&mut w, 1_000_000_000);
    mk_fee_state(&mut w, admin, fee_wallet, FeeStateParams::default());
    let group = mk_group(&mut w, admin);
    let group2 = mk_group(&mut w, admin);
    let mut wallets = vec![Pubkey::default()];
    for _ in 1..9 {
        wallets.push(mk_wallet(&mut w, 10_000_000_000));
    }
    wallets.push(admin); // id 9 = group admin
    let fee_payer = mk_wallet(&mut w, 100_000_000_000);
    let accts: Vec<Pubkey> = (0..na).map(|_| w.new_key()).collect();
    let mut h = Lw { w, group, group2, wallets, fee_wallet, fee_payer, accts, paused };
    for i in 0..na {
        if !t.bool() {
            continue;
        }
        let mut a = MarginfiAccount::zeroed();
        a.account_flags = t.u64();
        a.authority = h.wallet(t.u64());
        a.group = if t.u64() == 1 { h.group } else { h.group2 };
        a.migrated_to = h.key_of_id(t.u64());
        a.migrated_from = h.key_of_id(t.u64());
        a.emissions_destination_account = h.wallet(t.u64());
        a.last_update = t.u64();
        let nbal = t.usize();
        for _ in 0..nbal {
            let idx = t.usize();
            let b = &mut a.lending_account.balances[idx];
            b.active = t.u8();
            let bk = t.u8();
            b.bank_pk = if bk == 0 { Pubkey::default() } else { bank_pk(bk as usize - 1) };
            b.bank_asset_tag = t.u8();
            b.asset_shares = t.fx().into();
            b.liability_shares = t.fx().into();
            b.emissions_outstanding = t.fx().into();
            b.last_update = t.u64();
        }
        let key = h.accts[i];
        h.w.put_zero_copy(key, discriminators::ACCOUNT, &a);
    }
    h.set_pause();
    let nops = t.usize();
    let mut out = Vec::new();
    for _ in 0..nops {
        let op = t.u8();
        let res: Result<(), ExecError> = match op {
            1 => {
                let a = t.usize();
                let s = h.wallet(t.u64());
                let ix = ixs::marginfi_account_close(h.accts[a], s, h.fee_payer);
                h.w.exec(ix, &[s, h.fee_payer])
            }
            2 => {
                let old = t.usize();
                let new = t.usize();
                let s = h.wallet(t.u64());
                let na_ = h.wallet(t.u64());
                let fw = t.u64();
                let fwk = if fw == 20 { h.fee_wallet } else { h.wallet(fw) };
                let ix = ixs::transfer_to_new_account(h.group, h.accts[old], h.accts[new], s, h.fee_payer, na_, fwk);
                h.w.exec(ix, &[s, h.fee_payer, h.accts[new]])
            }
            6 => {
                // transfer_to_new_account_pda: the new account lives at the PDA of (group, new authority, account index =
                // slot number); after a successful instruction the account is moved to the slot's fixed key (and the
                // source's migrated_to re-pointed) so that dumps and the model stay slot-based. An occupied slot is
                // exercised through the keypair variant (a PDA cannot collide with it).
                let old = t.usize();
                let new = t.usize();
                let s = h.wallet(t.u64());
                let na_ = h.wallet(t.u64());
                let fw = t.u64();
                let fwk = if fw == 20 { h.fee_wallet } else { h.wallet(fw) };
                if h.w.account(&h.accts[new]).is_some() {
                    let ix = ixs::transfer_to_new_account(h.group, h.accts[old], h.accts[new], s, h.fee_payer, na_, fwk);
                    h.w.exec(ix, &[s, h.fee_payer, h.accts[new]])
                } else {
                    let idx = new as u16;
                    let (pda, _) = Pubkey::find_program_address(
                        &[
                            marginfi_type_crate::constants::MARGINFI_ACCOUNT_SEED.as_bytes(),
                            h.group.as_ref(),
                            na_.as_ref(),
                            &idx.to_le_bytes(),
                            &0u16.to_le_bytes(),
                        ],
                        &marginfi::ID,
                    );
                    let ix = ixs::build(
                        marginfi::accounts::TransferToNewAccountPda {
                            group: h.group,
                            old_marginfi_account: h.accts[old],
                            new_marginfi_account: pda,
                            authority: s,
                            fee_payer: h.fee_payer,
                            new_authority: na_,
                            global_fee_wallet: fwk,
                            instructions_sysvar: solana_program::sysvar::instructions::ID,
                            system_program: solana_program::system_program::ID,
                        },
                        marginfi::instruction::TransferToNewAccountPda { account_index: idx, third_party_id: None },
                        vec![],
                    );
                    let r = h.w.exec(ix, &[s, h.fee_payer]);
                    if r.is_ok() {
                        if let Some(a) = h.w.accounts.remove(&pda) {
                            h.w.accounts.insert(h.accts[new], a);
                        }
                        let slot_key = h.accts[new];
                        h.w.update::<MarginfiAccount>(&h.accts[old], |x| {
                            if x.migrated_to == pda {
                                x.migrated_to = slot_key;
                            }
                        });
                    }
                    r
                }
            }
            3 => {
                let a = t.usize();
                let f = t.u64();
                let k = h.accts[a];
                let exists = h.w.account(&k).map(|x| x.owner == marginfi::ID).unwrap_or(false);
                if exists {
                    h.w.update::<MarginfiAccount>(&k, |x| x.account_flags = f);
                    Ok(())
                } else {
                    Err(ExecError::Custom(3007))
                }
            }
            4 => {
                let ts = t.i64();
                h.w.set_clock(ts);
                h.set_pause();
                Ok(())
            }
            5 => {
                h.paused = t.bool();
                h.set_pause();
                Ok(())
            }
            _ => panic!("bad op"),
        };
        let rs = match &res {
            Ok(()) => "OK".to_string(),
            Err(e) => err_s(e),
        };
        out.push(format!("{} # {}", rs, h.dump()));
    }
    out.join(" | ")
}
