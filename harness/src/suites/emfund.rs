//! Level C: the two instructions that FUND a bank's emissions, through `marginfi::entry` in the sim runtime (real
//! Token / Token-2022 processor behind the CPI): `lending_pool_setup_emissions` and, on the same bank,
//! `lending_pool_update_emissions_parameters` with a top-up.
//! case: tokprog bps max_fee old_bps old_max epoch_new epoch decimals total rate add
//!   tokprog 0 = SPL Token, 1 = Token-2022, 2 = Token-2022 with a transfer fee (bps, max_fee); when old_* / epoch_new are
//!   not all zero the mint carries a pending fee change (older schedule from epoch 0, (bps, max_fee) from epoch_new)
//!   and the clock epoch is `epoch`.
//! out : `<res> <sent> <received> <recorded>` per instruction, joined by " | "
//!   sent     = tokens that left the funding account
//!   received = tokens that arrived in the emissions vault
//!   recorded = change of bank.emissions_remaining (whole tokens; I80F48 bits / 2^48)
use crate::sim::*;
use crate::util::*;
use fixed::types::I80F48;
use marginfi_type_crate::types::Bank;

fn res_s(r: &Result<(), ExecError>) -> String {
    match r {
        Ok(()) => "OK".into(),
        Err(ExecError::Custom(n)) => format!("E{}", n),
        Err(ExecError::Program(s)) => format!("PE:{}", s.split_whitespace().next().unwrap_or("?")),
        Err(ExecError::Panic) => "PANIC".into(),
    }
}

pub fn run(line: &str) -> String {
    let mut t = Toks::new(line);
    let tokprog = t.u8();
    let bps = t.u16();
    let max_fee = t.u64();
    let old = (t.u16(), t.u64());
    let epoch_new = t.u64();
    let epoch = t.u64();
    let decimals = t.u8();
    let total = t.u64();
    let rate = t.u64();
    let add = t.u64();
    guarded(|| {
        let mut w = World::new();
        let admin = mk_wallet(&mut w, 1000 * 1_000_000_000);
        let fee_wallet = mk_wallet(&mut w, 1_000_000_000);
        mk_fee_state(&mut w, admin, fee_wallet, FeeStateParams::default());
        let group = mk_group(&mut w, admin);
        let bank_mint = mk_mint(&mut w, 6, TokenProgram::Spl);
        let bank = mk_bank(&mut w, group, bank_mint, BankParams::default().with_fixed_price(I80F48::ONE));
        let tp = match tokprog {
            0 => TokenProgram::Spl,
            1 => TokenProgram::T22,
            _ => TokenProgram::T22WithFee { bps, max_fee },
        };
        let em = mk_mint(&mut w, decimals, tp);
        if tokprog >= 2 && (old != (0, 0) || epoch_new != 0) {
            set_fee_schedule(&mut w, &em, old, (bps, max_fee), epoch_new);
        }
        w.epoch = epoch;
        let funding = mk_token_account(&mut w, em, admin, u64::MAX);
        let (_auth, vault) = ixs::emissions_pdas(&bank, &em);
        let rec = |w: &World| -> i128 {
            w.get::<Bank>(&bank).map(|b| I80F48::from(b.emissions_remaining).to_bits() >> 48).unwrap_or(0)
        };
        let bal = |w: &World, k: &anchor_lang::prelude::Pubkey| -> i128 {
            if w.account(k).map(|a| a.data.len() >= 72).unwrap_or(false) { w.token_balance(k) as i128 } else { 0 }
        };
        let mut out = Vec::new();
        let mut step = |w: &mut World, ix: Ix| {
            let (f0, v0, r0) = (bal(w, &funding), bal(w, &vault), rec(w));
            let r = w.exec(ix, &[admin]);
            out.push(format!("{} {} {} {}", res_s(&r), f0 - bal(w, &funding), bal(w, &vault) - v0, rec(w) - r0));
        };
        // flags: EMISSIONS_FLAG_LENDING_ACTIVE (2)
        step(&mut w, ixs::lending_pool_setup_emissions(group, admin, bank, em, funding, tp.id(), 2, rate, total, vec![]));
        step(&mut w, ixs::lending_pool_update_emissions_parameters(group, admin, bank, em, funding, tp.id(), None, None, Some(add), vec![]));
        out.join(" | ")
    })
}
