//! mfi — correspondence harness: runs the REAL marginfi-v2 functions / handlers on case files.
//!   mfi consts <out.v>                 dump constants as a Coq file
//!   mfi run <suite> <cases> <out>      one output line per case line
mod consts;
mod gen_errs;
#[allow(dead_code, unused_imports, unused_variables)]
mod sim;
mod suites;
mod util;

use std::io::{BufRead, Write};

fn main() {
    // silence panic messages (they are expected outcomes in some cases)
    if std::env::var("MFI_PANIC_VERBOSE").is_err() {
        std::panic::set_hook(Box::new(|_| {}));
    }
    let args: Vec<String> = std::env::args().collect();
    match args.get(1).map(|s| s.as_str()) {
        Some("consts") => {
            std::fs::write(&args[2], consts::dump()).expect("write consts");
        }
        Some("simtest") => match sim::selftest::run() {
            Ok(r) => eprintln!("{}", r),
            Err(e) => {
                eprintln!("SIMTEST FAILED: {}", e);
                std::process::exit(1);
            }
        },
        Some("run") => {
            let suite = args[2].as_str();
            let f: fn(&str) -> String = match suites::lookup(suite) {
                Some(f) => f,
                None => {
                    eprintln!("unknown suite {}", suite);
                    std::process::exit(2);
                }
            };
            let inp = std::io::BufReader::new(std::fs::File::open(&args[3]).expect("open cases"));
            let mut out = std::io::BufWriter::new(std::fs::File::create(&args[4]).expect("create out"));
            for line in inp.lines() {
                let line = line.unwrap();
                if line.trim().is_empty() {
                    continue;
                }
                let r = util::guarded(|| f(&line));
                writeln!(out, "{}", r).unwrap();
            }
        }
        _ => {
            eprintln!("usage: mfi consts <out.v> | mfi run <suite> <cases> <out>");
            std::process::exit(2);
        }
    }
}
