#!/usr/bin/env python3
"""Adapt a drv_<suite>.ml written for the old monolithic `Model` module to Separate Extraction.
usage: adapt_driver.py drv_x.ml CoqModule1 CoqModule2 ..."""
import re, sys
f = sys.argv[1]; mods = sys.argv[2:]
s = open(f).read()
if "module M = struct" in s:
    print("already adapted"); sys.exit(0)
s = re.sub(r"(?<![A-Za-z_.])List\.", "Stdlib.List.", s)
s = re.sub(r"(?<![A-Za-z_.])String\.", "Stdlib.String.", s)
s = re.sub(r"M\.X([HOI])\b", r"M.Coq_x\1", s)
s = re.sub(r"M\.([a-z])([A-Z][A-Za-z_0-9]*)", lambda m: "M.coq_" + m.group(1).upper() + m.group(2), s)
s = re.sub(r"M\.e_([A-Z])", r"M.coq_E_\1", s)
inc = "".join(f"  include {m}\n" for m in mods)
s = s.replace("open Drv_common\n", "open Drv_common\nmodule M = struct\n  include Drv_common.M\n" + inc + "end\n", 1)
open(f, "w").write(s)
print("adapted", f)
