#!/usr/bin/env python3
"""keep_seed.py <Cnn> <caught_by json> : store a confirmed seeded defect under /verif/seeded/<Cnn>/ and
remove its scratch worktree."""
import json, os, shutil, subprocess, sys
pid = sys.argv[1]; caught = json.loads(sys.argv[2])
src = f"/tmp/seed_{pid}/out"; dst = f"/verif/seeded/{pid}"
os.makedirs(dst, exist_ok=True)
shutil.copy(f"{src}/patch.diff", f"{dst}/patch.diff")
if os.path.isdir(f"{dst}/demo"):
    shutil.rmtree(f"{dst}/demo")
shutil.copytree(f"{src}/demo", f"{dst}/demo", ignore=shutil.ignore_patterns("target", "Cargo.lock"))
meta = json.load(open(f"{src}/meta.json"))
log = open(f"/tmp/confirm_{pid}.log").read()
prop = pid[:3]
meta.update({
    "breaks_property": prop,
    "origin": "fresh sub-agent given only the property text and a scratch worktree of /repo (nothing from /verif)",
    "confirmed_by_maintainer": {
        "what_was_run": "bin/confirm_seed.sh: git apply; cargo check -p marginfi; cargo test --workspace --no-fail-fast --offline; demo/run.sh with the change; git apply -R; demo/run.sh without",
        "result": [l.strip() for l in log.splitlines() if any(k in l for k in ("APPLIED", "164 passed", "2 passed; 309", "demo exit", "REVERTED"))],
    },
    "checks": caught,
})
json.dump(meta, open(f"{dst}/meta.json", "w"), indent=1)
subprocess.run(["git", "-C", "/repo", "worktree", "remove", "--force", f"/tmp/seed_{pid}"])
print("kept", dst, os.listdir(dst))
