#!/bin/bash
# reverify_seeds.sh [ids...] : regression run of the kept seeded defects (seeded/<id>/patch.diff) against the quick check of
# the property each one breaks. Applies every patch to a scratch copy of /repo OUTSIDE /repo and /verif (never to /repo),
# one after the other. A seed that is no longer caught (rc=0) means a generator / oracle change lost coverage.
# Not part of MANIFEST.json (development tool). Log: /tmp/reverify_seeds.log
scratch=${SCRATCH:-/tmp/mut/repo}
cd "$(dirname "$0")/.."
exec 9>/tmp/run_seed$(echo $scratch | tr / _).lock; flock 9
: > /tmp/reverify_seeds.log
ids=${@:-$(ls seeded)}
for id in $ids; do
  c=${id:0:3}
  mkdir -p $scratch
  rsync -ai --delete --exclude target --exclude .git /repo/ $scratch/ | awk '$1 ~ /^>f/ {print $2}' | while read f; do touch "$scratch/$f"; done
  (cd $scratch && patch -p1 -s < $OLDPWD/seeded/$id/patch.diff) || { echo "$id :: patch failed" >> /tmp/reverify_seeds.log; continue; }
  rm -f replays/$c-input-* replays/$c-obligation-*
  VERIF_REPO=$scratch bin/check $c quick > /tmp/reverify_$id.log 2>&1; rc=$?
  keys=$(grep -ho '"key": "[^"]*"' replays/$c-input-*.json 2>/dev/null | sort | uniq -c | tr '\n' ' ')
  echo "$id :: rc=$rc $(grep -c '^VIOLATION' /tmp/reverify_$id.log) lines :: $keys" >> /tmp/reverify_seeds.log
  rm -f replays/$c-input-* replays/$c-obligation-*; git checkout -q evidence/ 2>/dev/null
done
python3 -c "import sys; sys.path.insert(0,'py'); import vlib; vlib.run_generators()"   # coq/gen back to /repo
echo ALLDONE >> /tmp/reverify_seeds.log
grep -c "rc=0" /tmp/reverify_seeds.log
