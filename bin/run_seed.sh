#!/bin/bash
# run_seed.sh <Cnn> <patch.diff> [checks...] : run checks against a scratch copy of /repo with the patch applied
id=$1; patch=$2; shift 2; checks=${@:-$id}
# one mutation run at a time: the scratch copy and the working files of bin/check are shared
exec 9>/tmp/run_seed.lock; flock 9
# files restored by rsync keep their (old) mtime: cargo would consider crates built from the previous patch fresh.
# Touch every file rsync changes so that the affected crates are rebuilt.
mkdir -p /tmp/mut/repo
rsync -ai --delete --exclude target --exclude .git /repo/ /tmp/mut/repo/ | awk '$1 ~ /^>f/ {print $2}' | while read f; do touch "/tmp/mut/repo/$f"; done
(cd /tmp/mut/repo && patch -p1 -s < $patch) || { echo "patch failed"; exit 2; }
cd /verif
for c in $checks; do
  VERIF_REPO=/tmp/mut/repo bin/check $c quick > /tmp/run_seed_${id}_$c.log 2>&1; rc=$?
  echo "seed=$id check=$c rc=$rc $(grep -c '^VIOLATION' /tmp/run_seed_${id}_$c.log) violation lines: $(grep '^VIOLATION' /tmp/run_seed_${id}_$c.log | head -2 | tr '\n' ' ')"
done
