#!/usr/bin/env python3
"""Resolve the routine merge conflicts of developer branches: registries are unions."""
import re, sys, subprocess
CONF = re.compile(r"<<<<<<< HEAD\n(.*?)=======\n(.*?)>>>>>>> [0-9a-f]+\n", re.S)

def union_lines(path):
    s = open(path).read()
    def rep(m):
        a = m.group(1).splitlines(); b = m.group(2).splitlines()
        return "\n".join(a + [x for x in b if x not in a]) + "\n"
    open(path, "w").write(CONF.sub(rep, s))

def ours(path):
    s = open(path).read()
    open(path, "w").write(CONF.sub(lambda m: m.group(1), s))

def extract_v(path):
    s = open(path).read()
    parts = CONF.findall(s)
    out = s
    for a, b in parts:
        if a.lstrip().startswith("Require Import"):
            mods = []
            for blk in (a, b):
                for w in blk.replace("Require Import", "").replace(".", " ").split():
                    if w not in mods:
                        mods.append(w)
            rep = "Require Import " + " ".join(mods) + ".\n"
        else:
            ids = []
            for blk in (a, b):
                for w in blk.replace(".", " ").split():
                    if w not in ids:
                        ids.append(w)
            lines, cur = [], "  "
            for w in ids:
                if len(cur) + len(w) > 100:
                    lines.append(cur.rstrip()); cur = "  "
                cur += w + " "
            lines.append(cur.rstrip() + ".")
            rep = "\n".join(lines) + "\n"
        out = CONF.sub(lambda m: rep, out, count=1)
    open(path, "w").write(out)

files = subprocess.run(["git", "diff", "--name-only", "--diff-filter=U"], capture_output=True, text=True).stdout.split()
for f in files:
    if f == "coq/extract/Extract.v": extract_v(f)
    elif f in ("harness/src/suites/mod.rs", ".gitignore", "harness/src/consts.rs", "known_findings.json"): union_lines(f)
    elif f in ("py/vlib.py",): ours(f)
    elif f == "MANIFEST.json": subprocess.run(["git", "checkout", "--ours", f])
    else: print("UNRESOLVED", f)
print("resolved", files)
