#!/bin/bash
# confirm_seed.sh <Cnn> : independently confirm a seeded defect delivered in /tmp/seed_<Cnn>/out
#  (applies, compiles, the 172 baseline tests still pass, demo fails with the change and passes without)
id=$1; wt=/tmp/seed_$id; out=$wt/out; log=/tmp/confirm_$id.log
cd $wt || exit 2
git checkout -q -- . ; git status --short | grep -v "^??" && { echo "worktree dirty" > $log; exit 2; }
{
echo "== apply"; git apply --check $out/patch.diff && git apply $out/patch.diff && echo APPLIED
echo "== check"; cargo +1.79.0 check -p marginfi --offline 2>&1 | tail -1
echo "== tests (with change)"; cargo +1.79.0 test --workspace --no-fail-fast --offline 2>&1 | grep "test result" | sort | uniq -c
echo "== demo with change"; bash $out/demo/run.sh $wt > /tmp/confirm_${id}_demo_with.log 2>&1; echo "demo exit with change: $?"
echo "== revert"; git apply -R $out/patch.diff && echo REVERTED
echo "== demo without change"; bash $out/demo/run.sh $wt > /tmp/confirm_${id}_demo_without.log 2>&1; echo "demo exit without change: $?"
git checkout -q -- . ; git status --short | grep -v "^??"
} > $log 2>&1
echo done >> $log
