(* C20 — Integration exchange-rate math never overstates value and fails closed.
   Quantification: all venue states (every u64/u128/u32/u8 field value where a width is needed at all — premises
   kr_ok / sr_ok / dm_ok or explicit ranges), all amounts, prices and ratios, all decimals. No size bounds.
   Conventions: I80F48 values are raw bits (value * 2^48, ONE = 2^48); `/` is floor division, Z.quot truncation;
   res = Ok v | Err ENone (Option::None) | Err (E code) | Err EPanic (abort).
   k_total_exact / s_total_exact : the exact I80F48 total liquidity of a Kamino / Solend reserve
   (C20_venue_supply_math_never_aborts_or_wraps shows that the program computes exactly these). *)
Require Import Base Constants XrateConsts Fixed Xrate FixedLemmas XrateLemmas ConfScaled.
Local Open Scope Z_scope.

(* ---------------------------------------------------------------- round trips never gain *)
Theorem C20_roundtrip_scaled : forall tl tc,
  (forall liq col liq', 0 <= liq ->
     liquidity_to_collateral_from_scaled liq tl tc = Ok col ->
     collateral_to_liquidity_from_scaled col tl tc = Ok liq' -> liq' <= liq) /\
  (forall col liq col', 0 <= col ->
     collateral_to_liquidity_from_scaled col tl tc = Ok liq ->
     liquidity_to_collateral_from_scaled liq tl tc = Ok col' -> col' <= col).
Proof. exact roundtrip_scaled. Qed.

Theorem C20_roundtrip_kamino : forall r,
  (forall liq col liq', 0 <= liq ->
     k_liquidity_to_collateral r liq = Ok col -> k_collateral_to_liquidity r col = Ok liq' -> liq' <= liq) /\
  (forall col liq col', 0 <= col ->
     k_collateral_to_liquidity r col = Ok liq -> k_liquidity_to_collateral r liq = Ok col' -> col' <= col).
Proof. exact roundtrip_kamino. Qed.

Theorem C20_roundtrip_solend : forall r,
  (forall liq col liq', 0 <= liq ->
     s_liquidity_to_collateral r liq = Ok col -> s_collateral_to_liquidity r col = Ok liq' -> liq' <= liq) /\
  (forall col liq col', 0 <= col ->
     s_collateral_to_liquidity r col = Ok liq -> s_liquidity_to_collateral r liq = Ok col' -> col' <= col).
Proof. exact roundtrip_solend. Qed.

Theorem C20_roundtrip_solend_rate : forall rate,
  (forall liq col liq', 0 <= liq ->
     s_rate_liquidity_to_collateral rate liq = Ok col -> s_rate_collateral_to_liquidity rate col = Ok liq' -> liq' <= liq) /\
  (forall col liq col', 0 <= col ->
     s_rate_collateral_to_liquidity rate col = Ok liq -> s_rate_liquidity_to_collateral rate liq = Ok col' -> col' <= col).
Proof. exact roundtrip_solend_rate. Qed.

(* a conversion never yields more than amount * exact ratio of the (scaled) supplies *)
Theorem C20_conversion_never_overstates : forall tl tc,
  (forall col liq, 0 <= col -> 0 <= tl -> 0 < tc ->
     collateral_to_liquidity_from_scaled col tl tc = Ok liq -> liq = col * tl / tc /\ liq * tc <= col * tl) /\
  (forall liq col, 0 <= liq -> 0 < tl -> 0 <= tc ->
     liquidity_to_collateral_from_scaled liq tl tc = Ok col -> col = liq * tc / tl /\ col * tl <= liq * tc).
Proof. exact conversion_never_overstates. Qed.

(* ---------------------------------------------------------------- Drift scaled balances *)
Theorem C20_drift_decrement_ge_increment : forall m a i d,
  0 <= a <= U64_MAX -> 0 <= dm_decimals m -> 0 <= dm_cum_interest m ->
  d_scaled_balance_increment m a = Ok i -> d_scaled_balance_decrement m a = Ok d -> i <= d /\ d <= i + 1.
Proof. exact drift_decrement_ge_increment. Qed.

Theorem C20_drift_withdraw_of_increment_le : forall m a i w,
  0 <= a <= U64_MAX -> 0 <= dm_decimals m -> 0 <= dm_cum_interest m ->
  d_scaled_balance_increment m a = Ok i -> d_withdraw_token_amount m i = Ok w -> w <= a.
Proof. exact drift_withdraw_of_increment_le. Qed.

(* closed forms: value = exact floor (+1 when rounding up a non-zero balance), error exactly when decimals > 19,
   cumulative interest = 0, the u128 product overflows or the result leaves u64 *)
Theorem C20_drift_conversions_exact :
  (forall m a up, 0 <= a <= U64_MAX -> 0 <= dm_decimals m -> 0 <= dm_cum_interest m ->
     let q := a * 10 ^ (19 - dm_decimals m) / dm_cum_interest m in
     d_scaled_balance m a up =
       if dm_decimals m >? 19 then Err (E E_Drift_MathError) else
       if dm_cum_interest m =? 0 then Err (E E_Drift_math_error_macro) else
       if in_u64 q then
         if up && negb (q =? 0) then (if in_u64 (q + 1) then Ok (q + 1) else Err (E E_Drift_MathError)) else Ok q
       else Err (E E_Anchor_InvalidNumericConversion)) /\
  (forall m sb, 0 <= dm_decimals m ->
     d_withdraw_token_amount m sb =
       if dm_decimals m >? 19 then Err (E E_Drift_MathError) else
       if in_u128 (sb * dm_cum_interest m) then
         if in_u64 (sb * dm_cum_interest m / 10 ^ (19 - dm_decimals m))
         then Ok (sb * dm_cum_interest m / 10 ^ (19 - dm_decimals m)) else Err (E E_Drift_MathError)
       else Err (E E_Drift_math_error_macro)).
Proof. split; [exact d_scaled_balance_spec | exact d_withdraw_spec]. Qed.

(* ---------------------------------------------------------------- adjusted price *)
Theorem C20_adjust_exact_floor : forall adj raw ratio v,
  In adj [adjust_i128; adjust_i64; adjust_u64] -> adj raw ratio = Ok v -> v = raw * ratio / 2^48.
Proof. exact adjust_exact. Qed.

Theorem C20_adjust_le_price_times_ratio : forall adj raw ratio v,
  In adj [adjust_i128; adjust_i64; adjust_u64] -> adj raw ratio = Ok v -> v * 2^48 <= raw * ratio.
Proof. exact adjust_le. Qed.

Theorem C20_adjust_monotone : forall adj, In adj [adjust_i128; adjust_i64; adjust_u64] ->
  (forall raw1 raw2 r v1 v2, raw1 <= raw2 -> 0 <= r -> adj raw1 r = Ok v1 -> adj raw2 r = Ok v2 -> v1 <= v2) /\
  (forall raw r1 r2 v1 v2, 0 <= raw -> r1 <= r2 -> adj raw r1 = Ok v1 -> adj raw r2 = Ok v2 -> v1 <= v2).
Proof. exact adjust_mono. Qed.

Theorem C20_ratio_le_exact : forall tl tc r,
  (0 <= tl -> 0 < tc -> liq_to_col_ratio tl tc = Ok r -> r = tl * 2^48 / tc /\ r * tc <= tl * 2^48 /\ 0 <= r) /\
  (0 <= tc -> 0 < tl -> col_to_liq_ratio tl tc = Ok r -> r = tc * 2^48 / tl /\ r * tl <= tc * 2^48 /\ 0 <= r).
Proof. intros tl tc r; split; [exact (ratio_le_exact tl tc r) | exact (ratio_le_exact tc tl r)]. Qed.

Theorem C20_drift_adjust_le_and_monotone : forall adj, In adj [d_adjust_i128; d_adjust_i64; d_adjust_u64] ->
  (forall m raw v, adj m raw = Ok v -> v * 10 ^ 10 <= raw * dm_cum_interest m) /\
  (forall m1 m2 raw1 raw2 v1 v2, 0 <= raw1 <= raw2 -> 0 <= dm_cum_interest m1 <= dm_cum_interest m2 ->
     adj m1 raw1 = Ok v1 -> adj m2 raw2 = Ok v2 -> v1 <= v2).
Proof. exact d_adjust_le_mono. Qed.

(* ---------------------------------------------------------------- fail closed: closed forms *)
(* for ALL inputs: the exact floor when it fits the target type, otherwise None — never a wrapped value *)
Theorem C20_fail_closed_adjust : forall raw r,
  adjust_u64 raw r = (if in_u64 (raw * r / 2^48) then Ok (raw * r / 2^48) else Err ENone) /\
  adjust_i64 raw r = (if in_i64 (raw * r / 2^48) then Ok (raw * r / 2^48) else Err ENone) /\
  adjust_i128 raw r = (if in_range (- 2^79) (2^79 - 1) raw && in_i128 (raw * r) then Ok (raw * r / 2^48) else Err ENone).
Proof. intros; split; [apply adjust_u64_spec | split; [apply adjust_i64_spec | apply adjust_i128_spec]]. Qed.

Theorem C20_fail_closed_conversions :
  (forall col tl tc,
     collateral_to_liquidity_from_scaled col tl tc =
       if tc =? 0 then Err ENone else
       if in_i128 (col * tl) && in_i128 (Z.quot (col * tl * 2^48) tc) && in_u64 (Z.quot (col * tl * 2^48) tc / 2^48)
       then Ok (Z.quot (col * tl * 2^48) tc / 2^48) else Err ENone) /\
  (forall liq tl tc,
     liquidity_to_collateral_from_scaled liq tl tc =
       if tl =? 0 then Err ENone else
       if in_i128 (liq * tc) && in_i128 (Z.quot (liq * tc * 2^48) tl) && in_u64 (Z.quot (liq * tc * 2^48) tl / 2^48)
       then Ok (Z.quot (liq * tc * 2^48) tl / 2^48) else Err ENone) /\
  (forall tl tc,
     liq_to_col_ratio tl tc =
       if tc =? 0 then Err ENone else
       if in_i128 (Z.quot (tl * 2^48) tc) then Ok (Z.quot (tl * 2^48) tc) else Err ENone) /\
  (forall L C d,
     scale_supplies L C d =
       if (0 <=? d) && (d <=? 23) then
         if in_i128 (Z.quot L (10 ^ d)) && in_i128 (Z.quot (C * 2^48) (10 ^ d))
         then Ok (Z.quot L (10 ^ d), Z.quot (C * 2^48) (10 ^ d)) else Err ENone
       else Err ENone) /\
  (forall n f t,
     convert_decimals n f t =
       if f =? t then Ok n else
       if Z.abs (t - f) >? 23 then Err ENone else
       if t - f >? 0 then (if in_i128 (n * 10 ^ (t - f)) then Ok (n * 10 ^ (t - f)) else Err ENone)
       else (if in_i128 (Z.quot n (10 ^ (f - t))) then Ok (Z.quot n (10 ^ (f - t))) else Err ENone)).
Proof.
  split; [exact c2l_spec|]. split; [intros; rewrite l2c_is_c2l; apply c2l_spec|].
  split; [exact liq_to_col_ratio_spec|]. split; [exact scale_supplies_spec | exact convert_decimals_spec].
Qed.

Theorem C20_fail_closed_drift :
  (forall m raw,
     d_adjust_i64 m raw =
       (if raw <? 0 then Err (E E_Drift_MathError) else
        if in_u128 (raw * dm_cum_interest m) then
          if in_i64 (raw * dm_cum_interest m / 10 ^ 10) then Ok (raw * dm_cum_interest m / 10 ^ 10)
          else Err (E E_Drift_MathError)
        else Err (E E_Drift_math_error_macro)) /\
     d_adjust_u64 m raw =
       (if in_u128 (raw * dm_cum_interest m) then
          if in_u64 (raw * dm_cum_interest m / 10 ^ 10) then Ok (raw * dm_cum_interest m / 10 ^ 10)
          else Err (E E_Drift_MathError)
        else Err (E E_Drift_math_error_macro)) /\
     d_adjust_i128 m raw =
       (if raw <? 0 then Err (E E_Drift_MathError) else
        if in_u128 (raw * dm_cum_interest m) then
          if in_i128 (raw * dm_cum_interest m / 10 ^ 10) then Ok (raw * dm_cum_interest m / 10 ^ 10)
          else Err (E E_Drift_MathError)
        else Err (E E_Drift_math_error_macro))) /\
  (forall limit dec, 0 <= limit <= U64_MAX -> 0 <= dec <= 255 ->
     scale_drift_deposit_limit limit dec =
       if dec =? 9 then Ok (limit * 2^48) else
       if dec <? 9 then
         (if in_i128 (limit * 2^48 * 10 ^ (9 - dec)) then Ok (limit * 2^48 * 10 ^ (9 - dec)) else Err (E E_Drift_MathError))
       else if dec - 9 <? 24 then Ok (limit * 2^48 / 10 ^ (dec - 9))
       else Err EPanic).
Proof. split; [exact d_adjust_specs | exact scale_drift_deposit_limit_spec]. Qed.

(* the unchecked `+`/`-` of calculate_total_supply_i80f48 / calculate_total_liquidity never abort, the u128 ->
   I80F48 conversions are exact floors, for every field value of the declared width *)
Theorem C20_venue_supply_math_never_aborts_or_wraps :
  (forall r, kr_ok r = true ->
     k_total_supply r = Ok (k_total_exact r) /\ - 2^118 < k_total_exact r < 2^117 /\
     k_total_exact r = kr_available r * 2^48 + kr_borrowed_sf r / 2^12 - kr_prot_fees_sf r / 2^12
                       - kr_ref_fees_sf r / 2^12 - kr_pend_fees_sf r / 2^12) /\
  (forall r, sr_ok r = true ->
     s_total_liquidity r = Ok (s_total_exact r) /\ - 2^117 < s_total_exact r < 2^118 /\
     s_total_exact r = sr_available r * 2^48 + wads_fx (sr_borrowed_wads r) - wads_fx (sr_fees_wads r)) /\
  (forall raw, 0 <= raw <= U128_MAX ->
     decimal_to_i80f48 raw = Ok (wads_fx raw) /\ 0 <= wads_fx raw < 2^117 /\ wads_fx raw * 10 ^ 18 <= raw * 2^48 /\
     wads_fx raw = raw / 10 ^ 18 * 2^48 + raw mod 10 ^ 18 * 2^48 / 10 ^ 18).
Proof.
  split; [intros r H; destruct (k_total_supply_ok r H); auto|].
  split; [intros r H; destruct (s_total_liquidity_ok r H); auto|].
  intros raw H. destruct (decimal_to_i80f48_ok raw H) as (A & B & C). auto.
Qed.

(* ---------------------------------------------------------------- staleness *)
Theorem C20_stale :
  (forall r slot, k_is_stale r slot = true <-> kr_slot r < slot) /\
  (forall r slot, s_is_stale r slot = true <-> sr_slot r < slot) /\
  (forall m now, 0 <= dm_last_ts m <= U64_MAX -> 0 <= now ->
     (d_is_stale m now = false <-> now <= dm_last_ts m < 2^63)).
Proof. exact stale_predicates. Qed.

Theorem C20_stale_venue_rejected_by_price_adapter :
  (forall r slot, kr_slot r < slot ->
     (forall f, kamino_pyth r slot f = Err (E E_ReserveStale)) /\
     (forall f, kamino_swb r slot f = Err (E E_ReserveStale))) /\
  (forall r slot, sr_slot r < slot ->
     (forall f, solend_pyth r slot f = Err (E E_SolendReserveStale)) /\
     (forall f, solend_swb r slot f = Err (E E_SolendReserveStale))) /\
  (forall m now, 0 <= dm_last_ts m <= U64_MAX -> 0 <= now -> (dm_last_ts m < now \/ 2^63 <= dm_last_ts m) ->
     (forall f, drift_pyth m now f = Err (E E_DriftSpotMarketStale)) /\
     (forall f, drift_swb m now f = Err (E E_DriftSpotMarketStale))).
Proof. exact stale_rejected. Qed.

(* ---------------------------------------------------------------- the Kamino / Solend adapter arms *)
(* `let liq_to_col_ratio = total_liq / total_col;` uses the WRAPPING operator: it cannot wrap *)
Theorem C20_pipeline_ratio_division_never_wraps :
  (forall r tl tc, kr_ok r = true -> k_scaled_supplies r = Ok (tl, tc) -> 0 < tc ->
     wdiv tl tc = Ok (Z.quot (tl * 2^48) tc) /\ I128_MIN <= Z.quot (tl * 2^48) tc <= I128_MAX) /\
  (forall r tl tc, sr_ok r = true -> s_scaled_supplies r = Ok (tl, tc) -> 0 < tc ->
     wdiv tl tc = Ok (Z.quot (tl * 2^48) tc) /\ I128_MIN <= Z.quot (tl * 2^48) tc <= I128_MAX).
Proof. exact pipeline_division_never_wraps. Qed.

(* pairs = (oracle value, adjusted value) for price/ema/conf/ema_conf (Pyth) or value/std_dev (Switchboard) *)
Theorem C20_pipeline_le_scaled_rate :
  (forall r slot pairs tl tc, kr_ok r = true -> 0 <= k_total_exact r -> kamino_arm r slot pairs ->
     k_scaled_supplies r = Ok (tl, tc) -> 0 < tc ->
     Forall (fun pp => 0 <= fst pp -> snd pp = fst pp * (tl * 2^48 / tc) / 2^48 /\ snd pp * tc <= fst pp * tl) pairs) /\
  (forall r slot pairs tl tc, sr_ok r = true -> 0 <= s_total_exact r -> solend_arm r slot pairs ->
     s_scaled_supplies r = Ok (tl, tc) -> 0 < tc ->
     Forall (fun pp => 0 <= fst pp -> snd pp = fst pp * (tl * 2^48 / tc) / 2^48 /\ snd pp * tc <= fst pp * tl) pairs).
Proof. exact pipeline_le_scaled_rate. Qed.

(* adjusted <= price * L / (C - 10^d / 2^48): L = total liquidity bits, C = collateral supply, d = decimals *)
Theorem C20_pipeline_overstatement_bound :
  (forall r slot pairs, kr_ok r = true -> 0 <= k_total_exact r -> kamino_arm r slot pairs ->
     Forall (fun pp => 0 <= fst pp ->
       snd pp * (kr_col_supply r * 2^48 - 10 ^ (kr_decimals r mod 2^8)) <= fst pp * k_total_exact r) pairs) /\
  (forall r slot pairs, sr_ok r = true -> 0 <= s_total_exact r -> solend_arm r slot pairs ->
     Forall (fun pp => 0 <= fst pp ->
       snd pp * (sr_col_supply r * 2^48 - 10 ^ sr_decimals r) <= fst pp * s_total_exact r) pairs).
Proof. exact pipeline_overstatement_bound. Qed.

(* the property as stated (adjusted <= price * L / C) holds when 10^d divides C * 2^48 ... *)
Theorem C20_pipeline_le_exact_rate_when_scaling_exact :
  (forall r slot pairs, kr_ok r = true -> 0 <= k_total_exact r -> kamino_arm r slot pairs ->
     (kr_col_supply r * 2^48) mod 10 ^ (kr_decimals r mod 2^8) = 0 ->
     Forall (fun pp => 0 <= fst pp -> snd pp * (kr_col_supply r * 2^48) <= fst pp * k_total_exact r) pairs) /\
  (forall r slot pairs, sr_ok r = true -> 0 <= s_total_exact r -> solend_arm r slot pairs ->
     (sr_col_supply r * 2^48) mod 10 ^ sr_decimals r = 0 ->
     Forall (fun pp => 0 <= fst pp -> snd pp * (sr_col_supply r * 2^48) <= fst pp * s_total_exact r) pairs).
Proof. exact pipeline_le_exact_when_scaling_exact. Qed.

(* ... and is FALSE in general (known finding `adjusted-price-exceeds-exact-rate:scaled-supply-rounding`):
   6 liquidity units, 3 collateral units (exact rate 2), 9 decimals, price 10^12 -> 2000001184239 *)
Theorem C20_pipeline_le_exact_rate_refuted :
  exists r slot f f',
    kr_ok r = true /\ kamino_pyth r slot f = Ok f' /\ 0 <= k_total_exact r /\ 0 <= py_price f /\
    k_total_supply r = Ok (k_total_exact r) /\
    py_price f' * (kr_col_supply r * 2^48) > py_price f * k_total_exact r /\
    py_price f' = 2000001184239 /\ py_price f = 1000000000000 /\
    k_total_exact r = 6 * 2^48 /\ kr_col_supply r = 3.
Proof. exact pipeline_le_exact_refuted. Qed.

(* ---------------------------------------------------------------- the Drift adapter arms *)
Theorem C20_drift_pipeline_le_exact_rate : forall m now pairs, drift_arm m now pairs ->
  d_is_stale m now = false /\
  Forall (fun pp => snd pp = fst pp * dm_cum_interest m / 10 ^ 10 /\
                    snd pp * 10 ^ 10 <= fst pp * dm_cum_interest m) pairs.
Proof. exact drift_arm_ok. Qed.

(* ---------------------------------------------------------------- the confidence is scaled with the price
   Collateral is valued at the LOW-biased price (price - 2.12 conf): an adjusted confidence that shrank more than
   the price would push that value above (price - 2.12 conf) x rate.  Every Pyth arm scales the (spot and EMA)
   confidence by the same rate as the corresponding price:  conf' * price - conf * price' > - price
   (i.e. conf'/price' >= conf/price up to the one unit each floor may lose). *)
Theorem C20_confidence_scaled_with_price : forall f f',
  ((exists r slot, kamino_pyth r slot f = Ok f') \/ (exists r slot, solend_pyth r slot f = Ok f') \/
   (exists m now, drift_pyth m now f = Ok f')) ->
  (0 < py_price f -> 0 <= py_conf f -> py_conf f' * py_price f - py_conf f * py_price f' > - py_price f) /\
  (0 < py_ema f -> 0 <= py_ema_conf f -> py_ema_conf f' * py_ema f - py_ema_conf f * py_ema f' > - py_ema f).
Proof.
  intros f f' [(r & slot & H)|[(r & slot & H)|(m & now & H)]].
  - exact (kamino_pyth_conf_scaled r slot f f' H).
  - exact (solend_pyth_conf_scaled r slot f f' H).
  - exact (drift_pyth_conf_scaled m now f f' H).
Qed.

(* Non-vacuity: a Kamino reserve (1.05 liquidity per collateral, 6 decimals), a Solend reserve and a Drift market on
   which conversions, round trips and all six adapter arms succeed, and inputs on which they fail closed *)
Definition ex_k : kreserve := mkKR 1000 600000000000 (450000000000 * 2^60) (1000000 * 2^60) 0 0 6 1000000000000.
Definition ex_s : sreserve := mkSR 1000 6 600000000000 (450000000000 * 10^18) (1000000 * 10^18) 1000000000000.
Definition ex_d : dmarket := mkDM 10500000000 1700000000 6.
Example C20_nonvacuous :
  kr_ok ex_k = true /\ sr_ok ex_s = true /\ dm_ok ex_d = true /\
  k_liquidity_to_collateral ex_k 1000000 = Ok 952381 /\ k_collateral_to_liquidity ex_k 952381 = Ok 999999 /\
  s_liquidity_to_collateral ex_s 1000000 = Ok 952381 /\ s_collateral_to_liquidity ex_s 952381 = Ok 999999 /\
  d_scaled_balance_increment ex_d 1000000 = Ok 952380952 /\ d_scaled_balance_decrement ex_d 1000000 = Ok 952380953 /\
  d_withdraw_token_amount ex_d 952380952 = Ok 999999 /\
  is_ok (kamino_pyth ex_k 1000 (mkPyth 100000000 100000000 50000 50000)) = true /\
  is_ok (kamino_swb ex_k 1000 (mkSwb (10^20) (10^17))) = true /\
  is_ok (solend_pyth ex_s 1000 (mkPyth 100000000 100000000 50000 50000)) = true /\
  is_ok (solend_swb ex_s 1000 (mkSwb (10^20) (10^17))) = true /\
  drift_pyth ex_d 1700000000 (mkPyth 100000000 100000000 50000 50000) = Ok (mkPyth 105000000 105000000 52500 52500) /\
  is_ok (drift_swb ex_d 1700000000 (mkSwb (10^20) (10^17))) = true /\
  adjust_u64 U64_MAX (2 * 2^48) = Err ENone /\ adjust_i64 5 (3 * 2^47) = Ok 7 /\
  collateral_to_liquidity_from_scaled 5 7 0 = Err ENone /\
  kamino_pyth ex_k 1001 (mkPyth 1 1 0 0) = Err (E E_ReserveStale).
Proof. vm_compute. repeat split; reflexivity. Qed.

Print Assumptions C20_roundtrip_scaled.
Print Assumptions C20_roundtrip_kamino.
Print Assumptions C20_roundtrip_solend.
Print Assumptions C20_roundtrip_solend_rate.
Print Assumptions C20_conversion_never_overstates.
Print Assumptions C20_drift_decrement_ge_increment.
Print Assumptions C20_drift_withdraw_of_increment_le.
Print Assumptions C20_drift_conversions_exact.
Print Assumptions C20_adjust_exact_floor.
Print Assumptions C20_adjust_le_price_times_ratio.
Print Assumptions C20_adjust_monotone.
Print Assumptions C20_ratio_le_exact.
Print Assumptions C20_drift_adjust_le_and_monotone.
Print Assumptions C20_fail_closed_adjust.
Print Assumptions C20_fail_closed_conversions.
Print Assumptions C20_fail_closed_drift.
Print Assumptions C20_venue_supply_math_never_aborts_or_wraps.
Print Assumptions C20_stale.
Print Assumptions C20_stale_venue_rejected_by_price_adapter.
Print Assumptions C20_pipeline_ratio_division_never_wraps.
Print Assumptions C20_pipeline_le_scaled_rate.
Print Assumptions C20_pipeline_overstatement_bound.
Print Assumptions C20_pipeline_le_exact_rate_when_scaling_exact.
Print Assumptions C20_pipeline_le_exact_rate_refuted.
Print Assumptions C20_drift_pipeline_le_exact_rate.
Print Assumptions C20_confidence_scaled_with_price.
