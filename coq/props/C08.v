(* C08 — Authorization: only the entitled signer can act on an account, bank or group.
   Statements only; every proof is `exact <lemma>`.  `accounts_table` is regenerated from the Anchor account
   structs of the current source on every run; the theorems quantify over ALL worlds (account stores),
   bindings (which keys the client passes for which field), signer sets, PDA functions `pda` and
   interpretations `opq` of the constraints outside the vocabulary.  `accepts` = accepted by the account
   validation phase; `accepted` = additionally by the hand-modelled in-body guards of Spec.v. *)
Require Import Base Constants Panic AnchorTypes AnchorSem Gate AccountsTable HandlerFacts Spec
               AnchorSemLemmas AuthLemmas AuthCell AuthFixture.
Local Open Scope string_scope.
Local Open Scope Z_scope.

(* (1) the signer rule carried by every user instruction (is_signer_authorized && account_not_frozen_for_authority),
   flag masks as in the source: FROZEN = 64, IN_RECEIVERSHIP = 16 *)
Theorem C08_signer_rule :
  forall flags au ad s allow,
  is_signer_authorized flags au ad s allow && account_not_frozen_for_authority flags au s = true <->
  (allow = true /\ acct_get_flag flags 16 = true /\ ~ (acct_get_flag flags 64 = true /\ s = au)) \/
  (~ (allow = true /\ acct_get_flag flags 16 = true) /\ acct_get_flag flags 64 = true /\ s = ad /\ s <> au) \/
  (~ (allow = true /\ acct_get_flag flags 16 = true) /\ acct_get_flag flags 64 = false /\ s = au).
Proof. exact signer_rule. Qed.

(* the three lines of the property *)
Theorem C08_signer_rule_weak :
  forall flags au ad s allow,
  is_signer_authorized flags au ad s allow = true -> account_not_frozen_for_authority flags au s = true ->
  s = au \/ (acct_get_flag flags 64 = true /\ s = ad) \/ (allow = true /\ acct_get_flag flags 16 = true).
Proof. exact signer_rule_weak. Qed.

(* (2) no instruction of the program escapes the classification of Spec.v *)
Theorem C08_every_instruction_classified :
  forall e, In e accounts_table -> exists c, classify (e_ix e) = Some c.
Proof. exact every_instruction_classified. Qed.

(* (3) user operations: signed by `signer`, which passes the signer rule against the account's flags and
   authority and the admin of the very group the account belongs to *)
Theorem C08_user_ops :
  forall pda opq e allow acct signer grp,
  In e accounts_table -> classify (e_ix e) = Some (KUser allow acct signer grp) ->
  forall w b sg, accepts pda opq e w b sg = true ->
  exists ka ks kg au ad,
    bkey b acct = Some ka /\ bkey b signer = Some ks /\ bkey b grp = Some kg /\
    In ks sg /\ typed w ka "MarginfiAccount" /\ typed w kg "MarginfiGroup" /\
    key_field (acct_of w ka) grp = Some kg /\
    key_field (acct_of w ka) "authority" = Some au /\ key_field (acct_of w kg) "admin" = Some ad /\
    is_signer_authorized (num_field (acct_of w ka) "account_flags") au ad ks allow = true /\
    account_not_frozen_for_authority (num_field (acct_of w ka) "account_flags") au ks = true.
Proof. exact user_ops. Qed.

(* "anyone during a receivership" occurs in the table only for the withdraw / repay family *)
Theorem C08_receivership_only_withdraw_repay :
  forall e f c err,
  In e accounts_table -> In f (e_fields e) -> In (c, err) (f_cons f) -> cons_allows_receivership c = true ->
  In (e_ix e) ["lending_account_withdraw"; "lending_account_repay"; "kamino_withdraw"; "drift_withdraw"; "solend_withdraw"].
Proof. exact receivership_only_withdraw_repay. Qed.

(* (4) close / flashloan / emissions destination: strictly the account's authority *)
Theorem C08_owner_ops :
  forall pda opq e acct signer,
  In e accounts_table -> classify (e_ix e) = Some (KOwner acct signer) ->
  forall w b sg, accepts pda opq e w b sg = true ->
  exists ka ks, bkey b acct = Some ka /\ bkey b signer = Some ks /\ In ks sg /\
                typed w ka "MarginfiAccount" /\ key_field (acct_of w ka) "authority" = Some ks.
Proof. exact owner_ops. Qed.

(* (5) administrative instructions: the signer is the key stored in the role field of the group account *)
Theorem C08_admin_roles :
  forall pda opq e r signer grp,
  In e accounts_table -> classify (e_ix e) = Some (KAdmin [r] signer grp) ->
  forall w b sg, accepts pda opq e w b sg = true ->
  exists ks kg, bkey b signer = Some ks /\ bkey b grp = Some kg /\ In ks sg /\
                typed w kg "MarginfiGroup" /\ key_field (acct_of w kg) (role_field r) = Some ks.
Proof. exact admin_single_role. Qed.

(* clone_emode checks its two roles in the handler body (modelled by hand) *)
Theorem C08_clone_emode :
  forall pda opq e,
  In e accounts_table -> e_ix e = "lending_pool_clone_emode" ->
  forall w b sg, accepted pda opq e w b sg = true ->
  exists ks kg, bkey b "signer" = Some ks /\ bkey b "group" = Some kg /\ In ks sg /\ typed w kg "MarginfiGroup" /\
    (key_field (acct_of w kg) "admin" = Some ks \/ key_field (acct_of w kg) "emode_admin" = Some ks).
Proof. exact clone_emode_roles. Qed.

Theorem C08_fee_admin :
  forall pda opq e signer,
  In e accounts_table -> classify (e_ix e) = Some (KFeeAdmin signer) ->
  forall w b sg, accepts pda opq e w b sg = true ->
  exists ks kf, bkey b signer = Some ks /\ bkey b "fee_state" = Some kf /\ In ks sg /\
                kf = pda PROG_MARGINFI [VStr "feestate"] /\
                typed w kf "FeeState" /\ key_field (acct_of w kf) "global_fee_admin" = Some ks.
Proof. exact fee_admin_ops. Qed.

(* (6) bankruptcy: risk admin or admin of the group both the bank and the account belong to, unless the bank
   allows permissionless settlement (flag 4); the signer check is in the handler body (modelled by hand) *)
Theorem C08_bankruptcy :
  forall pda opq e,
  In e accounts_table -> e_ix e = "lending_pool_handle_bankruptcy" ->
  forall w b sg, accepted pda opq e w b sg = true ->
  exists ks kg kb ka, bkey b "signer" = Some ks /\ bkey b "group" = Some kg /\ bkey b "bank" = Some kb /\
    bkey b "marginfi_account" = Some ka /\ In ks sg /\
    typed w kg "MarginfiGroup" /\ typed w kb "Bank" /\ typed w ka "MarginfiAccount" /\
    key_field (acct_of w kb) "group" = Some kg /\ key_field (acct_of w ka) "group" = Some kg /\
    (bank_get_flag (num_field (acct_of w kb) "flags") 4 = true \/
     key_field (acct_of w kg) "risk_admin" = Some ks \/ key_field (acct_of w kg) "admin" = Some ks).
Proof. exact bankruptcy_roles. Qed.

Theorem C08_end_liquidation :
  forall pda opq e acct record receiver,
  In e accounts_table -> classify (e_ix e) = Some (KEndLiquidation acct record receiver) ->
  forall w b sg, accepts pda opq e w b sg = true ->
  exists ka kr ks, bkey b acct = Some ka /\ bkey b record = Some kr /\ bkey b receiver = Some ks /\ In ks sg /\
    typed w ka "MarginfiAccount" /\ typed w kr "LiquidationRecord" /\
    key_field (acct_of w ka) record = Some kr /\ key_field (acct_of w kr) receiver = Some ks.
Proof. exact end_liquidation_receiver. Qed.

(* (7) bindings.  Every zero-copy account is owned by the program of its type and has its discriminator
   (wrong owner program / wrong discriminator / account of another type are rejected) *)
Theorem C08_typed_accounts :
  forall pda opq e f ty,
  In f (e_fields e) -> f_init f = false -> f_opt f = false -> f_wrap f = WLoader ty ->
  forall w b sg, accepts pda opq e w b sg = true ->
  exists k, bkey b (f_name f) = Some k /\
            Some (a_owner (acct_of w k)) = type_owner ty /\ a_disc (acct_of w k) = ty.
Proof. exact typed_accounts. Qed.

Theorem C08_group_binding :
  forall pda opq e f,
  In e accounts_table -> In f (e_fields e) -> plain f = true ->
  (wrap_is_loader "Bank" f || wrap_is_loader "MarginfiAccount" f) = true ->
  in_pairs (e_ix e) (f_name f) group_binding_exceptions = false ->
  exists g, group_field_of e = Some g /\
    forall w b sg, accepts pda opq e w b sg = true ->
      exists k kg, bkey b (f_name f) = Some k /\ bkey b g = Some kg /\ key_field (acct_of w k) g = Some kg.
Proof. exact group_binding. Qed.

Theorem C08_foreign_group_rejected :
  forall pda opq e f g,
  In e accounts_table -> In f (e_fields e) -> plain f = true ->
  (wrap_is_loader "Bank" f || wrap_is_loader "MarginfiAccount" f) = true ->
  in_pairs (e_ix e) (f_name f) group_binding_exceptions = false ->
  group_field_of e = Some g ->
  forall w b sg k kg, bkey b (f_name f) = Some k -> bkey b g = Some kg ->
    key_field (acct_of w k) g <> Some kg -> accepts pda opq e w b sg = false.
Proof. exact foreign_group_rejected. Qed.

Theorem C08_vault_binding :
  forall pda opq e f lit,
  In e accounts_table -> In f (e_fields e) ->
  contains "vault" (f_name f) = true -> sassoc (f_name f) vault_seed_of_name = Some lit ->
  forall w b sg, accepts pda opq e w b sg = true ->
    exists k bf kb, bkey b (f_name f) = Some k /\ In bf (e_fields e) /\ wrap_is_loader "Bank" bf = true /\
      bkey b (f_name bf) = Some kb /\
      (key_field (acct_of w kb) (f_name f) = Some k \/ k = pda PROG_MARGINFI [VStr lit; VKey kb]).
Proof. exact vault_binding. Qed.

Theorem C08_fee_state_binding :
  forall pda opq e f,
  In e accounts_table -> In f (e_fields e) -> f_name f = "fee_state" ->
  forall w b sg, accepts pda opq e w b sg = true -> bkey b "fee_state" = Some (pda PROG_MARGINFI [VStr "feestate"]).
Proof. exact fee_state_binding. Qed.

Theorem C08_liquidation_record_binding :
  forall pda opq e f,
  In e accounts_table -> In f (e_fields e) -> f_name f = "liquidation_record" ->
  forall w b sg, accepts pda opq e w b sg = true ->
    exists k a ka, bkey b "liquidation_record" = Some k /\ In a (e_fields e) /\
      wrap_is_loader "MarginfiAccount" a = true /\ bkey b (f_name a) = Some ka /\
      (key_field (acct_of w ka) "liquidation_record" = Some k \/
       k = pda PROG_MARGINFI [VStr "liq_record"; VKey ka]).
Proof. exact liquidation_record_binding. Qed.

(* Non-vacuity: on the (generated) projection of the harness fixture world, the deposit entry of the generated
   table accepts the authority and rejects a stranger and a bank of the foreign group; the table has 78
   entries; the classes used above are inhabited. *)
Example C08_nonvacuous :
  (let w := mkWorld (fixture_accounts toy_pda) fixture_now0 in
   let b := fun who bank vault =>
     mkBinding [("group", k_gA); ("marginfi_account", k_accA); ("authority", who); ("bank", bank);
                ("signer_token_account", k_u_t1); ("liquidity_vault", vault); ("token_program", PROG_TOKEN)]
               [] [k_accA; bank; k_u_t1; vault] in
   let opq := fun _ _ _ => true in
   match find_entry "lending_account_deposit" accounts_table with
   | Some e =>
       accepts toy_pda opq e w (b k_u k_bk1 (k_bk1_lv toy_pda)) [k_u] &&
       negb (accepts toy_pda opq e w (b k_s k_bk1 (k_bk1_lv toy_pda)) [k_s]) &&
       negb (accepts toy_pda opq e w (b k_u k_bkB1 (k_bkB1_lv toy_pda)) [k_u]) &&
       negb (accepts toy_pda opq e w (b k_u k_bk1 (k_bk1_lv toy_pda)) [])
   | None => false
   end) = true /\
  List.length accounts_table = 78%nat /\
  classify "lending_account_deposit" = Some (KUser false "marginfi_account" "authority" "group") /\
  classify "lending_account_withdraw" = Some (KUser true "marginfi_account" "authority" "group") /\
  classify "lending_pool_configure_bank_emode" = Some (KAdmin [REmode] "emode_admin" "group").
Proof. vm_compute. repeat split; reflexivity. Qed.

Print Assumptions C08_signer_rule.
Print Assumptions C08_signer_rule_weak.
Print Assumptions C08_every_instruction_classified.
Print Assumptions C08_user_ops.
Print Assumptions C08_receivership_only_withdraw_repay.
Print Assumptions C08_owner_ops.
Print Assumptions C08_admin_roles.
Print Assumptions C08_clone_emode.
Print Assumptions C08_fee_admin.
Print Assumptions C08_bankruptcy.
Print Assumptions C08_end_liquidation.
Print Assumptions C08_typed_accounts.
Print Assumptions C08_group_binding.
Print Assumptions C08_foreign_group_rejected.
Print Assumptions C08_vault_binding.
Print Assumptions C08_fee_state_binding.
Print Assumptions C08_liquidation_record_binding.
