(* C15 — Emergency pause is bounded: users always regain access within a fixed time.
   Statements only; every proof is `exact <lemma>`.  Quantification: every finite sequence of
   pause / admin-unpause / permissionless-unpause / propagate / time-passage operations from the
   zero-initialised fee state, any start time, clock in [0, 2^62). *)
Require Import Base Constants Panic PanicLemmas.
Local Open Scope Z_scope.

(* (a) each successful pause pushes the time until which the protocol is paused forward by at
       most 30 minutes; unpause / propagate never push it forward *)
Theorem C15_pause_extends_at_most_30min :
  forall now0 ops, 0 <= now0 -> let g := reach now0 ops in NOW g < 2^62 ->
  forall p', ix_panic_pause (P g) (NOW g) = Ok p' ->
  paused_until p' (NOW g) <= paused_until (P g) (NOW g) + 1800.
Proof. intros now0 ops H0 g Hlt. exact (pause_extends_le_1800 g (reach_inv now0 ops H0 Hlt) Hlt). Qed.

Theorem C15_other_ops_never_extend :
  forall now0 ops o, 0 <= now0 -> let g := reach now0 ops in NOW g < 2^62 ->
  match o with OpPause | OpTick _ => True | _ =>
    paused_until (w_p (fst (pstep (g_w g) o))) (NOW g) <= paused_until (P g) (NOW g) end.
Proof. intros now0 ops o H0 g Hlt. exact (nonpause_never_extends g o (reach_inv now0 ops H0 Hlt) Hlt). Qed.

(* (b) never scheduled to remain paused more than 60 minutes beyond the present, and
       `paused_until` is exactly the moment from which users are no longer blocked *)
Theorem C15_horizon_60min :
  forall now0 ops, 0 <= now0 -> let g := reach now0 ops in NOW g < 2^62 ->
  paused_until (P g) (NOW g) <= NOW g + 3600.
Proof. intros now0 ops H0 g Hlt. exact (horizon_3600 g (reach_inv now0 ops H0 Hlt)). Qed.

Theorem C15_blocked_iff_before_paused_until :
  forall now0 ops t, 0 <= now0 -> let g := reach now0 ops in NOW g < 2^62 -> NOW g <= t < 2^62 ->
  blocked (P g) t = Ok (negb (p_flags (P g) =? 0) && (t <? paused_until (P g) (NOW g))).
Proof. intros now0 ops t H0 g Hlt Ht. exact (blocked_iff g t (reach_inv now0 ops H0 Hlt) Ht). Qed.

(* (c) at most three pauses succeed between two daily counter resets, which are >= 24 h apart *)
Theorem C15_daily_limit :
  forall now0 ops, 0 <= now0 -> let g := reach now0 ops in NOW g < 2^62 ->
  g_since g <= 3 /\ spaced_by 86400 (g_resets g).
Proof. intros now0 ops H0 g Hlt. exact (daily_limit_lit g (reach_inv now0 ops H0 Hlt)). Qed.

(* (d) a pause that has run out stops blocking immediately, with nobody acting: for the cached copy
       held by any group (whatever its propagation history), 30 minutes after the cached start the
       group is open again, and that moment is at most 60 minutes away *)
Theorem C15_expired_pause_does_not_block :
  forall now0 ops t, 0 <= now0 -> let g := reach now0 ops in NOW g < 2^62 ->
  c_start (w_c (g_w g)) + 1800 <= t -> t < 2^62 ->
  is_protocol_paused (w_c (g_w g)) t = Ok false.
Proof. intros now0 ops t H0 g Hlt H1 H2. exact (expired_cache_not_paused g t (reach_inv now0 ops H0 Hlt) H1 H2). Qed.

Theorem C15_cache_open_within_60min :
  forall now0 ops, 0 <= now0 -> let g := reach now0 ops in NOW g + 3600 < 2^62 ->
  is_protocol_paused (w_c (g_w g)) (NOW g + 3600) = Ok false.
Proof. exact reach_cache_open. Qed.

(* (e) anyone may clear an expired pause; (f) admin unpause never fails while the flag is set *)
Theorem C15_permissionless_unpause_iff_expired :
  forall now0 ops, 0 <= now0 -> let g := reach now0 ops in NOW g < 2^62 ->
  (is_ok (ix_panic_unpause_permissionless (P g) (NOW g)) = true <->
   p_flags (P g) = 1 /\ p_start (P g) + 1800 <= NOW g).
Proof. intros now0 ops H0 g Hlt. exact (perm_unpause_iff g (reach_inv now0 ops H0 Hlt) Hlt). Qed.

Theorem C15_admin_unpause_total :
  forall now0 ops, 0 <= now0 -> let g := reach now0 ops in NOW g < 2^62 ->
  p_flags (P g) = 1 ->
  exists p', ix_panic_unpause (P g) (NOW g) = Ok p' /\ p_flags p' = 0.
Proof. intros now0 ops H0 g Hlt. exact (admin_unpause_total g (reach_inv now0 ops H0 Hlt) Hlt). Qed.

(* Non-vacuity: a reachable state that is paused, extended to the maximum, with 3 daily pauses. *)
Example C15_nonvacuous :
  let g := reach 1000 [OpPause; OpTick 100; OpPause; OpTick 3500; OpPause; OpPropagate] in
  p_flags (P g) = 1 /\ p_daily (P g) = 3 /\ g_since g = 3 /\ NOW g = 4600 /\
  is_protocol_paused (w_c (g_w g)) (NOW g) = Ok true /\
  is_ok (ix_panic_pause (P g) (NOW g)) = false /\
  (let g2 := reach 1000 [OpPause; OpTick 100; OpPause] in paused_until (P g2) (NOW g2) = NOW g2 + 3500).
Proof. vm_compute. repeat split; reflexivity. Qed.

Print Assumptions C15_pause_extends_at_most_30min.
Print Assumptions C15_other_ops_never_extend.
Print Assumptions C15_horizon_60min.
Print Assumptions C15_blocked_iff_before_paused_until.
Print Assumptions C15_daily_limit.
Print Assumptions C15_expired_pause_does_not_block.
Print Assumptions C15_cache_open_within_60min.
Print Assumptions C15_permissionless_unpause_iff_expired.
Print Assumptions C15_admin_unpause_total.
