(* C05 — Classic liquidation is possible only when unhealthy, improves health, and is bounded.
   Handler model: coq/model/Handlers.v (h_liquidate), risk engine coq/model/Risk.v (pre_liquidation,
   post_liquidation, health_components with RqMaint = real-time prices, maintenance weights).
   Hypotheses of the handler theorems: hw_ok w (every bank has asset share value >= 0, liability share
   value > 0, totals >= 0; every position has shares >= 0 — the ledger invariant of C02) and
   liquidator <> liquidatee (the real program cannot load one account mutably twice).
   Quantification: every world, every pair of accounts and banks, every amount. *)
Require Import Base Constants Fixed Curve Bank BankOps Risk TransferFee Handlers.
Require Import FixedLemmas BankLemmas HandlerLemmas ErrLemmas RiskGateLemmas LiquidationLemmas.
Require Import SolvencyWorld HandlerWorld BridgeLemmas NoRiskAccounts.
Local Open Scope Z_scope.

(* ---- eligibility, improvement, bound.  h0 = maintenance health of the liquidatee's (sorted) positions in
   the world with both banks accrued, h1 = maintenance health of its final positions in the final world.
   Success => h0 < h1 <= 0, hence h0 < 0: liquidation happens only when unhealthy, strictly improves
   health, and does not lift it above zero. (The pre-check alone rejects only h0 > 0; h0 = 0 is excluded
   by the post-check h0 < h1 <= 0: C05_precheck_alone_accepts_zero.) *)
Theorem C05_only_unhealthy_improves_bounded :
  forall w r e ab lb n w',
  hw_ok w -> r <> e -> h_liquidate w r e ab lb n = Ok w' ->
  exists ha hl ee ba1 bl1 ps0 h0 A0 L0 ee3 ps1 h1 A1 L1,
    nth_bank w ab = Ok ha /\ nth_bank w lb = Ok hl /\ nth_acct w e = Ok ee /\
    accrue_interest (hb_b ha) (hw_pf w) (hw_now w) = Ok ba1 /\
    accrue_interest (hb_b hl) (hw_pf w) (hw_now w) = Ok bl1 /\
    positions (accrued_world w ab lb ha hl ba1 bl1) (sort_balances (ha_la ee)) = Ok ps0 /\
    pre_liquidation ps0 (Some (bank_pk lb)) false = Ok (h0, A0, L0) /\
    health_components ps0 RqMaint = Ok (A0, L0) /\ h0 = A0 - L0 /\
    nth_acct w' e = Ok ee3 /\ positions w' (ha_la ee3) = Ok ps1 /\
    post_liquidation ps1 (bank_pk lb) h0 = Ok h1 /\
    health_components ps1 RqMaint = Ok (A1, L1) /\ h1 = A1 - L1 /\
    h0 < h1 <= 0 /\ h0 < 0.
Proof. exact liquidation_health. Qed.

Theorem C05_precheck_alone_accepts_zero :
  forall ps k A L,
  health_components ps RqMaint = Ok (A, L) -> A - L = 0 -> I128_MIN <= A - L <= I128_MAX ->
  (exists p, find_pos ps k = Some p /\ liab_nonempty (ps_bal p) = true /\ asset_nonempty (ps_bal p) = false) ->
  pre_liquidation ps (Some k) false = Ok (0, A, L).
Proof. exact pre_liquidation_accepts_zero. Qed.

(* ---- nothing flipped; over-liquidation guard.  b4' = the liquidatee's final position in the debt bank
   (still >= 1.0 liability shares, < 1.0 asset shares); b2 -> b2' = the seized position (liability shares
   unchanged, asset shares not increased and not negative); seized amount <= its asset amount *)
Theorem C05_no_flip_and_overliquidation_guard :
  forall w r e ab lb n w',
  hw_ok w -> r <> e -> h_liquidate w r e ab lb n = Ok w' ->
  exists ee ee3 ba1 i2 i4 b2 b2' b4',
    nth_acct w e = Ok ee /\ nth_acct w' e = Ok ee3 /\
    find_active (bank_pk lb) (ha_la ee3) = Some i4 /\ nth_error (ha_la ee3) i4 = Some b4' /\
    liab_nonempty b4' = true /\ asset_nonempty b4' = false /\
    find_active (bank_pk ab) (sort_balances (ha_la ee)) = Some i2 /\
    nth_error (sort_balances (ha_la ee)) i2 = Some b2 /\ nth_error (ha_la ee3) i2 = Some b2' /\
    bl_l b2' = bl_l b2 /\ 0 <= bl_a b2' <= bl_a b2 /\
    of_int n <= bl_a b2 * b_asv ba1 / ONE.
Proof. exact liquidation_no_flip. Qed.

(* ---- the liquidator passed the initial-health gate (C04) on the final world *)
Theorem C05_liquidator_remains_initially_healthy :
  forall w r e ab lb n w',
  hw_ok w -> r <> e -> h_liquidate w r e ab lb n = Ok w' ->
  exists er er3, nth_acct w r = Ok er /\ nth_acct w' r = Ok er3 /\ ha_flags er3 = ha_flags er /\
    init_health_check w' er3 = Ok tt /\
    (aflag er ACCOUNT_IN_FLASHLOAN = false ->
     exists ps A L, positions w' (ha_la er3) = Ok ps /\ health_components ps RqInitial = Ok (A, L) /\
       L <= A /\ risk_tiers_ok ps = true).
Proof. exact liquidation_liquidator_healthy. Qed.

(* ---- quantities and fee split.  2.5% + 2.5% as I80F48 constants; 1 - 0.025 and 1 - 0.05 as computed *)
Theorem C05_fee_constants :
  LIQUIDATION_LIQUIDATOR_FEE = 25 * 2^48 / 1000 /\ LIQUIDATION_INSURANCE_FEE = 25 * 2^48 / 1000 /\
  975 * 2^48 / 1000 <= 2^48 - 25 * 2^48 / 1000 <= 975 * 2^48 / 1000 + 1 /\
  95 * 2^48 / 100 <= 2^48 - (25 * 2^48 / 1000 + 25 * 2^48 / 1000) <= 95 * 2^48 / 100 + 1.
Proof. exact fee_constants. Qed.

Theorem C05_quantities_and_fee_split :
  forall w r e ab lb n w',
  hw_ok w -> r <> e -> h_liquidate w r e ab lb n = Ok w' ->
  exists ha hl er ee ba1 bl1 ap lp v1 v2 q_liq q_fin i1 la1 b1 b1' i2 b2' i4 b4 b4' bl2 bl3 er3 hl' f,
    nth_bank w ab = Ok ha /\ nth_bank w lb = Ok hl /\ nth_acct w r = Ok er /\ nth_acct w e = Ok ee /\
    accrue_interest (hb_b ha) (hw_pf w) (hw_now w) = Ok ba1 /\
    accrue_interest (hb_b hl) (hw_pf w) (hw_now w) = Ok bl1 /\
    fd_low_rt (hb_feed ha) = Ok ap /\ 0 < ap /\ fd_high_rt (hb_feed hl) = Ok lp /\ 0 < lp /\
    calc_value (of_int n) ap (balance_decimals ba1) (Some (2^48 - 25 * 2^48 / 1000)) = Ok v1 /\
    calc_amount v1 lp (balance_decimals bl1) = Ok q_liq /\
    calc_value (of_int n) ap (balance_decimals ba1) (Some (2^48 - (25 * 2^48 / 1000 + 25 * 2^48 / 1000))) = Ok v2 /\
    calc_amount v2 lp (balance_decimals bl1) = Ok q_fin /\
    0 <= q_fin <= q_liq /\
    wrapper_find_or_create (bank_pk lb) bl1 (ha_la er) (hw_now w) = Ok (i1, la1) /\ nth_error la1 i1 = Some b1 /\
    dec_facts bl1 b1 q_liq DecBypassBorrowLimit bl2 b1' /\
    nth_acct w' r = Ok er3 /\ In b1' (ha_la er3) /\
    find_active (bank_pk lb) (set_nth i2 b2' (sort_balances (ha_la ee))) = Some i4 /\
    nth_error (set_nth i2 b2' (sort_balances (ha_la ee))) i4 = Some b4 /\
    inc_facts bl2 b4 q_fin IncRepayOnly bl3 b4' /\
    nth_bank w' lb = Ok hl' /\ tfee hl ((q_liq - q_fin) / 2^48) = Ok f /\
    (q_liq - q_fin) / 2^48 <= hb_vault hl /\
    hb_vault hl' = hb_vault hl - (q_liq - q_fin) / 2^48 /\
    hb_insv hl' = hb_insv hl + (q_liq - q_fin) / 2^48 - f /\
    hb_feev hl' = hb_feev hl /\ hb_feeata hl' = hb_feeata hl /\
    b_ins (hb_b hl') = b_ins bl1 + (q_liq - q_fin) mod 2^48.
Proof. exact liquidation_fee_split. Qed.

(* each quantity against the exact rational n * p_asset * discount * 10^dl / (10^da * p_liab) *)
Theorem C05_quantity_rounding_bound :
  forall n ap lp da dl D v q,
  0 < n -> 0 <= D -> 0 <= ap -> 0 < lp ->
  calc_value (of_int n) ap da (Some D) = Ok v -> calc_amount v lp dl = Ok q ->
  q * lp * 10 ^ da <= n * D * ap * 10 ^ dl /\
  n * D * ap * 10 ^ dl < (q + 1) * lp * 10 ^ da + (10 ^ da * 2^48 + 2^48 + ap) * 10 ^ dl.
Proof. exact liquidation_quantity_bound. Qed.

(* ---- the complete inversion (all four legs, both banks, both accounts): record liq_facts of
   coq/lemmas/LiquidationLemmas.v *)
Theorem C05_liquidation_inversion :
  forall w r e ab lb n w',
  hw_ok w -> r <> e -> h_liquidate w r e ab lb n = Ok w' ->
  exists ha hl ee er ba1 bl1 ps0 ps1 h0 A0 L0 h1 ap lp v1 v2 q_liq q_fin i1 i2 i3 i4 la1 la3
         b1 b1' b2 b2' b3 b3' b4 b4' bl2 ba2 ba3 bl3 ee3 er3 ha' hl' f,
    liq_facts w r e ab lb n w' ha hl ee er ba1 bl1 ps0 ps1 h0 A0 L0 h1 ap lp v1 v2 q_liq q_fin i1 i2 i3 i4 la1 la3
              b1 b1' b2 b2' b3 b3' b4 b4' bl2 ba2 ba3 bl3 ee3 er3 ha' hl' f.
Proof. exact h_liquidate_inv. Qed.

(* ---- non-vacuity: collateral price falls 10%, a liquidation of 10 tokens succeeds (insurance vault
   receives 224999 native units, the fraction goes to the outstanding insurance fees), the same
   liquidation before the price move is rejected; the pre-liquidation world satisfies hw_ok *)
Definition ex_bank : bank := mkBank ONE ONE 0 0 0 0 0 0 U64_MAX U64_MAX 0 6 0 0 0 0 0 1 (mkIR 0 0 0 0 0 0 0 0 0 [] 1).
Definition ex_hb : hbank :=
  mkHB ex_bank (mkRC (ONE / 2) (ONE / 2) ONE ONE 0 0 0 []) (fixed_feed ONE) 0 0 0 0 false 0 0 0.
Definition ex_w : hworld :=
  mkHW [ex_hb; ex_hb] [mkHA la_empty 0; mkHA la_empty 0] 0 (mkPF false 0 0) [[2^62; 2^62]; [2^62; 2^62]] false.
Definition ex_setup : list hop := [HDeposit 0 1 1000000000 false; HDeposit 1 0 100000000 false; HBorrow 1 1 50000000].
Example C05_nonvacuous :
  match foldM hstep (ex_setup ++ [HSetPrice 0 (9 * ONE / 10); HLiquidate 0 1 0 1 10000000]) ex_w with
  | Ok w' => map (fun hb => (hb_vault hb, hb_insv hb)) (hw_banks w')
  | Err _ => [] end = [(100000000, 0); (949775001, 224999)] /\
  is_ok (foldM hstep (ex_setup ++ [HLiquidate 0 1 0 1 10000000]) ex_w) = false /\
  match foldM hstep (ex_setup ++ [HSetPrice 0 (9 * ONE / 10)]) ex_w with Ok w => hw_ok w | Err _ => False end.
Proof.
  split; [vm_compute; reflexivity|]. split; [vm_compute; reflexivity|].
  vm_compute. split; repeat constructor; discriminate.
Qed.

(* the liquidation instruction sent WITHOUT the risk (bank / oracle) accounts of either party (h_liquidate is
   h_liquidate_gen with the real position loader, h_liquidate_norem the same code with the loader handed an empty account
   list) never succeeds: the health of the liquidatee cannot be established *)
Theorem C05_liquidation_without_risk_accounts_never_succeeds :
  forall w r e ab lb n w', h_liquidate_norem w r e ab lb n = Ok w' -> False.
Proof. exact liquidate_norem_never_succeeds. Qed.

Print Assumptions C05_only_unhealthy_improves_bounded.
Print Assumptions C05_liquidation_without_risk_accounts_never_succeeds.
Print Assumptions C05_precheck_alone_accepts_zero.
Print Assumptions C05_no_flip_and_overliquidation_guard.
Print Assumptions C05_liquidator_remains_initially_healthy.
Print Assumptions C05_fee_constants.
Print Assumptions C05_quantities_and_fee_split.
Print Assumptions C05_quantity_rounding_bound.
Print Assumptions C05_liquidation_inversion.

(* the hypothesis hw_ok of the handler theorems above holds in every state reachable from a well-formed world:
   HOk2 is preserved by every instruction (C01_wellformedness_preserved) and implies it *)
Theorem C05_hypothesis_holds_in_wellformed_worlds : forall w, HandlerWorld.HOk2 w -> hw_ok w.
Proof. exact BridgeLemmas.HOk2_hw_ok. Qed.

Print Assumptions C05_hypothesis_holds_in_wellformed_worlds.
