(* C02 — Ledger consistency: bank totals are at least the sum of all positions; the excess is only
   the sub-0.0001 dust abandoned when a position is closed; every other operation moves a total by
   exactly the change of the positions.
   Model: the level-B world of coq/model/BankOps.v — any number of banks and lending accounts; one
   operation = the call sequence an instruction handler makes on BankAccountWrapper (find /
   find_or_create, then deposit / withdraw / borrow / repay / withdraw_all / repay_all / close /
   liquidation legs / claim / settle), plus accrue, socialise-loss, sort, clock.
   wsum (ca k) accts = sum over every account and slot of the asset shares recorded for bank key k;
   exA / exL = bank total minus that sum. Quantification: every world satisfying the invariant,
   every operation with a non-negative amount, every sequence of operations of any length. *)
Require Import Base Constants Fixed Curve Bank BankOps Risk TransferFee Handlers FixedLemmas BankLemmas LedgerLemmas SolvencyWorld HandlerWorld.
Require Import TxConstants AcctLifecycle LifecycleLedger.
Require Import PrivGen Deleverage PurgeLedger SolvencyHandlers DeleverageWorld CloseBank.
Local Open Scope Z_scope.

(* the invariant holds after every sequence of operations (failed operations roll back) *)
Theorem C02_totals_cover_positions :
  forall ops w, Ledger w -> Forall bop_ok ops -> Ledger (brun w ops).
Proof. exact brun_ledger. Qed.

(* what Ledger says, spelled out *)
Theorem C02_ledger_meaning :
  forall w, Ledger w -> forall k bk, bank_of w k = Some bk ->
  wsum (ca (bank_pk k)) (bw_accts w) <= b_tas bk /\ wsum (cl (bank_pk k)) (bw_accts w) <= b_tls bk.
Proof. exact lg_tot. Qed.

(* one successful operation: operations that do not close a position leave the excess of EVERY bank
   unchanged (total delta = position delta, exactly); withdraw_all / repay_all / close_balance add
   to the excess of their bank the abandoned shares da, dl >= 0, each worth < 0.0001 native unit *)
Theorem C02_exact_deltas_and_dust :
  forall w o w' r, Ledger w -> bop_ok o -> bstep w o = Ok (w', r) ->
  Ledger w' /\
  match closes o with
  | None => forall k, exA w' k = exA w k /\ exL w' k = exL w k
  | Some b => exists bk da dl, bank_of w b = Some bk /\
       (da * b_asv bk / ONE < ZERO_AMOUNT_THRESHOLD /\ dl * b_lsv bk / ONE < ZERO_AMOUNT_THRESHOLD) /\
       0 <= da /\ 0 <= dl /\
       forall k, exA w' k = exA w k + (if (b =? k)%nat then da else 0) /\
                 exL w' k = exL w k + (if (b =? k)%nat then dl else 0)
  end.
Proof. exact bstep_ledger. Qed.

(* close_bank requires zero totals: then no account holds any shares in that bank *)
Theorem C02_zero_totals_no_positions :
  forall w k bk, Ledger w -> bank_of w k = Some bk -> b_tas bk = 0 -> b_tls bk = 0 ->
  forall la bl, In la (bw_accts w) -> In bl la -> bl_active bl = true -> bl_bank bl = bank_pk k ->
  bl_a bl = 0 /\ bl_l bl = 0.
Proof. exact zero_totals_no_positions. Qed.

(* instruction level: the real instruction handlers (deposit, withdraw(all), borrow, repay(all), close_balance,
   liquidate with its four legs over two banks and two accounts, handle_bankruptcy, accrue, collect_fees) as modelled in
   Handlers.v: from a well-formed world (HOk2, which contains the ledger invariant), after any history of instructions
   with u64 amounts that does not wipe a bank out, every bank's totals still cover the sum of
   all positions recorded in all accounts *)
Theorem C02_instruction_level :
  forall ops w, HOk2 w -> Forall hop_ok2 ops -> run_no_wipeout w ops ->
  forall b hb, nth_bank (hrun w ops) b = Ok hb ->
  wsum (ca (bank_pk b)) (map ha_la (hw_accts (hrun w ops))) <= b_tas (hb_b hb) /\
  wsum (cl (bank_pk b)) (map ha_la (hw_accts (hrun w ops))) <= b_tls (hb_b hb).
Proof. exact hrun_ledger. Qed.

(* account transfer and account close (model AcctLifecycle.v of transfer_to_new_account / marginfi_account_close, tied to
   the real handlers by the suite `acctlife`): a transfer keeps, for every bank key, the sum of the recorded asset and
   liability shares over all accounts; a close removes only an account whose every slot holds less than 1.0 shares
   on both sides (what the program treats as empty), so bank totals stay >= the sum of positions and the excess
   grows only by such dust *)
Theorem C02_transfer_keeps_position_sums :
  forall w old new signer na fw w' k, h_transfer w old new signer na fw = Ok w' ->
  osum (ca k) (lw_accts w') = osum (ca k) (lw_accts w) /\ osum (cl k) (lw_accts w') = osum (cl k) (lw_accts w).
Proof. exact transfer_keeps_position_sums. Qed.

Theorem C02_transfer_pda_keeps_position_sums :
  forall w old new signer na fw w' k, h_transfer_pda w old new signer na fw = Ok w' ->
  osum (ca k) (lw_accts w') = osum (ca k) (lw_accts w) /\ osum (cl k) (lw_accts w') = osum (cl k) (lw_accts w).
Proof. exact transfer_pda_keeps_position_sums. Qed.

Theorem C02_close_removes_only_empty_positions :
  forall w a signer w', h_close w a signer = Ok w' ->
  exists A, get_macct w a = Ok A /\
    Forall (fun bl => bl_a bl < EMPTY_BALANCE_THRESHOLD /\ bl_l bl < EMPTY_BALANCE_THRESHOLD) (ma_la A) /\
    lw_accts w' = set_nth a None (lw_accts w).
Proof. exact close_removes_only_empty_positions. Qed.

(* non-vacuity: worlds with fresh accounts satisfy the invariant, for any banks with sane share values *)
(* lending_account_purge_delev_balance (risk admin, sunset bank): the ledger invariant survives, the purged position's
   asset shares leave the bank total EXACTLY, the liability total, both share values and the vault are untouched, and
   what the closed position abandons in the liability total is at most ZERO_AMOUNT_THRESHOLD shares (the stored value
   is an i128, which is the range hypothesis) *)
Theorem C02_purge_keeps_ledger :
  forall w a b signs w', HLedger w -> dv_purge w a b signs = Ok w' -> HLedger w'.
Proof. exact purge_keeps_ledger. Qed.

Theorem C02_purge_effect_on_totals :
  forall w a b signs w',
  HLedger w -> dv_purge w a b signs = Ok w' ->
  exists hb hb' ac i bl,
    nth_bank w b = Ok hb /\ nth_bank w' b = Ok hb' /\ nth_acct w a = Ok ac /\
    find_active (bank_pk b) (ha_la ac) = Some i /\ nth_res i (ha_la ac) = Ok bl /\
    b_tas (hb_b hb') = b_tas (hb_b hb) - bl_a bl /\ b_tls (hb_b hb') = b_tls (hb_b hb) /\
    0 <= bl_l bl /\ (bl_l bl <= I128_MAX -> bl_l bl <= ZERO_AMOUNT_THRESHOLD) /\
    b_asv (hb_b hb') = b_asv (hb_b hb) /\ b_lsv (hb_b hb') = b_lsv (hb_b hb) /\ hb_vault hb' = hb_vault hb.
Proof. exact purge_effect_on_totals. Qed.

(* a whole forced-deleverage transaction [start_deleverage; withdrawals / repayments of any number; end_deleverage]
   keeps the instruction-level ledger *)
Theorem C02_deleverage_tx_keeps_ledger :
  forall w c a r signs steps w' c',
  Forall dstep_ok steps -> HOk2 w -> dv_tx w c a r signs steps = Ok (w', c') -> HLedger w'.
Proof. exact dv_tx_keeps_ledger. Qed.

(* lending_pool_close_bank (asked as a yes / no question, h_close_bank_probe = its four guards): if it would succeed in a
   world that satisfies the ledger invariant, the shares of ALL accounts in that bank add up to less than the dust
   threshold on both sides (the totals are stored as i128, which is the range hypothesis) *)
Theorem C02_close_bank_only_without_positions :
  forall w b, HLedger w -> h_close_bank_probe w b = Ok tt ->
  exists hb, nth_bank w b = Ok hb /\
    (b_tas (hb_b hb) <= I128_MAX -> wsum (ca (bank_pk b)) (map ha_la (hw_accts w)) < ZERO_AMOUNT_THRESHOLD) /\
    (b_tls (hb_b hb) <= I128_MAX -> wsum (cl (bank_pk b)) (map ha_la (hw_accts w)) < ZERO_AMOUNT_THRESHOLD).
Proof. exact close_bank_only_without_positions. Qed.

Theorem C02_initial_world :
  forall banks n now pf, Forall (fun b => wf_sv b /\ 0 <= b_tas b /\ 0 <= b_tls b) banks ->
  Ledger (mkBW banks (repeat la_empty n) now pf).
Proof. exact ledger_init. Qed.

Print Assumptions C02_totals_cover_positions.
Print Assumptions C02_ledger_meaning.
Print Assumptions C02_exact_deltas_and_dust.
Print Assumptions C02_zero_totals_no_positions.
Print Assumptions C02_initial_world.
Print Assumptions C02_instruction_level.
Print Assumptions C02_transfer_keeps_position_sums.
Print Assumptions C02_transfer_pda_keeps_position_sums.
Print Assumptions C02_close_removes_only_empty_positions.
Print Assumptions C02_purge_keeps_ledger.
Print Assumptions C02_purge_effect_on_totals.
Print Assumptions C02_deleverage_tx_keeps_ledger.
Print Assumptions C02_close_bank_only_without_positions.
