(* C09 — Oracle safety: only fresh, authentic, confident prices, biased conservatively.
   Quantification: every OracleSetup value, every account list, every abstract oracle account (key, owner,
   body incl. malformed bodies), every clock, every configured max age / max confidence, every price /
   confidence / exponent integer.  PYTH_RECEIVER_ID / SWITCHBOARD_PULL_ID are the two expected owners. *)
Require Import Base Constants Fixed Price FixedLemmas PriceLemmas.
Local Open Scope Z_scope.

(* --- authenticity and freshness ----------------------------------------------------------------- *)
(* With the bank's own max age (u16; 0 means 60 s for a plain Pyth bank): a feed loads only from the
   configured key, owned by the expected program, of the right type, fully verified (Pyth), and
   now - publish_time <= max_age (Pyth) / now - last_update <= max_age (Switchboard). *)
Theorem C09_authentic_and_fresh :
  forall c ais vn sk ck f,
  0 <= oc_max_age c <= 65535 ->
  (forall a m, In a ais -> oa_body a = BPyth m -> - 2^63 <= pm_publish m) ->
  px_try_from_bank c ais vn sk ck = Ok f ->
  (oc_setup c = OS_Fixed /\ ais = [] /\ f = FFixed (oc_fixed_price c) /\ 0 <= oc_fixed_price c) \/
  exists a rest, ais = a :: rest /\ oa_key a = oc_key0 c /\
    let max_age := if (oc_max_age c =? 0) && (oc_setup c =? OS_PythPushOracle) then 60 else oc_max_age c in
    ((In (oc_setup c) pyth_setups /\ oa_owner a = PYTH_RECEIVER_ID /\
      exists m, oa_body a = BPyth m /\ pm_full m = true /\ ck_now ck - pm_publish m <= max_age) \/
     (In (oc_setup c) swb_setups /\ oa_owner a = SWITCHBOARD_PULL_ID /\
      exists m, oa_body a = BSwb m /\ ck_now ck - sm_last_update m <= max_age)).
Proof. exact load_authentic_fresh. Qed.

(* With an explicit max age (any u64): the raw conditions, exactly as evaluated (saturating add for
   Pyth after a u64 -> i64 conversion that aborts above i64::MAX; saturating subtraction against a
   wrapping cast for Switchboard) ... *)
Theorem C09_authentic_any_max_age :
  forall c ais vn sk ck max_age f,
  px_try_from_bank_with_max_age c ais vn sk ck max_age = Ok f ->
  (oc_setup c = OS_Fixed /\ ais = [] /\ f = FFixed (oc_fixed_price c) /\ 0 <= oc_fixed_price c) \/
  first_account_accepted c ais (ck_now ck) max_age.
Proof. exact load_authentic. Qed.

(* ... and what they mean in plain arithmetic. *)
Theorem C09_staleness_inequalities :
  (forall now publish max_age, - 2^63 <= publish -> 0 <= max_age ->
     now <= sat_i64 (publish + max_age) -> now - publish <= max_age) /\
  (forall now last max_age, 0 <= max_age -> max_age <> 2^63 - 1 -> max_age <= 2^64 - 1 ->
     sat_i64 (now - last) <= wrap_s 64 max_age -> now - last <= max_age).
Proof. split; [exact pyth_fresh | exact swb_fresh]. Qed.

(* The plain setups return exactly the numbers stored in the authenticated account. *)
Theorem C09_plain_setups_exact :
  forall c ais vn sk ck max_age f,
  px_try_from_bank_with_max_age c ais vn sk ck max_age = Ok f ->
  (oc_setup c = OS_PythPushOracle ->
     exists a m, ais = [a] /\ oa_body a = BPyth m /\
       f = FPyth (pm_price m) (pm_conf m) (pm_expo m) (pm_ema_price m) (pm_ema_conf m)) /\
  (oc_setup c = OS_SwitchboardPull ->
     exists a m, ais = [a] /\ oa_body a = BSwb m /\ f = FSwb (sm_value m) (sm_std_dev m)).
Proof. exact load_plain_exact. Qed.

(* Exchange-rate-adjusted variants: the second account is the configured one, accepted by its loader
   and refreshed (Kamino/Solend: in this slot; Drift: at this timestamp). *)
Theorem C09_venue_account_checked :
  forall c ais vn sk ck max_age f,
  px_try_from_bank_with_max_age c ais vn sk ck max_age = Ok f ->
  In (oc_setup c) venue_setups ->
  exists a a1, ais = [a; a1] /\ oa_key a1 = oc_key1 c /\ vn_loader vn = VLOk /\
    ((oc_setup c = OS_DriftPythPull \/ oc_setup c = OS_DriftSwitchboardPull) /\ ck_now ck <= wrap_s 64 (vn_last vn) \/
     (oc_setup c <> OS_DriftPythPull /\ oc_setup c <> OS_DriftSwitchboardPull) /\ ck_slot ck <= vn_last vn).
Proof. exact load_venue_checked. Qed.

Theorem C09_staked_accounts_checked :
  forall c ais vn sk ck max_age f,
  px_try_from_bank_with_max_age c ais vn sk ck max_age = Ok f ->
  oc_setup c = OS_StakedWithPythPush ->
  exists a a1 a2 supply stake, ais = [a; a1; a2] /\ oa_key a1 = oc_key1 c /\ oa_key a2 = oc_key2 c /\
    sk_supply sk = Ok supply /\ 0 < supply /\ sk_stake sk = Ok stake /\ 1000000000 <= stake.
Proof. exact load_staked_checked. Qed.

(* --- confidence --------------------------------------------------------------------------------- *)
(* A biased price exists only if price >= 0 and  scaled_conf / price <= max_conf / u32::MAX, where a
   configured maximum of 0 means 429496730 / 4294967295 (10%). *)
Theorem C09_confidence_within_maximum :
  forall f t b omc p,
  0 <= omc -> is_fixed f = false ->
  px_price_of_type f t (Some b) omc = Ok p ->
  exists price ci, px_price f t = Ok price /\ px_scaled_conf f t = Ok ci /\
    0 <= price /\ 0 <= ci /\
    ci * 4294967295 <= price * (if 0 <? omc then omc else 429496730).
Proof. exact price_confident. Qed.

(* scaled confidence = reported confidence x 2.12 (Pyth) / reported std-dev x 1.96 (Switchboard), floored *)
Theorem C09_scaled_confidence :
  forall f t ci,
  px_scaled_conf f t = Ok ci ->
  match f with
  | FPyth p c e ep ec =>
      exists c0, px_pyth_components (of_int (match t with TimeWeighted => ec | RealTime => c end)) e = Ok c0 /\
                 ci = c0 * CONF_INTERVAL_MULTIPLE / 2^48
  | FSwb v s =>
      exists s0, cdiv (px_from_i128 s) (10 ^ 18 * 2^48) = Ok s0 /\ ci = s0 * STD_DEV_MULTIPLE / 2^48
  | FFixed _ => ci = 0
  end.
Proof. exact scaled_conf_value. Qed.

Theorem C09_constants :
  Z.abs (100 * CONF_INTERVAL_MULTIPLE - 212 * 2^48) < 100 /\
  Z.abs (100 * STD_DEV_MULTIPLE - 196 * 2^48) < 100 /\
  Z.abs (20 * MAX_CONF_INTERVAL - 2^48) < 20 /\
  U32_MAX_FX = 4294967295 * 2^48 /\ U32_MAX_DIV_10_FX = 429496730 * 2^48 /\
  MAX_PYTH_ORACLE_AGE = 60 /\ ORACLE_MIN_AGE = 10.
Proof. exact price_constants. Qed.

(* a Pyth integer x >= 0 with exponent e is read as floor(x * 10^e * 2^48) *)
Theorem C09_reported_price_conversion :
  forall x e q,
  0 <= x -> px_pyth_components (of_int x) e = Ok q ->
  -24 < e < 24 /\
  (0 <= e -> q = x * 10 ^ e * 2^48) /\
  (e < 0 -> q * 10 ^ (- e) <= x * 2^48 < (q + 1) * 10 ^ (- e)).
Proof. exact pyth_components_value. Qed.

(* --- bias --------------------------------------------------------------------------------------- *)
(* low = price - d, high = price + d, d = min(scaled confidence, cap), cap = floor(price * 0.05) with
   0.05 stored as (2^48 + 4) / 20 / 2^48; a fixed price carries no bias. *)
Theorem C09_bias_conservative :
  forall f t b omc p,
  0 <= omc ->
  px_price_of_type f t (Some b) omc = Ok p ->
  exists price d,
    px_price_of_type f t None omc = Ok price /\
    p = (match b with PLow => price - d | PHigh => price + d end) /\ 0 <= d /\
    (is_fixed f = true -> d = 0) /\
    (is_fixed f = false ->
       0 <= price /\ 20 * d * 2^48 <= price * (2^48 + 4) /\
       exists ci cap, px_scaled_conf f t = Ok ci /\ 0 <= ci /\ d = Z.min ci cap /\
         20 * cap * 2^48 <= price * (2^48 + 4) < 20 * (cap + 1) * 2^48).
Proof. exact price_bias. Qed.

(* --- fail-closed use ---------------------------------------------------------------------------- *)
Theorem C09_liability_fails_on_bad_feed :
  forall req pf omc k e, pf = Err e -> exists e', px_weighted_liab_value req pf omc k = Err e'.
Proof. exact liab_value_fail_closed. Qed.

Theorem C09_liability_fails_on_bad_price :
  forall req f omc k e,
  px_price_of_type f (px_req_price_type req) (Some PHigh) omc = Err e ->
  px_weighted_liab_value req (Ok f) omc k = Err e.
Proof. exact liab_value_price_error. Qed.

(* bad feed: collateral counts 0 for the Initial requirement (and for isolated banks); Maintenance and
   Equity valuations fail *)
Theorem C09_collateral_on_bad_feed :
  forall iso ro req pf omc k e,
  pf = Err e ->
  (req = RInitial \/ iso = true -> exists c, px_weighted_asset_value iso ro req pf omc k = Ok (0, 0, c)) /\
  (req <> RInitial -> iso = false -> exists e', px_weighted_asset_value iso ro req pf omc k = Err e').
Proof. exact asset_value_fail_closed. Qed.

Theorem C09_collateral_fails_on_bad_price :
  forall iso ro req f omc k e,
  iso = false -> (ro = false \/ req <> RInitial) ->
  px_price_of_type f (px_req_price_type req) (Some PLow) omc = Err e ->
  px_weighted_asset_value iso ro req (Ok f) omc k = Err e.
Proof. exact asset_value_price_error. Qed.

(* a value is either 0 or computed from the low price of a loaded feed *)
Theorem C09_collateral_value_only_from_checked_price :
  forall iso ro req pf omc k v p c,
  px_weighted_asset_value iso ro req pf omc k = Ok (v, p, c) ->
  (v = 0 /\ p = 0) \/
  (c = 0 /\ exists f, pf = Ok f /\ px_price_of_type f (px_req_price_type req) (Some PLow) omc = Ok p /\ k p = Ok v).
Proof. exact asset_value_inv. Qed.

Theorem C09_debt_value_only_from_authentic_price :
  forall c ais vn sk ck req k v p,
  0 <= oc_max_age c <= 65535 ->
  (forall a m, In a ais -> oa_body a = BPyth m -> - 2^63 <= pm_publish m) ->
  px_weighted_liab_value req (px_try_from_bank c ais vn sk ck) (oc_max_conf c) k = Ok (v, p) ->
  exists f, px_try_from_bank c ais vn sk ck = Ok f /\
    px_price_of_type f (px_req_price_type req) (Some PHigh) (oc_max_conf c) = Ok p /\ k p = Ok v /\
    ((oc_setup c = OS_Fixed /\ ais = [] /\ f = FFixed (oc_fixed_price c) /\ 0 <= oc_fixed_price c) \/
     exists a rest, ais = a :: rest /\ oa_key a = oc_key0 c /\
       let max_age := if (oc_max_age c =? 0) && (oc_setup c =? OS_PythPushOracle) then 60 else oc_max_age c in
       ((In (oc_setup c) pyth_setups /\ oa_owner a = PYTH_RECEIVER_ID /\
         exists m, oa_body a = BPyth m /\ pm_full m = true /\ ck_now ck - pm_publish m <= max_age) \/
        (In (oc_setup c) swb_setups /\ oa_owner a = SWITCHBOARD_PULL_ID /\
         exists m, oa_body a = BSwb m /\ ck_now ck - sm_last_update m <= max_age))).
Proof. exact liab_value_only_from_authentic. Qed.

(* --- non-positive prices ------------------------------------------------------------------------ *)
Theorem C09_negative_price_never_biased :
  forall f t b omc q,
  0 <= omc -> is_fixed f = false -> px_price f t = Ok q -> q < 0 ->
  forall p, px_price_of_type f t (Some b) omc <> Ok p.
Proof. exact negative_price_rejected. Qed.

Theorem C09_liquidation_prices_positive :
  forall apf lpf oa ol pa pl,
  0 <= oa -> 0 <= ol ->
  px_liquidation_prices apf lpf oa ol = Ok (pa, pl) ->
  0 < pa /\ 0 < pl /\
  exists fa fl qa ql, apf = Ok fa /\ lpf = Ok fl /\
    px_price_of_type fa RealTime (Some PLow) oa = Ok pa /\ px_price_of_type fl RealTime (Some PHigh) ol = Ok pl /\
    px_price_of_type fa RealTime None oa = Ok qa /\ px_price_of_type fl RealTime None ol = Ok ql /\
    0 < qa /\ pa <= qa /\ 0 < ql /\ ql <= pl.
Proof. exact liquidation_prices_positive. Qed.

Theorem C09_liquidation_nonpositive_rejected :
  forall apf lpf oa ol fa fl,
  apf = Ok fa -> lpf = Ok fl ->
  (forall pa, px_price_of_type fa RealTime (Some PLow) oa = Ok pa -> pa <= 0 ->
     px_liquidation_prices apf lpf oa ol = Err (E 6057)) /\
  (forall pa pl, px_price_of_type fa RealTime (Some PLow) oa = Ok pa -> 0 < pa ->
     px_price_of_type fl RealTime (Some PHigh) ol = Ok pl -> pl <= 0 ->
     px_liquidation_prices apf lpf oa ol = Err (E 6058)).
Proof. exact liquidation_nonpositive_rejected. Qed.

Theorem C09_receivership_withdraw_price_positive :
  forall pf omc p,
  0 <= omc ->
  px_receivership_withdraw_price pf omc = Ok p ->
  0 < p /\ exists f q, pf = Ok f /\ px_price_of_type f RealTime (Some PLow) omc = Ok p /\
                       px_price_of_type f RealTime None omc = Ok q /\ 0 < q /\ p <= q.
Proof. exact receivership_withdraw_price_positive. Qed.

(* --- non-vacuity: a fresh, authentic $150.00 +- $0.10 Pyth account loads and prices; the same account one
   second too old, under a different key, or owned by another program does not; a zero price passes the
   confidence test and is stopped by the explicit guard. *)
Definition ex_cfg : ocfg := mkOC OS_PythPushOracle 11 0 0 0 0 0.
Definition ex_acct (publish : Z) : oacct := mkOA 11 PYTH_RECEIVER_ID (BPyth (mkPM true 15000 10 (-2) publish 15000 10)).
Definition ex_vn : venue := mkVN VLOk 0 (Err ENone) 0.
Definition ex_sk : staking := mkSK (Err EPanic) (Err EPanic).
Definition ex_load (a : oacct) : res feed := px_try_from_bank ex_cfg [a] ex_vn ex_sk (mkCK 1000 5).
Example C09_nonvacuous :
  ex_load (ex_acct 940) = Ok (FPyth 15000 10 (-2) 15000 10) /\
  px_price_of_type (FPyth 15000 10 (-2) 15000 10) RealTime (Some PLow) 0 = Ok 42161573811535743 /\
  px_price_of_type (FPyth 15000 10 (-2) 15000 10) RealTime None 0 = Ok (150 * 2^48) /\
  px_price_of_type (FPyth 15000 10 (-2) 15000 10) RealTime (Some PHigh) 0 = Ok 42280919201661057 /\
  ex_load (ex_acct 939) = Err (E 6050) /\
  ex_load (mkOA 12 PYTH_RECEIVER_ID (oa_body (ex_acct 940))) = Err (E 6052) /\
  ex_load (mkOA 11 SWITCHBOARD_PULL_ID (oa_body (ex_acct 940))) = Err (E 6053) /\
  px_price_of_type (FPyth 15000 2000 (-2) 15000 10) RealTime (Some PLow) 0 = Err (E 6055) /\
  px_price_of_type (FPyth (-15000) 0 (-2) 15000 10) RealTime (Some PLow) 0 = Err (E 6055) /\
  px_price_of_type (FPyth (-1) 0 (-14) 15000 10) RealTime (Some PLow) 0 = Err EPanic /\
  px_liquidation_prices (Ok (FPyth 0 0 (-2) 0 0)) (ex_load (ex_acct 940)) 0 0 = Err (E 6057) /\
  is_ok (px_liquidation_prices (ex_load (ex_acct 940)) (ex_load (ex_acct 1000)) 0 0) = true.
Proof. vm_compute. repeat split; reflexivity. Qed.

Print Assumptions C09_authentic_and_fresh.
Print Assumptions C09_authentic_any_max_age.
Print Assumptions C09_staleness_inequalities.
Print Assumptions C09_plain_setups_exact.
Print Assumptions C09_venue_account_checked.
Print Assumptions C09_staked_accounts_checked.
Print Assumptions C09_confidence_within_maximum.
Print Assumptions C09_scaled_confidence.
Print Assumptions C09_constants.
Print Assumptions C09_reported_price_conversion.
Print Assumptions C09_bias_conservative.
Print Assumptions C09_liability_fails_on_bad_feed.
Print Assumptions C09_liability_fails_on_bad_price.
Print Assumptions C09_collateral_on_bad_feed.
Print Assumptions C09_collateral_fails_on_bad_price.
Print Assumptions C09_collateral_value_only_from_checked_price.
Print Assumptions C09_debt_value_only_from_authentic_price.
Print Assumptions C09_negative_price_never_biased.
Print Assumptions C09_liquidation_prices_positive.
Print Assumptions C09_liquidation_nonpositive_rejected.
Print Assumptions C09_receivership_withdraw_price_positive.
