(* C06 — Interest accrual conserves value, is monotone, and is applied first.
   This file: the accrual mathematics (Bank::accrue_interest + calc_interest_rate_accrual_state_changes).
   "Applied first in every handler" is a handler-level fact: see the handler model and the level-C
   freshness correspondence in the evidence of this property. *)
Require Import Base Constants Fixed Curve Bank FixedLemmas BankLemmas CurveLemmas AccrualLemmas AccrualUpper.
Require Import Risk TransferFee Handlers SolvencyWorld HandlerWorld FreshnessHandlers.
Local Open Scope Z_scope.

(* share values never decrease, fee buckets never decrease (fees are never negative), program fees
   are zero when disabled for the group, totals untouched, last_update = now *)
Theorem C06_monotone_nonneg_fees_program_fee_off :
  forall b pf now b',
  0 <= b_asv b -> 0 <= b_lsv b -> 0 <= b_tas b -> 0 <= b_tls b ->
  accrue_interest b pf now = Ok b' ->
  b_asv b <= b_asv b' /\ b_lsv b <= b_lsv b' /\
  b_ins b <= b_ins b' /\ b_grp b <= b_grp b' /\ b_prog b <= b_prog b' /\
  (pf_on pf = false -> b_prog b' = b_prog b) /\
  b_tas b' = b_tas b /\ b_tls b' = b_tls b /\ b_last_update b' = now.
Proof. exact accrue_monotone. Qed.

(* accruing twice at the same time is a no-op *)
Theorem C06_idempotent :
  forall b pf now b', 0 <= b_tls b -> 0 <= b_lsv b ->
  accrue_interest b pf now = Ok b' -> accrue_interest b' pf now = Ok b'.
Proof. exact accrue_idempotent. Qed.

(* conservation, solvency direction: what is credited to depositors and to the three fee buckets
   never exceeds what borrowers are charged, beyond L + total_liability_shares + irl + 1 raw units
   at scale 2^96 (L = liability amount in I80F48 bits, irl = lending interest factor for the period).
   Dv/Lv are deposits/liabilities at scale 2^96, Fv the fee buckets at scale 2^48. *)
Theorem C06_credit_le_charge_partial :
  forall b pf now b', wf_bank b -> valid_curve b -> accrue_interest b pf now = Ok b' ->
  exists irl, 0 <= irl /\ ((b' = b /\ irl = 0) \/ b_asv b' = b_asv b * (ONE + irl) / ONE \/ (b_asv b' = b_asv b /\ irl = 0)) /\
  (Dv b' - Dv b) + (Fv b' - Fv b) * ONE <= (Lv b' - Lv b) + (b_tls b * b_lsv b / ONE + b_tls b + irl + 1).
Proof. exact accrue_credit_le_charge. Qed.
(* (the name keeps its historical `_partial` suffix: the opposite direction is the next theorem, so the
   conservation clause is now proved two-sided.) *)

(* conservation, opposite direction: borrowers are never charged more than what is credited to depositors and
   the three fee buckets, beyond an explicit allowance.  Stated multiplied by YEAR * ONE so that no division
   appears: allowance = (dt / YEAR) * (3 L + bor + 3 + A * (base / ONE + 1) + 3 ONE) + A + total_asset_shares + 3 ONE
   raw units at scale 2^96, where A / L are the asset / liability amounts in I80F48 bits, base / bor the base and
   borrow rates of the period (base is bounded by the curve's 100 %-utilisation rate).  For a bank with 10^16 native
   units on both sides at a 100 % base rate that is below 10^-3 native units per year of accrual. *)
Theorem C06_charge_le_credit :
  forall b pf now b', wf_bank b -> valid_curve b -> accrue_interest b pf now = Ok b' ->
  exists base bor A L dt, 0 <= base <= Rf (ir_hundred (b_ir b)) /\ 0 <= bor /\
    A = b_tas b * b_asv b / ONE /\ L = b_tls b * b_lsv b / ONE /\ dt = now - b_last_update b /\ 0 <= dt /\
    (b_last_update b < now -> A <> 0 -> L <> 0 ->
       exists ur r, calc_interest_rate (b_ir b) pf ur = Ok r /\ r_base r = base /\ r_borrowing r = bor) /\
    ((Lv b' - Lv b) - (Dv b' - Dv b) - (Fv b' - Fv b) * ONE) * YEAR * ONE
    <= dt * (ONE * (3 * L + bor + 3) + A * (base + ONE) + 3 * ONE * ONE) + (A + b_tas b + 3 * ONE) * YEAR * ONE.
Proof. exact accrue_charge_le_credit. Qed.

Definition ex_bank : bank :=
  mkBank ONE ONE (1000000 * ONE) (500000 * ONE) 0 0 0 1000 U64_MAX U64_MAX 0 6 0 0 0 0 0 1
         (mkIR 0 0 0 (ONE / 100) (ONE / 10) (ONE / 100) (ONE / 10) 0 429496729 [mkRP 2147483648 214748364] 1).
Example C06_nonvacuous :
  exists b', accrue_interest ex_bank (mkPF true (ONE / 100) (ONE / 20)) (1000 + 86400) = Ok b' /\
             b_asv ex_bank < b_asv b' /\ b_lsv ex_bank < b_lsv b' /\ 0 < b_ins b' /\ 0 < b_prog b' /\
             validate_seven_point (b_ir ex_bank) = Ok tt.
Proof. vm_compute. eexists; split; [reflexivity|]. repeat split; reflexivity. Qed.

Print Assumptions C06_monotone_nonneg_fees_program_fee_off.
Print Assumptions C06_idempotent.
Print Assumptions C06_credit_le_charge_partial.
Print Assumptions C06_charge_le_credit.

(* ---- "every deposit, withdrawal, borrow, repayment, liquidation, bankruptcy settlement and balance closure first
   brings the interest of each bank it transacts in up to the current time" — at instruction level (Handlers.v).
   fresh_after w hb hb' d: the accrual of the pre-instruction bank at the instruction's clock succeeds with result
   bk1, and the bank after the instruction is stamped last_update = clock, has liability share value = that of bk1
   and asset share value = that of bk1 (d = true: <=, bankruptcy may socialise a loss).  HOk2 is the world
   well-formedness invariant proved preserved in C01. *)
Theorem C06_deposit_accrues_first :
  forall w a b n up w' hb hb', HOk2 w -> 0 <= n -> h_deposit w a b n up = Ok w' ->
  nth_bank w b = Ok hb -> nth_bank w' b = Ok hb' -> fresh_after w hb hb' false.
Proof. exact deposit_fresh. Qed.
Theorem C06_withdraw_accrues_first :
  forall w a b n all w' hb hb', HOk2 w -> 0 <= n -> h_withdraw w a b n all = Ok w' ->
  nth_bank w b = Ok hb -> nth_bank w' b = Ok hb' -> fresh_after w hb hb' false.
Proof. exact withdraw_fresh. Qed.
Theorem C06_borrow_accrues_first :
  forall w a b n w' hb hb', HOk2 w -> 0 <= n -> h_borrow w a b n = Ok w' ->
  nth_bank w b = Ok hb -> nth_bank w' b = Ok hb' -> fresh_after w hb hb' false.
Proof. exact borrow_fresh. Qed.
Theorem C06_repay_accrues_first :
  forall w a b n all w' hb hb', HOk2 w -> 0 <= n -> h_repay w a b n all = Ok w' ->
  nth_bank w b = Ok hb -> nth_bank w' b = Ok hb' -> fresh_after w hb hb' false.
Proof. exact repay_fresh. Qed.
Theorem C06_close_balance_accrues_first :
  forall w a b w' hb hb', HOk2 w -> h_close_balance w a b = Ok w' ->
  nth_bank w b = Ok hb -> nth_bank w' b = Ok hb' -> fresh_after w hb hb' false.
Proof. exact close_balance_fresh. Qed.
Theorem C06_bankruptcy_accrues_first :
  forall w a b w' hb hb', HOk2 w -> h_bankruptcy w a b = Ok w' ->
  nth_bank w b = Ok hb -> nth_bank w' b = Ok hb' -> fresh_after w hb hb' true.
Proof. exact bankruptcy_fresh. Qed.
Theorem C06_liquidation_accrues_both_banks_first :
  forall w liqor liqee ab lb n w' ha hl ha' hl', HOk2 w -> 0 <= n ->
  h_liquidate w liqor liqee ab lb n = Ok w' ->
  nth_bank w ab = Ok ha -> nth_bank w lb = Ok hl -> nth_bank w' ab = Ok ha' -> nth_bank w' lb = Ok hl' ->
  fresh_after w ha ha' false /\ fresh_after w hl hl' false.
Proof. exact liquidate_fresh. Qed.

Print Assumptions C06_deposit_accrues_first.
Print Assumptions C06_withdraw_accrues_first.
Print Assumptions C06_borrow_accrues_first.
Print Assumptions C06_repay_accrues_first.
Print Assumptions C06_close_balance_accrues_first.
Print Assumptions C06_bankruptcy_accrues_first.
Print Assumptions C06_liquidation_accrues_both_banks_first.
