(* C18 — Every accepted interest curve is usable, bounded and non-decreasing.
   Quantification: every configuration with u32 fields that validate_seven_point accepts (any point
   count 0..5 — in fact any list length), every utilisation bit pattern. *)
Require Import Base Constants Fixed Curve FixedLemmas CurveLemmas.
Local Open Scope Z_scope.

(* Uf / Rf are the exact values of the program's u32 -> I80F48 conversions:
   Uf u = floor(u * 2^48 / (2^32-1)),  Rf r = floor(r * 2^48 / (2^32-1)) * 10. *)

Theorem C18_curve_defined_and_bounded :
  forall c ur, cfg_ok c -> validate_seven_point c = Ok tt ->
  exists r, mpc c ur = Ok r /\ Rf (ir_zero c) <= r <= Rf (ir_hundred c).
Proof. exact curve_defined_bounded. Qed.

Theorem C18_curve_monotone :
  forall c u1 u2 r1 r2, cfg_ok c -> validate_seven_point c = Ok tt -> u1 <= u2 ->
  mpc c u1 = Ok r1 -> mpc c u2 = Ok r2 -> r1 <= r2.
Proof. exact curve_monotone. Qed.

Theorem C18_curve_hits_points :
  forall c p, cfg_ok c -> validate_seven_point c = Ok tt -> In p (ir_points c) -> rp_util p <> 0 ->
  mpc c (Uf (rp_util p)) = Ok (Rf (rp_rate p)).
Proof. exact curve_hits_points. Qed.

Theorem C18_curve_endpoints :
  forall c, cfg_ok c -> validate_seven_point c = Ok tt ->
  (forall ur, ur <= 0 -> mpc c ur = Ok (Rf (ir_zero c))) /\
  ((forall p, In p (ir_points c) -> rp_util p < U32_MAXZ) ->
   forall ur, ONE <= ur -> mpc c ur = Ok (Rf (ir_hundred c))).
Proof. exact curve_endpoints. Qed.

Theorem C18_borrow_ge_base_lend_le_base :
  forall c pf ur r, calc_interest_rate c pf ur = Ok r ->
  0 <= ir_ins_rate c -> 0 <= ir_grp_rate c -> 0 <= ir_ins_fixed c -> 0 <= ir_grp_fixed c ->
  0 <= pf_rate pf -> 0 <= pf_fixed pf -> 0 <= r_base r ->
  r_base r <= r_borrowing r /\ (0 <= ur <= ONE -> r_lending r <= r_base r).
Proof. exact borrow_ge_lend_le. Qed.

(* an accepted curve cannot by itself make the rate computation (hence accrual) fail:
   fees in [0, 2^30], utilisation in [0, 65536] *)
Theorem C18_accrual_rate_total :
  forall c pf ur, cfg_ok c -> validate_seven_point c = Ok tt ->
  ir_curve_type c = INTEREST_CURVE_SEVEN_POINT -> fees_ok c pf (2^78) -> 0 <= ur <= 2^64 ->
  exists r, calc_interest_rate c pf ur = Ok r.
Proof. exact calc_total_seven. Qed.

Theorem C18_legacy_defined_bounded_monotone :
  forall c, validate_legacy c = Ok tt -> ir_max c <= I128_MAX / 2 ->
  (forall ur, 0 <= ur <= ONE ->
     exists r, legacy_curve c ur = Ok r /\ 0 <= r <= ir_max c /\
               (ur <= ir_optimal c -> r <= ir_plateau c) /\ (ir_optimal c < ur -> ir_plateau c <= r)) /\
  (forall u1 u2 r1 r2, 0 <= u1 -> u1 <= u2 -> u2 <= ONE ->
     legacy_curve c u1 = Ok r1 -> legacy_curve c u2 = Ok r2 -> r1 <= r2).
Proof. intros c Hv Hm. split; [exact (fun ur => legacy_ok c ur Hv Hm) | exact (fun u1 u2 r1 r2 => legacy_mono c u1 u2 r1 r2 Hv Hm)]. Qed.

(* Non-vacuity: a concrete accepted 5-point curve with adjacent utils and a point at u32::MAX *)
Definition ex_cfg : ir_config :=
  mkIR 0 0 0 100 200 300 400 1000 4000000000
       [mkRP 1 1000; mkRP 2 1000; mkRP 2147483648 500000000; mkRP 4294967294 3000000000; mkRP 4294967295 4000000000] 1.
Example C18_nonvacuous :
  validate_seven_point ex_cfg = Ok tt /\
  Forall pt_ok (ir_points ex_cfg) /\
  is_ok (calc_interest_rate ex_cfg (mkPF true 5 7) (ONE / 2)) = true /\
  is_ok (validate_seven_point (mkIR 0 0 0 0 0 0 0 5 4 [] 1)) = false.
Proof. split; [reflexivity|]. split; [repeat constructor; cbv; discriminate|]. split; reflexivity. Qed.

Print Assumptions C18_curve_defined_and_bounded.
Print Assumptions C18_curve_monotone.
Print Assumptions C18_curve_hits_points.
Print Assumptions C18_curve_endpoints.
Print Assumptions C18_borrow_ge_base_lend_le_base.
Print Assumptions C18_accrual_rate_total.
Print Assumptions C18_legacy_defined_bounded_monotone.
