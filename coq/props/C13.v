(* C13 — Accepted configurations are coherent and always leave a liquidation buffer.
   Statements only; every proof is `exact <lemma>`.  Numbers are raw I80F48 bits: ONE = 2^48 is 1.0,
   2 * ONE is 2.0.  Quantification: every configuration record / option argument / e-mode entry list
   of any length over all of Z (hence all i128 / u64 / u16 bit patterns), every sequence of
   configuration requests, every portfolio of any length.
   Valid g b  :=  BankConfig::validate (cb_cfg b) = Ok  /\  validate_entries_with_liability_weights
                  (cb_emode b) against b's liability weights and the group's caps g = Ok  /\  the stored
                  entries are sorted by tag (what lending_pool_configure_bank_emode stores). *)
Require Import Base Constants ConfigGen Fixed Curve Config Emode ConfigPaths ConfigHealth.
Require Import FixedLemmas CurveLemmas ConfigLemmas ConfigHealthLemmas.
Local Open Scope Z_scope.

(* ---- validators: Ok implies every stated inequality *)
Theorem C13_validate_sound :
  forall c, bc_validate c = Ok tt ->
  0 <= bc_awi c <= ONE /\ bc_awi c <= bc_awm c <= 2 * ONE /\
  ONE <= bc_lwm c <= bc_lwi c /\
  (bc_risk_tier c = RISK_ISOLATED -> bc_awi c = 0 /\ bc_awm c = 0) /\
  10 <= bc_max_age c /\
  ir_validate (bc_ir c) = Ok tt.
Proof. exact bc_validate_sound. Qed.

Theorem C13_staked_validate_sound :
  forall s, ss_validate s = Ok tt ->
  0 <= ss_awi s <= ONE /\ ss_awi s <= ss_awm s <= 2 * ONE /\
  (ss_risk_tier s = RISK_ISOLATED -> ss_awi s = 0 /\ ss_awm s = 0).
Proof. exact ss_validate_sound. Qed.

(* entry_ok lwi lwm capi capm e  :=  e is empty (tag 0)  \/
     0 <= init <= maint  /\  0 < lwi  /\  0 < lwm  /\  init < lwi  /\  maint < lwm  /\
     lev_code init lwi <= capi  /\  lev_code maint lwm <= capm      (lev_code cw lw = ONE*ONE / (ONE - cw*ONE/lw),
                                                                     the leverage exactly as the code computes it)
     /\  ONE*ONE*lwi < (capi+1) * (ONE*(lwi-init) + lwi)  /\  the same for maint    (exact-integer consequence) *)
Theorem C13_emode_validate_sound :
  forall es c ci cm, em_validate es c ci cm = Ok tt ->
  exists capi capm,
    u32_to_basis ci = Ok capi /\ u32_to_basis cm = Ok capm /\
    Forall (entry_ok (bc_lwi c) (bc_lwm c) capi capm) (es_entries es) /\
    no_adjacent_dup (nonempty_tags (es_entries es)).
Proof. exact em_validate_sound. Qed.

Theorem C13_emode_sorted_no_duplicates :
  forall es c ci cm, em_validate es c ci cm = Ok tt -> es_sorted (es_entries es) ->
  NoDup (nonempty_tags (es_entries es)).
Proof. exact em_sorted_no_duplicates. Qed.

(* ---- every configuration path *)
Theorem C13_add_bank_valid :
  forall g cc b, ix_add_bank cc = Ok b -> Valid g b.
Proof. exact add_bank_valid. Qed.

Theorem C13_add_bank_permissionless_valid :
  forall g s oracle_check b, ix_add_bank_permissionless s oracle_check = Ok b -> Valid g b.
Proof. exact add_bank_permissionless_valid. Qed.

(* full configure, interest-only, limits-only, e-mode configure, e-mode clone, staked-settings propagation,
   curve migration.  req_ok r is True for every request except clone, where it asks that the source
   bank is itself Valid (for the caps in force when its entries were written): all banks of a group are
   in the invariant together. *)
Theorem C13_paths_preserve_valid :
  forall g b r b', req_ok r -> apply_req g b r = Ok b' -> Valid g b -> Valid g b'.
Proof. exact paths_preserve_valid. Qed.

Theorem C13_sequences_preserve_valid :
  forall g rs b, Forall req_ok rs -> Valid g b -> Valid g (apply_reqs g b rs).
Proof. exact sequences_preserve_valid. Qed.

(* e-mode clone (repaired by /repo f3ce7b8f, former finding emode-clone-unvalidated): the copied entries
   are accepted only if they pass the DESTINATION's validation *)
Theorem C13_clone_emode_valid :
  forall g src dst dst',
  ix_clone_emode g src dst = Ok dst' -> cfg_valid (cb_cfg dst) ->
  es_sorted (es_entries (cb_emode src)) -> Valid g dst'.
Proof. exact clone_emode_valid. Qed.

(* changing liability weights after e-mode entries were set: an unfrozen configure re-runs the entry
   validation against the new weights *)
Theorem C13_configure_revalidates_emode :
  forall g b o b', ix_configure_bank g b o = Ok b' -> cb_get_flag b FREEZE_SETTINGS = false ->
  em_validate (cb_emode b') (cb_cfg b') (cap_init g) (cap_maint g) = Ok tt /\ cb_emode b' = cb_emode b.
Proof. exact configure_revalidates_emode. Qed.

(* ---- killed-by-bankruptcy *)
Theorem C13_no_request_kills :
  forall g b r b', apply_req g b r = Ok b' -> op_of b <> OP_KILLED -> op_of b' <> OP_KILLED.
Proof. exact no_request_kills. Qed.

(* (repaired by /repo d85d2d97, former finding killed-bank-revived) no admin request takes a bank out of
   the killed state, neither one request nor any sequence *)
Theorem C13_killed_forever :
  forall g b r b', apply_req g b r = Ok b' -> op_of b = OP_KILLED -> op_of b' = OP_KILLED.
Proof. exact killed_forever. Qed.

Theorem C13_killed_forever_sequences :
  forall g rs b, op_of b = OP_KILLED -> op_of (apply_reqs g b rs) = OP_KILLED.
Proof. exact killed_forever_seq. Qed.

(* ---- the buffer *)
Theorem C13_reconcile_keeps_init_le_maint :
  forall cfgs r, Forall (Forall entry_le) cfgs -> reconcile_emode_configs cfgs = Ok r -> Forall entry_le r.
Proof. exact reconcile_keeps_le. Qed.

(* pos_ok p := 0 <= amount, 0 <= price, 0 < scale, BankConfig::validate (bank of p) = Ok, discount in [0,1].
   For ANY reconciled e-mode config whose non-empty entries have init <= maint: position by position
   the Initial requirement is the stricter one, so passing it implies passing Maintenance. *)
Theorem C13_buffer :
  forall recon l ai li am lm,
  Forall pos_ok l -> Forall entry_le recon ->
  health_components CRInitial recon l (0, 0) = Ok (ai, li) ->
  health_components CRMaint recon l (0, 0) = Ok (am, lm) ->
  ai <= am /\ lm <= li /\ (li <= ai -> lm <= am).
Proof. exact buffer. Qed.

Theorem C13_buffer_with_emode :
  forall l ai li am lm,
  Forall pos_ok l -> Forall pos_emode_ok l ->
  account_health CRInitial l = Ok (ai, li) ->
  account_health CRMaint l = Ok (am, lm) ->
  li <= ai -> lm <= am.
Proof. exact buffer_with_emode. Qed.

Theorem C13_buffer_without_emode :
  forall l ai li am lm,
  Forall pos_ok l ->
  account_health_no_emode CRInitial l = Ok (ai, li) ->
  account_health_no_emode CRMaint l = Ok (am, lm) ->
  li <= ai -> lm <= am.
Proof. exact buffer_without_emode. Qed.

(* the discount of maybe_get_asset_weight_init_discount is always a factor in [0,1] (hypothesis of pos_ok) *)
Theorem C13_init_discount_in_unit_interval :
  forall limit total price scale d,
  0 <= limit -> init_discount limit total price scale = Ok (Some d) -> 0 <= d <= ONE.
Proof. exact init_discount_range. Qed.

(* Non-vacuity: a concrete valid bank with an accepted e-mode entry at 8x / 16x leverage against the 15x / 20x
   caps, a portfolio on which both health evaluations succeed with the e-mode weight in force, rejected
   configurations, and the regression witnesses of the two repaired findings *)
Definition ex_cfg : bank_cfg := w_cfg ONE ONE OP_OPERATIONAL.
Definition ex_entries : list emode_entry := [mkEE 7 0 (ONE - ONE / 8) (ONE - ONE / 16)].
Definition ex_lender : cbank := mkCBank ex_cfg CLOSE_ENABLED_FLAG (mkES 0 0 1 ex_entries).
Definition ex_coll : cbank := mkCBank ex_cfg CLOSE_ENABLED_FLAG (mkES 7 0 0 []).
Definition ex_portfolio : list position :=
  [mkPos false (1000 * ONE) ONE ONE ex_coll None; mkPos true (800 * ONE) ONE ONE ex_lender None].
Example C13_nonvacuous :
  Valid w_caps ex_lender /\
  account_health CRInitial ex_portfolio = Ok (875 * ONE, 800 * ONE) /\
  account_health CRMaint ex_portfolio = Ok (1875 * ONE / 2, 800 * ONE) /\
  account_health_no_emode CRInitial ex_portfolio = Ok (500 * ONE, 800 * ONE) /\
  is_ok (bc_validate (w_cfg ONE (ONE + 1) OP_OPERATIONAL)) = false /\
  is_ok (ix_configure_bank w_caps ex_lender
           (mkCO None None None None None None (Some OP_KILLED) None None None None None None None None None)) = false /\
  (* the two repaired defects: reviving a killed bank and cloning entries that do not fit the destination fail *)
  Valid w_caps w_killed /\ ix_configure_bank w_caps w_killed w_revive_opt = Err EBankKilled /\
  Valid w_caps w_src /\ ix_clone_emode w_caps w_src w_dst = Err EBadEmodeConfig /\
  is_ok (ix_clone_emode w_caps w_src w_src) = true.
Proof.
  split; [split; [vm_compute; reflexivity | split; [vm_compute; reflexivity |
    repeat constructor]] |].
  do 5 (split; [vm_compute; reflexivity|]).
  split; [exact w_killed_valid|]. split; [vm_compute; reflexivity|].
  split; [exact w_src_valid|]. split; vm_compute; reflexivity.
Qed.

Print Assumptions C13_validate_sound.
Print Assumptions C13_staked_validate_sound.
Print Assumptions C13_emode_validate_sound.
Print Assumptions C13_emode_sorted_no_duplicates.
Print Assumptions C13_add_bank_valid.
Print Assumptions C13_add_bank_permissionless_valid.
Print Assumptions C13_paths_preserve_valid.
Print Assumptions C13_sequences_preserve_valid.
Print Assumptions C13_clone_emode_valid.
Print Assumptions C13_configure_revalidates_emode.
Print Assumptions C13_no_request_kills.
Print Assumptions C13_killed_forever.
Print Assumptions C13_killed_forever_sequences.
Print Assumptions C13_reconcile_keeps_init_le_maint.
Print Assumptions C13_buffer.
Print Assumptions C13_buffer_with_emode.
Print Assumptions C13_buffer_without_emode.
Print Assumptions C13_init_discount_in_unit_interval.
