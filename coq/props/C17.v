(* C17 — Caps and utilisation: limits hold after every user action.
   Wrapper-level statements (the primitives every handler goes through); of_int n = n * 2^48.
   Drift-tagged banks scale the deposit limit to 9 decimals (scale_drift_deposit_limit): the cap
   statements below are for the other tags (the scaled comparison is covered by the correspondence). *)
Require Import Base Constants Fixed Curve Bank BankOps FixedLemmas BankLemmas ValueLemmas.
Require Import Risk TransferFee Handlers SolvencyWorld HandlerWorld CapsHandlers CapErrLemmas UpToLimit.
Local Open Scope Z_scope.

(* after any successful deposit (or repayment overflow) that mints shares, total deposits are
   strictly below the deposit limit, unless the limit is u64::MAX (inactive) *)
Theorem C17_deposit_below_limit :
  forall b bl now delta t b' bl', wf_sv b -> wf_bal bl -> 0 <= delta -> t <> IncBypassDepositLimit ->
  increase_balance b bl now delta t = Ok (b', bl') ->
  0 < ashares b (inc_a_inc b bl delta) -> b_dep_limit b <> U64_MAX -> b_asset_tag b <> ASSET_TAG_DRIFT ->
  b_tas b' * b_asv b' / ONE < of_int (b_dep_limit b').
Proof. exact deposit_under_cap. Qed.

(* after any successful borrow / withdraw: total debt strictly below the borrow limit (when new debt
   was created and the limit is active) and total deposits >= total debt *)
Theorem C17_borrow_below_limit_and_utilisation :
  forall b bl now delta t b' bl', wf_sv b -> wf_bal bl -> 0 <= delta -> t <> DecBypassBorrowLimit ->
  decrease_balance b bl now delta t = Ok (b', bl') ->
  (0 < lshares b (dec_l_inc b bl delta) -> b_bor_limit b <> U64_MAX ->
     b_tls b' * b_lsv b' / ONE < of_int (b_bor_limit b')) /\
  b_tls b' * b_lsv b' / ONE <= b_tas b' * b_asv b' / ONE.
Proof. exact borrow_under_cap_and_utilisation. Qed.

Theorem C17_withdraw_all_utilisation :
  forall b bl now b' bl' n, wf_sv b -> wf_bal bl -> withdraw_all b bl now = Ok (b', bl', n) ->
  b_tls b' * b_lsv b' / ONE <= b_tas b' * b_asv b' / ONE.
Proof. exact withdraw_all_utilisation. Qed.

(* the remaining capacity is safe: depositing any whole amount up to it never fails for the cap *)
Theorem C17_capacity_is_safe :
  forall b c n, wf_sv b -> 0 <= b_tas b -> b_asset_tag b <> ASSET_TAG_DRIFT -> b_dep_limit b <> U64_MAX ->
  remaining_deposit_capacity b = Ok c -> 0 <= n <= c -> 0 < c ->
  change_asset_shares b (ashares b (of_int n)) false <> Err (E E_BankAssetCapacityExceeded).
Proof. exact capacity_safe. Qed.

(* liquidation alone may exceed the caps: the two bypass primitives succeed beyond the limits *)
Definition ex_bank (lim : Z) : bank :=
  mkBank ONE ONE (10 * ONE) 0 0 0 0 0 lim 5 0 6 0 0 0 0 0 1 (mkIR 0 0 0 0 0 0 0 0 0 [] 1).
Example C17_only_liquidation_primitives_bypass :
  is_ok (increase_balance (ex_bank 10) bal_empty 0 (of_int 5) IncDepositOnly) = false /\
  is_ok (increase_balance (ex_bank 10) bal_empty 0 (of_int 5) IncBypassDepositLimit) = true /\
  is_ok (decrease_balance (ex_bank 100) bal_empty 0 (of_int 7) DecBorrowOnly) = false /\
  is_ok (decrease_balance (ex_bank 100) bal_empty 0 (of_int 7) DecBypassBorrowLimit) = true /\
  remaining_deposit_capacity (ex_bank 100) = Ok 89.
Proof. vm_compute. repeat split; reflexivity. Qed.

Print Assumptions C17_deposit_below_limit.
Print Assumptions C17_borrow_below_limit_and_utilisation.
Print Assumptions C17_withdraw_all_utilisation.
Print Assumptions C17_capacity_is_safe.

(* ---- instruction level (handler model of Handlers.v; HOk2 is the invariant proved preserved in C01) ---- *)
(* a successful deposit that added deposit shares leaves total deposits strictly below an active deposit limit *)
Theorem C17_deposit_instruction_respects_limit :
  forall w a b n up w' hb hb', HOk2 w -> 0 <= n -> h_deposit w a b n up = Ok w' ->
  nth_bank w b = Ok hb -> nth_bank w' b = Ok hb' -> b_tas (hb_b hb) < b_tas (hb_b hb') ->
  b_dep_limit (hb_b hb) <> U64_MAX -> b_asset_tag (hb_b hb) <> ASSET_TAG_DRIFT ->
  deposits_of (hb_b hb') < of_int (b_dep_limit (hb_b hb')).
Proof. exact h_deposit_respects_limit. Qed.

(* a successful borrow that created debt leaves total debt strictly below an active borrow limit, and
   total deposits >= total debt in any case (origination fee included) *)
Theorem C17_borrow_instruction_respects_limit_and_utilisation :
  forall w a b n w' hb hb', HOk2 w -> 0 <= n -> h_borrow w a b n = Ok w' ->
  nth_bank w b = Ok hb -> nth_bank w' b = Ok hb' ->
  (b_tls (hb_b hb) < b_tls (hb_b hb') -> b_bor_limit (hb_b hb) <> U64_MAX ->
     debt_of (hb_b hb') < of_int (b_bor_limit (hb_b hb'))) /\
  debt_of (hb_b hb') <= deposits_of (hb_b hb').
Proof. exact h_borrow_respects_limit_and_utilisation. Qed.

(* a successful withdrawal (partial or all) leaves total deposits >= total debt *)
Theorem C17_withdraw_instruction_keeps_utilisation :
  forall w a b n all w' hb', HOk2 w -> 0 <= n -> h_withdraw w a b n all = Ok w' -> nth_bank w' b = Ok hb' ->
  debt_of (hb_b hb') <= deposits_of (hb_b hb').
Proof. exact h_withdraw_keeps_utilisation. Qed.

Print Assumptions C17_deposit_instruction_respects_limit.
Print Assumptions C17_borrow_instruction_respects_limit_and_utilisation.
Print Assumptions C17_withdraw_instruction_keeps_utilisation.

(* a deposit flagged "up to limit" NEVER fails with BankAssetCapacityExceeded (nc r := r <> Err (E E_BankAssetCapacityExceeded)),
   from every well-formed world, for every amount: the capacity is computed on the accrued bank (fix 0857a8b8 in /repo) *)
Theorem C17_up_to_limit_never_fails_for_capacity :
  forall w a b n, HOk2 w -> 0 <= n -> h_deposit w a b n true <> Err (E E_BankAssetCapacityExceeded).
Proof. exact h_deposit_up_to_limit_never_exceeds. Qed.

(* and it books exactly min(requested amount, remaining capacity of the accrued bank) *)
Theorem C17_up_to_limit_books_min :
  forall w a b n w' hb hb', h_deposit w a b n true = Ok w' -> nth_bank w b = Ok hb -> nth_bank w' b = Ok hb' ->
  exists bk1 c, accrue_interest (hb_b hb) (hw_pf w) (hw_now w) = Ok bk1 /\ remaining_deposit_capacity bk1 = Ok c /\
    ( (Z.min n c = 0 /\ hb' = set_hb_b bk1 hb)
      \/ exists ac i la1 bl bk2 bl2, nth_acct w a = Ok ac /\
           wrapper_find_or_create (bank_pk b) bk1 (ha_la ac) (hw_now w) = Ok (i, la1) /\ nth_res i la1 = Ok bl /\
           increase_balance bk1 bl (t64 w) (of_int (Z.min n c)) IncDepositOnly = Ok (bk2, bl2) /\
           b_tas (hb_b hb') = b_tas bk2 /\ b_asv (hb_b hb') = b_asv bk2 ).
Proof. exact h_deposit_up_to_limit_amount. Qed.

Print Assumptions C17_up_to_limit_never_fails_for_capacity.
Print Assumptions C17_up_to_limit_books_min.
