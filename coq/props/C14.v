(* C14 — Operational-state and global-pause gating of financial instructions.
   Statements only; every proof is `exact <lemma>`.  `accounts_table` and `validate_bank_state_calls` are
   regenerated from the current source on every run. *)
Require Import Base Constants Panic AnchorTypes AnchorSem Gate AccountsTable HandlerFacts Spec
               AnchorSemLemmas AuthLemmas GateLemmas.
Require Import ConfigGen Fixed Curve Config Emode ConfigPaths ConfigLemmas KilledLemmas.
Local Open Scope string_scope.
Local Open Scope Z_scope.

(* (1) validate_bank_state, the whole truth table: a killed bank refuses every kind; a paused bank refuses the
   kinds used by financial instructions; a reduce-only bank refuses the deposit / borrow kind only *)
Theorem C14_bank_state_table :
  forall st k,
  validate_bank_state st k =
  match st, k with
  | KilledByBankruptcy, _ => Err (E E_BankKilledByBankruptcy)
  | Paused, (FailsInPausedState | FailsIfPausedOrReduceState) => Err (E E_BankPaused)
  | ReduceOnly, (FailsInReduceState | FailsIfPausedOrReduceState) => Err (E E_BankReduceOnly)
  | _, _ => Ok tt
  end.
Proof. exact bank_state_table. Qed.

(* (2) over the generated handler facts: deposit, borrow and the three integration deposits pass the bank they
   touch to validate_bank_state with the kind that only lets Operational banks through ... *)
Theorem C14_deposit_borrow_need_operational :
  forall ix e f w b,
  In ix ["lending_account_deposit"; "lending_account_borrow"; "kamino_deposit"; "drift_deposit"; "solend_deposit"] ->
  find_entry ix accounts_table = Some e -> In f (e_fields e) -> wrap_is_loader "Bank" f = true ->
  is_ok (handler_bank_gate ix w b) = true -> bank_state_of w b (f_name f) = Operational.
Proof. exact deposit_family_gate. Qed.

(* ... withdraw, repay, liquidate (both banks), bankruptcy and the three integration withdraws with the kind
   that refuses Paused and Killed banks, and lets ReduceOnly ones through *)
Theorem C14_withdraw_repay_liquidate_need_not_paused :
  forall ix e f w b,
  In ix ["lending_account_withdraw"; "lending_account_repay"; "lending_account_liquidate"; "lending_pool_handle_bankruptcy";
         "kamino_withdraw"; "drift_withdraw"; "solend_withdraw"] ->
  find_entry ix accounts_table = Some e -> In f (e_fields e) -> wrap_is_loader "Bank" f = true ->
  is_ok (handler_bank_gate ix w b) = true ->
  bank_state_of w b (f_name f) = Operational \/ bank_state_of w b (f_name f) = ReduceOnly.
Proof. exact withdraw_family_gate. Qed.

Theorem C14_reduce_only_withdraw_repay_still_work :
  forall ix w b,
  In ix ["lending_account_withdraw"; "lending_account_repay"; "lending_account_liquidate"; "lending_pool_handle_bankruptcy";
         "kamino_withdraw"; "drift_withdraw"; "solend_withdraw"] ->
  (forall c, In c (calls_of ix) ->
     bank_state_of w b (fst (fst c)) = Operational \/ bank_state_of w b (fst (fst c)) = ReduceOnly) ->
  handler_bank_gate ix w b = Ok tt.
Proof. exact withdraw_family_gate_open. Qed.

(* (3) while the cached protocol pause of the group is in force no financial instruction is accepted: each
   carries the constraint !group.is_protocol_paused() on the group account it takes *)
Theorem C14_financial_instructions_refused_while_paused :
  forall pda opq e,
  In e accounts_table ->
  In (e_ix e) ["lending_account_deposit"; "lending_account_withdraw"; "lending_account_borrow"; "lending_account_repay";
               "lending_account_liquidate"; "lending_pool_handle_bankruptcy";
               "kamino_deposit"; "kamino_withdraw"; "drift_deposit"; "drift_withdraw"; "solend_deposit"; "solend_withdraw";
               "transfer_to_new_account"; "transfer_to_new_account_pda";
               "lending_account_withdraw_emissions"; "lending_account_withdraw_emissions_permissionless";
               "lending_pool_collect_bank_fees"; "lending_pool_withdraw_fees"; "lending_pool_withdraw_fees_permissionless";
               "lending_pool_withdraw_insurance"; "lending_pool_update_fees_destination_account"] ->
  exists g, group_field_of e = Some g /\
    forall w b sg, accepts pda opq e w b sg = true ->
      exists kg, bkey b g = Some kg /\ is_protocol_paused (group_cache (acct_of w kg)) (w_now w) = Ok false.
Proof. exact financial_not_paused. Qed.

Theorem C14_financial_instructions_exist :
  forall ix, In ix FinancialIx -> exists e, In e accounts_table /\ e_ix e = ix.
Proof. exact financial_names_exist. Qed.

(* (4) paused = flag set and fewer than 1800 s since the cached start; from 1800 s on the group is open again
   whatever the cache says, i.e. without anybody updating it *)
Theorem C14_paused_iff_flag_and_not_expired :
  forall c now, - 2^62 <= c_start c <= 2^62 -> 0 <= now < 2^62 ->
  is_protocol_paused c now = Ok (flag_set (c_flags c) && negb (c_start c + 1800 <=? now)).
Proof. exact is_protocol_paused_spec. Qed.

Theorem C14_expired_pause_accepts_again :
  forall c now, - 2^62 <= c_start c <= 2^62 -> 0 <= now < 2^62 -> now - c_start c >= 1800 ->
  is_protocol_paused c now = Ok false.
Proof. exact pause_expired_not_paused. Qed.

Theorem C14_pause_constraint_after_expiry :
  forall opq w b g kg,
  bkey b g = Some kg ->
  - 2^62 <= c_start (group_cache (acct_of w kg)) <= 2^62 -> 0 <= w_now w < 2^62 ->
  w_now w - c_start (group_cache (acct_of w kg)) >= 1800 ->
  eval_cons opq w b (CNotPaused g) = true.
Proof. exact not_paused_constraint_after_expiry. Qed.

(* (5) deposits of a reduce-only bank: nothing toward new borrowing (Initial), unchanged for liquidation
   purposes (Maintenance); the operational state enters the valuation nowhere else *)
Theorem C14_reduce_only_valuation :
  forall t st r rest,
  weighted_asset_value_rule t st r rest =
  match t, st, r with
  | Isolated, _, _ => Ok 0
  | Collateral, ReduceOnly, Initial => Ok 0
  | Collateral, _, _ => rest
  end.
Proof. exact valuation_rule_only_reduce_only_initial. Qed.

(* (6) "permanently": whatever sequence of configuration requests the admin sends (configure, interest-only,
   limits-only, e-mode, clone, staked propagation, curve migration; accepted or refused), a bank that is in the
   killed state stays there, and in that state validate_bank_state refuses every instruction kind *)
Theorem C14_killed_permanently :
  forall g rs b k,
  op_of b = OP_KILLED ->
  opstate_of_Z (op_of (apply_reqs g b rs)) = Some KilledByBankruptcy /\
  validate_bank_state KilledByBankruptcy k = Err (E E_BankKilledByBankruptcy).
Proof. exact killed_permanently. Qed.

(* Non-vacuity: a pause that started at 1000 blocks at 2799 and not at 2800; the deposit entry carries the
   pause constraint; the gate of deposit on a reduce-only bank refuses with BankReduceOnly (6017), the gate of
   withdraw lets it through. *)
Example C14_nonvacuous :
  is_protocol_paused (mkC 1 1000 0) 999 = Ok true /\
  is_protocol_paused (mkC 1 1000 0) 2799 = Ok true /\
  is_protocol_paused (mkC 1 1000 0) 2800 = Ok false /\
  is_protocol_paused (mkC 0 1000 0) 1500 = Ok false /\
  bank_gate [(ReduceOnly, FailsIfPausedOrReduceState)] = Err (E 6017) /\
  bank_gate [(ReduceOnly, FailsInPausedState)] = Ok tt /\
  bank_gate [(Paused, FailsInPausedState)] = Err (E 6016) /\
  calls_of "lending_account_liquidate" = [("asset_bank", FailsInPausedState, true); ("liab_bank", FailsInPausedState, true)] /\
  List.length FinancialIx = 21%nat.
Proof. vm_compute. repeat split; reflexivity. Qed.

Print Assumptions C14_bank_state_table.
Print Assumptions C14_deposit_borrow_need_operational.
Print Assumptions C14_withdraw_repay_liquidate_need_not_paused.
Print Assumptions C14_reduce_only_withdraw_repay_still_work.
Print Assumptions C14_financial_instructions_refused_while_paused.
Print Assumptions C14_financial_instructions_exist.
Print Assumptions C14_paused_iff_flag_and_not_expired.
Print Assumptions C14_expired_pause_accepts_again.
Print Assumptions C14_pause_constraint_after_expiry.
Print Assumptions C14_reduce_only_valuation.
Print Assumptions C14_killed_permanently.
