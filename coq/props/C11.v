(* C11 — Flash loans are bracketed: health is enforced before the transaction ends.
   Statements only; every proof is `exact <lemma>` (lemmas/TxLemmas.v, lemmas/TxWorldLemmas.v).
   Quantification: transactions of ANY length over arbitrary programs / instructions (including
   instructions that invoke marginfi by CPI), any end_index argument, any marginfi state; valuation
   and bookkeeping are arbitrary (`R : env BW PF`).
   `ouc w k` is a ghost bit: a risk-increasing action on k (borrow, withdraw, acting as classic
   liquidator) ran with its initial-margin check skipped because of IN_FLASHLOAN and no
   initial-margin check on k has passed since. *)
Require Import Base Fixed Constants TxConstants Tx TxSpec TxToy TxLemmas TxWorldLemmas TxToyLemmas.
Local Open Scope Z_scope.

(* ---- (1) exactly when check_flashloan_can_start accepts ---- *)
Theorem C11_start_checks : forall fl key ixes cur end_idx cpi,
  check_flashloan_can_start fl key ixes cur end_idx cpi = Ok tt <->
  (exists c, nth_z ixes cur = Some c /\ d_prog c = PMfi) /\
  cur < end_idx /\ cpi = false /\
  (exists e, nth_z ixes end_idx = Some e /\ is_endfl_for key e) /\
  f_disabled fl = false /\ f_fl fl = false /\ f_recv fl = false /\ f_frozen fl = false.
Proof. exact check_flashloan_can_start_spec. Qed.

Theorem C11_start : forall (BW PF : Type) ixes cur cpi (w : world BW PF) a auth e w',
  h_start_fl ixes cur cpi w a auth e = Ok w' ->
  exists A, w_accts w a = Some A /\ a_auth A = auth /\
    check_flashloan_can_start (a_fl A) a ixes cur e cpi = Ok tt /\ ofl w' a = true.
Proof. exact (@start_fl_facts). Qed.

(* ---- (2) no committed transaction leaves IN_FLASHLOAN set, or an account whose last
        risk-increasing action has not been followed by a passed initial-margin check ---- *)
Theorem C11_no_flag_survives : forall (BW PF : Type) (R : env BW PF) (w w' : world BW PF) tx,
  (forall k, ofl w k = false) -> (forall k, ouc w k = false) -> exec_tx R w tx = Some w' ->
  forall k, ofl w' k = false /\ ouc w' k = false.
Proof. exact (@fl_never_survives). Qed.

(* ---- (3) the end instruction clears the flag and runs the full initial-margin check on the
        portfolio as it stands (which it leaves unchanged), never via CPI ---- *)
Theorem C11_end_enforces_init_health : forall (BW PF : Type) (R : env BW PF) cpi (w : world BW PF) a auth norem w',
  h_end_fl R cpi w a auth norem = Ok w' ->
  cpi = false /\
  exists A, w_accts w a = Some A /\ a_auth A = auth /\
    (* with its risk accounts the full check on the current world; WITHOUT them (norem) the engine's own verdict on
       an empty account list, which for the concrete engine only an account without balances passes (below) *)
    (if norem then e_init_check_norem R (a_pf A) else e_init_check R (w_bw w) (a_pf A)) = Ok tt /\
    ofl w' a = false /\ ouc w' a = false /\
    (exists A', w_accts w' a = Some A' /\ a_pf A' = a_pf A) /\ w_bw w' = w_bw w.
Proof. exact (@end_fl_facts). Qed.

(* for the concrete engine of the correspondence: omitting the risk accounts is accepted only on an account without
   any active balance, whose full check passes too *)
Theorem C11_end_without_risk_accounts_only_if_empty : forall cpi (w : world tbw tpf) a auth w',
  h_end_fl toy_env cpi w a auth true = Ok w' ->
  exists A, w_accts w a = Some A /\ a_pf A = [] /\ toy_init_check (w_bw w) (a_pf A) = Ok tt.
Proof. exact end_fl_norem_only_empty. Qed.

Theorem C11_not_via_cpi : forall (BW PF : Type) (R : env BW PF) (w : world BW PF),
  (forall K ixes cur a r, is_ok (h_start R K ixes cur true w a r) = false) /\
  (forall K a s, is_ok (h_end R K true w a s) = false) /\
  (forall ixes cur a au e, is_ok (h_start_fl ixes cur true w a au e) = false) /\
  (forall a au nr, is_ok (h_end_fl R true w a au nr) = false).
Proof. exact (@bracket_ops_not_in_cpi). Qed.

(* ---- (4) liquidation (both designs), bankruptcy, transfer and nesting are impossible while the
        flag is set.  Code: liquidate_start.rs:196,236 (constraint); marginfi_account.rs:506
        (RiskEngine::new) for the liquidatee in liquidate.rs:170; handle_bankruptcy.rs:238;
        transfer_account.rs:37,162; flashloan.rs:111 ---- *)
Theorem C11_flashloan_blocks : forall (BW PF : Type) (R : env BW PF) (w : world BW PF) a A,
  w_accts w a = Some A -> f_fl (a_fl A) = true ->
  (forall K ixes cur cpi r, is_ok (h_start R K ixes cur cpi w a r) = false) /\
  (forall l s ab lb m, is_ok (h_liquidate R w l s a ab lb m) = false) /\
  (forall s b, is_ok (h_bankruptcy R w a s b) = false) /\
  (forall n s na, is_ok (h_transfer R w a n s na) = false) /\
  (forall ixes cur cpi au e, is_ok (h_start_fl ixes cur cpi w a au e) = false).
Proof. exact (@flashloan_blocks). Qed.

(* Non-vacuity: account 3 (100 C at $10, init weight 0.5 => $500 of initial collateral) borrows
   100 L inside a flash loan bracket and repays it: commits with the flag clear; borrowing 900 L
   ($1125 initial liability) without repaying is stopped by the end instruction; naming a wrong end
   index, nesting, or omitting the end does not commit; outside a bracket the same borrow is
   refused immediately by the initial-margin check. *)
Definition fx_bw : tbw :=
  [(31, mkTB (10 * ONE) (ONE / 2) (3 * ONE / 4) ONE ONE 6); (32, mkTB ONE ONE ONE (5 * ONE / 4) ONE 6)].
Definition fx_F : acct tpf := mkA fl_zero 13 false false 0 c4_zero [(31, (100000000, 0)); (32, (0, 0))] false.
Definition fx_w : world tbw tpf := toy_world [(3, fx_F)] fx_bw 21 21 (ONE / 10).

Example C11_nonvacuous :
  (forall k, ofl fx_w k = false) /\ (forall k, ouc fx_w k = false) /\
  (match toy_exec_tx fx_w (map top [mk_CB; mk_SF 3 13 4; mk_BR 3 13 32 100000000; mk_RP 3 13 32 100000000; mk_EF 3 13]) with
   | Some w' => ofl w' 3 = false /\ ouc w' 3 = false | None => False end) /\
  toy_exec_tx_r fx_w (map top [mk_SF 3 13 2; mk_BR 3 13 32 900000000; mk_EF 3 13]) = Aborted 2 (E 6009) /\
  toy_exec_tx_r fx_w (map top [mk_BR 3 13 32 900000000]) = Aborted 0 (E 6009) /\
  toy_exec_tx fx_w (map top [mk_SF 3 13 1; mk_BR 3 13 32 100000000; mk_EF 3 13]) = None /\
  toy_exec_tx fx_w (map top [mk_SF 3 13 3; mk_SF 3 13 3; mk_BR 3 13 32 1; mk_EF 3 13]) = None /\
  toy_exec_tx fx_w (map top [mk_SF 3 13 1]) = None /\
  toy_exec_tx fx_w [top (mk_SF 3 13 2); proxy PJup (mk_BR 3 13 32 900000000); top (mk_EF 3 13)] = None /\
  toy_exec_tx fx_w [proxy PJup (mk_SF 3 13 1); top (mk_EF 3 13)] = None.
Proof.
  split; [intros k; unfold ofl, fx_w, toy_world; cbn [w_accts assoc]; destruct (3 =? k); reflexivity|].
  split; [intros k; unfold ouc, fx_w, toy_world; cbn [w_accts assoc]; destruct (3 =? k); reflexivity|].
  vm_compute. repeat split; reflexivity.
Qed.

Print Assumptions C11_start_checks.
Print Assumptions C11_end_without_risk_accounts_only_if_empty.
Print Assumptions C11_start.
Print Assumptions C11_no_flag_survives.
Print Assumptions C11_end_enforces_init_health.
Print Assumptions C11_not_via_cpi.
Print Assumptions C11_flashloan_blocks.
