(* C19 — Fees and emissions reach only their destinations, in exactly accrued amounts.
   Handler model: coq/model/Handlers.v (h_collect_fees), coq/model/Bank.v (claim_emissions,
   settle_emissions). Which signer may draw down the fee / insurance vaults is an account-constraint
   fact and is pinned in C08 (withdraw_fees, withdraw_fees_permissionless, withdraw_insurance). *)
Require Import Base Constants Fixed Curve Bank BankOps Risk TransferFee Handlers FixedLemmas BankLemmas HandlerLemmas TransferFeeLemmas.
Require Import Panic AnchorTypes AnchorSem Gate AccountsTable HandlerFacts Spec AnchorSemLemmas AuthLemmas.
Require Import Payout PayoutLemmas.
Local Open Scope Z_scope.

(* collecting bank fees: each bucket (insurance, group, program — in that order) gives up exactly the
   whole-token part of min(bucket, liquidity still available), the liquidity vault falls by the sum,
   the three destinations (insurance vault, fee vault, global fee wallet ATA) receive exactly those
   amounts (minus the token program's transfer fee on fee-bearing mints), totals and share values are
   untouched *)
Theorem C19_collect_fees_exact :
  forall w b w' hb, nth_bank w b = Ok hb -> h_collect_fees w b = Ok w' ->
  exists hb', nth_bank w' b = Ok hb' /\
  let bk := hb_b hb in let bk' := hb_b hb' in
  let avail0 := of_int (hb_vault hb) in
  let mi := fint (fmin (b_ins bk) avail0) in
  let mg := fint (fmin (b_grp bk) (avail0 - mi)) in
  let mp := fint (fmin (b_prog bk) (avail0 - mi - mg)) in
  b_ins bk' = b_ins bk - mi /\ b_grp bk' = b_grp bk - mg /\ b_prog bk' = b_prog bk - mp /\
  hb_vault hb' * ONE = hb_vault hb * ONE - (mi + mg + mp) /\
  (exists fi fg fp, tfee hb (mi / ONE) = Ok fi /\ tfee hb (mg / ONE) = Ok fg /\ tfee hb (mp / ONE) = Ok fp /\
     hb_insv hb' = hb_insv hb + mi / ONE - fi /\
     hb_feev hb' = hb_feev hb + mg / ONE - fg /\
     hb_feeata hb' = hb_feeata hb + mp / ONE - fp) /\
  b_tas bk' = b_tas bk /\ b_tls bk' = b_tls bk /\ b_asv bk' = b_asv bk /\ b_lsv bk' = b_lsv bk.
Proof. exact collect_fees_inv. Qed.

(* emissions: what a position is credited is taken out of the bank's funded remaining amount,
   exactly, and never exceeds it *)
Theorem C19_emissions_conserved_and_capped :
  forall b bl now b' bl', claim_emissions b bl now = Ok (b', bl') ->
  b_em_rem b' + bl_em bl' = b_em_rem b + bl_em bl /\
  bl_em bl' - bl_em bl <= Z.max 0 (b_em_rem b) /\
  (0 <= b_em_rem b -> 0 <= b_em_rem b' \/ bl_em bl' <= bl_em bl).
Proof. exact claim_emissions_conserves. Qed.

(* settling pays out the whole-token part of the position's outstanding emissions and keeps the fraction *)
Theorem C19_settle_pays_whole_tokens :
  forall b bl now b' bl' n, settle_emissions b bl now = Ok (b', bl', n) ->
  exists b1 bl1, claim_emissions b bl now = Ok (b1, bl1) /\ b' = b1 /\
  n * ONE + bl_em bl' = bl_em bl1 /\ 0 <= bl_em bl' < ONE /\ 0 <= n <= U64_MAX.
Proof. exact settle_emissions_exact. Qed.

(* 'only to the account authority's chosen destination', over the GENERATED accounts table (regenerated from the source on
   every run): lending_account_withdraw_emissions passes account validation only under the user signer rule with
   allow_receivership = FALSE (the authority; the group admin only on a frozen account; never 'anyone while the account
   is in receivership'), and the destination of permissionless payouts can be set only by the authority itself *)
Theorem C19_emissions_withdrawn_only_by_authority :
  forall pda opq e, In e accounts_table -> e_ix e = "lending_account_withdraw_emissions"%string ->
  forall w b sg, accepts pda opq e w b sg = true ->
  user_rule w b sg false "marginfi_account" "authority" "group".
Proof. exact emission_withdraw_signer. Qed.

Theorem C19_emissions_destination_set_only_by_authority :
  forall pda opq e, In e accounts_table -> e_ix e = "marginfi_account_update_emissions_destination_account"%string ->
  forall w b sg, accepts pda opq e w b sg = true ->
  owner_rule w b sg "marginfi_account" "authority".
Proof. exact emission_destination_owner. Qed.

Definition ex_hb : hbank :=
  mkHB (mkBank ONE ONE (100 * ONE) 0 (5 * ONE / 2) (7 * ONE) (ONE / 3) 0 U64_MAX U64_MAX 0 6 0 0 0 0 0 1 (mkIR 0 0 0 0 0 0 0 0 0 [] 1))
       (mkRC ONE ONE ONE ONE 0 0 0 []) (fixed_feed ONE) 6 0 0 0 false 0 0 0.
(* Funding: lending_pool_setup_emissions(total) and lending_pool_update_emissions_parameters(additional) record `amount`
   as funded emissions; the emissions vault receives AT LEAST that amount (Token-2022 transfer fee, pending fee change and
   any epoch included), so what positions can be credited (<= the recorded remaining amount, C19_emissions_conserved_and_capped)
   is covered by tokens in the vault *)
Theorem C19_emissions_funding_covers_recorded : forall has_fee s epoch balance amount sent recv,
  0 <= fs_old_bps s <= 10000 -> 0 <= fs_new_bps s <= 10000 -> 0 <= fs_old_max s -> 0 <= fs_new_max s ->
  0 <= amount ->
  fund_emissions has_fee s epoch balance amount = Ok (sent, recv) ->
  amount <= recv /\ recv <= sent /\ sent <= balance.
Proof. exact fund_emissions_covers. Qed.

Example C19_funding_nonvacuous :
  fund_emissions true (mkFS 100 5 500 U64_MAX 7) 7 U64_MAX 1000000000 = Ok (1052631579, 1000000000) /\
  fund_emissions true (mkFS 100 5 500 U64_MAX 7) 6 U64_MAX 1000000000 = Ok (1000000005, 1000000000).
Proof. vm_compute. split; reflexivity. Qed.

Example C19_nonvacuous :
  match h_collect_fees (mkHW [ex_hb] [] 0 (mkPF false 0 0) [] false) 0 with
  | Ok w' => map (fun hb => (hb_vault hb, hb_insv hb, hb_feev hb, hb_feeata hb, b_ins (hb_b hb) / (ONE / 2))) (hw_banks w')
  | Err _ => [] end = [(0, 2, 4, 0, 1)].
Proof. vm_compute. reflexivity. Qed.

(* ------------------------------------------------------------------------------------------------------------------
   Instruction level (model/Payout.v: the four fee / insurance instructions and the four emissions instructions, with
   their account constraints and token transfers).  'apart from bankruptcy cover, fee and insurance vaults can be drawn
   down only by the group admin or, for fees, by anyone into the destination the admin fixed' *)
Theorem C19_fee_vault_drawn_only_by_admin_or_to_fixed_destination : forall w signer op w',
  pay_step w signer op = Ok w' -> y_fee_vault w' < y_fee_vault w ->
  exists dst paid t, paid = y_fee_vault w - y_fee_vault w' /\ find_tok (y_toks w) dst = Some t /\ tk_mint t = MINT_BANK /\
    y_toks w' = credit (y_toks w) dst paid /\
    ((signer = y_admin w /\ exists a, op = YWithdrawFees dst a) \/
     (dst = y_fee_dest w /\ exists a, op = YWithdrawFeesPermissionless dst a)).
Proof. exact fee_vault_drawdown. Qed.

Theorem C19_insurance_vault_drawn_only_by_admin : forall w signer op w',
  pay_step w signer op = Ok w' -> y_ins_vault w' < y_ins_vault w ->
  signer = y_admin w /\ exists dst a t, op = YWithdrawInsurance dst a /\ a = y_ins_vault w - y_ins_vault w' /\
    find_tok (y_toks w) dst = Some t /\ y_toks w' = credit (y_toks w) dst a.
Proof. exact ins_vault_drawdown. Qed.

(* the fixed fee destination is changed only by the group admin (to a token account of the bank's mint); the wallet for
   permissionless emission payouts only by the account authority, on an account that is neither disabled nor frozen *)
Theorem C19_destinations_changed_only_by_their_owner : forall w signer op w',
  pay_step w signer op = Ok w' ->
  (y_fee_dest w' <> y_fee_dest w -> signer = y_admin w /\ op = YUpdateFeesDest (y_fee_dest w') /\
     exists t, find_tok (y_toks w) (y_fee_dest w') = Some t /\ tk_mint t = MINT_BANK) /\
  (y_em_wallet w' <> y_em_wallet w -> signer = y_auth w /\ op = YUpdateEmissionsDest (y_em_wallet w') /\
     aflag w ACCOUNT_DISABLED = false /\ aflag w ACCOUNT_FROZEN = false).
Proof. exact destinations_changed_by_owner. Qed.

(* 'emission rewards ... can be paid only to the account authority's chosen destination': the emissions vault pays the
   whole-token part of the position's credit, all of it into ONE token account: the one an authorized signer names (the
   authority; the group admin only while the account is frozen), or - triggered by anybody - the associated token account
   of the wallet the authority registered (never the unset default); never for a disabled account *)
Theorem C19_emissions_paid_only_to_chosen_destination : forall w signer op w',
  pay_step w signer op = Ok w' -> y_em_vault w' < y_em_vault w ->
  exists dst n t, n = y_em_vault w - y_em_vault w' /\ find_tok (y_toks w) dst = Some t /\ tk_mint t = MINT_EM /\
    y_toks w' = credit (y_toks w) dst n /\
    aflag w ACCOUNT_DISABLED = false /\
    settle_emissions (y_bank w) (y_bal w) (y_now w) = Ok (y_bank w', y_bal w', n) /\
    ((op = YWithdrawEmissions dst /\ authorized w signer = true) \/
     (op = YWithdrawEmissionsPermissionless dst /\ y_em_wallet w <> 0 /\ dst = ata (y_em_wallet w) /\ aflag w ACCOUNT_FROZEN = false)).
Proof. exact em_vault_drawdown. Qed.

(* every reachable state (any history of these instructions by any signers, failed instructions rolled back): token
   accounts keep distinct keys, no vault goes negative, the EMISSIONS VAULT COVERS the funded remaining amount plus the
   position's unpaid credit ('emissions vault vs remaining + sum of outstanding'), and per mint no token is created or
   destroyed (vaults + token accounts are constant) *)
Theorem C19_payout_histories_keep_vaults_covered : forall ops w, pay_inv w ->
  pay_inv (pay_run w ops) /\ supply_bank (pay_run w ops) = supply_bank w /\ supply_em (pay_run w ops) = supply_em w /\
  y_admin (pay_run w ops) = y_admin w /\ y_auth (pay_run w ops) = y_auth w.
Proof. exact pay_run_inv. Qed.

Definition ex_payw : payw :=
  mkPayW 1 2 0 0 0 50 60 1000
    [mkTok 10 MINT_BANK 0; mkTok 11 MINT_BANK 0; mkTok 1001 MINT_EM 0; mkTok 20 MINT_EM 0]
    (mkBank ONE ONE (1000000000 * ONE) 0 0 0 0 1700000000 U64_MAX U64_MAX 0 6 2 1000000 (1000 * ONE) 1 0 1 (mkIR 0 0 0 0 0 0 0 0 0 [] 1))
    (mkBal true 1 0 (1000000000 * ONE) 0 0 1700000000) 1700000000 1700000000.
(* a year passes; a stranger cannot take fees, the admin fixes a destination, then anybody can flush the fee vault into it;
   the authority registers wallet 1 and anybody pays the accrued emissions into that wallet's token account *)
Example C19_payout_nonvacuous :
  let w := pay_run ex_payw [(0, YTick 31536000); (3, YWithdrawFees 11 5); (1, YUpdateFeesDest 10); (3, YWithdrawFeesPermissionless 10 70);
                            (3, YWithdrawEmissionsPermissionless 1001); (2, YUpdateEmissionsDest 1); (3, YWithdrawEmissionsPermissionless 1001);
                            (3, YWithdrawEmissions 20); (1, YWithdrawInsurance 11 60)] in
  (y_fee_vault w, y_ins_vault w, y_em_vault w, map tk_amt (y_toks w)) = (0, 0, 0, [50; 60; 1000; 0]).
Proof. vm_compute. reflexivity. Qed.
Example C19_payout_inv_nonvacuous : pay_inv ex_payw.
Proof. unfold pay_inv, pay_wf, em_covered. cbn. repeat split; try lia. repeat constructor; cbn; intuition lia. Qed.

Print Assumptions C19_collect_fees_exact.
Print Assumptions C19_emissions_conserved_and_capped.
Print Assumptions C19_settle_pays_whole_tokens.
Print Assumptions C19_emissions_withdrawn_only_by_authority.
Print Assumptions C19_emissions_destination_set_only_by_authority.
Print Assumptions C19_emissions_funding_covers_recorded.
Print Assumptions C19_fee_vault_drawn_only_by_admin_or_to_fixed_destination.
Print Assumptions C19_insurance_vault_drawn_only_by_admin.
Print Assumptions C19_destinations_changed_only_by_their_owner.
Print Assumptions C19_emissions_paid_only_to_chosen_destination.
Print Assumptions C19_payout_histories_keep_vaults_covered.
