(* C19 — Fees and emissions reach only their destinations, in exactly accrued amounts.
   Handler model: coq/model/Handlers.v (h_collect_fees), coq/model/Bank.v (claim_emissions,
   settle_emissions). Which signer may draw down the fee / insurance vaults is an account-constraint
   fact and is pinned in C08 (withdraw_fees, withdraw_fees_permissionless, withdraw_insurance). *)
Require Import Base Constants Fixed Curve Bank BankOps Risk TransferFee Handlers FixedLemmas BankLemmas HandlerLemmas TransferFeeLemmas.
Require Import Panic AnchorTypes AnchorSem Gate AccountsTable HandlerFacts Spec AnchorSemLemmas AuthLemmas.
Local Open Scope Z_scope.

(* collecting bank fees: each bucket (insurance, group, program — in that order) gives up exactly the
   whole-token part of min(bucket, liquidity still available), the liquidity vault falls by the sum,
   the three destinations (insurance vault, fee vault, global fee wallet ATA) receive exactly those
   amounts (minus the token program's transfer fee on fee-bearing mints), totals and share values are
   untouched *)
Theorem C19_collect_fees_exact :
  forall w b w' hb, nth_bank w b = Ok hb -> h_collect_fees w b = Ok w' ->
  exists hb', nth_bank w' b = Ok hb' /\
  let bk := hb_b hb in let bk' := hb_b hb' in
  let avail0 := of_int (hb_vault hb) in
  let mi := fint (fmin (b_ins bk) avail0) in
  let mg := fint (fmin (b_grp bk) (avail0 - mi)) in
  let mp := fint (fmin (b_prog bk) (avail0 - mi - mg)) in
  b_ins bk' = b_ins bk - mi /\ b_grp bk' = b_grp bk - mg /\ b_prog bk' = b_prog bk - mp /\
  hb_vault hb' * ONE = hb_vault hb * ONE - (mi + mg + mp) /\
  (exists fi fg fp, tfee hb (mi / ONE) = Ok fi /\ tfee hb (mg / ONE) = Ok fg /\ tfee hb (mp / ONE) = Ok fp /\
     hb_insv hb' = hb_insv hb + mi / ONE - fi /\
     hb_feev hb' = hb_feev hb + mg / ONE - fg /\
     hb_feeata hb' = hb_feeata hb + mp / ONE - fp) /\
  b_tas bk' = b_tas bk /\ b_tls bk' = b_tls bk /\ b_asv bk' = b_asv bk /\ b_lsv bk' = b_lsv bk.
Proof. exact collect_fees_inv. Qed.

(* emissions: what a position is credited is taken out of the bank's funded remaining amount,
   exactly, and never exceeds it *)
Theorem C19_emissions_conserved_and_capped :
  forall b bl now b' bl', claim_emissions b bl now = Ok (b', bl') ->
  b_em_rem b' + bl_em bl' = b_em_rem b + bl_em bl /\
  bl_em bl' - bl_em bl <= Z.max 0 (b_em_rem b) /\
  (0 <= b_em_rem b -> 0 <= b_em_rem b' \/ bl_em bl' <= bl_em bl).
Proof. exact claim_emissions_conserves. Qed.

(* settling pays out the whole-token part of the position's outstanding emissions and keeps the fraction *)
Theorem C19_settle_pays_whole_tokens :
  forall b bl now b' bl' n, settle_emissions b bl now = Ok (b', bl', n) ->
  exists b1 bl1, claim_emissions b bl now = Ok (b1, bl1) /\ b' = b1 /\
  n * ONE + bl_em bl' = bl_em bl1 /\ 0 <= bl_em bl' < ONE /\ 0 <= n <= U64_MAX.
Proof. exact settle_emissions_exact. Qed.

(* 'only to the account authority's chosen destination', over the GENERATED accounts table (regenerated from the source on
   every run): lending_account_withdraw_emissions passes account validation only under the user signer rule with
   allow_receivership = FALSE (the authority; the group admin only on a frozen account; never 'anyone while the account
   is in receivership'), and the destination of permissionless payouts can be set only by the authority itself *)
Theorem C19_emissions_withdrawn_only_by_authority :
  forall pda opq e, In e accounts_table -> e_ix e = "lending_account_withdraw_emissions"%string ->
  forall w b sg, accepts pda opq e w b sg = true ->
  user_rule w b sg false "marginfi_account" "authority" "group".
Proof. exact emission_withdraw_signer. Qed.

Theorem C19_emissions_destination_set_only_by_authority :
  forall pda opq e, In e accounts_table -> e_ix e = "marginfi_account_update_emissions_destination_account"%string ->
  forall w b sg, accepts pda opq e w b sg = true ->
  owner_rule w b sg "marginfi_account" "authority".
Proof. exact emission_destination_owner. Qed.

Definition ex_hb : hbank :=
  mkHB (mkBank ONE ONE (100 * ONE) 0 (5 * ONE / 2) (7 * ONE) (ONE / 3) 0 U64_MAX U64_MAX 0 6 0 0 0 0 0 1 (mkIR 0 0 0 0 0 0 0 0 0 [] 1))
       (mkRC ONE ONE ONE ONE 0 0 0 []) (fixed_feed ONE) 6 0 0 0 false 0 0 0.
(* Funding: lending_pool_setup_emissions(total) and lending_pool_update_emissions_parameters(additional) record `amount`
   as funded emissions; the emissions vault receives AT LEAST that amount (Token-2022 transfer fee, pending fee change and
   any epoch included), so what positions can be credited (<= the recorded remaining amount, C19_emissions_conserved_and_capped)
   is covered by tokens in the vault *)
Theorem C19_emissions_funding_covers_recorded : forall has_fee s epoch balance amount sent recv,
  0 <= fs_old_bps s <= 10000 -> 0 <= fs_new_bps s <= 10000 -> 0 <= fs_old_max s -> 0 <= fs_new_max s ->
  0 <= amount ->
  fund_emissions has_fee s epoch balance amount = Ok (sent, recv) ->
  amount <= recv /\ recv <= sent /\ sent <= balance.
Proof. exact fund_emissions_covers. Qed.

Example C19_funding_nonvacuous :
  fund_emissions true (mkFS 100 5 500 U64_MAX 7) 7 U64_MAX 1000000000 = Ok (1052631579, 1000000000) /\
  fund_emissions true (mkFS 100 5 500 U64_MAX 7) 6 U64_MAX 1000000000 = Ok (1000000005, 1000000000).
Proof. vm_compute. split; reflexivity. Qed.

Example C19_nonvacuous :
  match h_collect_fees (mkHW [ex_hb] [] 0 (mkPF false 0 0) [] false) 0 with
  | Ok w' => map (fun hb => (hb_vault hb, hb_insv hb, hb_feev hb, hb_feeata hb, b_ins (hb_b hb) / (ONE / 2))) (hw_banks w')
  | Err _ => [] end = [(0, 2, 4, 0, 1)].
Proof. vm_compute. reflexivity. Qed.

Print Assumptions C19_collect_fees_exact.
Print Assumptions C19_emissions_conserved_and_capped.
Print Assumptions C19_settle_pays_whole_tokens.
Print Assumptions C19_emissions_withdrawn_only_by_authority.
Print Assumptions C19_emissions_destination_set_only_by_authority.
Print Assumptions C19_emissions_funding_covers_recorded.
