(* C03 — No free value: no operation or round trip pays out more than it debits.
   Model: the BankAccountWrapper primitives of coq/model/Bank.v (the code every deposit / withdraw /
   borrow / repay / liquidation leg goes through). Quantification: all banks with share values
   asv >= 0, lsv > 0 (any totals, limits, flags), all balances with non-negative shares, all
   amounts >= 0, all clocks; sequences of any length. pval/uval = exact net position value
   a_shares*asv - l_shares*lsv (scale 2^96); ONE = 2^48. *)
Require Import Base Constants Fixed Curve Bank BankOps TransferFee FixedLemmas BankLemmas ValueLemmas TransferFeeLemmas.
Local Open Scope Z_scope.

(* deposit / repay (any increase type): the position is credited at most the amount paid in *)
Theorem C03_increase_credits_at_most_paid :
  forall b bl now delta t b' bl', wf_sv b -> wf_bal bl -> 0 <= delta ->
  increase_balance b bl now delta t = Ok (b', bl') ->
  pval b' bl' - pval b bl <= delta * ONE /\ wf_bal bl' /\ 0 <= pval b' bl' - pval b bl.
Proof. exact increase_value. Qed.

(* withdraw / borrow (any decrease type): the position is debited at least the amount paid out,
   up to one ulp of each share value *)
Theorem C03_decrease_debits_at_least_paid :
  forall b bl now delta t b' bl', wf_sv b -> wf_bal bl -> 0 <= delta ->
  decrease_balance b bl now delta t = Ok (b', bl') ->
  delta * ONE - b_asv b - b_lsv b < pval b bl - pval b' bl' /\ wf_bal bl'.
Proof. exact decrease_value. Qed.

(* full withdrawal rounds DOWN: whole tokens paid <= exact asset value; the fraction (< 1 token)
   is booked to the bank's outstanding insurance fees; only liability dust < 0.0001 is forgiven *)
Theorem C03_withdraw_all_rounds_down :
  forall b bl now b' bl' n, wf_sv b -> wf_bal bl -> withdraw_all b bl now = Ok (b', bl', n) ->
  n * ONE * ONE <= bl_a bl * b_asv b /\
  n * ONE + (b_ins b' - b_ins b) = bl_a bl * b_asv b / ONE /\ 0 <= b_ins b' - b_ins b < ONE /\
  bl_l bl * b_lsv b < ZERO_AMOUNT_THRESHOLD * ONE /\ bl' = bal_empty.
Proof. exact withdraw_all_value. Qed.

(* full repayment rounds UP: whole tokens charged cover the debt, excess booked to insurance fees *)
Theorem C03_repay_all_rounds_up :
  forall b bl now b' bl' n, wf_sv b -> wf_bal bl -> repay_all b bl now = Ok (b', bl', n) ->
  bl_l bl * b_lsv b - ONE < n * ONE * ONE /\
  n * ONE = bl_l bl * b_lsv b / ONE + (b_ins b' - b_ins b) /\ 0 <= b_ins b' - b_ins b < ONE /\ bl' = bal_empty.
Proof. exact repay_all_value. Qed.

(* any sequence of deposits, withdrawals, borrows, repayments, full withdrawals and full repayments
   by one user at unchanged share values (other users may change everything else in between):
   tokens gained + change in net position value <= sum of the per-operation rounding allowances
   (0 for deposit/repay; asv+lsv ulps for withdraw/borrow; < 0.0001 token of forgiven liability
   dust per full withdrawal; one ulp of a token per full repayment) *)
Theorem C03_no_profitable_round_trip :
  forall asv lsv l bl tok bl' tok', 0 <= asv -> 0 < lsv -> wf_bal bl ->
  Forall (fun x => b_asv (snd (fst x)) = asv /\ b_lsv (snd (fst x)) = lsv /\ uop_amount_ok (fst (fst x))) l ->
  urun bl tok l = Ok (bl', tok') ->
  (tok' - tok) * ONE * ONE + (uval asv lsv bl' - uval asv lsv bl) <= uslack_sum asv lsv l.
Proof. exact urun_value. Qed.

(* Token-2022 transfer-fee mints: the amount pulled from the depositor (pre-fee) minus the fee the
   token program keeps is at least the amount booked (post-fee), for every fee setting *)
Theorem C03_prefee_covers :
  forall bps maxfee post pre fee, 0 <= bps <= 10000 -> 0 <= maxfee -> 0 <= post -> 0 <= pre ->
  calculate_pre_fee_amount bps maxfee post = Ok pre -> calculate_fee bps maxfee pre = Ok fee ->
  post <= pre - fee /\ 0 <= fee.
Proof. exact prefee_covers. Qed.

(* ... and with a pending fee change (two schedules) in EVERY epoch: marginfi grosses up with the schedule the token
   program charges in that epoch, so the vault still receives at least the booked amount *)
Theorem C03_prefee_covers_in_every_epoch :
  forall s epoch post pre fee,
  0 <= fs_old_bps s <= 10000 -> 0 <= fs_new_bps s <= 10000 -> 0 <= fs_old_max s -> 0 <= fs_new_max s ->
  0 <= post -> 0 <= pre ->
  pre_fee_deposit_amount_at s epoch post = Ok pre -> calculate_epoch_fee s epoch pre = Ok fee ->
  post <= pre - fee /\ 0 <= fee.
Proof. exact prefee_covers_every_epoch. Qed.

(* Non-vacuity: deposit 1000 at share value 1.5 then withdraw 999 succeeds and loses value *)
Definition ex_bank : bank :=
  mkBank (3 * ONE / 2) (2 * ONE) 0 0 0 0 0 0 U64_MAX U64_MAX 0 6 0 0 0 0 0 1
         (mkIR 0 0 0 0 0 0 0 0 0 [] 1).
Example C03_nonvacuous :
  exists bl t, urun bal_empty 0 [(UDeposit 1000, ex_bank, 5); (UWithdraw 999, set_b_tas (1000 * ONE) ex_bank, 6)] = Ok (bl, t)
               /\ t = -1 /\ 0 < bl_a bl.
Proof. vm_compute. eexists; eexists; split; [reflexivity|]. split; reflexivity. Qed.

Print Assumptions C03_increase_credits_at_most_paid.
Print Assumptions C03_decrease_debits_at_least_paid.
Print Assumptions C03_withdraw_all_rounds_down.
Print Assumptions C03_repay_all_rounds_up.
Print Assumptions C03_no_profitable_round_trip.
Print Assumptions C03_prefee_covers.
Print Assumptions C03_prefee_covers_in_every_epoch.
