(* C01 — Bank solvency: vault tokens cover net depositor claims and accrued fees.
   Model: coq/model/Handlers.v — the instruction handlers deposit / withdraw(all) / borrow / repay(all) /
   close_balance / liquidate / handle_bankruptcy / accrue / collect_fees over a world of banks (each with
   liquidity / insurance / fee vault balances and Token-2022 transfer-fee settings), accounts, user token
   balances, oracle feeds and a clock.
     NAV b  = total_asset_shares*asset_share_value - total_liability_shares*liability_share_value
              + (insurance + group + program fees outstanding) * 2^48                 (scale 2^96)
     gap hb = liquidity_vault * 2^96 - NAV (bank of hb)        (>= 0 means: the vault covers net claims + fees)
   The theorems bound how far ONE successful instruction can lower the gap of ANY bank (step_slack, derived
   from the magnitudes involved, see DESIGN.md §7 C01 for its size: a few units of 2^-48 native token per
   million tokens of liabilities), for all worlds satisfying HOk, all instructions, all amounts, all prices,
   all clock values, SPL and Token-2022 mints with any transfer fee; and lift it to histories of any length. *)
Require Import Base Constants Fixed Curve Bank BankOps Risk TransferFee Handlers.
Require Import FixedLemmas BankLemmas AccrualLemmas SolvencyLemmas LedgerLemmas HandlerEffects SolvencyHandlers SolvencyWorld HandlerWorld WorldCheck WorldCheckLemmas.
Require Import PrivGen Deleverage PurgeLedger DeleverageWorld.
Local Open Scope Z_scope.

(* one successful instruction: for every bank, the gap falls by at most the rounding allowance of that
   instruction — unless it is one of the two sanctioned exceptions (the risk admin's token-less repay_all on a
   bank flagged TOKENLESS_REPAYMENTS_ALLOWED; a bankruptcy that wipes the bank out and kills it) *)
Theorem C01_step :
  forall w o w', HOk w -> hop_ok o -> hstep w o = Ok w' ->
  forall b hb, nth_bank w b = Ok hb ->
  exists hb', nth_bank w' b = Ok hb' /\
    (gap hb - step_slack w o b hb <= gap hb' \/ sanctioned w o b hb hb').
Proof. exact hstep_gap. Qed.

(* the allowance, spelled out (scale 2^96; b_tls*b_lsv/2^48 is the liability amount in I80F48 bits):
   deposit / close_balance / accrue / bankruptcy : the accrual allowance only;
   withdraw / borrow / each liquidation leg pair : + one ulp of each share value;
   repay_all : + one ulp (2^-48) of a native unit; collect_fees, clock, price changes : 0 *)
Theorem C01_allowance_is :
  forall w o b hb,
  step_slack w o b hb =
  match o with
  | HDeposit _ b' _ _ | HCloseBalance _ b' | HAccrue b' | HBankruptcy _ b' => if (b' =? b)%nat then acc_slack w hb else 0
  | HWithdraw _ b' _ _ | HBorrow _ b' _ => if (b' =? b)%nat then acc_slack w hb + sv_slack w hb else 0
  | HRepay _ b' _ all => if (b' =? b)%nat then acc_slack w hb + (if all then ONE else 0) else 0
  | HLiquidate _ _ ab lb _ => if (ab =? b)%nat || (lb =? b)%nat then acc_slack w hb + sv_slack w hb else 0
  | HClock _ | HCollectFees _ | HSetPrice _ _ => 0
  end.
Proof. intros. reflexivity. Qed.

(* the accrual allowance: interest credited to depositors plus fees never exceeds interest charged to
   borrowers by more than  L + total_liability_shares + asv'/asv + 3  units of 2^-96 *)
Theorem C01_accrual_allowance :
  forall b pf now b', wf_bank b -> 0 < b_asv b -> valid_curve b -> accrue_interest b pf now = Ok b' ->
  NAV b' - NAV b <= b_tls b * b_lsv b / ONE + b_tls b + (b_asv b' * ONE / Z.max 1 (b_asv b) + 2) + 1 /\
  wf_bank b' /\ 0 < b_asv b' /\ valid_curve b' /\ b_op_state b' = b_op_state b.
Proof. exact NAV_accrue. Qed.

(* well-formedness is an invariant: HOk2 = program fee rate in [0,1] + every bank well-formed (share values > 0,
   valid seven-point curve, fee buckets representable, transfer-fee bps <= 10000) + the ledger invariant of C02 at
   instruction level (bank totals cover the sum of all positions).  Every successful instruction preserves it,
   unless it is a bankruptcy that wipes the bank out (kills it). *)
Theorem C01_wellformedness_preserved :
  forall w o w', HOk2 w -> hop_ok2 o -> hstep w o = Ok w' ->
  HOk2 w' \/ exists a b hb', o = HBankruptcy a b /\ nth_bank w' b = Ok hb' /\ b_op_state (hb_b hb') = OP_KILLED.
Proof. exact hstep_HOk2. Qed.

Theorem C01_HOk2_implies_HOk : forall w, HOk2 w -> HOk w.
Proof. exact HOk2_HOk. Qed.

(* the hypothesis HOk2 is decidable by an executable check (extracted and evaluated on the initial world of every
   generated correspondence case: the evidence reports how many satisfy it) *)
Theorem C01_hypotheses_checkable : forall w, hok2b w = true -> HOk2 w.
Proof. exact hok2b_sound. Qed.

(* histories of any length (failed instructions roll back): from a well-formed world, for any sequence of
   instructions with u64 amounts in which no bank is wiped out, the gap of every bank is at
   least the initial gap minus the sum of the per-instruction allowances — unless a sanctioned token-less write-off hit
   that bank.  No assumption on intermediate states. *)
Theorem C01_history :
  forall ops w b hb, HOk2 w -> Forall hop_ok2 ops -> run_no_wipeout w ops -> nth_bank w b = Ok hb ->
  exists hb', nth_bank (hrun w ops) b = Ok hb' /\ (gap hb - run_slack w ops b <= gap hb' \/ run_exception w ops b).
Proof. exact hrun_gap_full. Qed.

(* the same with the well-formedness of every visited state as an explicit hypothesis instead (covers histories
   with wipe-outs, for the banks that stay alive) *)
Theorem C01_history_given_wellformed_states :
  forall ops w b hb, run_ok w ops -> nth_bank w b = Ok hb ->
  exists hb', nth_bank (hrun w ops) b = Ok hb' /\ (gap hb - run_slack w ops b <= gap hb' \/ run_exception w ops b).
Proof. exact hrun_gap. Qed.

(* non-vacuity: a concrete well-formed world in which a deposit succeeds and the gap is preserved *)
Definition ex_bank : bank :=
  mkBank ONE ONE (1000000 * ONE) (500000 * ONE) 0 0 0 1000 U64_MAX U64_MAX 0 6 0 0 0 0 0 1
         (mkIR 0 0 0 (ONE / 100) (ONE / 10) (ONE / 100) (ONE / 10) 0 429496729 [mkRP 2147483648 214748364] 1).
Definition ex_hb : hbank :=
  mkHB ex_bank (mkRC ONE ONE ONE ONE 0 0 0 []) (fixed_feed ONE) 600000 0 0 0 false 0 0 0.
Definition ex_world : hworld :=
  mkHW [ex_hb] [mkHA la_empty 0] 1000 (mkPF true (ONE / 100) (ONE / 20)) [[5000]] false.
Example C01_nonvacuous :
  match hstep ex_world (HDeposit 0 0 1000 false) with
  | Ok w' => match nth_bank w' 0 with Ok hb' => gap hb' - gap ex_hb | Err _ => -1 end
  | Err _ => -1 end = 0.
Proof. vm_compute. reflexivity. Qed.

Example C01_HOk2_example : HOk2 ex_world /\ hop_ok2 (HDeposit 0 0 1000 false).
Proof.
  pose proof ONE_pos as HO.
  split; [|cbn; lia]. unfold HOk2. split.
  { unfold pf_ok, ex_world. cbn [hw_pf pf_rate]. split; [apply Z.div_pos; lia|]. apply Z.div_le_upper_bound; lia. }
  split.
  - unfold HLedger, bw_of, ex_world. cbn [hw_banks hw_accts hw_now hw_pf map ex_hb hb_b ha_la].
    apply (ledger_init [ex_bank] 1). constructor; [|constructor].
    unfold wf_sv. cbn [ex_bank b_asv b_lsv b_tas b_tls]. nia.
  - intros [|b] hb H; [|destruct b; discriminate]. apply Ok_inj in H. subst hb.
    split; [|unfold fees_rep; cbn [ex_hb hb_b ex_bank b_grp b_prog]; rewrite I128_MIN_val; lia].
    unfold hb_ok. cbn [ex_hb hb_b hb_tf_bps hb_tf_max].
    split; [unfold wf_bank; cbn [ex_bank b_asv b_lsv b_tas b_tls]; nia|].
    split; [cbn [ex_bank b_asv]; lia|]. split; [cbn [ex_bank b_lsv]; lia|].
    split; [|lia].
    unfold valid_curve. split; [|split; [vm_compute; reflexivity|reflexivity]].
    unfold CurveLemmas.cfg_ok. cbn [ex_bank b_ir ir_zero ir_hundred ir_points]. rewrite U32_MAXZ_val.
    split; [lia|]. split; [lia|]. constructor; [|constructor]. unfold CurveLemmas.pt_ok. cbn. rewrite ?U32_MAXZ_val. lia.
Qed.

(* Outside the instruction set of the history theorem: lending_account_purge_delev_balance (risk admin, sunset bank).
   No token moves and the purged deposits stop being an obligation, so the bank's gap GROWS by exactly the purged asset
   shares times the asset share value; no other bank changes. (Ledger: C02_purge_keeps_ledger.) *)
Theorem C01_purge_gap :
  forall w a b signs w',
  HLedger w -> dv_purge w a b signs = Ok w' ->
  exists hb hb' ac i bl,
    nth_bank w b = Ok hb /\ nth_bank w' b = Ok hb' /\ nth_acct w a = Ok ac /\ nth_res i (ha_la ac) = Ok bl /\
    gap hb' = gap hb + bl_a bl * b_asv (hb_b hb) /\ gap hb <= gap hb' /\
    (forall k, k <> b -> nth_bank w' k = nth_bank w k).
Proof. exact purge_gap. Qed.

(* Forced deleverage (risk admin): the withdrawal and the repayment inside start_deleverage .. end_deleverage obey the
   same per-instruction gap bounds as the ordinary withdraw / repay (the only sanctioned drop is the token-less write-off
   of a sunset bank), and the whole transaction keeps the world well-formed, so the history theorem's hypotheses hold
   again after it *)
Theorem C01_deleverage_withdraw_gap :
  forall w c a r b amount all w' c',
  0 <= amount -> HOk2 w -> dv_withdraw w c a r b amount all = Ok (w', c') ->
  exists hb hb', nth_bank w b = Ok hb /\ nth_bank w' b = Ok hb' /\
    gap hb - acc_slack w hb - sv_slack w hb <= gap hb' /\
    (forall k, k <> b -> nth_bank w' k = nth_bank w k).
Proof. exact dv_withdraw_gap. Qed.

Theorem C01_deleverage_repay_gap :
  forall w a r b amount all w',
  0 <= amount -> HOk2 w -> dv_repay w a r b amount all = Ok w' ->
  exists hb hb', nth_bank w b = Ok hb /\ nth_bank w' b = Ok hb' /\
    (gap hb - acc_slack w hb - (if all then ONE else 0) <= gap hb' \/ tokenless_writeoff w hb all) /\
    (forall k, k <> b -> nth_bank w' k = nth_bank w k).
Proof. exact dv_repay_gap. Qed.

Theorem C01_deleverage_tx_keeps_world :
  forall w c a r signs steps w' c',
  Forall dstep_ok steps -> HOk2 w -> dv_tx w c a r signs steps = Ok (w', c') -> HOk2 w'.
Proof. exact dv_tx_keeps_world. Qed.

Print Assumptions C01_step.
Print Assumptions C01_allowance_is.
Print Assumptions C01_accrual_allowance.
Print Assumptions C01_wellformedness_preserved.
Print Assumptions C01_HOk2_implies_HOk.
Print Assumptions C01_hypotheses_checkable.
Print Assumptions C01_history.
Print Assumptions C01_history_given_wellformed_states.
Print Assumptions C01_purge_gap.
Print Assumptions C01_deleverage_withdraw_gap.
Print Assumptions C01_deleverage_repay_gap.
Print Assumptions C01_deleverage_tx_keeps_world.
