(* C12 — least privilege: each admin role changes only what it is entitled to.
   Only pinned statements; every proof is `exact <lemma>` (lemmas/PrivilegeLemmas.v, lemmas/DeleverageLemmas.v).
   `erase_X b' = erase_X b` reads "every modelled field of the bank outside X is unchanged"; `outside w' = outside w`
   reads "metadata, emissions funding account and vault, bank vaults, user accounts, group and every other
   account are unchanged" (see model/Privilege.v). *)
Require Import Base Constants ConfigGen PrivGen Fixed Curve Config Emode ConfigPaths Privilege.
Require Import Bank BankOps Risk Handlers Deleverage.
Require Import PrivilegeLemmas DeleverageLemmas.
Local Open Scope Z_scope.

(* ---------------------------------------------------------------- delegated roles *)
Theorem C12_curve_admin_frame : forall g signer w io w',
  pstep g signer w (PInterestOnly io) = Ok w' ->
  signer = RCurveAdmin /\ erase_ir (px_bank w') = erase_ir (px_bank w) /\ outside w' = outside w.
Proof. exact curve_admin_frame. Qed.

Theorem C12_limit_admin_frame : forall g signer w d b l w',
  pstep g signer w (PLimitsOnly d b l) = Ok w' ->
  signer = RLimitAdmin /\ erase_limits (px_bank w') = erase_limits (px_bank w) /\ outside w' = outside w.
Proof. exact limit_admin_frame. Qed.

Theorem C12_emode_admin_frame : forall g signer w ix w',
  is_emode_ix ix = true -> pstep g signer w ix = Ok w' ->
  In signer (accepted_signers ix) /\ erase_emode (px_bank w') = erase_emode (px_bank w) /\ outside w' = outside w.
Proof. exact emode_admin_frame. Qed.

Theorem C12_metadata_admin_frame : forall g signer w t d w',
  pstep g signer w (PWriteMetadata t d) = Ok w' ->
  signer = RMetadataAdmin /\ px_bank w' = px_bank w /\ outside_metadata w' = outside_metadata w.
Proof. exact metadata_admin_frame. Qed.

Theorem C12_risk_admin_frame : forall g signer w w',
  pstep g signer w PForceTokenlessComplete = Ok w' ->
  signer = RRiskAdmin /\ erase_risk (px_bank w') = erase_risk (px_bank w) /\ outside w' = outside w /\
  (flag_set (pb_flags (px_bank w)) TOKENLESS_REPAYMENTS_ALLOWED = false -> px_bank w' = px_bank w).
Proof. exact risk_admin_frame. Qed.

(* emissions admin: everything but the flag word, for all arguments *)
Theorem C12_emissions_admin_frame_modulo_flags : forall g signer w ix w',
  is_emissions_ix ix = true -> pstep g signer w ix = Ok w' ->
  signer = REmissionsAdmin /\ erase_emissions_and_flags (px_bank w') = erase_emissions_and_flags (px_bank w) /\
  outside_emissions w' = outside_emissions w.
Proof. exact emissions_admin_frame_modulo_flags. Qed.

(* ... and the flag word too when the word written agrees with the bank's non-emissions bits
   (update: ldiff x 3 = ldiff flags 3; setup: the bank has no other flag set) *)
Theorem C12_emissions_admin_frame_restricted : forall g signer w ix w',
  is_emissions_ix ix = true -> keeps_foreign_flags (px_bank w) ix -> pstep g signer w ix = Ok w' ->
  erase_emissions (px_bank w') = erase_emissions (px_bank w).
Proof. exact emissions_admin_frame_restricted. Qed.

(* finding F1 (key emissions-admin-changes-foreign-flags) *)
Theorem C12_emissions_update_foreign_flags_refuted :
  (exists w w', pstep wit_caps REmissionsAdmin w (PUpdateEmissions (Ok tt) 1 (Some 0) None None) = Ok w' /\
     pb_flags (px_bank w) = Z.lor FREEZE_SETTINGS CLOSE_ENABLED_FLAG /\ pb_frozen (px_bank w) = true /\
     pb_frozen (px_bank w') = false /\ flag_set (pb_flags (px_bank w')) CLOSE_ENABLED_FLAG = false) /\
  (exists w w', pstep wit_caps REmissionsAdmin w (PUpdateEmissions (Ok tt) 1 (Some 127) None None) = Ok w' /\
     pb_flags (px_bank w) = CLOSE_ENABLED_FLAG /\
     pb_frozen (px_bank w') = true /\
     flag_set (pb_flags (px_bank w')) PERMISSIONLESS_BAD_DEBT_SETTLEMENT_FLAG = true /\
     flag_set (pb_flags (px_bank w')) TOKENLESS_REPAYMENTS_ALLOWED = true /\
     flag_set (pb_flags (px_bank w')) TOKENLESS_REPAYMENTS_COMPLETE = true).
Proof. exact emissions_update_foreign_flags_refuted. Qed.

(* finding F2 (key setup-emissions-clears-flags) *)
Theorem C12_emissions_setup_clears_flags_refuted :
  exists w w', pstep wit_caps REmissionsAdmin w (PSetupEmissions 1 EMISSIONS_FLAG_LENDING_ACTIVE 1000 500) = Ok w' /\
     pb_flags (px_bank w) = Z.lor FREEZE_SETTINGS CLOSE_ENABLED_FLAG /\ pb_frozen (px_bank w) = true /\
     pb_flags (px_bank w') = EMISSIONS_FLAG_LENDING_ACTIVE /\ pb_frozen (px_bank w') = false.
Proof. exact emissions_setup_clears_flags_refuted. Qed.

(* the group admin's configure_bank writes, of the flag word, only bits 4 | 8 | 32 = 44
   (permissionless bad debt, freeze, tokenless repayments allowed), and nothing of emissions / e-mode *)
Theorem C12_configure_touches_only_its_three_flags : forall g signer w o w',
  pstep g signer w (PConfigure o) = Ok w' ->
  signer = RAdmin /\
  Z.ldiff (pb_flags (px_bank w')) 44 = Z.ldiff (pb_flags (px_bank w)) 44 /\
  cb_emode (pb_c (px_bank w')) = cb_emode (pb_c (px_bank w)) /\
  erase_emissions_fields (with_c (px_bank w') (pb_c (px_bank w))) = erase_emissions_fields (px_bank w) /\
  pb_em_rate (px_bank w') = pb_em_rate (px_bank w) /\ pb_em_remaining (px_bank w') = pb_em_remaining (px_bank w) /\
  pb_em_mint (px_bank w') = pb_em_mint (px_bank w) /\
  outside w' = outside w.
Proof. exact configure_touches_only_its_three_flags. Qed.

(* ---------------------------------------------------------------- the freeze *)
(* on a frozen bank configure_bank / interest-only / limits-only / configure-oracle / set-fixed-price
   change nothing but deposit_limit and borrow_limit (weights, oracle, curve, risk tier, collateral-value
   cap, operational state, flags all stay) *)
Theorem C12_frozen : forall g signer w ix w',
  pb_frozen (px_bank w) = true -> is_bank_config_ix ix = true -> pstep g signer w ix = Ok w' ->
  erase_dep_bor (px_bank w') = erase_dep_bor (px_bank w) /\ outside w' = outside w.
Proof. exact frozen_only_limits. Qed.

(* nobody lifts the freeze: any sequence of the modelled instructions by any signers, as long as no
   emissions instruction writes a flag word without the freeze bit (F1, F2) *)
Theorem C12_freeze_sticky_restricted : forall g w l,
  pb_frozen (px_bank w) = true ->
  (forall s ix, In (s, ix) l -> writes_flags_without_freeze ix = false) ->
  pb_frozen (px_bank (prun g w l)) = true.
Proof. exact freeze_sticky_restricted. Qed.

Theorem C12_freeze_sticky_refuted :
  exists g w l, pb_frozen (px_bank w) = true /\ pb_frozen (px_bank (prun g w l)) = false /\
                (l = [(REmissionsAdmin, PSetupEmissions 1 0 0 0)] \/ exists x, l = [(REmissionsAdmin, PUpdateEmissions (Ok tt) 1 (Some x) None None)]).
Proof. exact freeze_sticky_refuted. Qed.

Theorem C12_unauthorized_signer_rejected : forall g signer w ix w',
  pstep g signer w ix = Ok w' -> accepted_signers ix = [] \/ In signer (accepted_signers ix).
Proof. exact unauthorized_signer_rejected. Qed.

(* ---------------------------------------------------------------- forced deleverage *)
Theorem C12_deleverage_health_not_worse : forall w c a r signs steps w' c',
  dv_tx w c a r signs steps = Ok (w', c') ->
  exists h0 h1, maint_health w a = Ok h0 /\ maint_health w' a = Ok h1 /\ h0 <= h1.
Proof. exact deleverage_health_not_worse. Qed.

Theorem C12_deleverage_bracket : forall w c a r signs steps w' c',
  dv_tx w c a r signs steps = Ok (w', c') ->
  (exists ac, nth_acct w a = Ok ac /\ aflag ac G_ACCOUNT_IN_RECEIVERSHIP = false) /\
  (exists ac', nth_acct w' a = Ok ac' /\ aflag ac' G_ACCOUNT_IN_RECEIVERSHIP = false /\ aflag ac' G_ACCOUNT_IN_DELEVERAGE = false).
Proof. exact deleverage_bracket. Qed.

Theorem C12_deleverage_only_risk_admin : forall w c a r signs steps x,
  dv_tx w c a r signs steps = Ok x -> signs = true.
Proof. exact deleverage_only_risk_admin. Qed.

(* the daily window: limit configured (<> 0) and below u32::MAX, every withdrawal worth less than 2^32 dollars:
   after ANY list of withdrawals (any timestamps) the whole dollars accepted since the last reset are <= limit *)
Theorem C12_daily_limit : forall evs s,
  wc_limit (wt_cache s) <> 0 -> wc_limit (wt_cache s) < 4294967295 ->
  (forall ev, In ev evs -> 0 <= dollars (snd ev) < 4294967296) ->
  WInv s -> window_dollars (wt_window s) <= wc_limit (wt_cache s) ->
  WInv (wrun s evs) /\ window_dollars (wt_window (wrun s evs)) <= wc_limit (wt_cache s).
Proof. exact daily_limit. Qed.

(* resets are at least 24 h = 86400 s apart *)
Theorem C12_daily_resets_spaced : forall evs s,
  RInv 86400 s -> spaced_by 86400 (wt_resets (wrun s evs)).
Proof. exact daily_resets_spaced. Qed.

(* findings: to_num::<u32>() wraps (key daily-limit-u32-wrap), saturating_add meets a limit of u32::MAX
   (key daily-limit-u32-saturation) *)
Theorem C12_daily_limit_wrap_refuted :
  exists s now eq, wc_limit (wt_cache s) = 1000 /\ WInv s /\ window_dollars (wt_window s) = 0 /\
    dollars eq = 4294967296 + 5 /\
    update_withdrawn_equity (wt_cache s) eq now = Ok (mkWC 1000 5 (wc_last_reset (wt_cache s))) /\
    window_dollars (wt_window (wstep s (now, eq))) > 1000.
Proof. exact daily_limit_wrap_refuted. Qed.

Theorem C12_daily_limit_saturation_refuted :
  exists s evs, wc_limit (wt_cache s) = 4294967295 /\ WInv s /\ window_dollars (wt_window s) = 0 /\
    (forall ev, In ev evs -> 0 <= dollars (snd ev) < 4294967296) /\
    window_dollars (wt_window (wrun s evs)) = 6000000000 /\ wc_withdrawn (wt_cache (wrun s evs)) = 4294967295.
Proof. exact daily_limit_saturation_refuted. Qed.

(* a successful deleverage transaction moves the group's window exactly by feeding its withdrawn equities,
   each accepted, through update_withdrawn_equity at the transaction's timestamp *)
Theorem C12_deleverage_tx_window : forall w c a r signs steps w' c',
  dv_tx w c a r signs steps = Ok (w', c') ->
  exists eqs, window_fold (hw_now w) c eqs = Ok c'.
Proof. exact deleverage_tx_window. Qed.

(* lending_account_purge_delev_balance: risk admin only, only once the bank's tokenless repayments are complete *)
Theorem C12_purge_guard : forall w a b signs w',
  dv_purge w a b signs = Ok w' ->
  signs = true /\ exists hb, nth_bank w b = Ok hb /\ get_flag (b_flags (hb_b hb)) TOKENLESS_REPAYMENTS_COMPLETE = true.
Proof. exact purge_guard. Qed.

(* ---------------------------------------------------------------- non-vacuity *)
Example C12_nonvacuous_limits :
  exists w', pstep wit_caps RLimitAdmin (wit_world 16 0 None) (PLimitsOnly (Some 5) None (Some 7)) = Ok w' /\
             bc_deposit_limit (cb_cfg (pb_c (px_bank w'))) = 5 /\ bc_init_limit (cb_cfg (pb_c (px_bank w'))) = 7.
Proof. eexists. split; [vm_compute; reflexivity|]. split; reflexivity. Qed.

Example C12_nonvacuous_frozen :
  exists w', pstep wit_caps RLimitAdmin (wit_world 24 0 None) (PLimitsOnly (Some 5) None (Some 7)) = Ok w' /\
             bc_deposit_limit (cb_cfg (pb_c (px_bank w'))) = 5 /\ bc_init_limit (cb_cfg (pb_c (px_bank w'))) = 0.
Proof. eexists. split; [vm_compute; reflexivity|]. split; reflexivity. Qed.

(* limit 1000: $400 accepted, $700 refused (would be 1100), a day later $700 accepted in a new window *)
Example C12_nonvacuous_window :
  let s := wrun (mkWT (mkWC 1000 0 1700000000) [] [])
                [(1700000010, of_int 400); (1700000020, of_int 700); (1700086400, of_int 700)] in
  wt_window s = [of_int 700] /\ wt_resets s = [1700086400] /\ wc_withdrawn (wt_cache s) = 700.
Proof. vm_compute. repeat split; reflexivity. Qed.

Print Assumptions C12_curve_admin_frame.
Print Assumptions C12_limit_admin_frame.
Print Assumptions C12_emode_admin_frame.
Print Assumptions C12_metadata_admin_frame.
Print Assumptions C12_risk_admin_frame.
Print Assumptions C12_emissions_admin_frame_modulo_flags.
Print Assumptions C12_emissions_admin_frame_restricted.
Print Assumptions C12_emissions_update_foreign_flags_refuted.
Print Assumptions C12_emissions_setup_clears_flags_refuted.
Print Assumptions C12_configure_touches_only_its_three_flags.
Print Assumptions C12_frozen.
Print Assumptions C12_freeze_sticky_restricted.
Print Assumptions C12_freeze_sticky_refuted.
Print Assumptions C12_unauthorized_signer_rejected.
Print Assumptions C12_deleverage_health_not_worse.
Print Assumptions C12_deleverage_bracket.
Print Assumptions C12_deleverage_only_risk_admin.
Print Assumptions C12_daily_limit.
Print Assumptions C12_daily_resets_spaced.
Print Assumptions C12_daily_limit_wrap_refuted.
Print Assumptions C12_daily_limit_saturation_refuted.
Print Assumptions C12_deleverage_tx_window.
Print Assumptions C12_purge_guard.
