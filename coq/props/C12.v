(* C12 — least privilege: each admin role changes only what it is entitled to.
   Only pinned statements; every proof is `exact <lemma>` (lemmas/PrivilegeLemmas.v, lemmas/DeleverageLemmas.v).
   `erase_X b' = erase_X b` reads "every modelled field of the bank outside X is unchanged"; `outside w' = outside w`
   reads "metadata, emissions funding account and vault, bank vaults, user accounts, group and every other
   account are unchanged" (see model/Privilege.v). *)
Require Import Base Constants ConfigGen PrivGen Fixed Curve Config Emode ConfigPaths Privilege.
Require Import Bank BankOps Risk Handlers Deleverage.
Require Import PrivilegeLemmas DeleverageLemmas.
Require Import GroupRoles GroupRolesLemmas.
Local Open Scope Z_scope.

(* ---------------------------------------------------------------- delegated roles *)
Theorem C12_curve_admin_frame : forall g signer w io w',
  pstep g signer w (PInterestOnly io) = Ok w' ->
  signer = RCurveAdmin /\ erase_ir (px_bank w') = erase_ir (px_bank w) /\ outside w' = outside w.
Proof. exact curve_admin_frame. Qed.

Theorem C12_limit_admin_frame : forall g signer w d b l w',
  pstep g signer w (PLimitsOnly d b l) = Ok w' ->
  signer = RLimitAdmin /\ erase_limits (px_bank w') = erase_limits (px_bank w) /\ outside w' = outside w.
Proof. exact limit_admin_frame. Qed.

Theorem C12_emode_admin_frame : forall g signer w ix w',
  is_emode_ix ix = true -> pstep g signer w ix = Ok w' ->
  In signer (accepted_signers ix) /\ erase_emode (px_bank w') = erase_emode (px_bank w) /\ outside w' = outside w.
Proof. exact emode_admin_frame. Qed.

Theorem C12_metadata_admin_frame : forall g signer w t d w',
  pstep g signer w (PWriteMetadata t d) = Ok w' ->
  signer = RMetadataAdmin /\ px_bank w' = px_bank w /\ outside_metadata w' = outside_metadata w.
Proof. exact metadata_admin_frame. Qed.

Theorem C12_risk_admin_frame : forall g signer w w',
  pstep g signer w PForceTokenlessComplete = Ok w' ->
  signer = RRiskAdmin /\ erase_risk (px_bank w') = erase_risk (px_bank w) /\ outside w' = outside w /\
  (flag_set (pb_flags (px_bank w)) TOKENLESS_REPAYMENTS_ALLOWED = false -> px_bank w' = px_bank w).
Proof. exact risk_admin_frame. Qed.

(* emissions admin: emissions rate, mint, remaining amount and the two emissions flags (bits 1 | 2 = 3 of the
   flag word), for ALL arguments incl. all flag words; the tokens it moves go from its funding account to the
   bank's emissions vault *)
Theorem C12_emissions_admin_frame : forall g signer w ix w',
  is_emissions_ix ix = true -> pstep g signer w ix = Ok w' ->
  signer = REmissionsAdmin /\ erase_emissions (px_bank w') = erase_emissions (px_bank w) /\
  outside_emissions w' = outside_emissions w.
Proof. exact emissions_admin_frame. Qed.

(* a flag word with any bit outside EMISSION_FLAGS = 3 is refused by both emissions instructions *)
Theorem C12_emissions_foreign_flags_rejected : forall g signer w w',
  (forall ac mint x orate oadd, pstep g signer w (PUpdateEmissions ac mint (Some x) orate oadd) = Ok w' -> Z.land x 3 = x) /\
  (forall mint x rate total, pstep g signer w (PSetupEmissions mint x rate total) = Ok w' -> Z.land x 3 = x).
Proof. exact emissions_foreign_flags_rejected. Qed.

(* the group admin's configure_bank writes, of the flag word, only bits 4 | 8 | 32 = 44
   (permissionless bad debt, freeze, tokenless repayments allowed), and nothing of emissions / e-mode *)
Theorem C12_configure_touches_only_its_three_flags : forall g signer w o w',
  pstep g signer w (PConfigure o) = Ok w' ->
  signer = RAdmin /\
  Z.ldiff (pb_flags (px_bank w')) 44 = Z.ldiff (pb_flags (px_bank w)) 44 /\
  cb_emode (pb_c (px_bank w')) = cb_emode (pb_c (px_bank w)) /\
  erase_emissions_fields (with_c (px_bank w') (pb_c (px_bank w))) = erase_emissions_fields (px_bank w) /\
  pb_em_rate (px_bank w') = pb_em_rate (px_bank w) /\ pb_em_remaining (px_bank w') = pb_em_remaining (px_bank w) /\
  pb_em_mint (px_bank w') = pb_em_mint (px_bank w) /\
  outside w' = outside w.
Proof. exact configure_touches_only_its_three_flags. Qed.

(* ---------------------------------------------------------------- the freeze *)
(* on a frozen bank configure_bank / interest-only / limits-only / configure-oracle / set-fixed-price
   change nothing but deposit_limit and borrow_limit (weights, oracle, curve, risk tier, collateral-value
   cap, operational state, flags all stay) *)
Theorem C12_frozen : forall g signer w ix w',
  pb_frozen (px_bank w) = true -> is_bank_config_ix ix = true -> pstep g signer w ix = Ok w' ->
  erase_dep_bor (px_bank w') = erase_dep_bor (px_bank w) /\ outside w' = outside w.
Proof. exact frozen_only_limits. Qed.

(* nobody lifts the freeze: any sequence of the modelled instructions, any arguments, any signers *)
Theorem C12_freeze_sticky : forall g w l,
  pb_frozen (px_bank w) = true -> pb_frozen (px_bank (prun g w l)) = true.
Proof. exact freeze_sticky. Qed.

Theorem C12_unauthorized_signer_rejected : forall g signer w ix w',
  pstep g signer w ix = Ok w' -> accepted_signers ix = [] \/ In signer (accepted_signers ix).
Proof. exact unauthorized_signer_rejected. Qed.

(* ---------------------------------------------------------------- forced deleverage *)
Theorem C12_deleverage_health_not_worse : forall w c a r signs steps w' c',
  dv_tx w c a r signs steps = Ok (w', c') ->
  exists h0 h1, maint_health w a = Ok h0 /\ maint_health w' a = Ok h1 /\ h0 <= h1.
Proof. exact deleverage_health_not_worse. Qed.

Theorem C12_deleverage_bracket : forall w c a r signs steps w' c',
  dv_tx w c a r signs steps = Ok (w', c') ->
  (exists ac, nth_acct w a = Ok ac /\ aflag ac G_ACCOUNT_IN_RECEIVERSHIP = false) /\
  (exists ac', nth_acct w' a = Ok ac' /\ aflag ac' G_ACCOUNT_IN_RECEIVERSHIP = false /\ aflag ac' G_ACCOUNT_IN_DELEVERAGE = false).
Proof. exact deleverage_bracket. Qed.

Theorem C12_deleverage_only_risk_admin : forall w c a r signs steps x,
  dv_tx w c a r signs steps = Ok x -> signs = true.
Proof. exact deleverage_only_risk_admin. Qed.

(* the daily window: with a limit configured (<> 0; it is a u32), after ANY list of withdrawals (any values,
   any timestamps) the whole dollars accepted since the last reset are <= limit.  WInv is the ghost invariant
   "the cache holds the whole dollars of the accepted withdrawals since the last reset, and is >= 0"; it holds
   for a fresh window and is kept by the admin's configure (fresh_window, configure_keeps_winv) *)
Theorem C12_daily_limit : forall evs s,
  wc_limit (wt_cache s) <> 0 -> wc_limit (wt_cache s) <= 4294967295 ->
  WInv s -> window_dollars (wt_window s) <= wc_limit (wt_cache s) ->
  WInv (wrun s evs) /\ window_dollars (wt_window (wrun s evs)) <= wc_limit (wt_cache s).
Proof. exact daily_limit. Qed.

(* resets are at least 24 h = 86400 s apart *)
Theorem C12_daily_resets_spaced : forall evs s,
  RInv 86400 s -> spaced_by 86400 (wt_resets (wrun s evs)).
Proof. exact daily_resets_spaced. Qed.

(* a successful deleverage transaction moves the group's window exactly by feeding its withdrawn equities,
   each accepted, through update_withdrawn_equity at the transaction's timestamp *)
Theorem C12_deleverage_tx_window : forall w c a r signs steps w' c',
  dv_tx w c a r signs steps = Ok (w', c') ->
  exists eqs, window_fold (hw_now w) c eqs = Ok c'.
Proof. exact deleverage_tx_window. Qed.

(* lending_account_purge_delev_balance: risk admin only, only once the bank's tokenless repayments are complete *)
Theorem C12_purge_guard : forall w a b signs w',
  dv_purge w a b signs = Ok w' ->
  signs = true /\ exists hb, nth_bank w b = Ok hb /\ get_flag (b_flags (hb_b hb)) TOKENLESS_REPAYMENTS_COMPLETE = true.
Proof. exact purge_guard. Qed.

(* ---------------------------------------------------------------- non-vacuity *)
Example C12_nonvacuous_limits :
  exists w', pstep wit_caps RLimitAdmin (wit_world 16 0 None) (PLimitsOnly (Some 5) None (Some 7)) = Ok w' /\
             bc_deposit_limit (cb_cfg (pb_c (px_bank w'))) = 5 /\ bc_init_limit (cb_cfg (pb_c (px_bank w'))) = 7.
Proof. eexists. split; [vm_compute; reflexivity|]. split; reflexivity. Qed.

Example C12_nonvacuous_frozen :
  exists w', pstep wit_caps RLimitAdmin (wit_world 24 0 None) (PLimitsOnly (Some 5) None (Some 7)) = Ok w' /\
             bc_deposit_limit (cb_cfg (pb_c (px_bank w'))) = 5 /\ bc_init_limit (cb_cfg (pb_c (px_bank w'))) = 0.
Proof. eexists. split; [vm_compute; reflexivity|]. split; reflexivity. Qed.

(* a frozen bank with CLOSE_ENABLED (flags 24): the emissions admin turns both emissions flags on -> 27 *)
Example C12_nonvacuous_emissions :
  exists w', pstep wit_caps REmissionsAdmin (wit_world 24 1 (Some 0)) (PUpdateEmissions (Ok tt) 1 (Some 3) (Some 9) None) = Ok w' /\
             pb_flags (px_bank w') = 27 /\ pb_em_rate (px_bank w') = 9.
Proof. eexists. split; [vm_compute; reflexivity|]. split; reflexivity. Qed.

(* limit 1000: $400 accepted, $700 refused (would be 1100), a day later $700 accepted in a new window *)
Example C12_nonvacuous_window :
  let s := wrun (mkWT (mkWC 1000 0 1700000000) [] [])
                [(1700000010, of_int 400); (1700000020, of_int 700); (1700086400, of_int 700)] in
  wt_window s = [of_int 700] /\ wt_resets s = [1700086400] /\ wc_withdrawn (wt_cache s) = 700.
Proof. vm_compute. repeat split; reflexivity. Qed.

(* ------------------------------------------------------------------------------------------------------------------
   Who HOLDS a role (model/GroupRoles.v: marginfi_group_configure and the has_one through which every delegated
   instruction recognises its signer).  A successful configure was signed by the current admin and stores each requested
   key under the role of the same name - the curve admin's key never lands in the limit admin's field, etc. *)
Theorem C12_roles_assigned_exactly_by_admin : forall g signer a now g',
  ix_group_configure g signer a now = Ok g' ->
  signer = gr_admin g /\
  role_keys g' = [gc_admin a; gc_emode a; gc_curve a; gc_limit a; gc_emissions a; gc_metadata a; gc_risk a] /\
  ix_group_set_caps (gc_init a) (gc_maint a) = Ok (gr_caps g') /\ gr_fee_last g' = now.
Proof. exact group_configure_exact. Qed.

(* no delegate (nor anybody else) can take, keep or pass on a role: any history of configure attempts in which the
   admin does not sign leaves the whole table - all seven keys and the leverage caps - exactly as it was *)
Theorem C12_roles_frozen_without_admin : forall ops g,
  Forall (fun op => fst (fst op) <> gr_admin g) ops -> gr_run g ops = g.
Proof. exact roles_frozen_without_admin. Qed.

(* over ANY history: whoever is recognised under role r at the end either held r at the start or was written into
   exactly r by a configure signed by the admin of that moment *)
Theorem C12_role_holder_appointed_by_admin : forall ops g r k,
  role_key (gr_run g ops) r = k ->
  role_key g r = k \/
  exists pre s a now post, ops = pre ++ (s, a, now) :: post /\ s = gr_admin (gr_run g pre) /\ gc_key a r = k.
Proof. exact role_holder_appointed_by_admin. Qed.

Example C12_roles_nonvacuous :
  let g0 := mkGR 1 1 1 1 1 1 1 (mkCaps 0 0) 0 in
  let a := mkGC 2 3 4 5 6 7 8 None None in
  let g := gr_run g0 [(4, a, 10); (1, a, 20); (1, a, 30); (3, mkGC 3 3 3 3 3 3 3 None None, 40)] in
  role_keys g = [2; 3; 4; 5; 6; 7; 8] /\ gr_fee_last g = 20 /\ role_accepts g GCurve 4 = true /\ role_accepts g GLimit 4 = false.
Proof. vm_compute. repeat split; reflexivity. Qed.

Print Assumptions C12_curve_admin_frame.
Print Assumptions C12_limit_admin_frame.
Print Assumptions C12_emode_admin_frame.
Print Assumptions C12_metadata_admin_frame.
Print Assumptions C12_risk_admin_frame.
Print Assumptions C12_emissions_admin_frame.
Print Assumptions C12_emissions_foreign_flags_rejected.
Print Assumptions C12_freeze_sticky.
Print Assumptions C12_configure_touches_only_its_three_flags.
Print Assumptions C12_frozen.
Print Assumptions C12_unauthorized_signer_rejected.
Print Assumptions C12_deleverage_health_not_worse.
Print Assumptions C12_deleverage_bracket.
Print Assumptions C12_deleverage_only_risk_admin.
Print Assumptions C12_daily_limit.
Print Assumptions C12_daily_resets_spaced.
Print Assumptions C12_deleverage_tx_window.
Print Assumptions C12_purge_guard.
Print Assumptions C12_roles_assigned_exactly_by_admin.
Print Assumptions C12_roles_frozen_without_admin.
Print Assumptions C12_role_holder_appointed_by_admin.
