(* C07 — Bankruptcy: only real bad debt is discharged; insurance first, rest pro rata.
   Statements only; every proof is `exact <lemma>` (coq/lemmas/BankruptcyLemmas.v, AuthLemmas.v).
   Model: Handlers.h_bankruptcy (lending_pool_handle_bankruptcy, every branch / rounding / abort point),
   Risk.check_bankrupt (RiskEngine::check_account_bankrupt), Bank.socialize_loss (Bank::socialize_loss),
   Bank.increase_balance (BankAccountWrapper::repay), token movement with the Token-2022 transfer fee
   (TransferFee.v).  All numbers are raw I80F48 bits (value * 2^48); `x / 2^48` is floor division.
   Quantification: every world (any number of banks / accounts / positions, any oracle feeds, any
   insurance balance, any token program and fee setting), every account index a and bank index b. *)
Require Import Base Constants Panic AnchorTypes AnchorSem Gate AccountsTable HandlerFacts Spec AnchorSemLemmas AuthLemmas.
Require Import Fixed Curve Bank BankOps Risk TransferFee Handlers FixedLemmas BankLemmas LedgerLemmas BankruptcyLemmas.
Require Import SolvencyWorld HandlerWorld BridgeLemmas.
Require Import ConfigGen Config Emode ConfigPaths ConfigLemmas KilledLemmas.
Local Open Scope string_scope.
Local Open Scope Z_scope.

(* (1) Only real bad debt. If the handler succeeds then: the risk engine's EQUITY components (all weights 1,
   no e-mode, no init discount) of the account satisfy A < L, A < $0.1 and L > $0.0001; the account is not in
   a flash loan; the bank is neither killed nor paused; and the account holds an ACTIVE balance in bank b whose
   liability amount, valued with the share value AFTER interest accrual to the current time, exceeds 0.0001
   native units ("a bank where the account actually owes"). *)
Theorem C07_only_real_bad_debt :
  forall w a b w', h_bankruptcy w a b = Ok w' ->
  exists hb ac ps A L bk1 i bl,
    nth_bank w b = Ok hb /\ nth_acct w a = Ok ac /\
    positions w (ha_la ac) = Ok ps /\ health_components ps RqEquity = Ok (A, L) /\
    A < L /\ 10 * A < 2 ^ 48 /\ 2 ^ 48 < 10000 * L /\
    aflag ac ACCOUNT_IN_FLASHLOAN = false /\
    b_op_state (hb_b hb) <> OP_KILLED /\ b_op_state (hb_b hb) <> OP_PAUSED /\
    accrue_interest (hb_b hb) (hw_pf w) (hw_now w) = Ok bk1 /\
    nth_error (ha_la ac) i = Some bl /\ bl_active bl = true /\ bl_bank bl = bank_pk b /\
    2 ^ 48 < 10000 * (bl_l bl * b_lsv bk1 / 2 ^ 48).
Proof. exact bankruptcy_eligibility. Qed.

Theorem C07_equity_is_unweighted : forall c s, get_weight c RqEquity s = 2 ^ 48.
Proof. exact equity_weight_one. Qed.

(* (1') "Unweighted assets". The engine's equity components value deposits in ISOLATED-tier banks at 0 (for every
   requirement type). `unweighted_components` values every deposit at weight 1. Restricted statement: for accounts
   without a deposit in an isolated-tier bank the accepted bankruptcy satisfies the property's test on the
   unweighted assets ... *)
Theorem C07_only_real_bad_debt_unweighted :
  forall w a b w', h_bankruptcy w a b = Ok w' ->
  exists ac ps, nth_acct w a = Ok ac /\ positions w (ha_la ac) = Ok ps /\
    (forallb (fun p => negb (isolated_deposit p)) ps = true ->
     exists A L, unweighted_components ps = Ok (A, L) /\ A < L /\ 10 * A < 2 ^ 48 /\ 2 ^ 48 < 10000 * L).
Proof. exact bankruptcy_eligibility_unweighted. Qed.

(* ... and without that restriction it is REFUTED (known finding `bankruptcy-ignores-isolated-tier-deposits`, replayed
   on the real handler): an account holding a $5000 deposit in an isolated-tier bank and a $100 debt is accepted as
   bankrupt; its unweighted assets are neither below its liabilities nor below $0.1. *)
Theorem C07_unweighted_assets_refuted :
  exists w a b w' ac ps A L,
    h_bankruptcy w a b = Ok w' /\ nth_acct w a = Ok ac /\ positions w (ha_la ac) = Ok ps /\
    unweighted_components ps = Ok (A, L) /\ L <= A /\ 2 ^ 48 <= 10 * A.
Proof. exact unweighted_refuted. Qed.

(* (2) Insurance first. bad = the position's liability amount after accrual; avail = insurance vault balance
   net of the Token-2022 transfer fee on that balance (fi = 0 for SPL mints); covered = min(bad, avail);
   loss = bad - covered >= 0 and a loss is socialised ONLY when the whole available insurance is used
   (covered = avail).  The insurance vault pays `pre` = the pre-fee amount for ceil(covered) tokens, the
   liquidity vault receives pre - fee(pre) >= ceil(covered) (for a sane fee config), fee destinations are
   untouched, and exactly `loss` is handed to socialize_loss on the accrued bank. *)
Theorem C07_insurance_first :
  forall w a b w', h_bankruptcy w a b = Ok w' ->
  exists hb hb' ac i bl bk1 fi pre f bk2 kill,
    nth_bank w b = Ok hb /\ nth_bank w' b = Ok hb' /\ nth_acct w a = Ok ac /\
    nth_error (ha_la ac) i = Some bl /\ bl_active bl = true /\ bl_bank bl = bank_pk b /\
    accrue_interest (hb_b hb) (hw_pf w) (hw_now w) = Ok bk1 /\
    let bad := bl_l bl * b_lsv bk1 / ONE in
    tfee hb (hb_insv hb) = Ok fi /\
    let avail := (hb_insv hb - fi) * ONE in
    let covered := Z.min bad avail in
    let loss := bad - covered in
    let moved := (covered + ONE - 1) / ONE in
    0 <= loss /\ (0 < loss -> covered = avail) /\
    pre_fee hb moved = Ok pre /\ tfee hb pre = Ok f /\ pre <= hb_insv hb /\
    hb_insv hb' = hb_insv hb - pre /\ hb_vault hb' = hb_vault hb + pre - f /\
    hb_feev hb' = hb_feev hb /\ hb_feeata hb' = hb_feeata hb /\
    (0 <= hb_tf_bps hb <= 10000 -> 0 <= hb_tf_max hb -> moved <= pre - f /\ 0 <= f) /\
    (hb_t22 hb = false -> fi = 0 /\ pre = moved /\ f = 0) /\
    socialize_loss bk1 loss = Ok (bk2, kill).
Proof. exact bankruptcy_coverage. Qed.

(* (3) Socialisation, for every bank with non-negative share value and total shares and every loss >= 0:
   only the asset share value changes; 0 <= asv' <= asv; loss >= total deposits => asv' = 0 and kill; kill is
   returned exactly when asv' = 0; otherwise total deposits (scale 2^96) fall by at least loss and by less than
   loss + 1 ulp + tas ulps of the share value (at get_asset_amount precision: by loss up to tas/2^48 + 1 ulps);
   every claim is valued with the same asv' (pro rata: claims scale by asv'/asv), no claim grows. *)
Theorem C07_socialize_loss :
  forall b loss b' kill,
  0 <= b_asv b -> 0 <= b_tas b -> 0 <= loss -> socialize_loss b loss = Ok (b', kill) ->
  b' = set_b_asv (b_asv b') b /\
  0 <= b_asv b' <= b_asv b /\
  (b_tas b * b_asv b / 2 ^ 48 <= loss -> b_asv b' = 0 /\ kill = true) /\
  (kill = true <-> b_asv b' = 0) /\
  (loss < b_tas b * b_asv b / 2 ^ 48 ->
     loss * 2 ^ 48 <= b_tas b * b_asv b - b_tas b * b_asv b' /\
     b_tas b * b_asv b / 2 ^ 48 - loss - (b_tas b / 2 ^ 48 + 1) <= b_tas b * b_asv b' / 2 ^ 48 /\
     b_tas b * b_asv b' / 2 ^ 48 <= b_tas b * b_asv b / 2 ^ 48 - loss) /\
  b_tas b * b_asv b - b_tas b * b_asv b' < (loss + 1) * 2 ^ 48 + b_tas b /\
  (forall s1 s2, (s1 * b_asv b') * (s2 * b_asv b) = (s2 * b_asv b') * (s1 * b_asv b)) /\
  (forall s, 0 <= s -> s * b_asv b' <= s * b_asv b /\ s * b_asv b' / 2 ^ 48 <= s * b_asv b / 2 ^ 48).
Proof. exact socialize_loss_spec. Qed.

(* the same operation inside any world satisfying the C02 ledger invariant (level B, no side conditions) *)
Theorem C07_socialize_in_ledger_worlds :
  forall w b loss w' r,
  Ledger w -> 0 <= loss -> bstep w (BSocialize b loss) = Ok (w', r) ->
  exists bk bk' kill, bank_of w b = Some bk /\ bank_of w' b = Some bk' /\ soc_facts bk loss bk' kill /\
    r = Some (if kill then 1 else 0) /\ bw_accts w' = bw_accts w /\
    (forall k, k <> b -> bank_of w' k = bank_of w k).
Proof. exact bstep_socialize. Qed.

(* (4) The handler applies exactly that to the accrued bank and touches nobody's asset shares. Pre-state
   assumptions = the C02 ledger invariants of the bank and of the account's balances. The bank is set to
   KilledByBankruptcy (3) exactly when the new share value is 0, in particular whenever loss >= total deposits;
   otherwise its operational state is unchanged. Other banks, other accounts and the asset shares / bank /
   active flag of every slot of this account are unchanged, so every depositor's claim shares * asv' is
   reduced in the same proportion asv'/asv. (Leaving state 3 is impossible for every admin path: C13_killed_forever, C13_killed_forever_sequences.) *)
Theorem C07_loss_shared_pro_rata :
  forall w a b w', h_bankruptcy w a b = Ok w' ->
  forall hb ac, nth_bank w b = Ok hb -> nth_acct w a = Ok ac ->
  bank_sane (hb_b hb) -> Forall wf_bal (ha_la ac) ->
  exists hb' bk1 i bl fi kill,
    nth_bank w' b = Ok hb' /\
    accrue_interest (hb_b hb) (hw_pf w) (hw_now w) = Ok bk1 /\
    nth_error (ha_la ac) i = Some bl /\ bl_active bl = true /\ bl_bank bl = bank_pk b /\
    tfee hb (hb_insv hb) = Ok fi /\
    (* the uncovered amount of C07_insurance_first *)
    let bad := bl_l bl * b_lsv bk1 / ONE in
    let loss := bad - Z.min bad ((hb_insv hb - fi) * ONE) in
    0 <= loss /\ b_tas bk1 = b_tas (hb_b hb) /\ 0 <= b_asv bk1 /\ 0 <= b_tas bk1 /\
    (exists bk2, socialize_loss bk1 loss = Ok (bk2, kill) /\ b_asv (hb_b hb') = b_asv bk2) /\
    b_tas (hb_b hb') = b_tas bk1 /\
    0 <= b_asv (hb_b hb') <= b_asv bk1 /\
    (b_tas bk1 * b_asv bk1 / ONE <= loss -> b_asv (hb_b hb') = 0 /\ b_op_state (hb_b hb') = 3) /\
    (b_op_state (hb_b hb') = 3 <-> b_asv (hb_b hb') = 0) /\
    (b_op_state (hb_b hb') <> 3 -> b_op_state (hb_b hb') = b_op_state (hb_b hb)) /\
    (loss < b_tas bk1 * b_asv bk1 / ONE ->
       loss * 2 ^ 48 <= b_tas bk1 * b_asv bk1 - b_tas bk1 * b_asv (hb_b hb')) /\
    b_tas bk1 * b_asv bk1 - b_tas bk1 * b_asv (hb_b hb') < (loss + 1) * 2 ^ 48 + b_tas bk1 /\
    (forall k, k <> b -> nth_bank w' k = nth_bank w k) /\
    (forall k, k <> a -> nth_acct w' k = nth_acct w k) /\
    (exists ac', nth_acct w' a = Ok ac' /\ List.length (ha_la ac') = List.length (ha_la ac) /\
       forall j x, nth_error (ha_la ac) j = Some x ->
         exists x', nth_error (ha_la ac') j = Some x' /\ bl_a x' = bl_a x /\ bl_bank x' = bl_bank x /\ bl_active x' = bl_active x).
Proof. exact bankruptcy_socialisation. Qed.

(* (5) Debt cleared, account disabled. ACCOUNT_DISABLED (1) is set and every other flag kept; the position's
   liability shares fall to a residual r with 0 <= r <= before and r * lsv < 2^48 + lsv at scale 2^96 (i.e. the
   remaining debt is below one ulp of a token plus one ulp of the share value — far below the 0.0001 dust
   threshold for any share value < 2.8e10); its asset shares are unchanged; the bank's total liability shares
   move by exactly the position's change and total asset shares do not move (C02). *)
Theorem C07_debt_cleared_account_disabled :
  forall w a b w', h_bankruptcy w a b = Ok w' ->
  forall hb ac, nth_bank w b = Ok hb -> nth_acct w a = Ok ac ->
  bank_sane (hb_b hb) -> Forall wf_bal (ha_la ac) ->
  exists hb' ac' i bl bl',
    nth_bank w' b = Ok hb' /\ nth_acct w' a = Ok ac' /\
    nth_error (ha_la ac) i = Some bl /\ bl_active bl = true /\ bl_bank bl = bank_pk b /\
    nth_error (ha_la ac') i = Some bl' /\ bl_active bl' = true /\ bl_bank bl' = bank_pk b /\
    aflag ac' 1 = true /\ (forall k, aflag ac k = true -> aflag ac' k = true) /\
    0 <= bl_l bl' <= bl_l bl /\ bl_l bl' * b_lsv (hb_b hb') < 2 ^ 48 + b_lsv (hb_b hb') /\
    bl_a bl' = bl_a bl /\
    b_tls (hb_b hb') - b_tls (hb_b hb) = bl_l bl' - bl_l bl /\ b_tas (hb_b hb') = b_tas (hb_b hb) /\
    0 < b_lsv (hb_b hb').
Proof. exact bankruptcy_cleared_disabled. Qed.

(* (6) Who may call: the signer check lives in the handler body; it is part of `accepted` (Spec.v) over the
   account table regenerated from the source (= C08_bankruptcy, restated with the flag value 4 =
   PERMISSIONLESS_BAD_DEBT_SETTLEMENT_FLAG): the signer signed, bank and account belong to the group, and
   either the bank opted into permissionless settlement or the signer is the group's risk admin or admin. *)
Theorem C07_who_may_call :
  forall pda opq e,
  In e accounts_table -> e_ix e = "lending_pool_handle_bankruptcy" ->
  forall w b sg, Spec.accepted pda opq e w b sg = true ->
  exists ks kg kb ka, bkey b "signer" = Some ks /\ bkey b "group" = Some kg /\ bkey b "bank" = Some kb /\
    bkey b "marginfi_account" = Some ka /\ In ks sg /\
    typed w kg "MarginfiGroup" /\ typed w kb "Bank" /\ typed w ka "MarginfiAccount" /\
    key_field (acct_of w kb) "group" = Some kg /\ key_field (acct_of w ka) "group" = Some kg /\
    (bank_get_flag (num_field (acct_of w kb) "flags") 4 = true \/
     key_field (acct_of w kg) "risk_admin" = Some ks \/ key_field (acct_of w kg) "admin" = Some ks).
Proof. exact bankruptcy_roles. Qed.

(* Non-vacuity. One bank (share values 1, 1000 deposit shares of a lender, 100 liability shares of a debtor
   without assets, price $1, 0 decimals), 30 tokens in the insurance vault: the handler succeeds, the insurance
   vault is emptied into the liquidity vault, 70 are socialised (share value 0.93), the debtor is disabled with
   no debt left. With 50 deposit shares and no insurance the bank is wiped out and killed. The solvent lender
   cannot be declared bankrupt. *)
Example C07_nonvacuous :
  ex_view (h_bankruptcy (ex_w 1000 30) 1 0) = Some (930 * ONE / 1000, 1, 930, 0, 1, 0) /\
  ex_view (h_bankruptcy (ex_w 50 0) 1 0) = Some (0, 3, 900, 0, 1, 0) /\
  h_bankruptcy (ex_w 1000 30) 0 0 = Err (E E_AccountNotBankrupt) /\
  bank_sane (ex_bank 1000) /\ Forall wf_bal (ex_la (ex_slot 0 100)).
Proof.
  split; [vm_compute; reflexivity|]. split; [vm_compute; reflexivity|]. split; [vm_compute; reflexivity|].
  split; [unfold bank_sane; vm_compute; repeat split; discriminate|].
  repeat constructor; vm_compute; discriminate.
Qed.

(* 'permanently shut': whatever sequence of configuration requests follows (accepted or refused), the bank stays in the
   killed state, in which validate_bank_state refuses every instruction kind *)
Theorem C07_killed_bank_permanently_shut :
  forall g rs b k,
  op_of b = OP_KILLED ->
  Gate.opstate_of_Z (op_of (apply_reqs g b rs)) = Some Gate.KilledByBankruptcy /\
  Gate.validate_bank_state Gate.KilledByBankruptcy k = Err (E E_BankKilledByBankruptcy).
Proof. exact killed_permanently. Qed.

Print Assumptions C07_only_real_bad_debt.
Print Assumptions C07_killed_bank_permanently_shut.
Print Assumptions C07_equity_is_unweighted.
Print Assumptions C07_only_real_bad_debt_unweighted.
Print Assumptions C07_unweighted_assets_refuted.
Print Assumptions C07_insurance_first.
Print Assumptions C07_socialize_loss.
Print Assumptions C07_socialize_in_ledger_worlds.
Print Assumptions C07_loss_shared_pro_rata.
Print Assumptions C07_debt_cleared_account_disabled.
Print Assumptions C07_who_may_call.

(* the local hypotheses of the two theorems above (bank_sane, Forall wf_bal) hold in every state reachable from a
   well-formed world: HOk2 is preserved by every instruction (C01_wellformedness_preserved) and implies them *)
Theorem C07_hypotheses_hold_in_wellformed_worlds :
  forall w, HandlerWorld.HOk2 w ->
  (forall b hb, nth_bank w b = Ok hb -> bank_sane (hb_b hb)) /\
  (forall a ac, nth_acct w a = Ok ac -> Forall wf_bal (ha_la ac)).
Proof. intros w H. split; [intros b hb; apply BridgeLemmas.HOk2_bank_sane; exact H | intros a ac; apply BridgeLemmas.HOk2_acct_wf; exact H]. Qed.

Print Assumptions C07_hypotheses_hold_in_wellformed_worlds.
