(* C16 — Account structure: one side per bank, sorted, compatible tags, bounded; closing, disabling,
   transferring.
   Models: coq/model/Bank.v + BankOps.v (BankAccountWrapper state machine, level B: bstep / brun),
   coq/model/Handlers.v (instruction handlers deposit / withdraw(all) / borrow / repay(all) /
   close_balance / liquidate (four legs) / bankruptcy / accrue / collect fees, level C: hstep / hrun),
   coq/model/AcctLifecycle.v (marginfi_account_close, transfer_to_new_account), coq/model/Tx.v
   (check_flashloan_can_start).
   WH w  : every account of the handler-level world w satisfies the structure spelled out in
           C16_structure_meaning, relative to htags w = the asset tags of the banks.
   WB w  : the same at wrapper level, without the two clauses that only handlers establish
           (validate_asset_tags, sort_balances).
   Quantification: all worlds satisfying the invariant (any number of banks and accounts, any bank
   state), all operations with all arguments, all sequences of any length (failed operations roll
   back, as a failed transaction does). *)
Require Import Base Constants TxConstants Fixed Curve Bank BankOps Risk TransferFee Handlers AcctLifecycle.
Require Import FixedLemmas BankLemmas StructLemmas AcctLifecycleLemmas.
Require Tx.
Local Open Scope Z_scope.

(* ---- (1)-(5) structure, handler level ---------------------------------------------------- *)
(* every successful instruction preserves the structure of every account and no bank's asset tag *)
Theorem C16_structure_preserved_by_every_instruction :
  forall w o w', WH w -> hstep w o = Ok w' -> WH w' /\ htags w' = htags w.
Proof. exact hstep_struct. Qed.

(* ... hence after every sequence of instructions *)
Theorem C16_structure_all_histories :
  forall ops w, WH w -> WH (hrun w ops) /\ htags (hrun w ops) = htags w.
Proof. exact hrun_struct. Qed.

(* what WH says about each account: 16 slots; at most one active slot per bank; at most 8 active
   integration (Kamino / Drift / Solend) slots; an active slot's key is a bank of the world and its
   tag is that bank's tag (so it never changes: htags is constant); inactive slots have key 0;
   never an active staked slot together with an active default-class slot; active slots form a
   prefix of the array in strictly descending key order (what the risk engine walks) *)
Theorem C16_structure_meaning :
  forall w a ac, WH w -> nth_error (hw_accts w) a = Some ac ->
  let la := ha_la ac in let T := htags w in
  (length la = 16%nat /\
   (forall i j bi bj, nth_error la i = Some bi -> nth_error la j = Some bj ->
      bl_active bi = true -> bl_active bj = true -> bl_bank bi = bl_bank bj -> i = j) /\
   Z.of_nat (length (filter (fun bl => bl_active bl && is_integration_tag (bl_tag bl)) la)) <= 8 /\
   (forall bl, In bl la -> bl_active bl = true ->
      exists n, bl_bank bl = Z.of_nat n + 1 /\ nth_error T n = Some (bl_tag bl)) /\
   (forall bl, In bl la -> bl_active bl = false -> bl_bank bl = 0)) /\
  ~ (exists s d, In s la /\ In d la /\ bl_active s = true /\ bl_active d = true /\
       bl_tag s = ASSET_TAG_STAKED /\ is_default_like (bl_tag d) = true) /\
  (forall i j bi bj, (i < j)%nat -> nth_error la i = Some bi -> nth_error la j = Some bj ->
     bl_active bj = true -> bl_active bi = true /\ bl_bank bj < bl_bank bi).
Proof. exact WH_meaning. Qed.

(* worlds with fresh accounts satisfy the invariant, whatever the banks *)
Theorem C16_initial_world :
  forall banks n now pf utok ras, WH (mkHW banks (repeat (mkHA la_empty 0) n) now pf utok ras).
Proof. exact WH_init. Qed.

(* ---- structure, wrapper level ------------------------------------------------------------ *)
Theorem C16_wrapper_structure_all_histories :
  forall ops w, WB w -> WB (brun w ops) /\ btags (brun w ops) = btags w.
Proof. exact brun_struct. Qed.

Theorem C16_wrapper_structure_meaning :
  forall w a la, WB w -> nth_error (bw_accts w) a = Some la ->
  length la = 16%nat /\
  (forall i j bi bj, nth_error la i = Some bi -> nth_error la j = Some bj ->
     bl_active bi = true -> bl_active bj = true -> bl_bank bi = bl_bank bj -> i = j) /\
  Z.of_nat (length (filter (fun bl => bl_active bl && is_integration_tag (bl_tag bl)) la)) <= 8 /\
  (forall bl, In bl la -> bl_active bl = true ->
     exists n, bl_bank bl = Z.of_nat n + 1 /\ nth_error (btags w) n = Some (bl_tag bl)) /\
  (forall bl, In bl la -> bl_active bl = false -> bl_bank bl = 0).
Proof. exact WB_meaning. Qed.

Theorem C16_wrapper_initial_world :
  forall banks n now pf, WB (mkBW banks (repeat la_empty n) now pf).
Proof. exact WB_init. Qed.

(* sort_balances: a permutation of the slots, in descending key order *)
Theorem C16_sort_sorts :
  forall la, Permutation.Permutation (sort_balances la) la /\ Sorted.Sorted Z.ge (map bl_bank (sort_balances la)).
Proof. intros la. exact (conj (sort_perm la) (sort_sorted la)). Qed.

(* ---- (6) one side per position ----------------------------------------------------------- *)
(* one step, any balance-increase type (deposit / repay / liquidation credit): if the position was
   one-sided (asset amount or liability amount at most 0.0001 = ZERO_AMOUNT_THRESHOLD) it still is;
   assumes shares >= 0, amount >= 0 and a liability share value in (0, 10^6] *)
Theorem C16_increase_keeps_one_side :
  forall b bl now d t b' bl', wf_sv b -> wf_bal bl -> 0 <= d -> b_lsv b <= 2 ^ 48 * 10 ^ 6 ->
  increase_balance b bl now d t = Ok (b', bl') -> one_sided b bl -> one_sided b' bl'.
Proof. exact inc_one_sided. Qed.

Theorem C16_decrease_keeps_one_side :
  forall b bl now d t b' bl', wf_sv b -> wf_bal bl -> 0 <= d -> b_asv b <= 2 ^ 48 * 10 ^ 6 ->
  decrease_balance b bl now d t = Ok (b', bl') -> one_sided b bl -> one_sided b' bl'.
Proof. exact dec_one_sided. Qed.

(* all histories of one position (any interleaving of increase / decrease of every type, withdraw_all,
   repay_all, close, claim; the bank may be ANY bank state at each step — accrual, other users —
   with share values >= 1.0): starting with at most 2 share-ulps on one side, the position never
   holds a deposit worth >= 0.0001 together with a debt worth >= 0.0001, valued at any share
   values up to 10^6 *)
Theorem C16_one_side_per_position_all_histories :
  forall l bl bl' b,
  Forall sv_range l -> wf_bal bl -> dust_sh 2 bl -> slot_run bl l = Ok bl' ->
  0 <= b_asv b <= 2 ^ 48 * 10 ^ 6 -> 0 <= b_lsv b <= 2 ^ 48 * 10 ^ 6 ->
  ~ (ZERO_AMOUNT_THRESHOLD <= bl_a bl' * b_asv b / ONE /\ ZERO_AMOUNT_THRESHOLD <= bl_l bl' * b_lsv b / ONE).
Proof. exact slot_run_one_sided. Qed.

(* the same for share values bounded below by any m > 0 (banks after a socialised loss):
   one side keeps at most 2^48/m + 1 share-ulps *)
Theorem C16_one_side_shares_all_histories :
  forall m l, 0 < m -> Forall (sv_ge m) l -> forall bl bl',
  wf_bal bl -> dust_sh (ONE / m + 1) bl -> slot_run bl l = Ok bl' -> wf_bal bl' /\ dust_sh (ONE / m + 1) bl'.
Proof. exact slot_run_dust. Qed.

(* ---- (7) disabled accounts --------------------------------------------------------------- *)
Theorem C16_disabled_cannot_act :
  forall w a ac, nth_acct w a = Ok ac -> aflag ac ACCOUNT_DISABLED = true ->
  (forall b n u, exists e, h_deposit w a b n u = Err e) /\
  (forall b n all, exists e, h_withdraw w a b n all = Err e) /\
  (forall b n, exists e, h_borrow w a b n = Err e) /\
  (forall b n all, exists e, h_repay w a b n all = Err e) /\
  (forall b, exists e, h_close_balance w a b = Err e).
Proof. exact disabled_cannot_act. Qed.

Theorem C16_bankruptcy_disables :
  forall w a b w', h_bankruptcy w a b = Ok w' ->
  exists ac', nth_acct w' a = Ok ac' /\ aflag ac' ACCOUNT_DISABLED = true.
Proof. exact bankruptcy_disables. Qed.

Theorem C16_disabled_forever :
  forall ops w a ac, nth_error (hw_accts w) a = Some ac -> aflag ac ACCOUNT_DISABLED = true ->
  exists ac', nth_error (hw_accts (hrun w ops)) a = Some ac' /\ aflag ac' ACCOUNT_DISABLED = true.
Proof. exact hrun_disabled. Qed.

Theorem C16_disabled_cannot_start_flashloan :
  forall fl key ixes cur end_idx cpi,
  Tx.f_disabled fl = true -> Tx.check_flashloan_can_start fl key ixes cur end_idx cpi <> Ok tt.
Proof. exact disabled_no_flashloan. Qed.

(* ---- (8) close / transfer ----------------------------------------------------------------- *)
(* close succeeds exactly when: the account exists, the signer is its authority, it is not frozen,
   not disabled, not in a flash loan, not in receivership, and every one of its slots holds fewer
   than EMPTY_BALANCE_THRESHOLD (1.0) shares on both sides; the account is then removed *)
Theorem C16_close_iff :
  forall w a signer w',
  h_close w a signer = Ok w' <->
  exists A, get_macct w a = Ok A /\
    (ma_authority A = signer /\ mflag A ACCOUNT_FROZEN = false /\ mflag A ACCOUNT_DISABLED = false /\
     mflag A ACCOUNT_IN_FLASHLOAN = false /\ mflag A ACCOUNT_IN_RECEIVERSHIP = false /\
     Forall (fun bl => bl_a bl < EMPTY_BALANCE_THRESHOLD /\ bl_l bl < EMPTY_BALANCE_THRESHOLD) (ma_la A)) /\
    w' = set_macct w a None.
Proof. exact close_iff. Qed.

(* a successful transfer: the destination address held no account; afterwards it holds the whole
   lending account and the flags of the source, the source is emptied, disabled and marked migrated,
   and no other address changes (record `transferred`, AcctLifecycleLemmas.v) *)
Theorem C16_transfer_moves_everything_to_one_new_account :
  forall w old new signer na fw w',
  h_transfer w old new signer na fw = Ok w' -> transferred w w' old new na.
Proof. exact transfer_spec. Qed.

(* ... once: after it, for every later sequence of instructions, the source can neither be
   transferred again nor closed *)
Theorem C16_transfer_once :
  forall w old new signer na fw w' ops,
  h_transfer w old new signer na fw = Ok w' -> Forall real_op ops ->
  (forall new2 s2 na2 fw2, exists e, h_transfer (lrun w' ops) old new2 s2 na2 fw2 = Err e) /\
  (forall s2, exists e, h_close (lrun w' ops) old s2 = Err e).
Proof. exact retired_forever. Qed.

(* ---- non-vacuity --------------------------------------------------------------------------- *)
Definition ex_bank (tag : Z) : bank :=
  mkBank ONE ONE 0 0 0 0 0 0 U64_MAX U64_MAX tag 6 0 0 0 0 0 1 (mkIR 0 0 0 0 0 0 0 0 0 [] 1).
Definition ex_world (tag : Z) : bworld := mkBW (repeat (ex_bank tag) 17) [la_empty] 0 (mkPF false 0 0).
Definition ex_deposits (n : nat) : list bop := map (fun b => BDeposit 0 b (of_int 5)) (seq 0 n).
Definition ex_acct : macct := mkMA la_empty 0 7 1 0 0 0 0.
Definition ex_lw : lworld := mkLW [Some ex_acct; None; None] 1 9 false 5 100.

Example C16_nonvacuous :
  (* 8 Kamino positions open, the 9th is refused; 16 default positions open, the 17th is refused *)
  length (filter bl_active (nth 0 (bw_accts (brun (ex_world ASSET_TAG_KAMINO) (ex_deposits 8))) [])) = 8%nat /\
  bstep (brun (ex_world ASSET_TAG_KAMINO) (ex_deposits 8)) (BDeposit 0 8 (of_int 5)) = Err (E E_IntegrationPositionLimitExceeded) /\
  length (filter bl_active (nth 0 (bw_accts (brun (ex_world ASSET_TAG_DEFAULT) (ex_deposits 16))) [])) = 16%nat /\
  bstep (brun (ex_world ASSET_TAG_DEFAULT) (ex_deposits 16)) (BDeposit 0 16 (of_int 5)) = Err (E E_LendingAccountBalanceSlotsFull) /\
  (* an empty account can be closed; after a transfer the source can be neither transferred nor closed *)
  is_ok (h_close ex_lw 0 7) = true /\
  is_ok (h_transfer ex_lw 0 1 7 8 5) = true /\
  h_transfer (lrun ex_lw [LTransfer 0 1 7 8 5]) 0 2 7 8 5 = Err (E E_AccountAlreadyMigrated) /\
  h_close (lrun ex_lw [LTransfer 0 1 7 8 5]) 0 7 = Err (E E_IllegalAction) /\
  is_ok (h_close (lrun ex_lw [LTransfer 0 1 7 8 5]) 1 8) = true.
Proof. vm_compute. repeat split; reflexivity. Qed.

Print Assumptions C16_structure_preserved_by_every_instruction.
Print Assumptions C16_structure_all_histories.
Print Assumptions C16_structure_meaning.
Print Assumptions C16_initial_world.
Print Assumptions C16_wrapper_structure_all_histories.
Print Assumptions C16_wrapper_structure_meaning.
Print Assumptions C16_wrapper_initial_world.
Print Assumptions C16_sort_sorts.
Print Assumptions C16_increase_keeps_one_side.
Print Assumptions C16_decrease_keeps_one_side.
Print Assumptions C16_one_side_per_position_all_histories.
Print Assumptions C16_one_side_shares_all_histories.
Print Assumptions C16_disabled_cannot_act.
Print Assumptions C16_bankruptcy_disables.
Print Assumptions C16_disabled_forever.
Print Assumptions C16_disabled_cannot_start_flashloan.
Print Assumptions C16_close_iff.
Print Assumptions C16_transfer_moves_everything_to_one_new_account.
Print Assumptions C16_transfer_once.
