(* C04 — Risk gate: a successful borrow or withdrawal leaves the account initially healthy.
   Handler model: coq/model/Handlers.v (h_borrow, h_withdraw, init_health_check, positions);
   risk engine: coq/model/Risk.v (health_components, check_init_health, risk_tiers_ok, reconcile_emode,
   calc_value).  The oracle adapter is the abstract `feed` of every bank (how it derives from oracle
   accounts is C09); `fd_low_tw` / `fd_high_tw` are its low- / high-biased time-weighted prices.
   Quantification: every world, account, bank, amount; every portfolio (list of positions of any
   length); every list of e-mode configs.  "Empty" = fewer than 1.0 shares (Balance::is_empty compares
   shares with EMPTY_BALANCE_THRESHOLD = 1; DESIGN.md §7 C04 records this reading). *)
Require Import Base Constants Fixed Curve Bank BankOps Risk TransferFee Handlers.
Require Import Price RiskFeed.
Require Import FixedLemmas BankLemmas HandlerLemmas ErrLemmas RiskGateLemmas ReconcileLemmas RiskFeedLemmas NoRiskAccounts.
Local Open Scope Z_scope.

(* ---- soundness: success outside a flash loan => the check on the FINAL account in the FINAL world passed *)
Theorem C04_borrow_sound :
  forall w a b n w' ac0,
  h_borrow w a b n = Ok w' -> nth_acct w a = Ok ac0 -> aflag ac0 ACCOUNT_IN_FLASHLOAN = false ->
  exists ac ps A L, nth_acct w' a = Ok ac /\ ha_flags ac = ha_flags ac0 /\
    positions w' (ha_la ac) = Ok ps /\ check_init_health ps = Ok tt /\
    health_components ps RqInitial = Ok (A, L) /\ L <= A /\ risk_tiers_ok ps = true.
Proof. exact borrow_gate_sound. Qed.

Theorem C04_withdraw_sound :
  forall w a b n all w' ac0,
  h_withdraw w a b n all = Ok w' -> nth_acct w a = Ok ac0 -> aflag ac0 ACCOUNT_IN_FLASHLOAN = false ->
  exists ac ps A L, nth_acct w' a = Ok ac /\ ha_flags ac = ha_flags ac0 /\
    positions w' (ha_la ac) = Ok ps /\ check_init_health ps = Ok tt /\
    health_components ps RqInitial = Ok (A, L) /\ L <= A /\ risk_tiers_ok ps = true.
Proof. exact withdraw_gate_sound. Qed.

(* ---- isolated tier: an active isolated-tier liability is the account's only non-empty liability;
        non-empty = at least 1.0 liability shares *)
Theorem C04_isolated_debt_is_only_debt :
  forall ps, risk_tiers_ok ps = true <->
  (forall p, In p (liabs_of ps) -> rc_tier (ps_cfg p) = TIER_ISOLATED -> liabs_of ps = [p]).
Proof. exact risk_tiers_ok_iff. Qed.

Theorem C04_nonempty_means_one_unit :
  forall bl, (liab_nonempty bl = true <-> 1 * 2^48 <= bl_l bl) /\ (asset_nonempty bl = true <-> 1 * 2^48 <= bl_a bl).
Proof. exact nonempty_means_one_unit. Qed.

(* ---- converse: RiskEngineInitRejected comes only from the health comparison, on the state the
        instruction would have produced (borrow_effects / withdraw_effects = everything the handler does
        before the check; C04_handlers_split), and then A < L. Oracle adapters never return that code
        (feeds_ng; true of Fixed feeds: C04_fixed_feed_never_says_rejected). *)
Theorem C04_handlers_split :
  forall w a b n all,
  h_borrow w a b n = (let* (w3, ac3) := borrow_effects w a b n in
                      let* _ := init_health_check w3 ac3 in borrow_finish w w3 b) /\
  h_withdraw w a b n all = (let* (w3, ac3) := withdraw_effects w a b n all in
                            let* _ := init_health_check w3 ac3 in Ok w3).
Proof. exact handlers_split. Qed.

Theorem C04_borrow_rejected_only_when_unhealthy :
  forall w a b n,
  feeds_ng w -> h_borrow w a b n = Err (E 6009) ->
  exists w3 ac3 ps A L, borrow_effects w a b n = Ok (w3, ac3) /\
    aflag ac3 ACCOUNT_IN_FLASHLOAN = false /\ positions w3 (ha_la ac3) = Ok ps /\
    health_components ps RqInitial = Ok (A, L) /\ A < L.
Proof. exact borrow_gate_converse. Qed.

Theorem C04_withdraw_rejected_only_when_unhealthy :
  forall w a b n all,
  feeds_ng w -> h_withdraw w a b n all = Err (E 6009) ->
  exists w3 ac3 ps A L, withdraw_effects w a b n all = Ok (w3, ac3) /\
    aflag ac3 ACCOUNT_IN_FLASHLOAN = false /\ positions w3 (ha_la ac3) = Ok ps /\
    health_components ps RqInitial = Ok (A, L) /\ A < L.
Proof. exact withdraw_gate_converse. Qed.

Theorem C04_never_rejected_while_healthy :
  forall w a b n all w3 ac3 ps A L,
  feeds_ng w -> positions w3 (ha_la ac3) = Ok ps -> health_components ps RqInitial = Ok (A, L) -> L <= A ->
  (borrow_effects w a b n = Ok (w3, ac3) -> h_borrow w a b n <> Err (E 6009)) /\
  (withdraw_effects w a b n all = Ok (w3, ac3) -> h_withdraw w a b n all <> Err (E 6009)).
Proof. exact never_rejected_while_healthy. Qed.

Theorem C04_fixed_feed_never_says_rejected : forall p, feed_ng (fixed_feed p).
Proof. exact fixed_feed_ng. Qed.

(* the same for the feeds that the oracle-adapter model (Price.v, C09) yields for Fixed and Pyth push banks *)
Theorem C04_oracle_model_feeds_never_say_rejected :
  forall c ais now, oc_setup c = OS_Fixed \/ oc_setup c = OS_PythPushOracle -> feed_ng (feed_of_oracle c ais now).
Proof. exact feed_of_oracle_ng. Qed.

(* ---- what the engine computes *)
(* the two totals are the sums of the per-position weighted values under the reconciled e-mode config *)
Theorem C04_health_is_sum_of_weighted_values :
  forall ps r A L, health_components ps r = Ok (A, L) ->
  exists vs : list (fx * fx * Z),
    Forall2 (fun p v => weighted_value p r (engine_emode ps) = Ok v) ps vs /\
    A = zsum (map (fun v => fst (fst v)) vs) /\ L = zsum (map (fun v => snd (fst v)) vs).
Proof. exact health_components_is_sum. Qed.

Theorem C04_position_counts_on_one_side :
  forall p r em av lv c, weighted_value p r em = Ok (av, lv, c) ->
  (liab_nonempty (ps_bal p) = true /\ asset_nonempty (ps_bal p) = false /\ av = 0 /\ c = 0 /\
     exists hp, weighted_liab_value p r = Ok (lv, hp)) \/
  (liab_nonempty (ps_bal p) = false /\ asset_nonempty (ps_bal p) = true /\ lv = 0 /\
     exists lp, weighted_asset_value p r em = Ok (av, lp, c)) \/
  (liab_nonempty (ps_bal p) = false /\ asset_nonempty (ps_bal p) = false /\ av = 0 /\ lv = 0 /\ c = 0).
Proof. exact weighted_value_sides. Qed.

(* liabilities (initial requirement): amount x liability init weight x HIGH-biased time-weighted price *)
Theorem C04_liability_value_initial :
  forall p v hp, weighted_liab_value p RqInitial = Ok (v, hp) ->
  fd_load (ps_feed p) = Ok tt /\ fd_high_tw (ps_feed p) = Ok hp /\
  exists amt, get_liability_amount (ps_bank p) (bl_l (ps_bal p)) = Ok amt /\
    calc_value amt hp (balance_decimals (ps_bank p)) (Some (rc_lwi (ps_cfg p))) = Ok v.
Proof. exact liability_value_initial. Qed.

(* assets (initial requirement): 0 for isolated tier / reduce-only / unusable oracle (error code kept);
   otherwise amount x weight x LOW-biased time-weighted price, weight = max(bank init weight, reconciled
   e-mode init weight) x init-limit discount *)
Theorem C04_asset_value_initial :
  forall p em v lp c, weighted_asset_value p RqInitial em = Ok (v, lp, c) ->
  (rc_tier (ps_cfg p) = TIER_ISOLATED /\ v = 0 /\ c = 0) \/
  (rc_tier (ps_cfg p) <> TIER_ISOLATED /\ b_op_state (ps_bank p) = OP_REDUCE_ONLY /\ v = 0 /\ c = 0) \/
  (rc_tier (ps_cfg p) <> TIER_ISOLATED /\ b_op_state (ps_bank p) <> OP_REDUCE_ONLY /\
     fd_load (ps_feed p) = Err (E c) /\ v = 0) \/
  (rc_tier (ps_cfg p) <> TIER_ISOLATED /\ b_op_state (ps_bank p) <> OP_REDUCE_ONLY /\ c = 0 /\
     fd_load (ps_feed p) = Ok tt /\ fd_low_tw (ps_feed p) = Ok lp /\
     exists w amt, asset_weight_init p em lp = Ok w /\
       get_asset_amount (ps_bank p) (bl_a (ps_bal p)) = Ok amt /\
       calc_value amt lp (balance_decimals (ps_bank p)) (Some w) = Ok v).
Proof. exact weighted_asset_value_initial_spec. Qed.

Theorem C04_init_limit_discount :
  forall b c price d, init_discount b c price = Ok d ->
  (rc_tavil c = 0 /\ d = None) \/
  (rc_tavil c <> 0 /\ exists ta tv, get_asset_amount b (b_tas b) = Ok ta /\
     calc_value ta price (balance_decimals b) None = Ok tv /\
     ((tv <= of_int (rc_tavil c) /\ d = None) \/
      (of_int (rc_tavil c) < tv /\ exists q, cdiv (of_int (rc_tavil c)) tv = Ok q /\ d = Some q))).
Proof. exact init_discount_spec. Qed.

(* ---- e-mode: the reconciled config = intersection of the borrowing banks' configs with entry-wise
        minimum (configs have distinct non-empty tags: wf_cfg, enforced by config validation, C13) *)
Theorem C04_emode_is_reconciled_over_borrowing_banks :
  forall ps, engine_emode ps = reconcile_emode (map (fun p => rc_emode (ps_cfg p)) (liabs_of ps)).
Proof. exact emode_is_reconciled_over_borrowing_banks. Qed.

Theorem C04_reconcile_present_iff_in_all_and_minimum :
  forall cfgs t x, Forall wf_cfg cfgs -> find_with_tag (reconcile_emode cfgs) t = Some x ->
  t <> 0 /\ re_tag x = t /\
  (forall c, In c cfgs -> exists e, find_with_tag c t = Some e /\
       re_flags x <= re_flags e /\ re_wi x <= re_wi e /\ re_wm x <= re_wm e) /\
  (exists c e, In c cfgs /\ find_with_tag c t = Some e /\ re_flags x = re_flags e) /\
  (exists c e, In c cfgs /\ find_with_tag c t = Some e /\ re_wi x = re_wi e) /\
  (exists c e, In c cfgs /\ find_with_tag c t = Some e /\ re_wm x = re_wm e).
Proof. exact reconcile_some. Qed.

Theorem C04_reconcile_absent_iff_missing_somewhere :
  forall cfgs t, Forall wf_cfg cfgs -> find_with_tag (reconcile_emode cfgs) t = None ->
  t = 0 \/ cfgs = [] \/ exists c, In c cfgs /\ find_with_tag c t = None.
Proof. exact reconcile_none. Qed.

(* ---- conservativeness and rounding *)
Theorem C04_value_monotone :
  forall a p p' d w w' v v',
  0 <= a ->
  (0 <= w -> p <= p' -> calc_value a p d (Some w) = Ok v -> calc_value a p' d (Some w) = Ok v' -> v <= v') /\
  (0 <= p -> w <= w' -> calc_value a p d (Some w) = Ok v -> calc_value a p d (Some w') = Ok v' -> v <= v').
Proof. exact value_monotone. Qed.

(* calc_value never exceeds the exact rational amount*weight*price/10^dec and is below it by less than
   1 + (1 + price)/10^dec units in the last place (2^-48 dollars); all numbers raw I80F48 bits *)
Theorem C04_value_rounding_bound :
  forall a p d w v, 0 <= a -> 0 <= w -> 0 <= p -> calc_value a p d (Some w) = Ok v ->
  0 <= v /\
  v * (10 ^ d * 2^48) * 2^48 <= a * w * p /\
  a * w * p < (v + 1) * (10 ^ d * 2^48) * 2^48 + 2^48 * 2^48 + 2^48 * p.
Proof. exact calc_value_bound. Qed.

(* ---- non-vacuity: a concrete world where a borrow at the exact boundary is accepted and one native
        unit more is rejected with RiskEngineInitRejected *)
Definition ex_bank : bank := mkBank ONE ONE 0 0 0 0 0 0 U64_MAX U64_MAX 0 6 0 0 0 0 0 1 (mkIR 0 0 0 0 0 0 0 0 0 [] 1).
Definition ex_hb : hbank :=
  mkHB ex_bank (mkRC (ONE / 2) (ONE / 2) ONE ONE 0 0 0 []) (fixed_feed ONE) 0 0 0 0 false 0 0 0.
Definition ex_w : hworld :=
  mkHW [ex_hb; ex_hb] [mkHA la_empty 0; mkHA la_empty 0] 0 (mkPF false 0 0) [[2^62; 2^62]; [2^62; 2^62]] false.
Definition ex_setup : list hop := [HDeposit 0 1 1000000000 false; HDeposit 1 0 100000000 false].
Example C04_nonvacuous :
  is_ok (foldM hstep (ex_setup ++ [HBorrow 1 1 50000000]) ex_w) = true /\
  foldM hstep (ex_setup ++ [HBorrow 1 1 50000001]) ex_w = Err (E 6009).
Proof. split; vm_compute; reflexivity. Qed.

(* the same two instructions sent WITHOUT their risk (bank / oracle) accounts: everything up to the health check is
   identical (h_borrow_norem / h_withdraw_norem), the engine cannot load the first active balance; success is possible
   only inside a flash loan (check skipped, C11 owns the end check) or for an account left without any active balance *)
Theorem C04_borrow_without_risk_accounts :
  forall w a b n w', h_borrow_norem w a b n = Ok w' ->
  exists ac3, nth_acct w' a = Ok ac3 /\
    (aflag ac3 ACCOUNT_IN_FLASHLOAN = true \/ existsb bl_active (ha_la ac3) = false).
Proof. exact borrow_norem_only_flashloan_or_empty. Qed.

(* stronger for the borrow: it always leaves the borrowed-from balance active, so without risk accounts it succeeds ONLY
   inside a flash loan *)
Theorem C04_borrow_without_risk_accounts_only_in_flashloan :
  forall w a b n w', h_borrow_norem w a b n = Ok w' ->
  exists ac, nth_acct w a = Ok ac /\ aflag ac ACCOUNT_IN_FLASHLOAN = true.
Proof. exact borrow_norem_only_in_flashloan. Qed.

Theorem C04_withdraw_without_risk_accounts :
  forall w a b n all w', h_withdraw_norem w a b n all = Ok w' ->
  exists ac3, nth_acct w' a = Ok ac3 /\
    (aflag ac3 ACCOUNT_IN_FLASHLOAN = true \/ existsb bl_active (ha_la ac3) = false).
Proof. exact withdraw_norem_only_flashloan_or_empty. Qed.

Print Assumptions C04_borrow_sound.
Print Assumptions C04_borrow_without_risk_accounts.
Print Assumptions C04_withdraw_without_risk_accounts.
Print Assumptions C04_borrow_without_risk_accounts_only_in_flashloan.
Print Assumptions C04_withdraw_sound.
Print Assumptions C04_isolated_debt_is_only_debt.
Print Assumptions C04_nonempty_means_one_unit.
Print Assumptions C04_handlers_split.
Print Assumptions C04_borrow_rejected_only_when_unhealthy.
Print Assumptions C04_withdraw_rejected_only_when_unhealthy.
Print Assumptions C04_never_rejected_while_healthy.
Print Assumptions C04_fixed_feed_never_says_rejected.
Print Assumptions C04_oracle_model_feeds_never_say_rejected.
Print Assumptions C04_health_is_sum_of_weighted_values.
Print Assumptions C04_position_counts_on_one_side.
Print Assumptions C04_liability_value_initial.
Print Assumptions C04_asset_value_initial.
Print Assumptions C04_init_limit_discount.
Print Assumptions C04_emode_is_reconciled_over_borrowing_banks.
Print Assumptions C04_reconcile_present_iff_in_all_and_minimum.
Print Assumptions C04_reconcile_absent_iff_missing_somewhere.
Print Assumptions C04_value_monotone.
Print Assumptions C04_value_rounding_bound.
