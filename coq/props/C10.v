(* C10 — Receivership liquidation is bracketed, restricted, and cannot worsen health.
   Statements only; every proof is `exact <lemma>` (lemmas/TxLemmas.v, lemmas/TxWorldLemmas.v).
   Quantification: instruction lists / transactions of ANY length, any programs, any data, any
   marginfi state; the valuation functions, the bookkeeping of withdraw/repay/borrow/deposit and
   all other marginfi instructions are arbitrary (`R : env BW PF`).  K ranges over liquidation and
   deleverage: the deleverage bracket (C12) is the same code. *)
Require Import Base Fixed Constants TxConstants Tx TxSpec TxToy TxLemmas TxWorldLemmas.
Local Open Scope Z_scope.

(* ---- (1) the languages accepted by the three validators and by validate_instructions ---- *)
Theorem C10_validate_ix_first_language : forall ixes pid exp al,
  validate_ix_first ixes pid exp al = Ok tt <->
  exists pre x post, ixes = pre ++ x :: post /\ forallb (skip1 pid exp al) pre = true /\
                     tgt pid exp x = true /\ forallb (after1 pid exp) post = true.
Proof. exact validate_ix_first_spec. Qed.

Theorem C10_validate_ix_last_language : forall ixes pid exp,
  validate_ix_last ixes pid exp = Ok tt <-> exists pre y, ixes = pre ++ [y] /\ is_end pid exp y = true.
Proof. exact validate_ix_last_spec. Qed.

Theorem C10_validate_ixes_exclusive_language : forall ixes pid expected,
  validate_ixes_exclusive ixes pid expected = Ok tt <-> forallb (excl_ok pid expected) ixes = true.
Proof. exact validate_ixes_exclusive_spec. Qed.

Theorem C10_validate_instructions_language : forall ixes cur cpi K,
  validate_instructions ixes cur cpi K = Ok tt <->
  forallb (prog_allowed allowed_programs) ixes = true /\
  validate_ix_first ixes PMfi (start_disc K) allowed_pre = Ok tt /\
  validate_ix_last ixes PMfi (end_disc K) = Ok tt /\
  forallb (excl_ok PMfi (excl_list K)) ixes = true /\
  cpi = false /\
  (exists d, nth_z ixes cur = Some d /\ d_prog d = PMfi) /\
  cur < len_z ixes - 1.
Proof. exact validate_instructions_spec. Qed.

(* every accepted transaction is  skippable* start (listed instruction, not a start)* end  *)
Theorem C10_accepted_shape : forall ixes cur K,
  validate_instructions ixes cur false K = Ok tt ->
  exists pre x mid y,
    ixes = pre ++ x :: mid ++ [y] /\
    forallb (skip1 PMfi (start_disc K) allowed_pre) pre = true /\
    tgt PMfi (start_disc K) x = true /\
    forallb (mid_ok K) mid = true /\
    is_end PMfi (end_disc K) y = true /\
    forallb (prog_allowed allowed_programs) ixes = true /\
    forallb (excl_ok PMfi (excl_list K)) ixes = true.
Proof. exact validate_instructions_shape. Qed.

(* ---- (2) the markers never survive a committed transaction ---- *)
Theorem C10_no_marker_survives : forall (BW PF : Type) (R : env BW PF) (w w' : world BW PF) tx,
  clean_r w -> exec_tx R w tx = Some w' -> clean_r w'.
Proof. exact (@recv_never_survives). Qed.

(* ---- (3) a committed transaction in which a start for account a executed at top-level index i:
        the whole transaction has the accepted shape around i, its last instruction is the
        matching end FOR THE SAME ACCOUNT, the account was not in receivership and met the start
        condition when the start ran, and the end-time conditions hold in the final state
        relative to the snapshot c0 taken at the start ---- *)
Theorem C10_bracket : forall (BW PF : Type) (R : env BW PF) (w w' : world BW PF) tx i K a,
  clean_r w -> exec_tx R w tx = Some w' -> start_at (map t_d tx) i K a ->
  validate_instructions (map t_d tx) i false K = Ok tt /\
  last_end (map t_d tx) K a /\
  exists l1 t l2 wi Ai c0,
    tx = l1 ++ t :: l2 /\ len_z l1 = i /\
    exec_from R (map t_d tx) 0 w l1 = Committed wi /\
    w_accts wi a = Some Ai /\ f_recv (a_fl Ai) = false /\
    start_cond R K c0 (w_bw wi) (a_pf Ai) /\
    final_facts R K c0 w' a.
Proof. exact (@bracket_tx). Qed.

(* start: only at maintenance health <= 0 (liquidation), snapshot taken, introspection passed *)
Theorem C10_start : forall (BW PF : Type) (R : env BW PF) K ixes cur cpi (w : world BW PF) a recv w',
  h_start R K ixes cur cpi w a recv = Ok w' ->
  validate_instructions ixes cur cpi K = Ok tt /\
  exists A, w_accts w a = Some A /\ a_record A = true /\
    f_recv (a_fl A) = false /\ f_fl (a_fl A) = false /\ f_disabled (a_fl A) = false /\
    start_cond R K (ocache w' a) (w_bw w) (a_pf A) /\
    orc w' a = true /\ orv w' a = recv /\ (K = KDelev -> recv = w_risk_admin w) /\
    (forall k, k <> a -> w_accts w' k = w_accts w k).
Proof. exact (@start_facts). Qed.

Theorem C10_end : forall (BW PF : Type) (R : env BW PF) K cpi (w : world BW PF) a s w',
  h_end R K cpi w a s = Ok w' ->
  cpi = false /\
  exists A, w_accts w a = Some A /\ f_recv (a_fl A) = true /\ a_recv A = s /\
    end_cond R K (a_cache A) (w_bw w) (a_pf A) (w_fee_max w) /\
    orc w' a = false /\ orv w' a = 0 /\ (K = KDelev -> odl w' a = false) /\
    (forall k, k <> a -> w_accts w' k = w_accts w k).
Proof. exact (@end_facts). Qed.

(* the end-time conditions, numbers as in the property text: health not worse; for liquidation,
   unless the start-time equity assets were under $5: health not positive and
   seized <= repaid * (1 + max(fee_state premium, 5%)), 14073748835533 = I80F48 bits of 0.05 *)
Theorem C10_end_conditions : forall (BW PF : Type) (R : env BW PF) K c bw pf fee,
  end_cond R K c bw pf fee ->
  exists qa ql qae qle,
    e_maint R bw pf = Ok (qa, ql) /\ e_equity R bw pf = Ok (qae, qle) /\
    c_am c - c_lm c <= qa - ql /\
    (K = KLiq -> 5 * 2^48 <= c_ae c ->
       qa - ql <= 0 /\
       (0 <= fee < 2^64 -> - 2^100 <= c_le c - qle <= 2^100 ->
        (c_ae c - qae) * 2^48 <= (c_le c - qle) * (2^48 + Z.max fee 14073748835533))).
Proof. exact (@end_cond_literal). Qed.

(* ---- (4) neither start nor end (of any of the three brackets) runs via CPI ---- *)
Theorem C10_not_via_cpi : forall (BW PF : Type) (R : env BW PF) (w : world BW PF),
  (forall K ixes cur a r, is_ok (h_start R K ixes cur true w a r) = false) /\
  (forall K a s, is_ok (h_end R K true w a s) = false) /\
  (forall ixes cur a au e, is_ok (h_start_fl ixes cur true w a au e) = false) /\
  (forall a au nr, is_ok (h_end_fl R true w a au nr) = false).
Proof. exact (@bracket_ops_not_in_cpi). Qed.

(* ---- (5) what a third party can do, and the withdraw guard ---- *)
Theorem C10_third_party_needs_receivership :
  forall (BW PF : Type) (R : env BW PF) (w : world BW PF) a s bank m al w' A,
  w_accts w a = Some A ->
  (h_withdraw R w a s bank m al = Ok w' \/ h_repay R w a s bank m al = Ok w') ->
  f_recv (a_fl A) = true \/ (f_frozen (a_fl A) = false /\ s = a_auth A) \/
  (f_frozen (a_fl A) = true /\ s = w_admin w /\ s <> a_auth A).
Proof. exact (@third_party_needs_receivership). Qed.

Theorem C10_withdraw_guard : forall (BW PF : Type) (R : env BW PF) (w : world BW PF) a s bank m al w' A,
  w_accts w a = Some A -> f_recv (a_fl A) = true -> h_withdraw R w a s bank m al = Ok w' ->
  e_w_init R (w_bw w) bank <> 0 /\ exists p, e_price_low R (w_bw w) bank = Ok p /\ 0 < p.
Proof. exact (@withdraw_guard). Qed.

Theorem C10_receivership_blocks : forall (BW PF : Type) (R : env BW PF) (w : world BW PF) a A,
  w_accts w a = Some A -> f_recv (a_fl A) = true ->
  (forall K ixes cur cpi r, is_ok (h_start R K ixes cur cpi w a r) = false) /\
  (forall l s ab lb m, is_ok (h_liquidate R w l s a ab lb m) = false) /\
  (forall v s ab lb m, is_ok (h_liquidate R w a s v ab lb m) = false) /\
  (forall s b, is_ok (h_bankruptcy R w a s b) = false) /\
  (forall n s na, is_ok (h_transfer R w a n s na) = false) /\
  (forall s b m, is_ok (h_borrow R w a s b m) = false) /\
  (forall s b m, is_ok (h_deposit R w a s b m) = false) /\
  (forall ixes cur cpi au e, is_ok (h_start_fl ixes cur cpi w a au e) = false) /\
  (forall cpi au nr, is_ok (h_end_fl R cpi w a au nr) = false).
Proof. exact (@receivership_blocks). Qed.

(* the dispatcher and the introspection code agree on the discriminators *)
Theorem C10_discriminators_agree :
  DISP_SL = IX_SL /\ DISP_SD = IX_SD /\ DISP_EL = IX_EL /\ DISP_ED = IX_ED /\ DISP_SF = IX_SF /\
  DISP_EF = IX_EF /\ DISP_WD = IX_WD /\ DISP_RP = IX_RP /\ DISP_IR = IX_IR /\ DISP_KW = IX_KW /\ DISP_DW = IX_DW.
Proof. exact disp_consts. Qed.

(* Non-vacuity: an unhealthy account (100 C at $10, maint weight 0.75; debt 800 L at $1) is taken
   into receivership by a third party (signer 20), 5 C are seized for 60 L repaid, the transaction
   [budget; start; withdraw; repay; end] commits, and all hypotheses of C10_bracket hold for it;
   the same transaction without the end, or with a borrow in between, does not commit. *)
Definition ex_bw : tbw :=
  [(31, mkTB (10 * ONE) (ONE / 2) (3 * ONE / 4) ONE ONE 6); (32, mkTB ONE ONE ONE (5 * ONE / 4) ONE 6)].
Definition ex_A : acct tpf :=
  mkA fl_zero 11 false true 0 c4_zero [(31, (100000000, 0)); (32, (0, 800000000))] false.
Definition ex_w : world tbw tpf := toy_world [(1, ex_A)] ex_bw 21 21 (ONE / 10).
Definition ex_tx : list top_ix :=
  map top [mk_CB; mk_SL 1 20; mk_WD 1 20 31 5000000; mk_RP 1 20 32 60000000; mk_EL 1 20].

Example C10_nonvacuous :
  clean_r ex_w /\
  (exists d, nth_z (map t_d ex_tx) 1 = Some d /\ d_prog d = PMfi /\ 8 <= d_len d /\ d_disc d = start_disc KLiq /\ hd_is 1 d) /\
  (match toy_exec_tx ex_w ex_tx with
   | Some w' => orc w' 1 = false /\ orv w' 1 = 0 /\
                ocache w' 1 = mkC4 (750 * ONE) (800 * ONE) (1000 * ONE) (800 * ONE) /\
                (match w_accts w' 1 with Some a => a_pf a = [(31, (95000000, 0)); (32, (0, 740000000))] | None => False end)
   | None => False end) /\
  toy_exec_tx ex_w (map top [mk_SL 1 20; mk_WD 1 20 31 5000000; mk_RP 1 20 32 60000000]) = None /\
  toy_exec_tx ex_w (map top [mk_SL 1 20; mk_BR 1 11 32 1; mk_EL 1 20]) = None /\
  toy_exec_tx ex_w (map top [mk_SL 1 20; mk_WD 1 20 31 5000000; mk_RP 1 20 32 40000000; mk_EL 1 20]) = None.
Proof.
  split; [intros k; unfold orc, odl, orv, ex_w, toy_world; cbn [w_accts assoc]; destruct (1 =? k); cbn; auto|].
  split; [eexists; split; [reflexivity|]; repeat split; try (vm_compute; congruence); eexists; reflexivity|].
  vm_compute. repeat split; reflexivity.
Qed.

(* Known finding `mfi-cpi-inside-bracket` (known_findings.json): C10_bracket restricts the TOP-LEVEL
   instructions (`map t_d tx`); the literal "none via CPI" does not extend to marginfi instructions
   that an allow-listed program invokes by CPI between start and end.  Witness: account 2 borrows
   through a CPI from the Jupiter program id in the middle of account 1's receivership, and the
   transaction commits (replayed on the real handlers by the case line of the finding). *)
Definition ex_B : acct tpf :=
  mkA fl_zero 12 false true 0 c4_zero [(31, (100000000, 0)); (32, (0, 100000000))] false.
Definition ex_w2 : world tbw tpf := toy_world [(1, ex_A); (2, ex_B)] ex_bw 21 21 (ONE / 10).
Definition ex_tx_cpi : list top_ix :=
  [top (mk_SL 1 20); proxy PJup (mk_BR 2 12 32 1000000); top (mk_WD 1 20 31 5000000);
   top (mk_RP 1 20 32 60000000); top (mk_EL 1 20)].

Theorem C10_none_via_cpi_refuted :
  exists (w : world tbw tpf) tx w' i t d,
    clean_r w /\ toy_exec_tx w tx = Some w' /\ start_at (map t_d tx) 0 KLiq 1 /\
    nth_z tx i = Some t /\ 0 < i < len_z tx - 1 /\ d_prog (t_d t) <> PMfi /\
    In d (t_inner t) /\ d_prog d = PMfi /\ d_disc d = IX_BR /\
    (match w_accts w 2, w_accts w' 2 with
     | Some b, Some b' => a_pf b = [(31, (100000000, 0)); (32, (0, 100000000))] /\
                          a_pf b' = [(31, (100000000, 0)); (32, (0, 101000000))]
     | _, _ => False end).
Proof.
  exists ex_w2, ex_tx_cpi. eexists. exists 1. eexists. eexists.
  split; [intros k; unfold orc, odl, orv, ex_w2, toy_world; cbn [w_accts assoc];
          destruct (1 =? k); [cbn; auto|]; destruct (2 =? k); cbn; auto|].
  split; [vm_compute; reflexivity|].
  split; [eexists; split; [reflexivity|]; repeat split; try (vm_compute; congruence); eexists; reflexivity|].
  split; [reflexivity|]. split; [vm_compute; split; reflexivity|]. split; [cbn; discriminate|].
  split; [left; reflexivity|]. split; [reflexivity|]. split; [reflexivity|]. vm_compute. split; reflexivity.
Qed.

Print Assumptions C10_validate_ix_first_language.
Print Assumptions C10_validate_ix_last_language.
Print Assumptions C10_validate_ixes_exclusive_language.
Print Assumptions C10_validate_instructions_language.
Print Assumptions C10_accepted_shape.
Print Assumptions C10_no_marker_survives.
Print Assumptions C10_bracket.
Print Assumptions C10_start.
Print Assumptions C10_end.
Print Assumptions C10_end_conditions.
Print Assumptions C10_not_via_cpi.
Print Assumptions C10_third_party_needs_receivership.
Print Assumptions C10_withdraw_guard.
Print Assumptions C10_receivership_blocks.
Print Assumptions C10_discriminators_agree.
Print Assumptions C10_none_via_cpi_refuted.
