(* ConfigLemmas.v — C13: soundness of the configuration validators, the Valid invariant and its
   preservation along every configuration path, killed-state transitions. *)
Require Import Base Constants ConfigGen Fixed Curve Config Emode ConfigPaths FixedLemmas CurveLemmas.
From Coq Require Import ZifyBool Sorted.
Local Open Scope Z_scope.

(* ---------------------------------------------------------------- small tools *)
Lemma check_ok_iff c e : check c e = Ok tt <-> c = true.
Proof. unfold check; destruct c; split; intros H; try reflexivity; discriminate. Qed.

Lemma check_inv c e u : check c e = Ok u -> c = true.
Proof. unfold check; destruct c; intros H; [reflexivity | discriminate]. Qed.

Lemma ok_or_inv {A} (r : res A) e v : ok_or r e = Ok v -> r = Ok v.
Proof. unfold ok_or; destruct r as [a|[| |c]]; intros H; try discriminate; assumption. Qed.

Lemma two_val : uadd ONE ONE = Ok (2 * ONE).
Proof. reflexivity. Qed.

Lemma unit_eta (u : unit) : u = tt. Proof. destruct u; reflexivity. Qed.

(* ---------------------------------------------------------------- BankConfig::validate *)
Definition weights_ok (c : bank_cfg) : Prop :=
  0 <= bc_awi c <= ONE /\ bc_awi c <= bc_awm c <= 2 * ONE /\
  ONE <= bc_lwm c <= bc_lwi c /\
  (bc_risk_tier c = RISK_ISOLATED -> bc_awi c = 0 /\ bc_awm c = 0) /\
  10 <= bc_max_age c.

Lemma bc_validate_spec c :
  bc_validate c = Ok tt <-> weights_ok c /\ ir_validate (bc_ir c) = Ok tt.
Proof.
  unfold bc_validate, weights_ok. rewrite two_val. cbn [bind]. split.
  - intros H.
    apply bind_ok in H as (u1 & H1 & H). apply check_inv in H1.
    apply bind_ok in H as (u2 & H2 & H). apply check_inv in H2.
    apply bind_ok in H as (u3 & H3 & H). apply check_inv in H3.
    apply bind_ok in H as (u4 & H4 & H). apply check_inv in H4.
    apply bind_ok in H as (u5 & H5 & H). apply check_inv in H5.
    apply bind_ok in H as (u6 & H6 & H). rewrite (unit_eta u6) in H6.
    apply bind_ok in H as (u7 & H7 & H). apply check_inv in H.
    unfold ORACLE_MIN_AGE in H.
    split; [|exact H6].
    split; [lia|]. split; [lia|]. split; [lia|]. split; [|lia].
    intros Ht. rewrite Ht in H7. replace (RISK_ISOLATED =? RISK_ISOLATED) with true in H7 by reflexivity.
    apply bind_ok in H7 as (u8 & H8 & H7). apply check_inv in H8. apply check_inv in H7. lia.
  - intros [(Ha & Hb & Hc & Hd & He) Hir].
    replace ((0 <=? bc_awi c) && (bc_awi c <=? ONE)) with true by lia. cbn [check bind].
    replace (bc_awm c <=? 2 * ONE) with true by lia. cbn [check bind].
    replace (bc_awi c <=? bc_awm c) with true by lia. cbn [check bind].
    replace (ONE <=? bc_lwi c) with true by lia. cbn [check bind].
    replace ((bc_lwm c <=? bc_lwi c) && (ONE <=? bc_lwm c)) with true by lia. cbn [check bind].
    rewrite Hir. cbn [bind].
    unfold ORACLE_MIN_AGE. replace (10 <=? bc_max_age c) with true by lia.
    destruct (Z.eq_dec (bc_risk_tier c) RISK_ISOLATED) as [Ht|Ht].
    + destruct (Hd Ht) as [E1 E2]. rewrite Ht, E1, E2. reflexivity.
    + replace (bc_risk_tier c =? RISK_ISOLATED) with false by lia. reflexivity.
Qed.

Lemma bc_validate_sound c :
  bc_validate c = Ok tt ->
  0 <= bc_awi c <= ONE /\ bc_awi c <= bc_awm c <= 2 * ONE /\
  ONE <= bc_lwm c <= bc_lwi c /\
  (bc_risk_tier c = RISK_ISOLATED -> bc_awi c = 0 /\ bc_awm c = 0) /\
  10 <= bc_max_age c /\
  ir_validate (bc_ir c) = Ok tt.
Proof. intros H. apply bc_validate_spec in H as [(A & B & C & D & E) F]. repeat split; try assumption; lia. Qed.

(* the result type of bc_validate is unit: any Ok is Ok tt *)
Lemma res_unit_ok (r : res unit) u : r = Ok u -> r = Ok tt.
Proof. destruct u; auto. Qed.

(* ---------------------------------------------------------------- StakedSettings::validate *)
Lemma ss_validate_sound s :
  ss_validate s = Ok tt ->
  0 <= ss_awi s <= ONE /\ ss_awi s <= ss_awm s <= 2 * ONE /\
  (ss_risk_tier s = RISK_ISOLATED -> ss_awi s = 0 /\ ss_awm s = 0).
Proof.
  unfold ss_validate. intros H.
  apply bind_ok in H as (u1 & H1 & H). apply check_inv in H1.
  apply bind_ok in H as (u2 & H2 & H). apply check_inv in H2.
  rewrite two_val in H. cbn [bind] in H.
  apply bind_ok in H as (u3 & H3 & H). apply check_inv in H3.
  split; [lia|]. split; [lia|].
  intros Ht. rewrite Ht in H. replace (RISK_ISOLATED =? RISK_ISOLATED) with true in H by reflexivity.
  apply bind_ok in H as (u4 & H4 & H). apply check_inv in H4. apply check_inv in H. lia.
Qed.

(* ---------------------------------------------------------------- calculate_max_leverage *)
(* the leverage exactly as the code computes it *)
Definition lev_code (cw lw : Z) : Z := ONE * ONE / (ONE - cw * ONE / lw).

Lemma calc_max_leverage_inv cw lw r :
  0 <= cw -> calc_max_leverage cw lw = Ok r ->
  0 < lw /\ cw < lw /\ 0 < ONE - cw * ONE / lw /\ r = lev_code cw lw /\ 0 <= r.
Proof.
  intros Hcw. unfold calc_max_leverage. intros H.
  apply bind_ok in H as (u1 & H1 & H). apply check_inv in H1.
  apply bind_ok in H as (u2 & H2 & H). apply check_inv in H2.
  apply bind_ok in H as (ratio & Hr & H). apply ok_or_inv in Hr.
  apply cdiv_inv_nonneg in Hr as [-> Hr]; [| lia | lia].
  apply bind_ok in H as (den & Hd & H). apply usub_inv in Hd as [-> Hd].
  apply bind_ok in H as (u3 & H3 & H). apply check_inv in H3.
  apply ok_or_inv in H.
  pose proof ONE_pos.
  apply cdiv_inv_nonneg in H as [-> H]; [| lia | lia].
  unfold lev_code. repeat split; try lia.
Qed.

(* exact-integer consequence of "computed leverage <= cap": the true leverage lw/(lw-cw) is below
   cap+1 ulp up to the relative rounding lw/ONE *)
Lemma lev_code_bound cw lw cap :
  0 <= cw -> 0 < lw -> 0 < ONE - cw * ONE / lw -> lev_code cw lw <= cap ->
  ONE * ONE * lw < (cap + 1) * (ONE * (lw - cw) + lw).
Proof.
  intros Hcw Hlw Hden Hl. unfold lev_code in Hl. pose proof ONE_pos as HO.
  set (r := cw * ONE / lw) in *. set (d := ONE - r) in *.
  assert (Hq : 0 <= ONE * ONE / d) by (apply Z.div_pos; [apply Z.mul_nonneg_nonneg; lia | lia]).
  assert (H1 : ONE * ONE < (cap + 1) * d).
  { pose proof (Z.div_mod (ONE * ONE) d ltac:(lia)) as E.
    pose proof (Z.mod_pos_bound (ONE * ONE) d ltac:(lia)) as B.
    assert (d * (ONE * ONE / d) <= d * cap) by (apply Z.mul_le_mono_nonneg_l; lia). lia. }
  assert (H2 : d * lw < ONE * (lw - cw) + lw).
  { pose proof (Z.div_mod (cw * ONE) lw ltac:(lia)) as E. fold r in E.
    pose proof (Z.mod_pos_bound (cw * ONE) lw ltac:(lia)) as B.
    unfold d. lia. }
  assert (H3 : ONE * ONE * lw < (cap + 1) * d * lw) by (apply Z.mul_lt_mono_pos_r; lia).
  assert (H4 : (cap + 1) * (d * lw) < (cap + 1) * (ONE * (lw - cw) + lw)) by (apply Z.mul_lt_mono_pos_l; lia).
  lia.
Qed.

(* ---------------------------------------------------------------- e-mode entry validation *)
Definition entry_ok (lwi lwm capi capm : Z) (e : emode_entry) : Prop :=
  ee_is_empty e = true \/
  (0 <= ee_init e <= ee_maint e /\
   0 < lwi /\ 0 < lwm /\ ee_init e < lwi /\ ee_maint e < lwm /\
   lev_code (ee_init e) lwi <= capi /\ lev_code (ee_maint e) lwm <= capm /\
   ONE * ONE * lwi < (capi + 1) * (ONE * (lwi - ee_init e) + lwi) /\
   ONE * ONE * lwm < (capm + 1) * (ONE * (lwm - ee_maint e) + lwm)).

Lemma em_validate_entry_sound lwi lwm capi capm e :
  em_validate_entry lwi lwm capi capm e = Ok tt -> entry_ok lwi lwm capi capm e.
Proof.
  unfold em_validate_entry, entry_ok. destruct (ee_is_empty e) eqn:Ee; [intros _; left; reflexivity|].
  intros H. right.
  apply bind_ok in H as (u1 & H1 & H). apply check_inv in H1.
  apply bind_ok in H as (u2 & H2 & H). apply check_inv in H2.
  apply bind_ok in H as (li & Hli & H).
  apply calc_max_leverage_inv in Hli as (A1 & A2 & A3 & -> & A5); [|lia].
  apply bind_ok in H as (u3 & H3 & H). apply check_inv in H3.
  apply bind_ok in H as (lm & Hlm & H).
  apply calc_max_leverage_inv in Hlm as (B1 & B2 & B3 & -> & B5); [|lia].
  apply check_inv in H.
  repeat split; try lia.
  - apply lev_code_bound; lia.
  - apply lev_code_bound; lia.
Qed.

Lemma em_validate_loop_sound lwi lwm capi capm l :
  em_validate_loop lwi lwm capi capm l = Ok tt -> Forall (entry_ok lwi lwm capi capm) l.
Proof.
  induction l as [|e r IH]; cbn [em_validate_loop]; intros H; [constructor|].
  apply bind_ok in H as (u & H1 & H). rewrite (unit_eta u) in H1.
  constructor; [apply em_validate_entry_sound; exact H1 | apply IH; exact H].
Qed.

Fixpoint no_adjacent_dup (l : list Z) : Prop :=
  match l with
  | a :: ((b :: _) as tl) => a <> b /\ no_adjacent_dup tl
  | _ => True
  end.

Lemma has_adjacent_dup_false l : has_adjacent_dup l = false -> no_adjacent_dup l.
Proof.
  induction l as [|a [|b tl] IH]; cbn [has_adjacent_dup no_adjacent_dup]; intros H; auto.
  apply orb_false_iff in H as [H1 H2]. split; [lia | apply IH; exact H2].
Qed.

Lemma em_check_dupes_sound l : em_check_dupes l = Ok tt -> no_adjacent_dup (nonempty_tags l).
Proof.
  unfold em_check_dupes. destruct (has_adjacent_dup (nonempty_tags l)) eqn:E; [discriminate|].
  intros _. apply has_adjacent_dup_false; exact E.
Qed.

Lemma u32_to_basis_total v : exists b, u32_to_basis v = Ok b.
Proof.
  unfold u32_to_basis, wdiv. replace (of_int U32_MAXZ =? 0) with false by reflexivity.
  cbn [bind]. eexists; reflexivity.
Qed.

Lemma em_validate_sound es c ci cm :
  em_validate es c ci cm = Ok tt ->
  exists capi capm,
    u32_to_basis ci = Ok capi /\ u32_to_basis cm = Ok capm /\
    Forall (entry_ok (bc_lwi c) (bc_lwm c) capi capm) (es_entries es) /\
    no_adjacent_dup (nonempty_tags (es_entries es)).
Proof.
  unfold em_validate. intros H.
  apply bind_ok in H as (capi & Hi & H). apply bind_ok in H as (capm & Hm & H).
  apply bind_ok in H as (u & Hl & H). rewrite (unit_eta u) in Hl.
  exists capi, capm. repeat split; try assumption.
  - apply em_validate_loop_sound; exact Hl.
  - apply em_check_dupes_sound; exact H.
Qed.

(* sortedness and duplicates *)
Definition es_sorted (l : list emode_entry) : Prop := StronglySorted Z.le (map ee_tag l).

Lemma ee_insert_in x l y : In y (ee_insert x l) <-> y = x \/ In y l.
Proof.
  induction l as [|z r IH]; cbn [ee_insert].
  - cbn. intuition.
  - destruct (ee_tag x <=? ee_tag z); cbn [In]; [intuition|]. rewrite IH. intuition.
Qed.

Lemma ee_insert_sorted x l : es_sorted l -> es_sorted (ee_insert x l).
Proof.
  unfold es_sorted. induction l as [|z r IH]; cbn [ee_insert map]; intros H.
  - constructor; constructor.
  - destruct (ee_tag x <=? ee_tag z) eqn:E.
    + cbn [map]. constructor; [exact H|].
      inversion H as [|? ? Hs Hf]; subst. constructor; [lia|].
      rewrite Forall_forall in *. intros t Ht. specialize (Hf t Ht). lia.
    + cbn [map]. inversion H as [|? ? Hs Hf]; subst. constructor; [apply IH; exact Hs|].
      rewrite Forall_forall in *. intros t Ht. apply in_map_iff in Ht as (y & <- & Hy).
      apply ee_insert_in in Hy as [->|Hy]; [lia|]. apply Hf. apply in_map; exact Hy.
Qed.

Lemma ee_sort_sorted l : es_sorted (ee_sort l).
Proof.
  unfold ee_sort. induction l as [|x r IH]; cbn [fold_right]; [constructor | apply ee_insert_sorted; exact IH].
Qed.

Lemma ee_sort_in l y : In y (ee_sort l) <-> In y l.
Proof.
  unfold ee_sort. induction l as [|x r IH]; cbn [fold_right]; [tauto|].
  rewrite ee_insert_in, IH. cbn [In]. intuition.
Qed.

Lemma sorted_filter_tags l :
  es_sorted l -> StronglySorted Z.le (nonempty_tags l).
Proof.
  unfold es_sorted, nonempty_tags. induction l as [|x r IH]; cbn [map filter]; intros H; [constructor|].
  inversion H as [|? ? Hs Hf]; subst. destruct (negb (ee_is_empty x)); cbn [map].
  - constructor; [apply IH; exact Hs|]. rewrite Forall_forall in *. intros t Ht.
    apply in_map_iff in Ht as (y & <- & Hy). apply filter_In in Hy as [Hy _]. apply Hf, in_map; exact Hy.
  - apply IH; exact Hs.
Qed.

Lemma sorted_no_adjacent_nodup (l : list Z) :
  StronglySorted Z.le l -> no_adjacent_dup l -> NoDup l.
Proof.
  induction l as [|a [|b tl] IH]; intros Hs Hn; [constructor | constructor; [intros []|constructor] |].
  inversion Hs as [|? ? Hs' Hf]; subst. cbn [no_adjacent_dup] in Hn. destruct Hn as [Hab Hn].
  constructor; [|apply IH; assumption].
  intros [->|Hin]; [congruence|].
  inversion Hs' as [|? ? Hs'' Hf']; subst.
  inversion Hf as [|? ? Hab' Hf'']; subst.
  rewrite Forall_forall in Hf'. specialize (Hf' a Hin). lia.
Qed.

Lemma em_sorted_no_duplicates es c ci cm :
  em_validate es c ci cm = Ok tt -> es_sorted (es_entries es) -> NoDup (nonempty_tags (es_entries es)).
Proof.
  intros H Hs. apply em_validate_sound in H as (capi & capm & _ & _ & _ & Hn).
  apply sorted_no_adjacent_nodup; [apply sorted_filter_tags; exact Hs | exact Hn].
Qed.

(* ---------------------------------------------------------------- the Valid invariant *)
Definition cfg_valid (c : bank_cfg) : Prop := bc_validate c = Ok tt.

Definition emode_valid (g : caps) (c : bank_cfg) (es : emode_settings) : Prop :=
  em_validate es c (cap_init g) (cap_maint g) = Ok tt /\ es_sorted (es_entries es).

Definition Valid (g : caps) (b : cbank) : Prop :=
  cfg_valid (cb_cfg b) /\ emode_valid g (cb_cfg b) (cb_emode b).

(* em_validate reads only the entries and the two liability weights *)
Lemma em_validate_ext es es' c c' ci cm :
  es_entries es = es_entries es' -> bc_lwi c = bc_lwi c' -> bc_lwm c = bc_lwm c' ->
  em_validate es c ci cm = em_validate es' c' ci cm.
Proof. intros E1 E2 E3. unfold em_validate. rewrite E1, E2, E3. reflexivity. Qed.

Lemma em_validate_loop_all_empty lwi lwm capi capm l :
  Forall (fun e => ee_is_empty e = true) l -> em_validate_loop lwi lwm capi capm l = Ok tt.
Proof.
  induction 1 as [|e r He Hr IH]; cbn [em_validate_loop]; [reflexivity|].
  unfold em_validate_entry. rewrite He. cbn [bind]. exact IH.
Qed.

Lemma nonempty_tags_all_empty l : Forall (fun e => ee_is_empty e = true) l -> nonempty_tags l = [].
Proof.
  unfold nonempty_tags. induction 1 as [|e r He Hr IH]; cbn [filter map]; [reflexivity|].
  rewrite He. cbn [negb]. exact IH.
Qed.

Lemma es_zeroed_empty : Forall (fun e => ee_is_empty e = true) (es_entries es_zeroed).
Proof. unfold es_zeroed. cbn [es_entries]. apply Forall_forall. intros e He. apply repeat_spec in He. subst. reflexivity. Qed.

Lemma es_zeroed_sorted : es_sorted (es_entries es_zeroed).
Proof.
  unfold es_sorted, es_zeroed. cbn [es_entries].
  induction (Z.to_nat MAX_EMODE_ENTRIES) as [|n IH]; cbn [repeat map]; [constructor|].
  constructor; [exact IH|]. apply Forall_forall. intros t Ht. apply in_map_iff in Ht as (y & <- & Hy).
  apply repeat_spec in Hy. subst. cbn. lia.
Qed.

Lemma emode_valid_zeroed g c : emode_valid g c es_zeroed.
Proof.
  split; [|exact es_zeroed_sorted].
  unfold em_validate.
  destruct (u32_to_basis_total (cap_init g)) as [bi ->]. destruct (u32_to_basis_total (cap_maint g)) as [bm ->].
  cbn [bind]. rewrite em_validate_loop_all_empty by exact es_zeroed_empty. cbn [bind].
  unfold em_check_dupes. rewrite nonempty_tags_all_empty by exact es_zeroed_empty. reflexivity.
Qed.

(* ---------------------------------------------------------------- paths *)
Lemma add_bank_valid g cc b : ix_add_bank cc = Ok b -> Valid g b.
Proof.
  unfold ix_add_bank. intros H.
  apply bind_ok in H as (u1 & _ & H). apply bind_ok in H as (u2 & Hv & H). apply Ok_inj in H. subst b.
  split; [exact (res_unit_ok _ _ Hv) | apply emode_valid_zeroed].
Qed.

Lemma add_bank_permissionless_valid g s oc b : ix_add_bank_permissionless s oc = Ok b -> Valid g b.
Proof.
  unfold ix_add_bank_permissionless. intros H.
  apply bind_ok in H as (u1 & Hv & H). apply bind_ok in H as (u2 & _ & H). apply Ok_inj in H. subst b.
  split; [exact (res_unit_ok _ _ Hv) | apply emode_valid_zeroed].
Qed.

Lemma bank_configure_inv b o b' :
  bank_configure b o = Ok b' ->
  cfg_valid (cb_cfg b') /\ cb_emode b' = cb_emode b /\
  bc_op_state (cb_cfg b') = match o_op_state o with Some s => s | None => bc_op_state (cb_cfg b) end /\
  (forall s, o_op_state o = Some s -> s <> OP_KILLED /\ bc_op_state (cb_cfg b) <> OP_KILLED).
Proof.
  unfold bank_configure. intros H.
  apply bind_ok in H as (st & Hst & H).
  apply bind_ok in H as (f1 & _ & H). apply bind_ok in H as (f2 & _ & H). apply bind_ok in H as (f3 & _ & H).
  apply bind_ok in H as (u & Hv & H). apply Ok_inj in H. subst b'. cbn [cb_cfg cb_emode bc_op_state].
  split; [exact (res_unit_ok _ _ Hv)|]. split; [reflexivity|].
  destruct (o_op_state o) as [s|].
  - apply bind_ok in Hst as (u0 & Hc & Hst). apply check_inv in Hc.
    apply bind_ok in Hst as (u1 & Hk & Hst). apply check_inv in Hk. apply Ok_inj in Hst. subst st.
    split; [reflexivity|]. intros s' E. injection E as <-. split; lia.
  - apply Ok_inj in Hst. subst st. split; [reflexivity|]. intros s E; discriminate.
Qed.

Lemma bc_validate_limits c d bo l : bc_validate (cfg_with_limits c d bo l) = bc_validate c.
Proof. reflexivity. Qed.

Lemma configure_bank_valid g b o b' :
  ix_configure_bank g b o = Ok b' -> Valid g b -> Valid g b'.
Proof.
  unfold ix_configure_bank. intros H [Hc [He Hs]].
  destruct (cb_get_flag b FREEZE_SETTINGS).
  - apply Ok_inj in H. subst b'. unfold bank_configure_unfrozen. split; [|split].
    + unfold cfg_valid. cbn [cb_cfg]. rewrite bc_validate_limits. exact Hc.
    + cbn [cb_cfg cb_emode]. rewrite <- He. apply em_validate_ext; reflexivity.
    + exact Hs.
  - apply bind_ok in H as (b1 & H1 & H). apply bind_ok in H as (u & Hv & H). apply Ok_inj in H. subst b1.
    apply bank_configure_inv in H1 as (A & B & _). split; [exact A|]. split; [exact (res_unit_ok _ _ Hv)|].
    rewrite B. exact Hs.
Qed.

(* the "liability weights changed after e-mode was set" path: an unfrozen configure re-validates *)
Lemma configure_revalidates_emode g b o b' :
  ix_configure_bank g b o = Ok b' -> cb_get_flag b FREEZE_SETTINGS = false ->
  em_validate (cb_emode b') (cb_cfg b') (cap_init g) (cap_maint g) = Ok tt /\ cb_emode b' = cb_emode b.
Proof.
  unfold ix_configure_bank. intros H Hf. rewrite Hf in H.
  apply bind_ok in H as (b1 & H1 & H). apply bind_ok in H as (u & Hv & H). apply Ok_inj in H. subst b1.
  apply bank_configure_inv in H1 as (_ & B & _). split; [exact (res_unit_ok _ _ Hv) | exact B].
Qed.

Lemma bc_validate_with_ir c ir orig :
  cfg_valid c -> ir_validate ir = Ok tt -> cfg_valid (cfg_with_ir c ir orig).
Proof.
  unfold cfg_valid. intros Hc Hi. apply bc_validate_spec in Hc as [Hw _].
  apply bc_validate_spec. split; [exact Hw | exact Hi].
Qed.

Lemma interest_only_valid g b io b' :
  ix_configure_interest_only b io = Ok b' -> Valid g b -> Valid g b'.
Proof.
  unfold ix_configure_interest_only. intros H [Hc [He Hs]].
  destruct (cb_get_flag b FREEZE_SETTINGS).
  - apply Ok_inj in H. subst b'. repeat split; assumption.
  - apply bind_ok in H as (u & Hv & H). apply Ok_inj in H. subst b'. split; [|split].
    + cbn [cb_cfg]. apply bc_validate_with_ir; [exact Hc | exact (res_unit_ok _ _ Hv)].
    + cbn [cb_cfg cb_emode]. rewrite <- He. apply em_validate_ext; reflexivity.
    + exact Hs.
Qed.

Lemma limits_only_valid g b d bo l b' :
  ix_configure_limits_only b d bo l = Ok b' -> Valid g b -> Valid g b'.
Proof.
  unfold ix_configure_limits_only. intros H [Hc [He Hs]].
  destruct (cb_get_flag b FREEZE_SETTINGS); apply Ok_inj in H; subst b'; (split; [|split]);
    try (unfold cfg_valid; cbn [cb_cfg]; rewrite bc_validate_limits; exact Hc);
    try (cbn [cb_cfg cb_emode]; rewrite <- He; apply em_validate_ext; reflexivity);
    exact Hs.
Qed.

Lemma configure_emode_valid g now b tag es b' :
  ix_configure_emode g now b tag es = Ok b' -> cfg_valid (cb_cfg b) -> Valid g b'.
Proof.
  unfold ix_configure_emode. intros H Hc.
  apply bind_ok in H as (u & Hv & H). apply Ok_inj in H. subst b'. split; [exact Hc|]. split.
  - cbn [cb_cfg cb_emode]. rewrite <- (res_unit_ok _ _ Hv). apply em_validate_ext; reflexivity.
  - cbn [cb_emode update_emode_enabled es_entries]. apply ee_sort_sorted.
Qed.

Lemma propagate_valid g s oc b b' :
  ix_propagate_staked s oc b = Ok b' -> Valid g b -> Valid g b'.
Proof.
  unfold ix_propagate_staked. intros H [Hc [He Hs]].
  apply bind_ok in H as (u0 & _ & H).
  apply bind_ok in H as (u1 & _ & H). apply bind_ok in H as (u2 & Hv & H). apply Ok_inj in H. subst b'.
  split; [exact (res_unit_ok _ _ Hv)|]. split.
  - cbn [cb_cfg cb_emode]. rewrite <- He. apply em_validate_ext; reflexivity.
  - exact Hs.
Qed.

Lemma migrate_curve_inv b b' :
  ix_migrate_curve b = Ok b' ->
  cfg_valid (cb_cfg b') /\ cb_emode b' = cb_emode b /\ bc_op_state (cb_cfg b') = bc_op_state (cb_cfg b) /\
  bc_lwi (cb_cfg b') = bc_lwi (cb_cfg b) /\ bc_lwm (cb_cfg b') = bc_lwm (cb_cfg b).
Proof.
  unfold ix_migrate_curve. intros H. apply bind_ok in H as (u0 & Hv0 & H).
  destruct (ir_curve_type (bc_ir (cb_cfg b)) =? INTEREST_CURVE_SEVEN_POINT).
  - apply Ok_inj in H. subst b'. repeat split. exact (res_unit_ok _ _ Hv0).
  - apply bind_ok in H as (h & _ & H). apply bind_ok in H as (pu & _ & H). apply bind_ok in H as (pr & _ & H).
    apply bind_ok in H as (u1 & Hv & H). apply Ok_inj in H. subst b'. cbn [cb_cfg cb_emode].
    repeat split. exact (res_unit_ok _ _ Hv).
Qed.

Lemma migrate_curve_valid g b b' : ix_migrate_curve b = Ok b' -> Valid g b -> Valid g b'.
Proof.
  intros H [_ [He Hs]]. apply migrate_curve_inv in H as (A & B & _ & C & D).
  split; [exact A|]. split; [|rewrite B; exact Hs].
  rewrite <- He. apply em_validate_ext; [rewrite B; reflexivity | exact C | exact D].
Qed.

(* clone: the copied entries are validated against the destination; the stored entries of the source
   bank are sorted (true of every bank: they were written by configure_emode, by clone, or are zeroed) *)
Lemma clone_emode_valid g src dst dst' :
  ix_clone_emode g src dst = Ok dst' -> cfg_valid (cb_cfg dst) ->
  es_sorted (es_entries (cb_emode src)) -> Valid g dst'.
Proof.
  unfold ix_clone_emode. intros H Hc Hs. apply bind_ok in H as (u & Hv & H). apply Ok_inj in H. subst dst'.
  split; [exact Hc|]. split; [exact (res_unit_ok _ _ Hv) | exact Hs].
Qed.

(* side condition of a request: the source bank of a clone is itself in the invariant (for whatever caps
   were in force when its entries were written); every other request is unconditioned *)
Definition req_ok (r : cfg_req) : Prop :=
  match r with RCloneFrom src => exists g', Valid g' src | _ => True end.

Lemma paths_preserve_valid g b r b' :
  req_ok r -> apply_req g b r = Ok b' -> Valid g b -> Valid g b'.
Proof.
  destruct r as [o|io|d bo l|now tag es|src|s oc|]; cbn [req_ok apply_req]; intros Hn H Hv.
  - eapply configure_bank_valid; eassumption.
  - eapply interest_only_valid; eassumption.
  - eapply limits_only_valid; eassumption.
  - eapply configure_emode_valid; [eassumption | exact (proj1 Hv)].
  - destruct Hn as (g' & _ & _ & Hs). eapply clone_emode_valid; [eassumption | exact (proj1 Hv) | exact Hs].
  - eapply propagate_valid; eassumption.
  - eapply migrate_curve_valid; eassumption.
Qed.

Lemma sequences_preserve_valid g rs : forall b,
  Forall req_ok rs -> Valid g b -> Valid g (apply_reqs g b rs).
Proof.
  induction rs as [|r rest IH]; cbn [apply_reqs]; intros b Hn Hv; [exact Hv|].
  inversion Hn as [|? ? Hr Hrest]; subst. apply IH; [exact Hrest|].
  destruct (apply_req g b r) as [b1|e] eqn:E; [|exact Hv].
  eapply paths_preserve_valid; eassumption.
Qed.

(* ---------------------------------------------------------------- killed-state transitions *)
Definition op_of (b : cbank) : Z := bc_op_state (cb_cfg b).

Lemma no_request_kills g b r b' :
  apply_req g b r = Ok b' -> op_of b <> OP_KILLED -> op_of b' <> OP_KILLED.
Proof.
  unfold op_of. destruct r as [o|io|d bo l|now tag es|src|s oc|]; cbn [apply_req]; intros H Hk.
  - unfold ix_configure_bank in H. destruct (cb_get_flag b FREEZE_SETTINGS).
    + apply Ok_inj in H. subst b'. exact Hk.
    + apply bind_ok in H as (b1 & H1 & H). apply bind_ok in H as (u & _ & H). apply Ok_inj in H. subst b1.
      apply bank_configure_inv in H1 as (_ & _ & E & Hne). rewrite E.
      destruct (o_op_state o) as [s|]; [apply (Hne s); reflexivity | exact Hk].
  - unfold ix_configure_interest_only in H. destruct (cb_get_flag b FREEZE_SETTINGS).
    + apply Ok_inj in H. subst b'. exact Hk.
    + apply bind_ok in H as (u & _ & H). apply Ok_inj in H. subst b'. exact Hk.
  - unfold ix_configure_limits_only in H. destruct (cb_get_flag b FREEZE_SETTINGS); apply Ok_inj in H; subst b'; exact Hk.
  - unfold ix_configure_emode in H. apply bind_ok in H as (u & _ & H). apply Ok_inj in H. subst b'. exact Hk.
  - unfold ix_clone_emode in H. apply bind_ok in H as (u & _ & H). apply Ok_inj in H. subst b'. exact Hk.
  - unfold ix_propagate_staked in H. apply bind_ok in H as (u0 & _ & H).
    apply bind_ok in H as (u1 & _ & H). apply bind_ok in H as (u2 & _ & H).
    apply Ok_inj in H. subst b'. exact Hk.
  - apply migrate_curve_inv in H as (_ & _ & E & _). rewrite E. exact Hk.
Qed.

(* no request takes a bank out of the killed state *)
Lemma killed_forever g b r b' :
  apply_req g b r = Ok b' -> op_of b = OP_KILLED -> op_of b' = OP_KILLED.
Proof.
  unfold op_of. destruct r as [o|io|d bo l|now tag es|src|s oc|]; cbn [apply_req]; intros H Hk.
  - unfold ix_configure_bank in H. destruct (cb_get_flag b FREEZE_SETTINGS) eqn:Ef.
    + apply Ok_inj in H. subst b'. exact Hk.
    + apply bind_ok in H as (b1 & H1 & H). apply bind_ok in H as (u & _ & H). apply Ok_inj in H. subst b1.
      apply bank_configure_inv in H1 as (_ & _ & E & Hne). rewrite E.
      destruct (o_op_state o) as [s|]; [|exact Hk]. exfalso. destruct (Hne s eq_refl) as [_ Hc]. exact (Hc Hk).
  - unfold ix_configure_interest_only in H. destruct (cb_get_flag b FREEZE_SETTINGS).
    + apply Ok_inj in H. subst b'. exact Hk.
    + apply bind_ok in H as (u & _ & H). apply Ok_inj in H. subst b'. exact Hk.
  - unfold ix_configure_limits_only in H. destruct (cb_get_flag b FREEZE_SETTINGS); apply Ok_inj in H; subst b'; exact Hk.
  - unfold ix_configure_emode in H. apply bind_ok in H as (u & _ & H). apply Ok_inj in H. subst b'. exact Hk.
  - unfold ix_clone_emode in H. apply bind_ok in H as (u & _ & H). apply Ok_inj in H. subst b'. exact Hk.
  - unfold ix_propagate_staked in H. apply bind_ok in H as (u0 & _ & H).
    apply bind_ok in H as (u1 & _ & H). apply bind_ok in H as (u2 & _ & H).
    apply Ok_inj in H. subst b'. exact Hk.
  - apply migrate_curve_inv in H as (_ & _ & E & _). rewrite E. exact Hk.
Qed.

Lemma killed_forever_seq g rs : forall b, op_of b = OP_KILLED -> op_of (apply_reqs g b rs) = OP_KILLED.
Proof.
  induction rs as [|r rest IH]; cbn [apply_reqs]; intros b Hk; [exact Hk|].
  apply IH. destruct (apply_req g b r) as [b1|e] eqn:E; [|exact Hk].
  eapply killed_forever; eassumption.
Qed.

(* ---------------------------------------------------------------- regression witnesses of the two repaired findings *)
Definition w_ir : ir_config := mkIR 0 0 0 0 0 0 0 0 4294967295 [mkRP 0 0; mkRP 0 0; mkRP 0 0; mkRP 0 0; mkRP 0 0] 1.
Definition w_cfg (lwi lwm op : Z) : bank_cfg :=
  mkBC (ONE / 2) (ONE / 2 + ONE / 10) lwi lwm U64_MAX U64_MAX w_ir 0 op 0 0 0 60 0 0.
Definition w_caps : caps := mkCaps 644245094 858993458.      (* basis_to_u32 of 15 and 20 *)
Definition w_revive_opt : cfg_opt :=
  mkCO None None None None None None (Some OP_OPERATIONAL) None None None None None None None None None.

(* former F3: a killed bank and the request that used to revive it *)
Definition w_killed : cbank := mkCBank (w_cfg ONE ONE OP_KILLED) CLOSE_ENABLED_FLAG es_zeroed.

(* former F4: entries valid for the source (liability weights 2.0), destination with liability weights 1.0 *)
Definition w_entries : list emode_entry :=
  ee_sort (mkEE 7 0 (ONE + ONE / 2) (ONE + ONE / 2 + ONE / 10) :: repeat ee_zero 9).
Definition w_src : cbank := mkCBank (w_cfg (2 * ONE) (2 * ONE) OP_OPERATIONAL) CLOSE_ENABLED_FLAG (mkES 5 0 1 w_entries).
Definition w_dst : cbank := mkCBank (w_cfg ONE ONE OP_OPERATIONAL) CLOSE_ENABLED_FLAG es_zeroed.

Lemma w_entries_sorted : es_sorted w_entries.
Proof. apply ee_sort_sorted. Qed.

Lemma w_src_valid : Valid w_caps w_src.
Proof. split; [vm_compute; reflexivity|]. split; [vm_compute; reflexivity | exact w_entries_sorted]. Qed.

Lemma w_killed_valid : Valid w_caps w_killed.
Proof. split; [vm_compute; reflexivity | apply emode_valid_zeroed]. Qed.
