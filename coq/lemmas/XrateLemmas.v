(* XrateLemmas.v — C20: proofs about the integration exchange-rate math (model/Xrate.v). *)
Require Import Base Constants XrateConsts Fixed Xrate FixedLemmas.
From Coq Require Import ZifyBool.
Local Open Scope Z_scope.

(* ------------------------------------------------------------------------------------------ *)
(* plumbing                                                                                    *)

Lemma xbind_inv {A B} (r : res A) (f : A -> res B) v :
  bind r f = Ok v -> exists a, r = Ok a /\ f a = Ok v.
Proof. destruct r; cbn [bind]; intros H; [eauto | discriminate]. Qed.

Lemma ok_or_inv {A} (r : res A) e v : ok_or r e = Ok v -> r = Ok v.
Proof. destruct r as [a|[| |c]]; cbn [ok_or]; intros H; try discriminate; assumption. Qed.

Lemma ok_or_ok {A} (a : A) e : ok_or (Ok a) e = Ok a.
Proof. reflexivity. Qed.

Lemma U128_MAX_val : U128_MAX = 340282366920938463463374607431768211455. Proof. reflexivity. Qed.
Lemma I64_MAX_val : I64_MAX = 9223372036854775807. Proof. reflexivity. Qed.
Lemma I64_MIN_val : I64_MIN = -9223372036854775808. Proof. reflexivity. Qed.

Ltac xconsts := rewrite ?ONE_val, ?U64_MAX_val, ?U128_MAX_val, ?I128_MAX_val, ?I128_MIN_val, ?I64_MAX_val, ?I64_MIN_val in *.

Lemma in_u64_iff z : in_u64 z = true <-> 0 <= z <= U64_MAX.
Proof. unfold in_u64, in_range. lia. Qed.
Lemma in_u128_iff z : in_u128 z = true <-> 0 <= z <= U128_MAX.
Proof. unfold in_u128, in_range. lia. Qed.
Lemma in_i64_iff z : in_i64 z = true <-> I64_MIN <= z <= I64_MAX.
Proof. unfold in_i64, in_range. lia. Qed.
Lemma in_u32_iff z : in_u32 z = true <-> 0 <= z <= U32_MAXZ.
Proof. unfold in_u32, in_range. lia. Qed.
Lemma in_u8_iff z : in_u8 z = true <-> 0 <= z <= 255.
Proof. unfold in_u8, in_range. change U8_MAX with 255. lia. Qed.

Lemma chko_eq inr z : chko inr z = if inr z then Ok z else Err ENone.
Proof. reflexivity. Qed.

(* floor-division facts *)
Lemma div_mul_floor a b : 0 < b -> a / b * b <= a.
Proof. intros Hb. rewrite Z.mul_comm. apply Z.mul_div_le; assumption. Qed.

Lemma div_mul_floor_lt a b : 0 < b -> a < (a / b + 1) * b.
Proof.
  intros Hb. pose proof (Z.div_mod a b ltac:(lia)). pose proof (Z.mod_pos_bound a b Hb). nia.
Qed.

Lemma nested_floor a b : 0 < b -> a * ONE / b / ONE = a / b.
Proof.
  intros Hb. pose proof ONE_pos.
  rewrite Z.div_div by lia. apply Z.div_mul_cancel_r; lia.
Qed.

Lemma mul_raw_of_int n r : mul_raw (of_int n) r = n * r.
Proof.
  unfold mul_raw, of_int. replace (n * ONE * r) with (n * r * ONE) by ring.
  apply Z.div_mul. pose proof ONE_pos; lia.
Qed.

Lemma cmul_of_int n r : cmul (of_int n) r = chko in_i128 (n * r).
Proof. unfold cmul. rewrite mul_raw_of_int. reflexivity. Qed.

(* ------------------------------------------------------------------------------------------ *)
(* adjust_i128 / adjust_i64 / adjust_u64: closed forms (fail-closed characterisation)          *)

Lemma adjust_u64_spec raw r :
  adjust_u64 raw r = if in_u64 (raw * r / ONE) then Ok (raw * r / ONE) else Err ENone.
Proof.
  unfold adjust_u64. rewrite cmul_of_int, chko_eq.
  destruct (in_i128 (raw * r)) eqn:E; cbn [bind].
  - unfold to_u64_checked, to_int. apply chko_eq.
  - destruct (in_u64 (raw * r / ONE)) eqn:F; [|reflexivity]. exfalso.
    apply in_u64_iff in F. apply in_i128_false in E.
    pose proof (div_mul_floor (raw * r) ONE ONE_pos).
    pose proof (div_mul_floor_lt (raw * r) ONE ONE_pos). xconsts. lia.
Qed.

Lemma adjust_i64_spec raw r :
  adjust_i64 raw r = if in_i64 (raw * r / ONE) then Ok (raw * r / ONE) else Err ENone.
Proof.
  unfold adjust_i64. rewrite cmul_of_int, chko_eq.
  destruct (in_i128 (raw * r)) eqn:E; cbn [bind].
  - unfold to_i64_checked, to_int. apply chko_eq.
  - destruct (in_i64 (raw * r / ONE)) eqn:F; [|reflexivity]. exfalso.
    apply in_i64_iff in F. apply in_i128_false in E.
    pose proof (div_mul_floor (raw * r) ONE ONE_pos).
    pose proof (div_mul_floor_lt (raw * r) ONE ONE_pos). xconsts. lia.
Qed.

Lemma shifted_bounds : SHIFTED_MIN_I128 = - 2^79 /\ SHIFTED_MAX_I128 = 2^79 - 1.
Proof. split; reflexivity. Qed.

Lemma i80_from_i128_checked_spec x :
  i80_from_i128_checked x = if in_range (- 2^79) (2^79 - 1) x then Ok (x * ONE) else Err ENone.
Proof.
  unfold i80_from_i128_checked. destruct shifted_bounds as [-> ->].
  rewrite Z.shiftl_mul_pow2 by lia. reflexivity.
Qed.

Lemma adjust_i128_spec raw r :
  adjust_i128 raw r =
    if in_range (- 2^79) (2^79 - 1) raw && in_i128 (raw * r) then Ok (raw * r / ONE) else Err ENone.
Proof.
  unfold adjust_i128. rewrite i80_from_i128_checked_spec.
  destruct (in_range (- 2 ^ 79) (2 ^ 79 - 1) raw); cbn [bind andb]; [|reflexivity].
  fold (of_int raw). rewrite cmul_of_int, chko_eq.
  destruct (in_i128 (raw * r)) eqn:E; cbn [bind]; [|reflexivity].
  unfold to_i128_checked, to_int. apply chko_ok. apply in_i128_iff. apply in_i128_iff in E.
  pose proof (div_mul_floor (raw * r) ONE ONE_pos).
  pose proof (div_mul_floor_lt (raw * r) ONE ONE_pos). xconsts. lia.
Qed.

Definition adjusters : list (Z -> fx -> res Z) := [adjust_i128; adjust_i64; adjust_u64].

Lemma adjust_exact adj raw r v : In adj adjusters -> adj raw r = Ok v -> v = raw * r / ONE.
Proof.
  intros [<-|[<-|[<-|[]]]].
  - rewrite adjust_i128_spec. destruct (_ && _); intros H; [apply Ok_inj in H; auto | discriminate].
  - rewrite adjust_i64_spec. destruct (in_i64 _); intros H; [apply Ok_inj in H; auto | discriminate].
  - rewrite adjust_u64_spec. destruct (in_u64 _); intros H; [apply Ok_inj in H; auto | discriminate].
Qed.

Lemma adjust_le adj raw r v : In adj adjusters -> adj raw r = Ok v -> v * ONE <= raw * r.
Proof.
  intros Hin H. rewrite (adjust_exact adj raw r v Hin H). apply div_mul_floor, ONE_pos.
Qed.

Lemma adjust_mono adj : In adj adjusters ->
  (forall raw1 raw2 r v1 v2, raw1 <= raw2 -> 0 <= r -> adj raw1 r = Ok v1 -> adj raw2 r = Ok v2 -> v1 <= v2) /\
  (forall raw r1 r2 v1 v2, 0 <= raw -> r1 <= r2 -> adj raw r1 = Ok v1 -> adj raw r2 = Ok v2 -> v1 <= v2).
Proof.
  intros Hin. pose proof ONE_pos. split.
  - intros raw1 raw2 r v1 v2 Hr Hr0 H1 H2.
    rewrite (adjust_exact _ _ _ _ Hin H1), (adjust_exact _ _ _ _ Hin H2).
    apply Z.div_le_mono; [lia|]. apply Z.mul_le_mono_nonneg_r; lia.
  - intros raw r1 r2 v1 v2 Hr0 Hr H1 H2.
    rewrite (adjust_exact _ _ _ _ Hin H1), (adjust_exact _ _ _ _ Hin H2).
    apply Z.div_le_mono; [lia|]. apply Z.mul_le_mono_nonneg_l; lia.
Qed.
(* ------------------------------------------------------------------------------------------ *)
(* collateral <-> liquidity conversions on scaled supplies                                     *)

(* exact result of  to_num(checked_div(checked_mul(a, num), den)) : truncating division of the
   I80F48 bit patterns, then floor to an integer *)
Definition conv_exact (a num den : Z) : Z := Z.quot (a * num * ONE) den / ONE.

Lemma l2c_is_c2l liq tl tc :
  liquidity_to_collateral_from_scaled liq tl tc = collateral_to_liquidity_from_scaled liq tc tl.
Proof. reflexivity. Qed.

Lemma c2l_spec col tl tc :
  collateral_to_liquidity_from_scaled col tl tc =
    if tc =? 0 then Err ENone else
    if in_i128 (col * tl) && in_i128 (Z.quot (col * tl * ONE) tc) && in_u64 (conv_exact col tl tc)
    then Ok (conv_exact col tl tc) else Err ENone.
Proof.
  unfold collateral_to_liquidity_from_scaled. destruct (tc =? 0) eqn:Etc; [reflexivity|].
  rewrite cmul_of_int, chko_eq. destruct (in_i128 (col * tl)); cbn [bind andb]; [|reflexivity].
  unfold cdiv. rewrite Etc, chko_eq. unfold div_raw.
  destruct (in_i128 (Z.quot (col * tl * ONE) tc)); cbn [bind andb]; [|reflexivity].
  unfold to_u64_checked, to_int, conv_exact. apply chko_eq.
Qed.

Lemma c2l_inv col tl tc v :
  collateral_to_liquidity_from_scaled col tl tc = Ok v ->
  tc <> 0 /\ v = conv_exact col tl tc /\ 0 <= v <= U64_MAX /\
  I128_MIN <= col * tl <= I128_MAX /\ I128_MIN <= Z.quot (col * tl * ONE) tc <= I128_MAX.
Proof.
  rewrite c2l_spec. destruct (tc =? 0) eqn:Etc; [discriminate|].
  destruct (in_i128 (col * tl)) eqn:E1; cbn [andb]; [|discriminate].
  destruct (in_i128 (Z.quot (col * tl * ONE) tc)) eqn:E2; cbn [andb]; [|discriminate].
  destruct (in_u64 (conv_exact col tl tc)) eqn:E3; [|discriminate].
  intros H; apply Ok_inj in H. subst v.
  apply in_i128_iff in E1. apply in_i128_iff in E2. apply in_u64_iff in E3.
  repeat split; try lia.
Qed.

Lemma conv_exact_pos a num den : 0 <= a -> 0 <= num -> 0 < den -> conv_exact a num den = a * num / den.
Proof.
  intros Ha Hn Hd. unfold conv_exact. pose proof ONE_pos.
  rewrite Z.quot_div_nonneg; [| apply Z.mul_nonneg_nonneg; [apply Z.mul_nonneg_nonneg|]; lia | lia].
  apply nested_floor; assumption.
Qed.

Lemma conv_exact_opp a num den : den <> 0 -> conv_exact a (- num) (- den) = conv_exact a num den.
Proof.
  intros Hd. unfold conv_exact. replace (a * - num * ONE) with (- (a * num * ONE)) by ring.
  rewrite Z.quot_opp_opp by assumption. reflexivity.
Qed.

Lemma quot_pos_sign x y : 0 < Z.quot x y -> (0 < x /\ 0 < y) \/ (x < 0 /\ y < 0).
Proof.
  intros H.
  destruct (Z.eq_dec y 0) as [->|Hy]; [destruct x; cbn in H; lia|].
  destruct (Z.eq_dec x 0) as [->|Hx]; [rewrite Z.quot_0_l in H by assumption; lia|].
  destruct (Z_lt_le_dec 0 x), (Z_lt_le_dec 0 y); try lia.
  - (* x > 0, y < 0 *)
    replace y with (- - y) in H by ring. rewrite Z.quot_opp_r in H by lia.
    pose proof (Z.quot_pos x (- y) ltac:(lia) ltac:(lia)). lia.
  - (* x < 0, y > 0 *)
    replace x with (- - x) in H by ring. rewrite Z.quot_opp_l in H by lia.
    pose proof (Z.quot_pos (- x) y ltac:(lia) ltac:(lia)). lia.
Qed.

Lemma rt_pos a num den : 0 <= a -> 0 < num -> 0 < den ->
  conv_exact (conv_exact a num den) den num <= a.
Proof.
  intros Ha Hn Hd. rewrite (conv_exact_pos a num den) by lia.
  assert (Hb : 0 <= a * num / den) by (apply Z.div_pos; [apply Z.mul_nonneg_nonneg|]; lia).
  rewrite conv_exact_pos by lia.
  apply Z.div_le_upper_bound; [lia|].
  pose proof (div_mul_floor (a * num) den Hd). lia.
Qed.

Lemma rt_math a num den : 0 <= a -> num <> 0 -> den <> 0 -> 0 <= conv_exact a num den ->
  conv_exact (conv_exact a num den) den num <= a.
Proof.
  intros Ha Hn Hd Hb. pose proof ONE_pos as H1.
  destruct (Z.eq_dec (conv_exact a num den) 0) as [E|E].
  - rewrite E. unfold conv_exact. replace (0 * den * ONE) with 0 by ring. rewrite Z.quot_0_l by assumption.
    rewrite Z.div_0_l by lia. assumption.
  - assert (Hq : 0 < Z.quot (a * num * ONE) den).
    { unfold conv_exact in Hb, E.
      destruct (Z_lt_le_dec 0 (Z.quot (a * num * ONE) den)) as [|Hle]; [assumption|exfalso].
      assert (Z.quot (a * num * ONE) den / ONE <= 0) by (apply Z.div_le_upper_bound; lia). lia. }
    apply quot_pos_sign in Hq as [[Hx Hy]|[Hx Hy]].
    + assert (0 < num) by nia. apply rt_pos; lia.
    + assert (num < 0) by nia.
      rewrite <- (conv_exact_opp a num den) by assumption.
      rewrite <- (conv_exact_opp (conv_exact a (- num) (- den)) den num) by assumption.
      apply rt_pos; lia.
Qed.

Lemma c2l_roundtrip a x y b a' :
  0 <= a ->
  collateral_to_liquidity_from_scaled a x y = Ok b ->
  collateral_to_liquidity_from_scaled b y x = Ok a' -> a' <= a.
Proof.
  intros Ha H1 H2.
  apply c2l_inv in H1 as (Hy & -> & Hb & _). apply c2l_inv in H2 as (Hx & -> & _).
  apply rt_math; lia.
Qed.

Lemma c2l_never_overstates a num den v :
  0 <= a -> 0 <= num -> 0 < den ->
  collateral_to_liquidity_from_scaled a num den = Ok v -> v = a * num / den /\ v * den <= a * num.
Proof.
  intros Ha Hn Hd H. apply c2l_inv in H as (_ & -> & _).
  rewrite conv_exact_pos by assumption. split; [reflexivity|]. apply div_mul_floor; assumption.
Qed.

Lemma lor_shiftl_add a b : 0 <= b < 2^48 -> Z.lor (Z.shiftl a 48) b = a * 2^48 + b.
Proof.
  intros Hb. rewrite <- Z.shiftl_mul_pow2 by lia.
  assert (L : Z.land (Z.shiftl a 48) b = 0).
  { apply Z.bits_inj'. intros n Hn. rewrite Z.land_spec, Z.bits_0.
    destruct (Z_lt_le_dec n 48).
    - rewrite Z.shiftl_spec_low by lia. reflexivity.
    - destruct (Z.eq_dec b 0) as [->|]; [rewrite Z.bits_0; apply andb_false_r|].
      rewrite (Z.bits_above_log2 b n); [apply andb_false_r | lia |].
      apply Z.log2_lt_pow2; [lia|]. 
      assert (2^48 <= 2^n) by (apply Z.pow_le_mono_r; lia). lia. }
  rewrite <- Z.lxor_lor by assumption. symmetry. apply Z.add_nocarry_lxor. assumption.
Qed.

(* ------------------------------------------------------------------------------------------ *)
(* power-of-ten tables                                                                         *)

Lemma exp10_table k : (k < 24)%nat -> nth_error EXP_10_I80F48 k = Some (10 ^ Z.of_nat k * ONE).
Proof. intros H. do 24 (destruct k as [|k]; [reflexivity|]). lia. Qed.

Lemma exp10_len : length EXP_10_I80F48 = 24%nat. Proof. reflexivity. Qed.

Lemma exp10_get_inv d s : exp10_fx_get d = Ok s -> 0 <= d <= 23 /\ s = 10 ^ d * ONE.
Proof.
  unfold exp10_fx_get. destruct (d <? 0) eqn:E; [discriminate|].
  destruct (nth_error EXP_10_I80F48 (Z.to_nat d)) as [f|] eqn:N; [|discriminate].
  intros H; apply Ok_inj in H; subst f.
  assert (Hk : (Z.to_nat d < 24)%nat).
  { rewrite <- exp10_len. apply nth_error_Some. rewrite N. discriminate. }
  rewrite exp10_table in N by assumption. injection N as <-.
  rewrite Z2Nat.id by lia. split; [lia | reflexivity].
Qed.

Lemma exp10_get_ok d : 0 <= d <= 23 -> exp10_fx_get d = Ok (10 ^ d * ONE).
Proof.
  intros H. unfold exp10_fx_get. replace (d <? 0) with false by lia.
  rewrite exp10_table by lia. rewrite Z2Nat.id by lia. reflexivity.
Qed.

Lemma exp10_get_none d : ~ (0 <= d <= 23) -> exp10_fx_get d = Err ENone.
Proof.
  intros H. destruct (exp10_fx_get d) as [s|e] eqn:E.
  - apply exp10_get_inv in E. lia.
  - revert E. unfold exp10_fx_get. destruct (d <? 0); [intros E; injection E as <-; reflexivity|].
    destruct (nth_error _ _); intros E; [discriminate | injection E as <-; reflexivity].
Qed.

Lemma pow10_pos d : 0 <= d -> 0 < 10 ^ d.
Proof. intros; apply Z.pow_pos_nonneg; lia. Qed.

(* scale_supplies: both raw supplies divided by 10^decimals, truncating *)
Lemma scale_supplies_inv L C d tl tc :
  scale_supplies L C d = Ok (tl, tc) ->
  0 <= d <= 23 /\ tl = Z.quot L (10 ^ d) /\ tc = Z.quot (C * ONE) (10 ^ d) /\
  I128_MIN <= tl <= I128_MAX /\ I128_MIN <= tc <= I128_MAX.
Proof.
  unfold scale_supplies. intros H.
  apply xbind_inv in H as (s & Hs & H). apply exp10_get_inv in Hs as (Hd & ->).
  apply xbind_inv in H as (a & Ha & H). apply xbind_inv in H as (b & Hb & H).
  apply Ok_inj in H. injection H as <- <-.
  pose proof (pow10_pos d ltac:(lia)). pose proof ONE_pos.
  unfold cdiv in Ha, Hb. replace (10 ^ d * ONE =? 0) with false in * by lia.
  apply chko_inv in Ha as (-> & Ha). apply chko_inv in Hb as (-> & Hb).
  apply in_i128_iff in Ha. apply in_i128_iff in Hb.
  unfold div_raw in *. unfold of_int in *.
  rewrite (Z.quot_mul_cancel_r L) in * by lia. rewrite (Z.quot_mul_cancel_r (C * ONE)) in * by lia.
  repeat split; try lia.
Qed.

Lemma scale_supplies_spec L C d :
  scale_supplies L C d =
    if (0 <=? d) && (d <=? 23) then
      if in_i128 (Z.quot L (10 ^ d)) && in_i128 (Z.quot (C * ONE) (10 ^ d))
      then Ok (Z.quot L (10 ^ d), Z.quot (C * ONE) (10 ^ d)) else Err ENone
    else Err ENone.
Proof.
  unfold scale_supplies.
  destruct ((0 <=? d) && (d <=? 23)) eqn:Ed.
  - rewrite exp10_get_ok by lia. cbn [bind].
    pose proof (pow10_pos d ltac:(lia)). pose proof ONE_pos.
    unfold cdiv. replace (10 ^ d * ONE =? 0) with false by lia.
    unfold div_raw, of_int. rewrite !Z.quot_mul_cancel_r by lia. rewrite !chko_eq.
    destruct (in_i128 (Z.quot L (10 ^ d))); cbn [bind andb]; [|reflexivity].
    destruct (in_i128 (Z.quot (C * ONE) (10 ^ d))); reflexivity.
  - rewrite exp10_get_none by lia. reflexivity.
Qed.

(* ------------------------------------------------------------------------------------------ *)
(* Kamino / Solend total supply: the `+`/`-` operators never abort, nothing wraps              *)

Lemma kr_ok_iff r : kr_ok r = true <->
  (0 <= kr_slot r <= U64_MAX) /\ (0 <= kr_available r <= U64_MAX) /\ (0 <= kr_borrowed_sf r <= U128_MAX) /\
  (0 <= kr_prot_fees_sf r <= U128_MAX) /\ (0 <= kr_ref_fees_sf r <= U128_MAX) /\
  (0 <= kr_pend_fees_sf r <= U128_MAX) /\ (0 <= kr_decimals r <= U64_MAX) /\ (0 <= kr_col_supply r <= U64_MAX).
Proof.
  unfold kr_ok. rewrite !andb_true_iff, !in_u64_iff, !in_u128_iff. tauto.
Qed.

Lemma sr_ok_iff r : sr_ok r = true <->
  (0 <= sr_slot r <= U64_MAX) /\ (0 <= sr_decimals r <= 255) /\ (0 <= sr_available r <= U64_MAX) /\
  (0 <= sr_borrowed_wads r <= U128_MAX) /\ (0 <= sr_fees_wads r <= U128_MAX) /\ (0 <= sr_col_supply r <= U64_MAX).
Proof.
  unfold sr_ok. rewrite !andb_true_iff, !in_u64_iff, !in_u128_iff, in_u8_iff. tauto.
Qed.

Lemma dm_ok_iff m : dm_ok m = true <->
  (0 <= dm_cum_interest m <= U128_MAX) /\ (0 <= dm_last_ts m <= U64_MAX) /\ (0 <= dm_decimals m <= U32_MAXZ).
Proof.
  unfold dm_ok. rewrite !andb_true_iff, in_u64_iff, in_u128_iff, in_u32_iff. tauto.
Qed.

Lemma u68f60_exact b : 0 <= b <= U128_MAX -> u68f60_to_i80f48 b = b / 2^12 /\ 0 <= b / 2^12 < 2^116.
Proof.
  intros H. unfold u68f60_to_i80f48. change KAMINO_FRAC_BITS_DIFF with 12.
  rewrite Z.shiftr_div_pow2 by lia.
  assert (B : 0 <= b / 2^12 < 2^116).
  { split; [apply Z.div_pos; lia | apply Z.div_lt_upper_bound; [lia|]]. xconsts. lia. }
  split; [|assumption]. apply wrap128_id. xconsts. lia.
Qed.

Definition k_total_exact (r : kreserve) : Z :=
  kr_available r * ONE + kr_borrowed_sf r / 2^12 - kr_prot_fees_sf r / 2^12
  - kr_ref_fees_sf r / 2^12 - kr_pend_fees_sf r / 2^12.

Lemma k_total_supply_ok r : kr_ok r = true ->
  k_total_supply r = Ok (k_total_exact r) /\ - 2^118 < k_total_exact r < 2^117.
Proof.
  intros H. apply kr_ok_iff in H as (_ & Ha & Hb & Hp & Hr & Hq & _ & _).
  destruct (u68f60_exact _ Hb) as [Eb Bb]. destruct (u68f60_exact _ Hp) as [Ep Bp].
  destruct (u68f60_exact _ Hr) as [Er Br]. destruct (u68f60_exact _ Hq) as [Eq Bq].
  unfold k_total_supply, k_total_exact. rewrite Eb, Ep, Er, Eq. unfold of_int.
  assert (0 <= kr_available r * ONE < 2^112) by (xconsts; lia).
  rewrite uadd_ok by (xconsts; lia). cbn [bind].
  rewrite usub_ok by (xconsts; lia). cbn [bind].
  rewrite usub_ok by (xconsts; lia). cbn [bind].
  rewrite usub_ok by (xconsts; lia). split; [reflexivity | lia].
Qed.

(* WAD-scaled decimal -> I80F48: integer part and floor of the fraction *)
Definition wads_fx (raw : Z) : Z := raw / SOLEND_WAD * ONE + raw mod SOLEND_WAD * ONE / SOLEND_WAD.

Lemma decimal_to_i80f48_ok raw : 0 <= raw <= U128_MAX ->
  decimal_to_i80f48 raw = Ok (wads_fx raw) /\ 0 <= wads_fx raw < 2^117 /\
  wads_fx raw * SOLEND_WAD <= raw * ONE.
Proof.
  intros H. unfold decimal_to_i80f48, wads_fx. change SOLEND_WAD with 1000000000000000000.
  assert (Hi : 0 <= raw / 1000000000000000000 < 2^69).
  { split; [apply Z.div_pos; lia | apply Z.div_lt_upper_bound; [lia|]]. xconsts. lia. }
  pose proof (Z.mod_pos_bound raw 1000000000000000000 ltac:(lia)) as Hm.
  assert (Hf : 0 <= raw mod 1000000000000000000 * 2^48 / 1000000000000000000 < 2^48).
  { split; [apply Z.div_pos; lia | apply Z.div_lt_upper_bound; lia]. }
  replace (raw / 1000000000000000000 >? 2 ^ 79 - 1) with false by lia.
  rewrite lor_shiftl_add by assumption. change ONE with (2^48).
  split; [reflexivity|]. split; [lia|].
  pose proof (Z.div_mod raw 1000000000000000000 ltac:(lia)).
  pose proof (div_mul_floor (raw mod 1000000000000000000 * 2^48) 1000000000000000000 ltac:(lia)).
  lia.
Qed.

Definition s_total_exact (r : sreserve) : Z :=
  sr_available r * ONE + wads_fx (sr_borrowed_wads r) - wads_fx (sr_fees_wads r).

Lemma s_total_liquidity_ok r : sr_ok r = true ->
  s_total_liquidity r = Ok (s_total_exact r) /\ - 2^117 < s_total_exact r < 2^118.
Proof.
  intros H. apply sr_ok_iff in H as (_ & _ & Ha & Hb & Hf & _).
  destruct (decimal_to_i80f48_ok _ Hb) as (Eb & Bb & _). destruct (decimal_to_i80f48_ok _ Hf) as (Ef & Bf & _).
  unfold s_total_liquidity, s_total_exact. rewrite Eb, Ef. cbn [bind]. unfold of_int.
  assert (0 <= sr_available r * ONE < 2^112) by (xconsts; lia).
  rewrite uadd_ok by (xconsts; lia). cbn [bind].
  rewrite usub_ok by (xconsts; lia). split; [reflexivity | lia].
Qed.

(* ------------------------------------------------------------------------------------------ *)
(* venue-level conversions: round trips never gain                                             *)

Lemma k_c2l_inv r a v : k_collateral_to_liquidity r a = Ok v ->
  exists tl tc, k_scaled_supplies r = Ok (tl, tc) /\ collateral_to_liquidity_from_scaled a tl tc = Ok v.
Proof.
  unfold k_collateral_to_liquidity. intros H. apply xbind_inv in H as ([tl tc] & Hs & H).
  apply ok_or_inv in H. eauto.
Qed.
Lemma k_l2c_inv r a v : k_liquidity_to_collateral r a = Ok v ->
  exists tl tc, k_scaled_supplies r = Ok (tl, tc) /\ collateral_to_liquidity_from_scaled a tc tl = Ok v.
Proof.
  unfold k_liquidity_to_collateral. intros H. apply xbind_inv in H as ([tl tc] & Hs & H).
  apply ok_or_inv in H. rewrite l2c_is_c2l in H. eauto.
Qed.
Lemma s_c2l_inv r a v : s_collateral_to_liquidity r a = Ok v ->
  exists tl tc, s_scaled_supplies r = Ok (tl, tc) /\ collateral_to_liquidity_from_scaled a tl tc = Ok v.
Proof.
  unfold s_collateral_to_liquidity. intros H. apply xbind_inv in H as ([tl tc] & Hs & H).
  apply ok_or_inv in H. eauto.
Qed.
Lemma s_l2c_inv r a v : s_liquidity_to_collateral r a = Ok v ->
  exists tl tc, s_scaled_supplies r = Ok (tl, tc) /\ collateral_to_liquidity_from_scaled a tc tl = Ok v.
Proof.
  unfold s_liquidity_to_collateral. intros H. apply xbind_inv in H as ([tl tc] & Hs & H).
  apply ok_or_inv in H. rewrite l2c_is_c2l in H. eauto.
Qed.

Lemma pair_inj {A B} (a a' : A) (b b' : B) : Ok (a, b) = Ok (a', b') -> a = a' /\ b = b'.
Proof. intros H; apply Ok_inj in H; injection H; auto. Qed.

Lemma roundtrip_scaled tl tc :
  (forall liq col liq', 0 <= liq ->
     liquidity_to_collateral_from_scaled liq tl tc = Ok col ->
     collateral_to_liquidity_from_scaled col tl tc = Ok liq' -> liq' <= liq) /\
  (forall col liq col', 0 <= col ->
     collateral_to_liquidity_from_scaled col tl tc = Ok liq ->
     liquidity_to_collateral_from_scaled liq tl tc = Ok col' -> col' <= col).
Proof.
  split; intros a b a' Ha H1 H2; rewrite l2c_is_c2l in *; eapply c2l_roundtrip; eauto.
Qed.

Lemma roundtrip_kamino r :
  (forall liq col liq', 0 <= liq ->
     k_liquidity_to_collateral r liq = Ok col -> k_collateral_to_liquidity r col = Ok liq' -> liq' <= liq) /\
  (forall col liq col', 0 <= col ->
     k_collateral_to_liquidity r col = Ok liq -> k_liquidity_to_collateral r liq = Ok col' -> col' <= col).
Proof.
  split; intros a b a' Ha H1 H2.
  - apply k_l2c_inv in H1 as (tl & tc & S1 & H1). apply k_c2l_inv in H2 as (tl' & tc' & S2 & H2).
    rewrite S1 in S2. apply pair_inj in S2 as [<- <-]. eapply c2l_roundtrip; eauto.
  - apply k_c2l_inv in H1 as (tl & tc & S1 & H1). apply k_l2c_inv in H2 as (tl' & tc' & S2 & H2).
    rewrite S1 in S2. apply pair_inj in S2 as [<- <-]. eapply c2l_roundtrip; eauto.
Qed.

Lemma roundtrip_solend r :
  (forall liq col liq', 0 <= liq ->
     s_liquidity_to_collateral r liq = Ok col -> s_collateral_to_liquidity r col = Ok liq' -> liq' <= liq) /\
  (forall col liq col', 0 <= col ->
     s_collateral_to_liquidity r col = Ok liq -> s_liquidity_to_collateral r liq = Ok col' -> col' <= col).
Proof.
  split; intros a b a' Ha H1 H2.
  - apply s_l2c_inv in H1 as (tl & tc & S1 & H1). apply s_c2l_inv in H2 as (tl' & tc' & S2 & H2).
    rewrite S1 in S2. apply pair_inj in S2 as [<- <-]. eapply c2l_roundtrip; eauto.
  - apply s_c2l_inv in H1 as (tl & tc & S1 & H1). apply s_l2c_inv in H2 as (tl' & tc' & S2 & H2).
    rewrite S1 in S2. apply pair_inj in S2 as [<- <-]. eapply c2l_roundtrip; eauto.
Qed.

(* never more than the exact (scaled) rate *)
Lemma conversion_never_overstates tl tc :
  (forall col liq, 0 <= col -> 0 <= tl -> 0 < tc ->
     collateral_to_liquidity_from_scaled col tl tc = Ok liq -> liq = col * tl / tc /\ liq * tc <= col * tl) /\
  (forall liq col, 0 <= liq -> 0 < tl -> 0 <= tc ->
     liquidity_to_collateral_from_scaled liq tl tc = Ok col -> col = liq * tc / tl /\ col * tl <= liq * tc).
Proof.
  split; intros a b Ha H1 H2 H; [|rewrite l2c_is_c2l in H]; apply c2l_never_overstates in H; assumption.
Qed.

(* Solend CollateralExchangeRate *)
Lemma s_rate_l2c_inv rate liq col : s_rate_liquidity_to_collateral rate liq = Ok col ->
  col = liq * rate / ONE /\ 0 <= col <= U64_MAX.
Proof.
  unfold s_rate_liquidity_to_collateral. intros H. apply xbind_inv in H as (c & Hc & H).
  apply ok_or_inv in Hc. apply ok_or_inv in H. rewrite cmul_of_int in Hc.
  apply chko_inv in Hc as (-> & _). unfold to_u64_checked, to_int in H.
  apply chko_inv in H as (-> & H). apply in_u64_iff in H. auto.
Qed.

Lemma s_rate_c2l_inv rate col liq : s_rate_collateral_to_liquidity rate col = Ok liq ->
  rate <> 0 /\ liq = Z.quot (col * ONE * ONE) rate / ONE /\ 0 <= liq <= U64_MAX.
Proof.
  unfold s_rate_collateral_to_liquidity. intros H. apply xbind_inv in H as (l & Hl & H).
  apply ok_or_inv in Hl. apply ok_or_inv in H. unfold cdiv in Hl.
  destruct (rate =? 0) eqn:E; [discriminate|]. apply chko_inv in Hl as (-> & _).
  unfold to_u64_checked, to_int in H. apply chko_inv in H as (-> & H). apply in_u64_iff in H.
  unfold div_raw, of_int. split; [lia|]. auto.
Qed.

Lemma roundtrip_solend_rate rate :
  (forall liq col liq', 0 <= liq ->
     s_rate_liquidity_to_collateral rate liq = Ok col -> s_rate_collateral_to_liquidity rate col = Ok liq' -> liq' <= liq) /\
  (forall col liq col', 0 <= col ->
     s_rate_collateral_to_liquidity rate col = Ok liq -> s_rate_liquidity_to_collateral rate liq = Ok col' -> col' <= col).
Proof.
  pose proof ONE_pos as H1. split.
  - intros liq col liq' Hl Hc Hl'. apply s_rate_l2c_inv in Hc as (-> & Hc).
    apply s_rate_c2l_inv in Hl' as (Hr & -> & _).
    destruct (Z.eq_dec (liq * rate / ONE) 0) as [E|E].
    + rewrite E. replace (0 * ONE * ONE) with 0 by ring. rewrite Z.quot_0_l by assumption.
      rewrite Z.div_0_l by lia. assumption.
    + assert (Hp : ONE <= liq * rate).
      { destruct (Z_lt_le_dec (liq * rate) ONE); [|assumption]. exfalso.
        assert (liq * rate / ONE < 1) by (apply Z.div_lt_upper_bound; lia). lia. }
      assert (0 < rate) by nia.
      rewrite Z.quot_div_nonneg; [| apply Z.mul_nonneg_nonneg; [apply Z.mul_nonneg_nonneg|]; lia | lia].
      rewrite nested_floor by assumption.
      apply Z.div_le_upper_bound; [lia|].
      pose proof (div_mul_floor (liq * rate) ONE H1). lia.
  - intros col liq col' Hc Hl Hc'. apply s_rate_c2l_inv in Hl as (Hr & -> & Hl).
    apply s_rate_l2c_inv in Hc' as (-> & _).
    destruct (Z.eq_dec (Z.quot (col * ONE * ONE) rate / ONE) 0) as [E|E].
    + rewrite E. rewrite Z.mul_0_l, Z.div_0_l by lia. assumption.
    + assert (Hq : 0 < Z.quot (col * ONE * ONE) rate).
      { destruct (Z_lt_le_dec 0 (Z.quot (col * ONE * ONE) rate)) as [|Hle]; [assumption|exfalso].
        assert (Z.quot (col * ONE * ONE) rate / ONE <= 0) by (apply Z.div_le_upper_bound; lia). lia. }
      apply quot_pos_sign in Hq as [[Hx Hy]|[Hx Hy]]; [|nia].
      rewrite Z.quot_div_nonneg by lia. rewrite nested_floor by assumption.
      apply Z.div_le_upper_bound; [lia|].
      pose proof (div_mul_floor (col * ONE) rate Hy). lia.
Qed.

(* ------------------------------------------------------------------------------------------ *)
(* staleness                                                                                   *)

Lemma wrap_s64 x : 0 <= x <= U64_MAX -> wrap_s 64 x = if x <? 2^63 then x else x - 2^64.
Proof.
  intros H. unfold wrap_s. change (64 - 1) with 63. xconsts.
  destruct (x <? 2^63) eqn:E.
  - rewrite Z.mod_small by lia. lia.
  - replace (x + 2^63) with ((x - 2^63) + 1 * 2^64) by lia.
    rewrite Z.mod_add by lia. rewrite Z.mod_small by lia. lia.
Qed.

Lemma stale_predicates :
  (forall r slot, k_is_stale r slot = true <-> kr_slot r < slot) /\
  (forall r slot, s_is_stale r slot = true <-> sr_slot r < slot) /\
  (forall m now, 0 <= dm_last_ts m <= U64_MAX -> 0 <= now ->
     (d_is_stale m now = false <-> now <= dm_last_ts m < 2^63)).
Proof.
  split; [|split].
  - intros; unfold k_is_stale; lia.
  - intros; unfold s_is_stale; lia.
  - intros m now H Hn. unfold d_is_stale. rewrite wrap_s64 by assumption.
    destruct (dm_last_ts m <? 2^63) eqn:E; xconsts; lia.
Qed.
(* ------------------------------------------------------------------------------------------ *)
(* Drift                                                                                       *)

Lemma drift_table k : (k < 20)%nat -> nth_error DRIFT_EXP_10 k = Some (10 ^ Z.of_nat k).
Proof. intros H. do 20 (destruct k as [|k]; [reflexivity|]). lia. Qed.

Lemma get_precision_increase_spec d : 0 <= d ->
  get_precision_increase d = if d >? 19 then Err (E E_Drift_MathError) else Ok (10 ^ (19 - d)).
Proof.
  intros H. unfold get_precision_increase. change DRIFT_PRECISION_EXP with 19.
  destruct (d >? 19) eqn:E; [reflexivity|].
  rewrite drift_table by lia. rewrite Z2Nat.id by lia. reflexivity.
Qed.

Lemma pow10_le_19 d : 0 <= d <= 19 -> 0 < 10 ^ (19 - d) <= 10 ^ 19.
Proof.
  intros H. split; [apply pow10_pos; lia | apply Z.pow_le_mono_r; lia].
Qed.

Definition drift_q (m : dmarket) (a : Z) : Z := a * 10 ^ (19 - dm_decimals m) / dm_cum_interest m.

Lemma d_scaled_balance_spec m a up :
  0 <= a <= U64_MAX -> 0 <= dm_decimals m -> 0 <= dm_cum_interest m ->
  d_scaled_balance m a up =
    if dm_decimals m >? 19 then Err (E E_Drift_MathError) else
    if dm_cum_interest m =? 0 then Err (E E_Drift_math_error_macro) else
    if in_u64 (drift_q m a) then
      if up && negb (drift_q m a =? 0) then
        if in_u64 (drift_q m a + 1) then Ok (drift_q m a + 1) else Err (E E_Drift_MathError)
      else Ok (drift_q m a)
    else Err (E E_Anchor_InvalidNumericConversion).
Proof.
  intros Ha Hd Hc. unfold d_scaled_balance. rewrite get_precision_increase_spec by assumption.
  destruct (dm_decimals m >? 19) eqn:Ed; [reflexivity|]. cbn [bind].
  pose proof (pow10_le_19 (dm_decimals m) ltac:(lia)) as Hp.
  assert (Hx : in_u128 (a * 10 ^ (19 - dm_decimals m)) = true).
  { apply in_u128_iff. split; [apply Z.mul_nonneg_nonneg; lia|].
    transitivity (U64_MAX * 10 ^ 19); [apply Z.mul_le_mono_nonneg; lia | xconsts; lia]. }
  rewrite chko_ok by assumption. rewrite ok_or_ok. cbn [bind].
  unfold cdiv_u128. destruct (dm_cum_interest m =? 0) eqn:Ec; [reflexivity|].
  rewrite ok_or_ok. cbn [bind]. fold (drift_q m a). rewrite chko_eq.
  destruct (in_u64 (drift_q m a)); cbn [ok_or bind]; [|reflexivity].
  destruct (up && negb (drift_q m a =? 0)); [|reflexivity].
  rewrite chko_eq. destruct (in_u64 (drift_q m a + 1)); reflexivity.
Qed.

Lemma d_withdraw_spec m sb :
  0 <= dm_decimals m ->
  d_withdraw_token_amount m sb =
    if dm_decimals m >? 19 then Err (E E_Drift_MathError) else
    if in_u128 (sb * dm_cum_interest m) then
      if in_u64 (sb * dm_cum_interest m / 10 ^ (19 - dm_decimals m))
      then Ok (sb * dm_cum_interest m / 10 ^ (19 - dm_decimals m)) else Err (E E_Drift_MathError)
    else Err (E E_Drift_math_error_macro).
Proof.
  intros Hd. unfold d_withdraw_token_amount. rewrite get_precision_increase_spec by assumption.
  destruct (dm_decimals m >? 19) eqn:Ed; [reflexivity|]. cbn [bind].
  pose proof (pow10_le_19 (dm_decimals m) ltac:(lia)) as Hp.
  rewrite chko_eq. destruct (in_u128 (sb * dm_cum_interest m)); cbn [ok_or bind]; [|reflexivity].
  unfold cdiv_u128. replace (10 ^ (19 - dm_decimals m) =? 0) with false by lia.
  rewrite ok_or_ok. cbn [bind]. rewrite chko_eq.
  destruct (in_u64 _); reflexivity.
Qed.

Lemma d_adjust_u128_spec m raw :
  d_adjust_u128 m raw =
    if in_u128 (raw * dm_cum_interest m) then Ok (raw * dm_cum_interest m / 10 ^ 10)
    else Err (E E_Drift_math_error_macro).
Proof.
  unfold d_adjust_u128. rewrite chko_eq.
  destruct (in_u128 (raw * dm_cum_interest m)); cbn [ok_or bind]; reflexivity.
Qed.

(* closed forms of the three typed wrappers (fail closed: negative input, u128 product overflow,
   result outside the target type) *)
Lemma d_adjust_specs m raw :
  d_adjust_i64 m raw =
    (if raw <? 0 then Err (E E_Drift_MathError) else
     if in_u128 (raw * dm_cum_interest m) then
       if in_i64 (raw * dm_cum_interest m / 10 ^ 10) then Ok (raw * dm_cum_interest m / 10 ^ 10)
       else Err (E E_Drift_MathError)
     else Err (E E_Drift_math_error_macro)) /\
  d_adjust_u64 m raw =
    (if in_u128 (raw * dm_cum_interest m) then
       if in_u64 (raw * dm_cum_interest m / 10 ^ 10) then Ok (raw * dm_cum_interest m / 10 ^ 10)
       else Err (E E_Drift_MathError)
     else Err (E E_Drift_math_error_macro)) /\
  d_adjust_i128 m raw =
    (if raw <? 0 then Err (E E_Drift_MathError) else
     if in_u128 (raw * dm_cum_interest m) then
       if in_i128 (raw * dm_cum_interest m / 10 ^ 10) then Ok (raw * dm_cum_interest m / 10 ^ 10)
       else Err (E E_Drift_MathError)
     else Err (E E_Drift_math_error_macro)).
Proof.
  unfold d_adjust_i64, d_adjust_u64, d_adjust_i128. rewrite d_adjust_u128_spec.
  repeat split.
  - destruct (raw <? 0); [reflexivity|].
    destruct (in_u128 _); cbn [bind]; [|reflexivity]. rewrite chko_eq. destruct (in_i64 _); reflexivity.
  - destruct (in_u128 _); cbn [bind]; [|reflexivity]. rewrite chko_eq. destruct (in_u64 _); reflexivity.
  - destruct (raw <? 0); [reflexivity|].
    destruct (in_u128 _); cbn [bind]; [|reflexivity]. rewrite chko_eq. destruct (in_i128 _); reflexivity.
Qed.

Definition d_adjusters : list (dmarket -> Z -> res Z) := [d_adjust_i128; d_adjust_i64; d_adjust_u64].

Lemma d_adjust_exact adj m raw v : In adj d_adjusters -> adj m raw = Ok v ->
  v = raw * dm_cum_interest m / 10 ^ 10 /\ 0 <= raw * dm_cum_interest m.
Proof.
  destruct (d_adjust_specs m raw) as (S1 & S2 & S3).
  intros [<-|[<-|[<-|[]]]].
  - rewrite S3. destruct (raw <? 0); [discriminate|].
    destruct (in_u128 _) eqn:E; [|discriminate]. apply in_u128_iff in E.
    destruct (in_i128 _); [|discriminate]. intros H; apply Ok_inj in H. split; [auto | lia].
  - rewrite S1. destruct (raw <? 0); [discriminate|].
    destruct (in_u128 _) eqn:E; [|discriminate]. apply in_u128_iff in E.
    destruct (in_i64 _); [|discriminate]. intros H; apply Ok_inj in H. split; [auto | lia].
  - rewrite S2.
    destruct (in_u128 _) eqn:E; [|discriminate]. apply in_u128_iff in E.
    destruct (in_u64 _); [|discriminate]. intros H; apply Ok_inj in H. split; [auto | lia].
Qed.

Lemma d_adjust_nonneg_input m raw v : d_adjust_i64 m raw = Ok v \/ d_adjust_i128 m raw = Ok v -> 0 <= raw.
Proof.
  destruct (d_adjust_specs m raw) as (S1 & _ & S3). rewrite S1, S3.
  destruct (raw <? 0) eqn:E; [intros [H|H]; discriminate | lia].
Qed.

Lemma d_adjust_le_mono adj : In adj d_adjusters ->
  (forall m raw v, adj m raw = Ok v -> v * 10 ^ 10 <= raw * dm_cum_interest m) /\
  (forall m1 m2 raw1 raw2 v1 v2, 0 <= raw1 <= raw2 -> 0 <= dm_cum_interest m1 <= dm_cum_interest m2 ->
     adj m1 raw1 = Ok v1 -> adj m2 raw2 = Ok v2 -> v1 <= v2).
Proof.
  intros Hin. split.
  - intros m raw v H. destruct (d_adjust_exact _ _ _ _ Hin H) as [-> _].
    apply div_mul_floor. lia.
  - intros m1 m2 raw1 raw2 v1 v2 Hr Hc H1 H2.
    destruct (d_adjust_exact _ _ _ _ Hin H1) as [-> _]. destruct (d_adjust_exact _ _ _ _ Hin H2) as [-> _].
    apply Z.div_le_mono; [lia|]. apply Z.mul_le_mono_nonneg; lia.
Qed.

Lemma drift_decrement_ge_increment m a i d :
  0 <= a <= U64_MAX -> 0 <= dm_decimals m -> 0 <= dm_cum_interest m ->
  d_scaled_balance_increment m a = Ok i -> d_scaled_balance_decrement m a = Ok d ->
  i <= d /\ d <= i + 1.
Proof.
  intros Ha Hd Hc. unfold d_scaled_balance_increment, d_scaled_balance_decrement.
  rewrite !d_scaled_balance_spec by assumption.
  destruct (dm_decimals m >? 19); [discriminate|].
  destruct (dm_cum_interest m =? 0); [discriminate|].
  destruct (in_u64 (drift_q m a)); [|discriminate]. cbn [andb].
  intros H1; apply Ok_inj in H1; subst i.
  destruct (negb (drift_q m a =? 0)).
  - destruct (in_u64 (drift_q m a + 1)); [|discriminate]. intros H2; apply Ok_inj in H2; lia.
  - intros H2; apply Ok_inj in H2; lia.
Qed.

Lemma drift_increment_inv m a i :
  0 <= a <= U64_MAX -> 0 <= dm_decimals m -> 0 <= dm_cum_interest m ->
  d_scaled_balance_increment m a = Ok i ->
  dm_decimals m <= 19 /\ 0 < dm_cum_interest m /\ i = drift_q m a /\ 0 <= i <= U64_MAX.
Proof.
  intros Ha Hd Hc. unfold d_scaled_balance_increment. rewrite d_scaled_balance_spec by assumption.
  destruct (dm_decimals m >? 19) eqn:E1; [discriminate|].
  destruct (dm_cum_interest m =? 0) eqn:E2; [discriminate|].
  destruct (in_u64 (drift_q m a)) eqn:E3; [|discriminate]. cbn [andb].
  intros H; apply Ok_inj in H; subst i. apply in_u64_iff in E3. repeat split; lia.
Qed.

Lemma drift_withdraw_of_increment_le m a i w :
  0 <= a <= U64_MAX -> 0 <= dm_decimals m -> 0 <= dm_cum_interest m ->
  d_scaled_balance_increment m a = Ok i -> d_withdraw_token_amount m i = Ok w -> w <= a.
Proof.
  intros Ha Hd Hc Hi Hw. apply drift_increment_inv in Hi as (Hd19 & Hc0 & -> & _); try assumption.
  rewrite d_withdraw_spec in Hw by assumption.
  destruct (dm_decimals m >? 19); [discriminate|].
  destruct (in_u128 _); [|discriminate]. destruct (in_u64 _); [|discriminate].
  apply Ok_inj in Hw; subst w.
  pose proof (pow10_le_19 (dm_decimals m) ltac:(lia)) as Hp.
  apply Z.div_le_upper_bound; [lia|]. unfold drift_q.
  pose proof (div_mul_floor (a * 10 ^ (19 - dm_decimals m)) (dm_cum_interest m) Hc0). lia.
Qed.
(* ------------------------------------------------------------------------------------------ *)
(* exchange ratios                                                                             *)

Lemma c2l_ratio_is_l2c_ratio tl tc : col_to_liq_ratio tl tc = liq_to_col_ratio tc tl.
Proof. reflexivity. Qed.

Lemma liq_to_col_ratio_spec tl tc :
  liq_to_col_ratio tl tc = if tc =? 0 then Err ENone else
                           if in_i128 (Z.quot (tl * ONE) tc) then Ok (Z.quot (tl * ONE) tc) else Err ENone.
Proof. unfold liq_to_col_ratio, cdiv. destruct (tc =? 0); [reflexivity|]. apply chko_eq. Qed.

Lemma ratio_le_exact num den r : 0 <= num -> 0 < den ->
  liq_to_col_ratio num den = Ok r -> r = num * ONE / den /\ r * den <= num * ONE /\ 0 <= r.
Proof.
  intros Hn Hd. rewrite liq_to_col_ratio_spec. replace (den =? 0) with false by lia.
  pose proof ONE_pos.
  rewrite Z.quot_div_nonneg by lia.
  destruct (in_i128 _); [|discriminate]. intros H0; apply Ok_inj in H0; subst r.
  split; [reflexivity|]. split; [apply div_mul_floor; assumption | apply Z.div_pos; lia].
Qed.

(* ------------------------------------------------------------------------------------------ *)
(* the Kamino / Solend arms of the oracle adapter                                              *)

(* the wrapping `/` of `total_liq / total_col` cannot wrap: |quotient| <= 2*|raw liquidity bits| *)
Lemma ratio_no_wrap L C d tl tc :
  scale_supplies L C d = Ok (tl, tc) -> Z.abs L < 2^119 -> 0 <= C -> 0 < tc ->
  wdiv tl tc = Ok (Z.quot (tl * ONE) tc) /\ Z.abs (Z.quot (tl * ONE) tc) <= 2 * Z.abs L.
Proof.
  intros Hs HL HC Htc. apply scale_supplies_inv in Hs as (Hd & Etl & Etc & _ & _).
  pose proof (pow10_pos d ltac:(lia)) as HT. pose proof ONE_pos as H1.
  set (T := 10 ^ d) in *.
  assert (Etc' : tc = C * ONE / T) by (rewrite Etc; apply Z.quot_div_nonneg; lia).
  pose proof (div_mul_floor_lt (C * ONE) T HT) as Hlt. rewrite <- Etc' in Hlt.
  pose proof (div_mul_floor (C * ONE) T HT) as Hle. rewrite <- Etc' in Hle.
  assert (HC1 : 1 <= C) by nia.
  assert (Hkey : ONE <= 2 * (tc * T)) by nia.
  assert (Eabs : Z.abs tl = Z.abs L / T).
  { rewrite Etl. rewrite <- Z.quot_abs by lia. rewrite (Z.abs_eq T) by lia.
    apply Z.quot_div_nonneg; lia. }
  pose proof (div_mul_floor (Z.abs L) T HT) as HtlT. rewrite <- Eabs in HtlT.
  assert (Eq : Z.abs (Z.quot (tl * ONE) tc) = Z.abs tl * ONE / tc).
  { rewrite <- Z.quot_abs by lia. rewrite (Z.abs_eq tc) by lia.
    rewrite Z.abs_mul, (Z.abs_eq ONE) by lia. apply Z.quot_div_nonneg; lia. }
  assert (Hb : Z.abs (Z.quot (tl * ONE) tc) <= 2 * Z.abs L).
  { rewrite Eq. apply Z.div_le_upper_bound; [lia|].
    assert (Z.abs tl * ONE <= Z.abs tl * (2 * (tc * T))) by (apply Z.mul_le_mono_nonneg_l; lia).
    assert (tc * (Z.abs tl * T) <= tc * Z.abs L) by (apply Z.mul_le_mono_nonneg_l; lia).
    lia. }
  split; [|assumption].
  unfold wdiv. replace (tc =? 0) with false by lia. unfold div_raw.
  rewrite wrap128_id; [reflexivity|]. xconsts. lia.
Qed.

(* what one adjusted value satisfies: p = oracle value, p' = adjusted value *)
Definition pair_ok (L C d : Z) (tl tc : fx) (p p' : Z) : Prop :=
  0 <= p ->
  (0 < tc -> p' = p * (tl * ONE / tc) / ONE /\ p' * tc <= p * tl) /\
  (tc <= 0 -> p' = p) /\
  p' * (C * ONE - 10 ^ d) <= p * L /\
  ((C * ONE) mod 10 ^ d = 0 -> p' * (C * ONE) <= p * L).

Lemma pair_ok_adjusted L C d tl tc adj p p' :
  scale_supplies L C d = Ok (tl, tc) -> 0 <= L -> 0 <= C -> 0 < tc ->
  In adj adjusters -> adj p (tl * ONE / tc) = Ok p' -> pair_ok L C d tl tc p p'.
Proof.
  intros Hs HL HC Htc Hin Ha Hp. apply scale_supplies_inv in Hs as (Hd & Etl & Etc & _ & _).
  pose proof (pow10_pos d ltac:(lia)) as HT. pose proof ONE_pos as H1.
  set (T := 10 ^ d) in *.
  rewrite Z.quot_div_nonneg in Etl, Etc by lia.
  pose proof (div_mul_floor L T HT) as HtlT. rewrite <- Etl in HtlT.
  pose proof (div_mul_floor (C * ONE) T HT) as Hle. rewrite <- Etc in Hle.
  pose proof (div_mul_floor_lt (C * ONE) T HT) as Hlt. rewrite <- Etc in Hlt.
  assert (Htl0 : 0 <= tl) by (rewrite Etl; apply Z.div_pos; lia).
  set (r := tl * ONE / tc) in *.
  assert (Hr0 : 0 <= r) by (apply Z.div_pos; lia).
  pose proof (div_mul_floor (tl * ONE) tc Htc) as Hr. fold r in Hr.
  pose proof (adjust_exact _ _ _ _ Hin Ha) as Ev.
  pose proof (adjust_le _ _ _ _ Hin Ha) as Hv.
  assert (Hv0 : 0 <= p') by (rewrite Ev; apply Z.div_pos; [apply Z.mul_nonneg_nonneg|]; lia).
  assert (Hmain : p' * tc <= p * tl).
  { apply (Z.mul_le_mono_pos_r _ _ ONE H1).
    assert (p' * ONE * tc <= p * r * tc) by (apply Z.mul_le_mono_nonneg_r; lia).
    assert (p * (r * tc) <= p * (tl * ONE)) by (apply Z.mul_le_mono_nonneg_l; lia).
    lia. }
  assert (HpT : p' * (tc * T) <= p * L).
  { assert (p' * tc * T <= p * tl * T) by (apply Z.mul_le_mono_nonneg_r; lia).
    assert (p * (tl * T) <= p * L) by (apply Z.mul_le_mono_nonneg_l; lia). lia. }
  split; [intros _; split; assumption|]. split; [lia|]. split.
  - assert (p' * (C * ONE - T) <= p' * (tc * T)) by (apply Z.mul_le_mono_nonneg_l; lia). lia.
  - intros Hex. assert (C * ONE = tc * T).
    { pose proof (Z.div_mod (C * ONE) T ltac:(lia)) as Hdm. rewrite Hex, <- Etc in Hdm. lia. }
    rewrite H. assumption.
Qed.

Lemma pair_ok_unadjusted L C d tl tc p :
  scale_supplies L C d = Ok (tl, tc) -> 0 <= L -> 0 <= C -> tc <= 0 -> pair_ok L C d tl tc p p.
Proof.
  intros Hs HL HC Htc Hp. apply scale_supplies_inv in Hs as (Hd & Etl & Etc & _ & _).
  pose proof (pow10_pos d ltac:(lia)) as HT. pose proof ONE_pos as H1.
  set (T := 10 ^ d) in *.
  rewrite Z.quot_div_nonneg in Etc by lia.
  pose proof (div_mul_floor_lt (C * ONE) T HT) as Hlt. rewrite <- Etc in Hlt.
  assert (0 <= tc) by (rewrite Etc; apply Z.div_pos; lia).
  assert (Htc0 : tc = 0) by lia.
  split; [lia|]. split; [reflexivity|]. split.
  - assert (p * (C * ONE - T) <= 0) by (apply Z.mul_nonneg_nonpos; lia).
    assert (0 <= p * L) by (apply Z.mul_nonneg_nonneg; lia). lia.
  - intros Hex. assert (HC0 : C * ONE = 0).
    { pose proof (Z.div_mod (C * ONE) T ltac:(lia)) as Hdm. rewrite Hex, <- Etc in Hdm. lia. }
    rewrite HC0. assert (0 <= p * L) by (apply Z.mul_nonneg_nonneg; lia). lia.
Qed.

Definition pyth_pairs (f f' : pyth_px) : list (Z * Z) :=
  [(py_price f, py_price f'); (py_ema f, py_ema f'); (py_conf f, py_conf f'); (py_ema_conf f, py_ema_conf f')].
Definition swb_pairs (f f' : swb_px) : list (Z * Z) :=
  [(sw_value f, sw_value f'); (sw_std_dev f, sw_std_dev f')].

Lemma in_adj_i128 : In adjust_i128 adjusters. Proof. left; reflexivity. Qed.
Lemma in_adj_i64 : In adjust_i64 adjusters. Proof. right; left; reflexivity. Qed.
Lemma in_adj_u64 : In adjust_u64 adjusters. Proof. right; right; left; reflexivity. Qed.

Lemma ratio_adjust_pyth_ok L C d e f f' :
  Z.abs L < 2^119 -> 0 <= L -> 0 <= C ->
  ratio_adjust_pyth (ok_or (scale_supplies L C d) e) f = Ok f' ->
  exists tl tc, scale_supplies L C d = Ok (tl, tc) /\
    (0 < tc -> wdiv tl tc = Ok (tl * ONE / tc)) /\
    Forall (fun pp => pair_ok L C d tl tc (fst pp) (snd pp)) (pyth_pairs f f').
Proof.
  intros HA HL HC H. unfold ratio_adjust_pyth in H.
  apply xbind_inv in H as ([tl tc] & Hs & H). apply ok_or_inv in Hs.
  exists tl, tc. split; [assumption|].
  destruct (Z_lt_le_dec 0 tc) as [Htc|Htc].
  - destruct (ratio_no_wrap _ _ _ _ _ Hs HA HC Htc) as [Hw _].
    pose proof (scale_supplies_inv _ _ _ _ _ Hs) as (Hd & Etl & _).
    assert (Htl0 : 0 <= tl).
    { rewrite Etl. apply Z.quot_pos; [lia | apply pow10_pos; lia]. }
    pose proof ONE_pos.
    rewrite Z.quot_div_nonneg in Hw by lia.
    split; [intros _; assumption|].
    replace (tc >? 0) with true in H by lia. rewrite Hw in H. cbn [bind] in H.
    apply xbind_inv in H as (p & Hp & H). apply ok_or_inv in Hp.
    apply xbind_inv in H as (e1 & He & H). apply ok_or_inv in He.
    apply xbind_inv in H as (c & Hc & H). apply ok_or_inv in Hc.
    apply xbind_inv in H as (ec & Hec & H). apply ok_or_inv in Hec.
    apply Ok_inj in H. subst f'. unfold pyth_pairs. cbn [py_price py_ema py_conf py_ema_conf].
    apply Forall_cons; [|apply Forall_cons; [|apply Forall_cons; [|apply Forall_cons; [|apply Forall_nil]]]]; cbn [fst snd].
    + apply (pair_ok_adjusted L C d tl tc adjust_i64); auto using in_adj_i64.
    + apply (pair_ok_adjusted L C d tl tc adjust_i64); auto using in_adj_i64.
    + apply (pair_ok_adjusted L C d tl tc adjust_u64); auto using in_adj_u64.
    + apply (pair_ok_adjusted L C d tl tc adjust_u64); auto using in_adj_u64.
  - split; [lia|]. replace (tc >? 0) with false in H by lia. apply Ok_inj in H. subst f'.
    unfold pyth_pairs. apply Forall_cons; [|apply Forall_cons; [|apply Forall_cons; [|apply Forall_cons; [|apply Forall_nil]]]]; cbn [fst snd]; apply pair_ok_unadjusted; assumption.
Qed.

Lemma ratio_adjust_swb_ok L C d e f f' :
  Z.abs L < 2^119 -> 0 <= L -> 0 <= C ->
  ratio_adjust_swb (ok_or (scale_supplies L C d) e) f = Ok f' ->
  exists tl tc, scale_supplies L C d = Ok (tl, tc) /\
    (0 < tc -> wdiv tl tc = Ok (tl * ONE / tc)) /\
    Forall (fun pp => pair_ok L C d tl tc (fst pp) (snd pp)) (swb_pairs f f').
Proof.
  intros HA HL HC H. unfold ratio_adjust_swb in H.
  apply xbind_inv in H as ([tl tc] & Hs & H). apply ok_or_inv in Hs.
  exists tl, tc. split; [assumption|].
  destruct (Z_lt_le_dec 0 tc) as [Htc|Htc].
  - destruct (ratio_no_wrap _ _ _ _ _ Hs HA HC Htc) as [Hw _].
    pose proof (scale_supplies_inv _ _ _ _ _ Hs) as (Hd & Etl & _).
    assert (Htl0 : 0 <= tl).
    { rewrite Etl. apply Z.quot_pos; [lia | apply pow10_pos; lia]. }
    pose proof ONE_pos.
    rewrite Z.quot_div_nonneg in Hw by lia.
    split; [intros _; assumption|].
    replace (tc >? 0) with true in H by lia. rewrite Hw in H. cbn [bind] in H.
    apply xbind_inv in H as (v & Hv & H). apply ok_or_inv in Hv.
    apply xbind_inv in H as (s & Hsd & H). apply ok_or_inv in Hsd.
    apply Ok_inj in H. subst f'. unfold swb_pairs. cbn [sw_value sw_std_dev].
    apply Forall_cons; [|apply Forall_cons; [|apply Forall_nil]]; cbn [fst snd].
    + apply (pair_ok_adjusted L C d tl tc adjust_i128); auto using in_adj_i128.
    + apply (pair_ok_adjusted L C d tl tc adjust_i128); auto using in_adj_i128.
  - split; [lia|]. replace (tc >? 0) with false in H by lia. apply Ok_inj in H. subst f'.
    unfold swb_pairs. apply Forall_cons; [|apply Forall_cons; [|apply Forall_nil]]; cbn [fst snd]; apply pair_ok_unadjusted; assumption.
Qed.
(* ------------------------------------------------------------------------------------------ *)
(* venue-level statements about the adapter arms                                               *)

(* the (oracle value, adjusted value) pairs produced by either feed type of a venue *)
Definition kamino_arm (r : kreserve) (slot : Z) (pairs : list (Z * Z)) : Prop :=
  (exists f f', kamino_pyth r slot f = Ok f' /\ pairs = pyth_pairs f f') \/
  (exists f f', kamino_swb r slot f = Ok f' /\ pairs = swb_pairs f f').
Definition solend_arm (r : sreserve) (slot : Z) (pairs : list (Z * Z)) : Prop :=
  (exists f f', solend_pyth r slot f = Ok f' /\ pairs = pyth_pairs f f') \/
  (exists f f', solend_swb r slot f = Ok f' /\ pairs = swb_pairs f f').
Definition drift_arm (m : dmarket) (now : Z) (pairs : list (Z * Z)) : Prop :=
  (exists f f', drift_pyth m now f = Ok f' /\ pairs = pyth_pairs f f') \/
  (exists f f', drift_swb m now f = Ok f' /\ pairs = swb_pairs f f').

Definition k_dec (r : kreserve) : Z := kr_decimals r mod 2^8.   (* `mint_decimals as u8` *)

Lemma k_scaled_supplies_eq r : kr_ok r = true ->
  k_scaled_supplies r =
    ok_or (scale_supplies (k_total_exact r) (kr_col_supply r) (k_dec r)) (E E_Kamino_math_error_macro).
Proof.
  intros H. unfold k_scaled_supplies. destruct (k_total_supply_ok r H) as [-> _]. reflexivity.
Qed.

Lemma s_scaled_supplies_eq r : sr_ok r = true ->
  s_scaled_supplies r =
    ok_or (scale_supplies (s_total_exact r) (sr_col_supply r) (sr_decimals r)) (E E_Solend_math_error_macro).
Proof.
  intros H. unfold s_scaled_supplies. destruct (s_total_liquidity_ok r H) as [-> _]. reflexivity.
Qed.

Lemma kamino_arm_ok r slot pairs :
  kr_ok r = true -> 0 <= k_total_exact r -> kamino_arm r slot pairs ->
  slot <= kr_slot r /\
  exists tl tc, k_scaled_supplies r = Ok (tl, tc) /\ (0 < tc -> wdiv tl tc = Ok (tl * ONE / tc)) /\
    Forall (fun pp => pair_ok (k_total_exact r) (kr_col_supply r) (k_dec r) tl tc (fst pp) (snd pp)) pairs.
Proof.
  intros Hok HL Harm. pose proof (k_total_supply_ok r Hok) as [_ HB].
  pose proof (proj1 (kr_ok_iff r) Hok) as (_ & _ & _ & _ & _ & _ & _ & HC).
  assert (HA : Z.abs (k_total_exact r) < 2^119) by lia.
  destruct Harm as [(f & f' & H & ->)|(f & f' & H & ->)].
  - unfold kamino_pyth in H. destruct (k_is_stale r slot) eqn:Es; [discriminate|].
    unfold k_is_stale in Es. split; [lia|].
    rewrite k_scaled_supplies_eq in * by assumption.
    destruct (ratio_adjust_pyth_ok _ _ _ _ _ _ HA HL (proj1 HC) H) as (tl & tc & Hs & Hw & HF).
    exists tl, tc. rewrite Hs. auto.
  - unfold kamino_swb in H. destruct (k_is_stale r slot) eqn:Es; [discriminate|].
    unfold k_is_stale in Es. split; [lia|].
    rewrite k_scaled_supplies_eq in * by assumption.
    destruct (ratio_adjust_swb_ok _ _ _ _ _ _ HA HL (proj1 HC) H) as (tl & tc & Hs & Hw & HF).
    exists tl, tc. rewrite Hs. auto.
Qed.

Lemma solend_arm_ok r slot pairs :
  sr_ok r = true -> 0 <= s_total_exact r -> solend_arm r slot pairs ->
  slot <= sr_slot r /\
  exists tl tc, s_scaled_supplies r = Ok (tl, tc) /\ (0 < tc -> wdiv tl tc = Ok (tl * ONE / tc)) /\
    Forall (fun pp => pair_ok (s_total_exact r) (sr_col_supply r) (sr_decimals r) tl tc (fst pp) (snd pp)) pairs.
Proof.
  intros Hok HL Harm. pose proof (s_total_liquidity_ok r Hok) as [_ HB].
  pose proof (proj1 (sr_ok_iff r) Hok) as (_ & _ & _ & _ & _ & HC).
  assert (HA : Z.abs (s_total_exact r) < 2^119) by lia.
  destruct Harm as [(f & f' & H & ->)|(f & f' & H & ->)].
  - unfold solend_pyth in H. destruct (s_is_stale r slot) eqn:Es; [discriminate|].
    unfold s_is_stale in Es. split; [lia|].
    rewrite s_scaled_supplies_eq in * by assumption.
    destruct (ratio_adjust_pyth_ok _ _ _ _ _ _ HA HL (proj1 HC) H) as (tl & tc & Hs & Hw & HF).
    exists tl, tc. rewrite Hs. auto.
  - unfold solend_swb in H. destruct (s_is_stale r slot) eqn:Es; [discriminate|].
    unfold s_is_stale in Es. split; [lia|].
    rewrite s_scaled_supplies_eq in * by assumption.
    destruct (ratio_adjust_swb_ok _ _ _ _ _ _ HA HL (proj1 HC) H) as (tl & tc & Hs & Hw & HF).
    exists tl, tc. rewrite Hs. auto.
Qed.

(* the `/` operator never wraps, for ANY sign of the venue liquidity *)
Lemma pipeline_division_never_wraps :
  (forall r tl tc, kr_ok r = true -> k_scaled_supplies r = Ok (tl, tc) -> 0 < tc ->
     wdiv tl tc = Ok (Z.quot (tl * ONE) tc) /\ I128_MIN <= Z.quot (tl * ONE) tc <= I128_MAX) /\
  (forall r tl tc, sr_ok r = true -> s_scaled_supplies r = Ok (tl, tc) -> 0 < tc ->
     wdiv tl tc = Ok (Z.quot (tl * ONE) tc) /\ I128_MIN <= Z.quot (tl * ONE) tc <= I128_MAX).
Proof.
  split.
  - intros r tl tc Hok Hs Htc. pose proof (k_total_supply_ok r Hok) as [_ HB].
    pose proof (proj1 (kr_ok_iff r) Hok) as (_ & _ & _ & _ & _ & _ & _ & HC).
    rewrite k_scaled_supplies_eq in Hs by assumption. apply ok_or_inv in Hs.
    destruct (ratio_no_wrap _ _ _ _ _ Hs ltac:(lia) (proj1 HC) Htc) as [Hw Hb].
    split; [assumption|]. xconsts. lia.
  - intros r tl tc Hok Hs Htc. pose proof (s_total_liquidity_ok r Hok) as [_ HB].
    pose proof (proj1 (sr_ok_iff r) Hok) as (_ & _ & _ & _ & _ & HC).
    rewrite s_scaled_supplies_eq in Hs by assumption. apply ok_or_inv in Hs.
    destruct (ratio_no_wrap _ _ _ _ _ Hs ltac:(lia) (proj1 HC) Htc) as [Hw Hb].
    split; [assumption|]. xconsts. lia.
Qed.

Lemma Forall_pair_ok_weaken L C d tl tc pairs (P : Z -> Z -> Prop) :
  (forall p p', pair_ok L C d tl tc p p' -> 0 <= p -> P p p') ->
  Forall (fun pp => pair_ok L C d tl tc (fst pp) (snd pp)) pairs ->
  Forall (fun pp => 0 <= fst pp -> P (fst pp) (snd pp)) pairs.
Proof.
  intros HP HF. eapply Forall_impl; [|exact HF]. intros [p p'] Hok Hp. cbn [fst snd] in *. auto.
Qed.

Lemma pipeline_le_scaled_rate :
  (forall r slot pairs tl tc, kr_ok r = true -> 0 <= k_total_exact r -> kamino_arm r slot pairs ->
     k_scaled_supplies r = Ok (tl, tc) -> 0 < tc ->
     Forall (fun pp => 0 <= fst pp -> snd pp = fst pp * (tl * ONE / tc) / ONE /\ snd pp * tc <= fst pp * tl) pairs) /\
  (forall r slot pairs tl tc, sr_ok r = true -> 0 <= s_total_exact r -> solend_arm r slot pairs ->
     s_scaled_supplies r = Ok (tl, tc) -> 0 < tc ->
     Forall (fun pp => 0 <= fst pp -> snd pp = fst pp * (tl * ONE / tc) / ONE /\ snd pp * tc <= fst pp * tl) pairs).
Proof.
  split.
  - intros r slot pairs tl tc Hok HL Harm Hs Htc.
    destruct (kamino_arm_ok _ _ _ Hok HL Harm) as (_ & tl' & tc' & Hs' & _ & HF).
    rewrite Hs in Hs'. apply pair_inj in Hs' as [<- <-].
    refine (Forall_pair_ok_weaken _ _ _ _ _ _ (fun p p' => p' = p * (tl * ONE / tc) / ONE /\ p' * tc <= p * tl) _ HF).
    intros p p' Hp Hp0. apply Hp; assumption.
  - intros r slot pairs tl tc Hok HL Harm Hs Htc.
    destruct (solend_arm_ok _ _ _ Hok HL Harm) as (_ & tl' & tc' & Hs' & _ & HF).
    rewrite Hs in Hs'. apply pair_inj in Hs' as [<- <-].
    refine (Forall_pair_ok_weaken _ _ _ _ _ _ (fun p p' => p' = p * (tl * ONE / tc) / ONE /\ p' * tc <= p * tl) _ HF).
    intros p p' Hp Hp0. apply Hp; assumption.
Qed.

Lemma pipeline_overstatement_bound :
  (forall r slot pairs, kr_ok r = true -> 0 <= k_total_exact r -> kamino_arm r slot pairs ->
     Forall (fun pp => 0 <= fst pp ->
       snd pp * (kr_col_supply r * ONE - 10 ^ k_dec r) <= fst pp * k_total_exact r) pairs) /\
  (forall r slot pairs, sr_ok r = true -> 0 <= s_total_exact r -> solend_arm r slot pairs ->
     Forall (fun pp => 0 <= fst pp ->
       snd pp * (sr_col_supply r * ONE - 10 ^ sr_decimals r) <= fst pp * s_total_exact r) pairs).
Proof.
  split.
  - intros r slot pairs Hok HL Harm.
    destruct (kamino_arm_ok _ _ _ Hok HL Harm) as (_ & tl & tc & _ & _ & HF).
    refine (Forall_pair_ok_weaken _ _ _ _ _ _ (fun p p' => p' * (kr_col_supply r * ONE - 10 ^ k_dec r) <= p * k_total_exact r) _ HF).
    intros p p' Hp Hp0. apply Hp; assumption.
  - intros r slot pairs Hok HL Harm.
    destruct (solend_arm_ok _ _ _ Hok HL Harm) as (_ & tl & tc & _ & _ & HF).
    refine (Forall_pair_ok_weaken _ _ _ _ _ _ (fun p p' => p' * (sr_col_supply r * ONE - 10 ^ sr_decimals r) <= p * s_total_exact r) _ HF).
    intros p p' Hp Hp0. apply Hp; assumption.
Qed.

Lemma pipeline_le_exact_when_scaling_exact :
  (forall r slot pairs, kr_ok r = true -> 0 <= k_total_exact r -> kamino_arm r slot pairs ->
     (kr_col_supply r * ONE) mod 10 ^ k_dec r = 0 ->
     Forall (fun pp => 0 <= fst pp -> snd pp * (kr_col_supply r * ONE) <= fst pp * k_total_exact r) pairs) /\
  (forall r slot pairs, sr_ok r = true -> 0 <= s_total_exact r -> solend_arm r slot pairs ->
     (sr_col_supply r * ONE) mod 10 ^ sr_decimals r = 0 ->
     Forall (fun pp => 0 <= fst pp -> snd pp * (sr_col_supply r * ONE) <= fst pp * s_total_exact r) pairs).
Proof.
  split.
  - intros r slot pairs Hok HL Harm Hex.
    destruct (kamino_arm_ok _ _ _ Hok HL Harm) as (_ & tl & tc & _ & _ & HF).
    refine (Forall_pair_ok_weaken _ _ _ _ _ _ (fun p p' => p' * (kr_col_supply r * ONE) <= p * k_total_exact r) _ HF).
    intros p p' Hp Hp0. apply Hp; assumption.
  - intros r slot pairs Hok HL Harm Hex.
    destruct (solend_arm_ok _ _ _ Hok HL Harm) as (_ & tl & tc & _ & _ & HF).
    refine (Forall_pair_ok_weaken _ _ _ _ _ _ (fun p p' => p' * (sr_col_supply r * ONE) <= p * s_total_exact r) _ HF).
    intros p p' Hp Hp0. apply Hp; assumption.
Qed.

(* the end-to-end claim "adjusted <= price * liquidity / collateral" is FALSE: 6 liquidity units,
   3 collateral units, 9 decimals, price 10^12 -> adjusted 2000001184239 > 2 * 10^12 *)
Definition refute_reserve : kreserve := mkKR 10 6 0 0 0 0 9 3.
Definition refute_feed : pyth_px := mkPyth 1000000000000 1000000000000 5 5.

Lemma pipeline_le_exact_refuted :
  exists r slot f f',
    kr_ok r = true /\ kamino_pyth r slot f = Ok f' /\ 0 <= k_total_exact r /\ 0 <= py_price f /\
    k_total_supply r = Ok (k_total_exact r) /\
    py_price f' * (kr_col_supply r * ONE) > py_price f * k_total_exact r /\
    py_price f' = 2000001184239 /\ py_price f = 1000000000000 /\
    k_total_exact r = 6 * ONE /\ kr_col_supply r = 3.
Proof.
  exists refute_reserve, 10, refute_feed, (mkPyth 2000001184239 2000001184239 10 10).
  vm_compute. repeat split; congruence.
Qed.

(* stale venue -> the adapter arm fails with the venue's stale error *)
Lemma stale_rejected :
  (forall r slot, kr_slot r < slot ->
     (forall f, kamino_pyth r slot f = Err (E E_ReserveStale)) /\
     (forall f, kamino_swb r slot f = Err (E E_ReserveStale))) /\
  (forall r slot, sr_slot r < slot ->
     (forall f, solend_pyth r slot f = Err (E E_SolendReserveStale)) /\
     (forall f, solend_swb r slot f = Err (E E_SolendReserveStale))) /\
  (forall m now, 0 <= dm_last_ts m <= U64_MAX -> 0 <= now -> (dm_last_ts m < now \/ 2^63 <= dm_last_ts m) ->
     (forall f, drift_pyth m now f = Err (E E_DriftSpotMarketStale)) /\
     (forall f, drift_swb m now f = Err (E E_DriftSpotMarketStale))).
Proof.
  split; [|split].
  - intros r slot H. unfold kamino_pyth, kamino_swb, k_is_stale. replace (kr_slot r <? slot) with true by lia. auto.
  - intros r slot H. unfold solend_pyth, solend_swb, s_is_stale. replace (sr_slot r <? slot) with true by lia. auto.
  - intros m now Hts Hnow H.
    assert (Es : d_is_stale m now = true).
    { destruct (d_is_stale m now) eqn:E; [reflexivity|].
      apply (proj2 (proj2 stale_predicates) m now Hts Hnow) in E. lia. }
    unfold drift_pyth, drift_swb. rewrite Es. auto.
Qed.

(* Drift arms: every adjusted value is the exact floor of value * cumulative_interest / 10^10 *)
Lemma in_dadj_i128 : In d_adjust_i128 d_adjusters. Proof. left; reflexivity. Qed.
Lemma in_dadj_i64 : In d_adjust_i64 d_adjusters. Proof. right; left; reflexivity. Qed.
Lemma in_dadj_u64 : In d_adjust_u64 d_adjusters. Proof. right; right; left; reflexivity. Qed.

Lemma drift_arm_ok m now pairs : drift_arm m now pairs ->
  d_is_stale m now = false /\
  Forall (fun pp => snd pp = fst pp * dm_cum_interest m / 10 ^ 10 /\
                    snd pp * 10 ^ 10 <= fst pp * dm_cum_interest m) pairs.
Proof.
  assert (K : forall adj raw v, In adj d_adjusters -> adj m raw = Ok v ->
              v = raw * dm_cum_interest m / 10 ^ 10 /\ v * 10 ^ 10 <= raw * dm_cum_interest m).
  { intros adj raw v Hin H. split; [apply (d_adjust_exact _ _ _ _ Hin H) | apply (proj1 (d_adjust_le_mono adj Hin) _ _ _ H)]. }
  intros [(f & f' & H & ->)|(f & f' & H & ->)].
  - unfold drift_pyth in H. destruct (d_is_stale m now); [discriminate|]. split; [reflexivity|].
    apply xbind_inv in H as (p & Hp & H). apply xbind_inv in H as (e & He & H).
    apply xbind_inv in H as (c & Hc & H). apply xbind_inv in H as (ec & Hec & H).
    apply Ok_inj in H. subst f'. unfold pyth_pairs. cbn [py_price py_ema py_conf py_ema_conf].
    apply Forall_cons; [|apply Forall_cons; [|apply Forall_cons; [|apply Forall_cons; [|apply Forall_nil]]]]; cbn [fst snd].
    + apply (K d_adjust_i64); auto using in_dadj_i64.
    + apply (K d_adjust_i64); auto using in_dadj_i64.
    + apply (K d_adjust_u64); auto using in_dadj_u64.
    + apply (K d_adjust_u64); auto using in_dadj_u64.
  - unfold drift_swb in H. destruct (d_is_stale m now); [discriminate|]. split; [reflexivity|].
    apply xbind_inv in H as (v & Hv & H). apply xbind_inv in H as (s & Hs & H).
    apply Ok_inj in H. subst f'. unfold swb_pairs. cbn [sw_value sw_std_dev].
    apply Forall_cons; [|apply Forall_cons; [|apply Forall_nil]]; cbn [fst snd].
    + apply (K d_adjust_i128); auto using in_dadj_i128.
    + apply (K d_adjust_i128); auto using in_dadj_i128.
Qed.
(* ------------------------------------------------------------------------------------------ *)
(* convert_decimals, scale_drift_deposit_limit: closed forms                                   *)

Lemma cmul_pow10 n k : 0 <= k -> cmul n (10 ^ k * ONE) = chko in_i128 (n * 10 ^ k).
Proof.
  intros Hk. unfold cmul, mul_raw. replace (n * (10 ^ k * ONE)) with (n * 10 ^ k * ONE) by ring.
  rewrite Z.div_mul by (pose proof ONE_pos; lia). reflexivity.
Qed.

Lemma cdiv_pow10 n k : 0 <= k -> cdiv n (10 ^ k * ONE) = chko in_i128 (Z.quot n (10 ^ k)).
Proof.
  intros Hk. pose proof (pow10_pos k Hk). pose proof ONE_pos. unfold cdiv, div_raw.
  replace (10 ^ k * ONE =? 0) with false by lia. rewrite Z.quot_mul_cancel_r by lia. reflexivity.
Qed.

Lemma convert_decimals_spec n f t :
  convert_decimals n f t =
    if f =? t then Ok n else
    if Z.abs (t - f) >? 23 then Err ENone else
    if t - f >? 0 then (if in_i128 (n * 10 ^ (t - f)) then Ok (n * 10 ^ (t - f)) else Err ENone)
    else (if in_i128 (Z.quot n (10 ^ (f - t))) then Ok (Z.quot n (10 ^ (f - t))) else Err ENone).
Proof.
  unfold convert_decimals. destruct (f =? t) eqn:E1; [reflexivity|].
  destruct (Z.abs (t - f) >? 23) eqn:E2; [reflexivity|].
  rewrite exp10_get_ok by lia. cbn [bind].
  destruct (t - f >? 0) eqn:E3.
  - rewrite (Z.abs_eq (t - f)) by lia. rewrite cmul_pow10 by lia. apply chko_eq.
  - replace (Z.abs (t - f)) with (f - t) by lia. rewrite cdiv_pow10 by lia. apply chko_eq.
Qed.

Lemma drift_fx_table k : (k < 24)%nat -> nth_error DRIFT_EXP_10_I80F48 k = Some (10 ^ Z.of_nat k * ONE).
Proof. intros H. do 24 (destruct k as [|k]; [reflexivity|]). lia. Qed.

Lemma drift_fx_table_none k : (24 <= k)%nat -> nth_error DRIFT_EXP_10_I80F48 k = None.
Proof. intros H. apply nth_error_None. change (length DRIFT_EXP_10_I80F48) with 24%nat. lia. Qed.

(* deposit_limit : u64, mint_decimals : u8 *)
Lemma scale_drift_deposit_limit_spec limit dec :
  0 <= limit <= U64_MAX -> 0 <= dec <= 255 ->
  scale_drift_deposit_limit limit dec =
    if dec =? 9 then Ok (limit * ONE) else
    if dec <? 9 then
      (if in_i128 (limit * ONE * 10 ^ (9 - dec)) then Ok (limit * ONE * 10 ^ (9 - dec)) else Err (E E_Drift_MathError))
    else if dec - 9 <? 24 then Ok (limit * ONE / 10 ^ (dec - 9))
    else Err EPanic.
Proof.
  intros Hl Hd. unfold scale_drift_deposit_limit, of_int. change DRIFT_SCALED_BALANCE_DECIMALS with 9.
  destruct (dec =? 9) eqn:E1; [reflexivity|]. destruct (dec <? 9) eqn:E2.
  - unfold drift_exp10_fx_index. rewrite drift_fx_table by lia. rewrite Z2Nat.id by lia. cbn [bind].
    rewrite cmul_pow10 by lia. rewrite chko_eq. destruct (in_i128 _); reflexivity.
  - unfold drift_exp10_fx_index. destruct (dec - 9 <? 24) eqn:E3.
    + rewrite drift_fx_table by lia. rewrite Z2Nat.id by lia. cbn [bind].
      rewrite cdiv_pow10 by lia. pose proof (pow10_pos (dec - 9) ltac:(lia)). pose proof ONE_pos.
      rewrite Z.quot_div_nonneg by lia.
      rewrite chko_ok; [reflexivity|]. apply in_i128_iff.
      assert (0 <= limit * ONE / 10 ^ (dec - 9)) by (apply Z.div_pos; lia).
      assert (limit * ONE / 10 ^ (dec - 9) <= limit * ONE) by (apply Z.div_le_upper_bound; nia).
      xconsts. lia.
    + rewrite drift_fx_table_none by lia. reflexivity.
Qed.
