(* ValueLemmas.v — C03 (no free value) and C17 (caps / utilisation) over the wrapper model. *)
Require Import Base Constants Fixed Curve Bank BankOps FixedLemmas BankLemmas.
From Coq Require Import ZifyBool.
Local Open Scope Z_scope.

(* exact net value of a position at the bank's share values, scale 2^96 *)
Definition pval (b : bank) (bl : balance) : Z := bl_a bl * b_asv b - bl_l bl * b_lsv b.

Lemma ashares_le b x : 0 <= x -> 0 <= b_asv b -> 0 <= ashares b x /\ ashares b x * b_asv b <= x * ONE.
Proof.
  intros Hx Ha. unfold ashares. destruct (b_asv b =? 0) eqn:E.
  - pose proof ONE_pos. nia.
  - assert (0 < b_asv b) by lia. pose proof ONE_pos.
    split; [apply Z.div_pos; nia|]. rewrite Z.mul_comm. apply Z.mul_div_le. lia.
Qed.
Lemma ashares_gt b x : 0 <= x -> 0 < b_asv b -> x * ONE - b_asv b < ashares b x * b_asv b.
Proof.
  intros Hx Ha. unfold ashares. replace (b_asv b =? 0) with false by lia.
  pose proof (Z.div_mod (x * ONE) (b_asv b) ltac:(lia)). pose proof (Z.mod_pos_bound (x * ONE) (b_asv b) Ha). nia.
Qed.
Lemma lshares_le b x : 0 <= x -> 0 < b_lsv b -> 0 <= lshares b x /\ lshares b x * b_lsv b <= x * ONE.
Proof.
  intros Hx Ha. unfold lshares. pose proof ONE_pos.
  split; [apply Z.div_pos; nia|]. rewrite Z.mul_comm. apply Z.mul_div_le. lia.
Qed.
Lemma lshares_gt b x : 0 <= x -> 0 < b_lsv b -> x * ONE - b_lsv b < lshares b x * b_lsv b.
Proof.
  intros Hx Ha. unfold lshares.
  pose proof (Z.div_mod (x * ONE) (b_lsv b) ltac:(lia)). pose proof (Z.mod_pos_bound (x * ONE) (b_lsv b) Ha). nia.
Qed.

Lemma amount_nonneg sh sv : 0 <= sh -> 0 <= sv -> 0 <= sh * sv / ONE.
Proof. intros. apply Z.div_pos; [nia | apply ONE_pos]. Qed.

(* ---- single operations ---- *)
(* deposit / repay: the position is credited at most what was paid in *)
Lemma increase_value b bl now delta t b' bl' :
  wf_sv b -> wf_bal bl -> 0 <= delta ->
  increase_balance b bl now delta t = Ok (b', bl') ->
  pval b' bl' - pval b bl <= delta * ONE /\ wf_bal bl' /\ 0 <= pval b' bl' - pval b bl.
Proof.
  intros Hsv Hbl Hd H. pose proof (increase_balance_inv _ _ _ _ _ _ _ Hsv Hbl Hd H) as F.
  destruct F as [Fa Fl _ _ [Fs1 Fs2] _ _ _ _ _]. destruct Hsv as [Hasv Hlsv]. destruct Hbl as [Hba Hbll].
  unfold pval. rewrite Fa, Fl, Fs1, Fs2.
  pose proof (amount_nonneg _ _ Hbll (Z.lt_le_incl _ _ Hlsv)) as Hcl.
  assert (Hai : 0 <= inc_a_inc b bl delta) by (unfold inc_a_inc; lia).
  assert (Hld : 0 <= inc_l_dec b bl delta) by (unfold inc_l_dec; lia).
  assert (Hsum : inc_a_inc b bl delta + inc_l_dec b bl delta = delta) by (unfold inc_a_inc, inc_l_dec; lia).
  pose proof (ashares_le b _ Hai Hasv) as [A0 A1]. pose proof (lshares_le b _ Hld Hlsv) as [L0 L1].
  (* the liability shares removed never exceed the shares held *)
  assert (Hle : lshares b (inc_l_dec b bl delta) <= bl_l bl).
  { unfold lshares. apply Z.div_le_upper_bound; [lia|].
    assert (inc_l_dec b bl delta <= bl_l bl * b_lsv b / ONE) by (unfold inc_l_dec; lia).
    pose proof (Z.mul_div_le (bl_l bl * b_lsv b) ONE ONE_pos). pose proof ONE_pos. nia. }
  repeat split; try nia; lia.
Qed.

(* withdraw / borrow: the position is debited at least what was paid out, minus one share-value ulp each side *)
Lemma decrease_value b bl now delta t b' bl' :
  wf_sv b -> wf_bal bl -> 0 <= delta ->
  decrease_balance b bl now delta t = Ok (b', bl') ->
  delta * ONE - b_asv b - b_lsv b < pval b bl - pval b' bl' /\ wf_bal bl'.
Proof.
  intros Hsv Hbl Hd H. pose proof (decrease_balance_inv _ _ _ _ _ _ _ Hsv Hbl Hd H) as F.
  destruct F as [Fa Fl _ _ [Fs1 Fs2] _ _ _ _ _]. destruct Hsv as [Hasv Hlsv]. destruct Hbl as [Hba Hbll].
  unfold pval. rewrite Fa, Fl, Fs1, Fs2.
  pose proof (amount_nonneg _ _ Hba Hasv) as Hca.
  assert (Had : 0 <= dec_a_dec b bl delta) by (unfold dec_a_dec; lia).
  assert (Hli : 0 <= dec_l_inc b bl delta) by (unfold dec_l_inc; lia).
  assert (Hsum : dec_a_dec b bl delta + dec_l_inc b bl delta = delta) by (unfold dec_a_dec, dec_l_inc; lia).
  pose proof (lshares_le b _ Hli Hlsv) as [L0 L1]. pose proof (lshares_gt b _ Hli Hlsv) as L2.
  pose proof (ashares_le b _ Had Hasv) as [A0 A1].
  assert (Hle : ashares b (dec_a_dec b bl delta) <= bl_a bl).
  { unfold ashares. destruct (b_asv b =? 0) eqn:E; [lia|]. apply Z.div_le_upper_bound; [lia|].
    assert (dec_a_dec b bl delta <= bl_a bl * b_asv b / ONE) by (unfold dec_a_dec; lia).
    pose proof (Z.mul_div_le (bl_a bl * b_asv b) ONE ONE_pos). pose proof ONE_pos. nia. }
  split; [| split; lia].
  destruct (Z.eq_dec (b_asv b) 0) as [E0|Ene].
  - (* worthless shares: asset amount is 0, nothing is withdrawn on the asset side *)
    assert (dec_a_dec b bl delta = 0).
    { unfold dec_a_dec. rewrite E0, Z.mul_0_r, Z.div_0_l by (pose proof ONE_pos; lia). lia. }
    rewrite E0 in *. nia.
  - pose proof (ashares_gt b _ Had ltac:(lia)) as A2. nia.
Qed.

(* full withdrawal: whole tokens out <= exact asset value; fraction goes to insurance fees *)
Lemma withdraw_all_value b bl now b' bl' n :
  wf_sv b -> wf_bal bl -> withdraw_all b bl now = Ok (b', bl', n) ->
  n * ONE * ONE <= bl_a bl * b_asv b /\
  n * ONE + (b_ins b' - b_ins b) = bl_a bl * b_asv b / ONE /\ 0 <= b_ins b' - b_ins b < ONE /\
  bl_l bl * b_lsv b < ZERO_AMOUNT_THRESHOLD * ONE /\ bl' = bal_empty.
Proof.
  intros Hsv Hbl H. pose proof (withdraw_all_inv _ _ _ _ _ _ Hsv Hbl H) as F.
  destruct F as [Fn Fd _ _ _ _ Fc _ Fl _ _]. destruct Hsv as [Hasv Hlsv]. destruct Hbl as [Hba Hbll].
  pose proof ONE_pos. set (x := bl_a bl * b_asv b / ONE) in *.
  pose proof (Z.div_mod x ONE ltac:(lia)). pose proof (Z.mod_pos_bound x ONE ltac:(lia)).
  pose proof (Z.mul_div_le (bl_a bl * b_asv b) ONE ltac:(lia)). fold x in H3.
  pose proof (Z.div_mod (bl_l bl * b_lsv b) ONE ltac:(lia)). pose proof (Z.mod_pos_bound (bl_l bl * b_lsv b) ONE ltac:(lia)).
  repeat split; try assumption; try nia; try lia.
Qed.

(* full repayment: whole tokens charged cover the debt (to within the one ulp lost computing the amount) *)
Lemma repay_all_value b bl now b' bl' n :
  wf_sv b -> wf_bal bl -> repay_all b bl now = Ok (b', bl', n) ->
  bl_l bl * b_lsv b - ONE < n * ONE * ONE /\
  n * ONE = bl_l bl * b_lsv b / ONE + (b_ins b' - b_ins b) /\ 0 <= b_ins b' - b_ins b < ONE /\ bl' = bal_empty.
Proof.
  intros Hsv Hbl H. pose proof (repay_all_inv _ _ _ _ _ _ Hsv Hbl H) as F.
  destruct F as [Fn Fd _ _ _ _ Fc _ _ _]. destruct Hsv as [Hasv Hlsv]. destruct Hbl as [Hba Hbll].
  pose proof ONE_pos. cbn zeta in Fn. set (x := bl_l bl * b_lsv b / ONE) in *.
  pose proof (Z.div_mod x ONE ltac:(lia)). pose proof (Z.mod_pos_bound x ONE ltac:(lia)).
  pose proof (Z.div_mod (bl_l bl * b_lsv b) ONE ltac:(lia)). pose proof (Z.mod_pos_bound (bl_l bl * b_lsv b) ONE ltac:(lia)).
  fold x in H3.
  destruct (x mod ONE =? 0) eqn:E; repeat split; try assumption; try nia; try lia.
Qed.

(* ---- any sequence of operations by one user at unchanged share values ---- *)
Definition uval (asv lsv : Z) (bl : balance) : Z := bl_a bl * asv - bl_l bl * lsv.

Lemma ustep_value asv lsv b bl now o bl' t :
  b_asv b = asv -> b_lsv b = lsv -> 0 <= asv -> 0 < lsv -> wf_bal bl -> uop_amount_ok o ->
  ustep b bl now o = Ok (bl', t) ->
  t * ONE * ONE + (uval asv lsv bl' - uval asv lsv bl) <= uslack asv lsv o /\ wf_bal bl'.
Proof.
  intros Ea El Hasv Hlsv Hbl Hamt H.
  assert (Hsv : wf_sv b) by (unfold wf_sv; lia).
  assert (Huv : forall x, uval asv lsv x = pval b x) by (intros; unfold uval, pval; rewrite Ea, El; reflexivity).
  pose proof ONE_pos as HO.
  destruct o as [n|n|n|n| |]; cbn [ustep uslack uop_amount_ok] in *;
    try (assert (Hn0 : 0 <= of_int n) by (unfold of_int; apply Z.mul_nonneg_nonneg; lia)).
  - apply bind_ok in H as ([b1 bl1] & H1 & H). apply pair_ok in H as [<- <-].
    pose proof (increase_value _ _ _ _ _ _ _ Hsv Hbl Hn0 H1) as (V1 & V2 & _).
    pose proof (increase_balance_inv _ _ _ _ _ _ _ Hsv Hbl Hn0 H1) as F.
    destruct F as [_ _ _ _ [Fs1 Fs2] _ _ _ _ _].
    split; [|assumption]. rewrite !Huv. unfold pval in *. rewrite Fs1, Fs2 in V1. unfold of_int in V1. lia.
  - apply bind_ok in H as ([b1 bl1] & H1 & H). apply pair_ok in H as [<- <-].
    pose proof (decrease_value _ _ _ _ _ _ _ Hsv Hbl Hn0 H1) as (V1 & V2).
    pose proof (decrease_balance_inv _ _ _ _ _ _ _ Hsv Hbl Hn0 H1) as F.
    destruct F as [_ _ _ _ [Fs1 Fs2] _ _ _ _ _].
    split; [|assumption]. rewrite !Huv. unfold pval in *. rewrite Fs1, Fs2 in V1. unfold of_int in V1. lia.
  - apply bind_ok in H as ([b1 bl1] & H1 & H). apply pair_ok in H as [<- <-].
    pose proof (decrease_value _ _ _ _ _ _ _ Hsv Hbl Hn0 H1) as (V1 & V2).
    pose proof (decrease_balance_inv _ _ _ _ _ _ _ Hsv Hbl Hn0 H1) as F.
    destruct F as [_ _ _ _ [Fs1 Fs2] _ _ _ _ _].
    split; [|assumption]. rewrite !Huv. unfold pval in *. rewrite Fs1, Fs2 in V1. unfold of_int in V1. lia.
  - apply bind_ok in H as ([b1 bl1] & H1 & H). apply pair_ok in H as [<- <-].
    pose proof (increase_value _ _ _ _ _ _ _ Hsv Hbl Hn0 H1) as (V1 & V2 & _).
    pose proof (increase_balance_inv _ _ _ _ _ _ _ Hsv Hbl Hn0 H1) as F.
    destruct F as [_ _ _ _ [Fs1 Fs2] _ _ _ _ _].
    split; [|assumption]. rewrite !Huv. unfold pval in *. rewrite Fs1, Fs2 in V1. unfold of_int in V1. lia.
  - apply bind_ok in H as ([[b1 bl1] n] & H1 & H). apply pair_ok in H as [<- <-].
    pose proof (withdraw_all_value _ _ _ _ _ _ Hsv Hbl H1) as (V1 & _ & _ & V4 & ->).
    split; [|unfold wf_bal, bal_empty; cbn; lia].
    subst asv lsv. unfold uval. cbn [bal_empty bl_a bl_l]. lia.
  - apply bind_ok in H as ([[b1 bl1] n] & H1 & H). apply pair_ok in H as [<- <-].
    pose proof (repay_all_value _ _ _ _ _ _ Hsv Hbl H1) as (V1 & _ & _ & ->).
    split; [|unfold wf_bal, bal_empty; cbn; lia].
    destruct Hbl as [Hba Hbll].
    subst asv lsv. unfold uval. cbn [bal_empty bl_a bl_l]. nia.
Qed.

Fixpoint uslack_sum (asv lsv : Z) (l : list (uop * bank * Z)) : Z :=
  match l with [] => 0 | (o, _, _) :: r => uslack asv lsv o + uslack_sum asv lsv r end.

Lemma urun_value asv lsv l : forall bl tok bl' tok',
  0 <= asv -> 0 < lsv -> wf_bal bl ->
  Forall (fun x => b_asv (snd (fst x)) = asv /\ b_lsv (snd (fst x)) = lsv /\ uop_amount_ok (fst (fst x))) l ->
  urun bl tok l = Ok (bl', tok') ->
  (tok' - tok) * ONE * ONE + (uval asv lsv bl' - uval asv lsv bl) <= uslack_sum asv lsv l.
Proof.
  induction l as [|[[o b] now] r IH]; intros bl tok bl' tok' Hasv Hlsv Hbl Hall H; cbn [urun uslack_sum] in *.
  - apply pair_ok in H as [<- <-]. lia.
  - apply Forall_cons_iff in Hall as [(Ea & El & Hamt) Hall']. cbn [fst snd] in *.
    apply bind_ok in H as ([bl1 t] & H1 & H).
    pose proof (ustep_value _ _ _ _ _ _ _ _ Ea El Hasv Hlsv Hbl Hamt H1) as [V1 V2].
    specialize (IH _ _ _ _ Hasv Hlsv V2 Hall' H). lia.
Qed.

(* ---------------------------------------------------------------- C17: caps and utilisation *)
(* `remaining_deposit_capacity` is safe: depositing any whole amount up to it never trips the cap *)
Lemma capacity_safe b c n :
  wf_sv b -> 0 <= b_tas b -> b_asset_tag b <> ASSET_TAG_DRIFT -> b_dep_limit b <> U64_MAX ->
  remaining_deposit_capacity b = Ok c -> 0 <= n <= c -> 0 < c ->
  change_asset_shares b (ashares b (of_int n)) false <> Err (E E_BankAssetCapacityExceeded).
Proof.
  intros [Hasv Hlsv] Htas Htag Hlim Hc Hn Hcpos.
  unfold remaining_deposit_capacity in Hc.
  unfold dep_limit_active in Hc. replace (b_dep_limit b =? U64_MAX) with false in Hc by lia. cbn [negb] in Hc.
  apply bind_ok in Hc as (cur & Hcur & Hc). apply get_asset_amount_inv in Hcur.
  unfold deposit_limit_fx in Hc. replace (b_asset_tag b =? ASSET_TAG_DRIFT) with false in Hc by lia.
  cbn [bind] in Hc. destruct (of_int (b_dep_limit b) <=? cur) eqn:E.
  { apply Ok_inj in Hc. lia. }
  apply bind_ok in Hc as (r1 & H1 & Hc). apply math_ok, csub_inv in H1 as [H1 _].
  apply bind_ok in Hc as (r2 & H2 & Hc). apply math_ok, csub_inv in H2 as [H2 _].
  apply bind_ok in Hc as (r3 & H3 & Hc). apply math_ok, cfloor_inv in H3.
  apply math_ok, to_u64_inv in Hc as [Hc _].
  pose proof ONE_pos as HO.
  (* n*ONE <= lim - cur - ONE *)
  assert (Hroom : of_int n <= of_int (b_dep_limit b) - cur - ONE).
  { subst c r3 r2 r1.
    assert (Q : (of_int (b_dep_limit b) - cur - ONE) / ONE * ONE / ONE = (of_int (b_dep_limit b) - cur - ONE) / ONE)
      by (apply Z.div_mul; lia).
    rewrite Q in Hn.
    pose proof (Z.mul_div_le (of_int (b_dep_limit b) - cur - ONE) ONE HO). unfold of_int in *. nia. }
  unfold change_asset_shares.
  set (sh := ashares b (of_int n)).
  assert (Hn0 : 0 <= of_int n) by (unfold of_int; nia).
  pose proof (ashares_le b _ Hn0 Hasv) as [S0 S1]. fold sh in S0, S1.
  destruct (math (cadd (b_tas b) sh)) as [tas'|e] eqn:Eadd; cbn [bind].
  2: { unfold math, ok_or, cadd, chko in Eadd. destruct (in_i128 (b_tas b + sh)); [discriminate|].
       inversion Eadd; subst. unfold EMath. intros Hbad.
       inversion Hbad as [Hcode]; try (revert Hcode; unfold E_MathError, E_BankAssetCapacityExceeded; discriminate). }
  apply math_ok, cadd_inv in Eadd as [-> _].
  destruct ((0 <? sh) && dep_limit_active (set_b_tas (b_tas b + sh) b) && negb false) eqn:G; [|discriminate].
  unfold get_asset_amount, deposit_limit_fx. cbn [set_b_tas b_asv b_asset_tag b_dep_limit b_tas].
  replace (b_asset_tag b =? ASSET_TAG_DRIFT) with false by lia.
  destruct (math (cmul (b_tas b + sh) (b_asv b))) as [tot|e] eqn:Emul; cbn [bind].
  2: { unfold math, ok_or, cmul, chko in Emul. destruct (in_i128 _); [discriminate|].
       inversion Emul; subst. unfold EMath. intros Hbad.
       inversion Hbad as [Hcode]; try (revert Hcode; unfold E_MathError, E_BankAssetCapacityExceeded; discriminate). }
  apply math_ok, cmul_inv in Emul as [-> _].
  replace (of_int (b_dep_limit b) <=? (b_tas b + sh) * b_asv b / ONE) with false; [discriminate|].
  symmetry. apply Z.leb_gt.
  (* (tas+sh)*asv/ONE <= tas*asv/ONE + n*ONE + 1 *)
  assert ((b_tas b + sh) * b_asv b / ONE <= cur + of_int n).
  { subst cur. rewrite <- Z.div_add by lia. apply Z.div_le_mono; [lia|]. nia. }
  lia.
Qed.

(* C17 statements assembled from the inversion facts *)
Lemma deposit_under_cap b bl now delta t b' bl' :
  wf_sv b -> wf_bal bl -> 0 <= delta -> t <> IncBypassDepositLimit ->
  increase_balance b bl now delta t = Ok (b', bl') ->
  0 < ashares b (inc_a_inc b bl delta) -> b_dep_limit b <> U64_MAX -> b_asset_tag b <> ASSET_TAG_DRIFT ->
  b_tas b' * b_asv b' / ONE < of_int (b_dep_limit b').
Proof.
  intros Hsv Hbl Hd Ht H. pose proof (increase_balance_inv _ _ _ _ _ _ _ Hsv Hbl Hd H) as F.
  destruct F as [_ _ _ _ _ _ _ _ _ Fcap]. destruct t; try contradiction; exact Fcap.
Qed.

Lemma borrow_under_cap_and_utilisation b bl now delta t b' bl' :
  wf_sv b -> wf_bal bl -> 0 <= delta -> t <> DecBypassBorrowLimit ->
  decrease_balance b bl now delta t = Ok (b', bl') ->
  (0 < lshares b (dec_l_inc b bl delta) -> b_bor_limit b <> U64_MAX ->
     b_tls b' * b_lsv b' / ONE < of_int (b_bor_limit b')) /\
  b_tls b' * b_lsv b' / ONE <= b_tas b' * b_asv b' / ONE.
Proof.
  intros Hsv Hbl Hd Ht H. pose proof (decrease_balance_inv _ _ _ _ _ _ _ Hsv Hbl Hd H) as F.
  destruct F as [_ _ _ _ _ _ _ _ _ Fcap]. destruct t; try contradiction; exact Fcap.
Qed.

Lemma withdraw_all_utilisation b bl now b' bl' n :
  wf_sv b -> wf_bal bl -> withdraw_all b bl now = Ok (b', bl', n) ->
  b_tls b' * b_lsv b' / ONE <= b_tas b' * b_asv b' / ONE.
Proof. intros Hsv Hbl H. exact (wa_util _ _ _ _ _ (withdraw_all_inv _ _ _ _ _ _ Hsv Hbl H)). Qed.
