(* AnchorSemLemmas.v — what acceptance by the account-validation phase (AnchorSem.accepts) implies, field by
   field and constraint by constraint; the signer rule; soundness of the per-class checkers of Spec.v.
   All statements are for every world, binding, signer set, every `pda` function and every interpretation of
   the uninterpreted constraints. *)
Require Import Base Constants Panic AnchorTypes AnchorSem Gate AccountsTable HandlerFacts Spec.
From Coq Require Import ZifyBool.
Local Open Scope string_scope.
Local Open Scope Z_scope.

(* ---------------------------------------------------------------------------------------------
   basics *)
Lemma seqb_eq a b : seqb a b = true <-> a = b.
Proof. unfold seqb. apply String.eqb_eq. Qed.

Lemma seqb_refl a : seqb a a = true.
Proof. apply seqb_eq. reflexivity. Qed.

Lemma opt_key_eqb_true a b : opt_key_eqb a b = true -> exists k, a = Some k /\ b = Some k.
Proof.
  destruct a as [x|], b as [y|]; cbn; try discriminate.
  intros H. exists x. split; [reflexivity|]. f_equal. symmetry. apply Z.eqb_eq. exact H.
Qed.

Lemma zmem_In k l : zmem k l = true <-> In k l.
Proof.
  induction l as [|x l IH]; cbn; [split; [discriminate|tauto]|].
  rewrite Bool.orb_true_iff, IH, Z.eqb_eq. split; intros [H|H]; auto.
Qed.

Lemma smem_In k l : smem k l = true <-> In k l.
Proof.
  induction l as [|x l IH]; cbn; [split; [discriminate|tauto]|].
  rewrite Bool.orb_true_iff, IH, seqb_eq. split; intros [H|H]; auto.
Qed.

Lemma find_field_some name l f : find_field name l = Some f -> In f l /\ f_name f = name.
Proof.
  induction l as [|x l IH]; cbn; [discriminate|].
  destruct (seqb name (f_name x)) eqn:E.
  - intros H. inversion H; subst. apply seqb_eq in E. auto.
  - intros H. destruct (IH H). auto.
Qed.

Lemma find_entry_some name t e : find_entry name t = Some e -> In e t /\ e_ix e = name.
Proof.
  induction t as [|x l IH]; cbn; [discriminate|].
  destruct (seqb name (e_ix x)) eqn:E.
  - intros H. inversion H; subst. apply seqb_eq in E. auto.
  - intros H. destruct (IH H). auto.
Qed.

Lemma sassoc_In {A} k (l : list (string * A)) v : sassoc k l = Some v -> In (k, v) l.
Proof.
  induction l as [|[k' v'] l IH]; cbn; [discriminate|].
  destruct (seqb k k') eqn:E.
  - intros H. inversion H; subst. apply seqb_eq in E. subst. auto.
  - auto.
Qed.

Lemma plain_spec f : plain f = true -> f_opt f = false /\ f_init f = false.
Proof. unfold plain. rewrite Bool.andb_true_iff, !Bool.negb_true_iff. tauto. Qed.

(* ---------------------------------------------------------------------------------------------
   the signer rule (state/marginfi_account.rs) *)
Definition frozen (flags : Z) : bool := acct_get_flag flags 64.
Definition in_receivership (flags : Z) : bool := acct_get_flag flags 16.

(* The conjunction of the two constraints every user instruction carries, as the three lines of the
   property: inside a receivership (only where allowed) anyone but the authority of a frozen account;
   otherwise a frozen account only by the group admin (who is not its authority); otherwise only the authority. *)
Lemma signer_rule flags au ad s allow :
  is_signer_authorized flags au ad s allow && account_not_frozen_for_authority flags au s = true <->
  (allow = true /\ in_receivership flags = true /\ ~ (frozen flags = true /\ s = au)) \/
  (~ (allow = true /\ in_receivership flags = true) /\ frozen flags = true /\ s = ad /\ s <> au) \/
  (~ (allow = true /\ in_receivership flags = true) /\ frozen flags = false /\ s = au).
Proof.
  unfold is_signer_authorized, account_not_frozen_for_authority, frozen, in_receivership, FL_RECEIVERSHIP, FL_FROZEN.
  destruct allow, (acct_get_flag flags 16), (acct_get_flag flags 64); cbn [andb negb];
    destruct (Z.eqb_spec au s), (Z.eqb_spec ad s); cbn [andb negb]; split; intros H;
    try discriminate; try reflexivity; try (exfalso; intuition congruence); intuition (try congruence; try lia).
Qed.

(* what the property text literally says *)
Lemma signer_rule_weak flags au ad s allow :
  is_signer_authorized flags au ad s allow = true ->
  account_not_frozen_for_authority flags au s = true ->
  s = au \/ (frozen flags = true /\ s = ad) \/ (allow = true /\ in_receivership flags = true).
Proof.
  intros H1 H2.
  assert (H : is_signer_authorized flags au ad s allow && account_not_frozen_for_authority flags au s = true)
    by (rewrite H1, H2; reflexivity).
  apply signer_rule in H. intuition.
Qed.

(* ---------------------------------------------------------------------------------------------
   acceptance, unfolded *)
Section Acc.
Context (pda : key -> list seed_val -> key).
Context (opq : string -> world -> binding -> bool).

Notation accepts := (accepts pda opq).
Notation checks := (checks pda opq).

Lemma accepts_all e w b sg : accepts e w b sg = true -> forall c, In c (checks e w b sg) -> vcheck_ok c = true.
Proof. unfold AnchorSem.accepts. intros H. apply forallb_forall. exact H. Qed.

Lemma in_phase1 e w b sg f c : In f (e_fields e) -> In c (phase1_field w b sg f) -> In c (checks e w b sg).
Proof.
  intros Hf Hc. unfold AnchorSem.checks. apply in_or_app. left. apply in_flat_map. exists f. auto.
Qed.

Lemma in_phase3 e w b sg f c : In f (e_fields e) -> In c (phase3_field pda opq w b f) -> In c (checks e w b sg).
Proof.
  intros Hf Hc. unfold AnchorSem.checks. apply in_or_app. right. apply in_or_app. right.
  apply in_flat_map. exists f. auto.
Qed.

(* every field of an accepted instruction is bound to a key *)
Lemma accepts_bound e w b sg f :
  accepts e w b sg = true -> In f (e_fields e) -> exists k, bkey b (f_name f) = Some k.
Proof.
  intros Ha Hf. destruct (bkey b (f_name f)) as [k|] eqn:E; [eauto|exfalso].
  assert (Hc : In (f_name f, A_AccountNotEnoughKeys, false) (phase1_field w b sg f)).
  { unfold phase1_field. rewrite E. destruct (f_init f); left; reflexivity. }
  pose proof (accepts_all e w b sg Ha _ (in_phase1 e w b sg f _ Hf Hc)) as H. discriminate H.
Qed.

Lemma absent_plain f k : f_opt f = false -> absent f k = false.
Proof. unfold absent. intros ->. reflexivity. Qed.

(* wrapper checks of a present non-init field *)
Lemma accepts_deser e w b sg f k :
  accepts e w b sg = true -> In f (e_fields e) -> f_init f = false -> f_opt f = false ->
  bkey b (f_name f) = Some k ->
  forall cb, In cb (deser_checks w sg f k) -> snd cb = true.
Proof.
  intros Ha Hf Hi Ho Hk cb Hcb.
  assert (Hc : In (f_name f, fst cb, snd cb) (phase1_field w b sg f)).
  { unfold phase1_field. rewrite Hi, Hk, (absent_plain f k Ho). unfold name_checks.
    apply in_map_iff. exists cb. auto. }
  exact (accepts_all e w b sg Ha _ (in_phase1 e w b sg f _ Hf Hc)).
Qed.

Definition typed (w : world) (k : key) (ty : string) : Prop :=
  Some (a_owner (acct_of w k)) = type_owner ty /\ a_disc (acct_of w k) = ty.

Lemma accepts_loader e w b sg f k ty :
  accepts e w b sg = true -> In f (e_fields e) -> f_init f = false -> f_opt f = false ->
  bkey b (f_name f) = Some k -> f_wrap f = WLoader ty -> typed w k ty.
Proof.
  intros Ha Hf Hi Ho Hk Hw.
  pose proof (accepts_deser e w b sg f k Ha Hf Hi Ho Hk) as H. unfold deser_checks in H. rewrite Hw in H.
  split.
  - specialize (H (A_AccountOwnedByWrongProgram, opt_key_eqb (Some (a_owner (acct_of w k))) (type_owner ty))).
    cbn [snd] in H. destruct (opt_key_eqb_true _ _ (H (or_introl eq_refl))) as [x [E1 E2]].
    rewrite E1, E2. reflexivity.
  - specialize (H (A_AccountDiscriminatorMismatch, seqb (a_disc (acct_of w k)) ty)). cbn [snd] in H.
    apply seqb_eq. apply H. right. right. left. reflexivity.
Qed.

Lemma accepts_signer e w b sg f k :
  accepts e w b sg = true -> In f (e_fields e) -> f_init f = false -> f_opt f = false ->
  bkey b (f_name f) = Some k -> f_wrap f = WSigner -> In k sg.
Proof.
  intros Ha Hf Hi Ho Hk Hw.
  pose proof (accepts_deser e w b sg f k Ha Hf Hi Ho Hk) as H. unfold deser_checks in H. rewrite Hw in H.
  apply zmem_In. exact (H (A_AccountNotSigner, zmem k sg) (or_introl eq_refl)).
Qed.

(* constraint group of a present non-init field: membership of each kind of check *)
Lemma phase3_unfold w b f k :
  f_init f = false -> f_opt f = false -> bkey b (f_name f) = Some k ->
  forall cb,
    In cb (seeds_check pda w b f k) \/
    In cb (map (fun h => (code_or (snd h) A_ConstraintHasOne,
                          opt_key_eqb (key_field (acct_of w k) (fst h)) (bkey b (fst h)))) (f_has_one f)) \/
    In cb (map (fun c => (code_or (snd c) A_ConstraintRaw, eval_cons opq w b (fst c))) (f_cons f)) ->
    In (f_name f, fst cb, snd cb) (phase3_field pda opq w b f).
Proof.
  intros Hi Ho Hk cb H. unfold phase3_field. rewrite Hi, Hk, (absent_plain f k Ho).
  apply in_or_app. left. unfold name_checks. apply in_map_iff. exists cb. split; [reflexivity|].
  destruct H as [H|[H|H]].
  - apply in_or_app. left. exact H.
  - apply in_or_app. right. apply in_or_app. right. apply in_or_app. right. apply in_or_app. left. exact H.
  - apply in_or_app. right. apply in_or_app. right. apply in_or_app. right. apply in_or_app. right.
    apply in_or_app. left. exact H.
Qed.

Lemma accepts_has_one e w b sg f k t err :
  accepts e w b sg = true -> In f (e_fields e) -> f_init f = false -> f_opt f = false ->
  bkey b (f_name f) = Some k -> In (t, err) (f_has_one f) ->
  exists kt, key_field (acct_of w k) t = Some kt /\ bkey b t = Some kt.
Proof.
  intros Ha Hf Hi Ho Hk Hh.
  set (cb := (code_or err A_ConstraintHasOne, opt_key_eqb (key_field (acct_of w k) t) (bkey b t))).
  assert (Hc : In (f_name f, fst cb, snd cb) (phase3_field pda opq w b f)).
  { apply (phase3_unfold w b f k Hi Ho Hk). right. left.
    apply in_map_iff. exists (t, err). split; [reflexivity|exact Hh]. }
  pose proof (accepts_all e w b sg Ha _ (in_phase3 e w b sg f _ Hf Hc)) as H.
  apply opt_key_eqb_true. exact H.
Qed.

Lemma accepts_cons e w b sg f k c err :
  accepts e w b sg = true -> In f (e_fields e) -> f_init f = false -> f_opt f = false ->
  bkey b (f_name f) = Some k -> In (c, err) (f_cons f) -> eval_cons opq w b c = true.
Proof.
  intros Ha Hf Hi Ho Hk Hc0.
  set (cb := (code_or err A_ConstraintRaw, eval_cons opq w b c)).
  assert (Hc : In (f_name f, fst cb, snd cb) (phase3_field pda opq w b f)).
  { apply (phase3_unfold w b f k Hi Ho Hk). right. right.
    apply in_map_iff. exists (c, err). split; [reflexivity|exact Hc0]. }
  exact (accepts_all e w b sg Ha _ (in_phase3 e w b sg f _ Hf Hc)).
Qed.

(* seeds of a non-init field, and of an init field (phase 2) *)
Lemma accepts_seeds e w b sg f k sl :
  accepts e w b sg = true -> In f (e_fields e) -> f_opt f = false ->
  bkey b (f_name f) = Some k -> f_seeds f = Some (sl, None) ->
  exists vs, eval_seeds w b sl = Some vs /\ k = pda PROG_MARGINFI vs.
Proof.
  intros Ha Hf Ho Hk Hs.
  set (ok := match eval_seeds w b sl with Some vs => k =? pda PROG_MARGINFI vs | None => false end).
  assert (Hsc : In (A_ConstraintSeeds, ok) (seeds_check pda w b f k)).
  { unfold seeds_check. rewrite Hs. left. reflexivity. }
  assert (Hin : In (f_name f, A_ConstraintSeeds, ok) (checks e w b sg)).
  { destruct (f_init f) eqn:Hi.
    - unfold AnchorSem.checks. apply in_or_app. right. apply in_or_app. left.
      apply in_flat_map. exists f. split; [exact Hf|].
      unfold phase2_field. rewrite Hi, Hk, (absent_plain f k Ho). unfold name_checks.
      apply in_map_iff. exists (A_ConstraintSeeds, ok). split; [reflexivity|]. apply in_or_app. left. exact Hsc.
    - apply (in_phase3 e w b sg f _ Hf).
      apply (phase3_unfold w b f k Hi Ho Hk (A_ConstraintSeeds, ok)). left. exact Hsc. }
  pose proof (accepts_all e w b sg Ha _ Hin) as H. cbn in H. unfold ok in H.
  destruct (eval_seeds w b sl) as [vs|]; [|discriminate].
  exists vs. split; [reflexivity|]. apply Z.eqb_eq. exact H.
Qed.

(* find_field + plain: the usual preamble *)
Lemma with_field_some e name P :
  with_field e name P = true -> exists f, In f (e_fields e) /\ f_name f = name /\ P f = true.
Proof.
  unfold with_field. destruct (find_field name (e_fields e)) as [f|] eqn:E; [|discriminate].
  intros H. destruct (find_field_some _ _ _ E). eauto.
Qed.

Lemma has_one_of_In f t : has_one_of f t = true -> exists err, In (t, err) (f_has_one f).
Proof.
  unfold has_one_of. intros H. apply existsb_exists in H. destruct H as [[t' err] [Hin Heq]].
  cbn in Heq. apply seqb_eq in Heq. subst. eauto.
Qed.

Lemma has_cons_In P f : has_cons P f = true -> exists c err, In (c, err) (f_cons f) /\ P c = true.
Proof.
  unfold has_cons. intros H. apply existsb_exists in H. destruct H as [[c err] [Hin Hp]]. eauto.
Qed.

Lemma wrap_is_loader_eq ty f : wrap_is_loader ty f = true -> f_wrap f = WLoader ty.
Proof.
  unfold wrap_is_loader. destruct (f_wrap f); try discriminate. intros H. apply seqb_eq in H. subst. reflexivity.
Qed.

Lemma wrap_is_signer_eq f : wrap_is_signer f = true -> f_wrap f = WSigner.
Proof. unfold wrap_is_signer. destruct (f_wrap f); try discriminate. reflexivity. Qed.

(* a declared signer field: bound, and its key signs *)
Lemma signer_field_sound e w b sg signer :
  check_signer_field e signer = true -> accepts e w b sg = true ->
  exists ks, bkey b signer = Some ks /\ In ks sg.
Proof.
  intros Hc Ha. apply with_field_some in Hc. destruct Hc as [f [Hf [Hn Hp]]].
  apply Bool.andb_true_iff in Hp. destruct Hp as [Hw Hpl]. apply plain_spec in Hpl. destruct Hpl as [Ho Hi].
  destruct (accepts_bound e w b sg f Ha Hf) as [ks Hk]. exists ks. rewrite <- Hn. split; [exact Hk|].
  exact (accepts_signer e w b sg f ks Ha Hf Hi Ho Hk (wrap_is_signer_eq f Hw)).
Qed.

(* a declared loader field: bound and typed *)
Lemma loader_field_sound e w b sg name ty (P : field -> bool) :
  with_field e name (fun f => wrap_is_loader ty f && plain f && P f) = true -> accepts e w b sg = true ->
  exists f k, In f (e_fields e) /\ f_name f = name /\ f_init f = false /\ f_opt f = false /\
              bkey b name = Some k /\ typed w k ty /\ P f = true.
Proof.
  intros Hc Ha. apply with_field_some in Hc. destruct Hc as [f [Hf [Hn Hp]]].
  apply Bool.andb_true_iff in Hp. destruct Hp as [Hp HP].
  apply Bool.andb_true_iff in Hp. destruct Hp as [Hw Hpl]. apply plain_spec in Hpl. destruct Hpl as [Ho Hi].
  destruct (accepts_bound e w b sg f Ha Hf) as [k Hk].
  exists f, k. rewrite <- Hn. repeat split; auto.
  - exact (proj1 (accepts_loader e w b sg f k ty Ha Hf Hi Ho Hk (wrap_is_loader_eq ty f Hw))).
  - exact (proj2 (accepts_loader e w b sg f k ty Ha Hf Hi Ho Hk (wrap_is_loader_eq ty f Hw))).
Qed.

Lemma bound_acct_eq w b name k : bkey b name = Some k -> bound_acct w b name = acct_of w k.
Proof. unfold bound_acct. intros ->. reflexivity. Qed.

(* ---------------------------------------------------------------------------------------------
   class soundness *)

(* KUser *)
Definition user_rule (w : world) (b : binding) (sg : list key) (allow : bool) (acct signer grp : string) : Prop :=
  exists ka ks kg au ad,
    bkey b acct = Some ka /\ bkey b signer = Some ks /\ bkey b grp = Some kg /\
    In ks sg /\ typed w ka "MarginfiAccount" /\ typed w kg "MarginfiGroup" /\
    key_field (acct_of w ka) grp = Some kg /\      (* has_one = grp: the account's data field of that name *)
    key_field (acct_of w ka) "authority" = Some au /\ key_field (acct_of w kg) "admin" = Some ad /\
    is_signer_authorized (num_field (acct_of w ka) "account_flags") au ad ks allow = true /\
    account_not_frozen_for_authority (num_field (acct_of w ka) "account_flags") au ks = true.

Lemma check_user_sound e allow acct signer grp w b sg :
  check_user e allow acct signer grp = true -> accepts e w b sg = true -> user_rule w b sg allow acct signer grp.
Proof.
  unfold check_user. intros Hc Ha.
  apply Bool.andb_true_iff in Hc. destruct Hc as [Hc Hacct].
  apply Bool.andb_true_iff in Hc. destruct Hc as [Hsig Hgrp].
  destruct (signer_field_sound e w b sg signer Hsig Ha) as [ks [Hks Hin]].
  assert (Hg' : with_field e grp (fun f => wrap_is_loader "MarginfiGroup" f && plain f && true) = true).
  { unfold with_field in *. destruct (find_field grp (e_fields e)); [|discriminate]. rewrite Hgrp. reflexivity. }
  destruct (loader_field_sound e w b sg grp "MarginfiGroup" (fun _ => true) Hg' Ha)
    as [fg [kg [_ [_ [_ [_ [Hkg [Htg _]]]]]]]].
  assert (Ha' : with_field e acct (fun f => wrap_is_loader "MarginfiAccount" f && plain f &&
            (has_one_of f grp && has_cons (m_signer_auth acct grp signer allow) f && has_cons (m_not_frozen acct signer) f)) = true).
  { unfold with_field in *. destruct (find_field acct (e_fields e)); [|discriminate].
    rewrite !Bool.andb_assoc. exact Hacct. }
  destruct (loader_field_sound e w b sg acct "MarginfiAccount" _ Ha' Ha)
    as [fa [ka [Hfa [Hna [Hia [Hoa [Hka [Hta HP]]]]]]]].
  apply Bool.andb_true_iff in HP. destruct HP as [HP Hnf].
  apply Bool.andb_true_iff in HP. destruct HP as [Hho Hsa].
  rewrite <- Hna in Hka.
  destruct (has_one_of_In fa grp Hho) as [err Hh].
  destruct (accepts_has_one e w b sg fa ka grp err Ha Hfa Hia Hoa Hka Hh) as [kt [Hkf Hkb]].
  rewrite Hkg in Hkb. inversion Hkb; subst kt.
  destruct (has_cons_In _ fa Hsa) as [c1 [e1 [Hc1 Hm1]]].
  destruct (has_cons_In _ fa Hnf) as [c2 [e2 [Hc2 Hm2]]].
  pose proof (accepts_cons e w b sg fa ka c1 e1 Ha Hfa Hia Hoa Hka Hc1) as E1.
  pose proof (accepts_cons e w b sg fa ka c2 e2 Ha Hfa Hia Hoa Hka Hc2) as E2.
  destruct c1; try discriminate Hm1. destruct c2; try discriminate Hm2.
  cbn in Hm1, Hm2.
  repeat (apply Bool.andb_true_iff in Hm1; destruct Hm1 as [Hm1 ?]).
  apply Bool.andb_true_iff in Hm2. destruct Hm2 as [Hm2a Hm2b].
  apply seqb_eq in Hm1, H1, H0, Hm2a, Hm2b. apply Bool.eqb_prop in H. subst.
  cbn [eval_cons] in E1, E2.
  rewrite (bound_acct_eq w b _ ka Hka), (bound_acct_eq w b _ kg Hkg), Hks in E1.
  rewrite (bound_acct_eq w b _ ka Hka), Hks in E2.
  destruct (key_field (acct_of w ka) "authority") as [au|] eqn:Eau; [|discriminate].
  destruct (key_field (acct_of w kg) "admin") as [ad|] eqn:Ead; [|discriminate].
  exists ka, ks, kg, au, ad. repeat split; auto; try apply Hta; try apply Htg.
Qed.

(* KOwner *)
Definition owner_rule (w : world) (b : binding) (sg : list key) (acct signer : string) : Prop :=
  exists ka ks, bkey b acct = Some ka /\ bkey b signer = Some ks /\ In ks sg /\
                typed w ka "MarginfiAccount" /\ key_field (acct_of w ka) "authority" = Some ks.

Lemma check_owner_sound e acct signer w b sg :
  check_owner e acct signer = true -> accepts e w b sg = true -> owner_rule w b sg acct signer.
Proof.
  unfold check_owner. intros Hc Ha.
  apply Bool.andb_true_iff in Hc. destruct Hc as [Hc Hacct].
  apply Bool.andb_true_iff in Hc. destruct Hc as [Hsig Hname]. apply seqb_eq in Hname. subst signer.
  destruct (signer_field_sound e w b sg _ Hsig Ha) as [ks [Hks Hin]].
  destruct (loader_field_sound e w b sg acct "MarginfiAccount" _ Hacct Ha)
    as [fa [ka [Hfa [Hna [Hia [Hoa [Hka [Hta HP]]]]]]]].
  rewrite <- Hna in Hka.
  destruct (has_one_of_In fa _ HP) as [err Hh].
  destruct (accepts_has_one e w b sg fa ka _ err Ha Hfa Hia Hoa Hka Hh) as [kt [Hkf Hkb]].
  rewrite Hks in Hkb. inversion Hkb; subst kt. rewrite Hna in Hka.
  exists ka, ks. repeat split; auto; apply Hta.
Qed.

(* KAdmin with a single declared role *)
Definition admin_rule (w : world) (b : binding) (sg : list key) (r : role) (signer grp : string) : Prop :=
  exists ks kg, bkey b signer = Some ks /\ bkey b grp = Some kg /\ In ks sg /\
                typed w kg "MarginfiGroup" /\ key_field (acct_of w kg) (role_field r) = Some ks.

Lemma check_admin_decl_sound e r signer grp w b sg :
  check_admin_decl e r signer grp = true -> accepts e w b sg = true -> admin_rule w b sg r signer grp.
Proof.
  unfold check_admin_decl. intros Hc Ha.
  apply Bool.andb_true_iff in Hc. destruct Hc as [Hsig Hgrp].
  destruct (signer_field_sound e w b sg _ Hsig Ha) as [ks [Hks Hin]].
  destruct (loader_field_sound e w b sg grp "MarginfiGroup" _ Hgrp Ha)
    as [fg [kg [Hfg [Hng [Hig [Hog [Hkg [Htg HP]]]]]]]].
  exists ks, kg. repeat split; auto; try apply Htg.
  apply Bool.orb_true_iff in HP. destruct HP as [HP|HP].
  - apply Bool.andb_true_iff in HP. destruct HP as [Hname Hho]. apply seqb_eq in Hname.
    destruct (has_one_of_In fg _ Hho) as [err Hh].
    rewrite <- Hng in Hkg.
    destruct (accepts_has_one e w b sg fg kg _ err Ha Hfg Hig Hog Hkg Hh) as [kt [Hkf Hkb]].
    rewrite Hks in Hkb. inversion Hkb; subst kt. rewrite <- Hname. exact Hkf.
  - apply existsb_exists in HP. destruct HP as [f [Hf Hpf]].
    apply Bool.andb_true_iff in Hpf. destruct Hpf as [Hpl Hcs]. apply plain_spec in Hpl. destruct Hpl as [Ho Hi].
    destruct (has_cons_In _ f Hcs) as [c [err [Hc Hm]]].
    destruct (accepts_bound e w b sg f Ha Hf) as [kf Hkf].
    pose proof (accepts_cons e w b sg f kf c err Ha Hf Hi Ho Hkf Hc) as E.
    destruct c; try discriminate Hm. destruct a; try discriminate Hm. destruct b0; try discriminate Hm.
    cbn in Hm. apply Bool.andb_true_iff in Hm. destruct Hm as [Hm H3].
    apply Bool.andb_true_iff in Hm. destruct Hm as [H1 H2].
    apply seqb_eq in H1, H2, H3. subst.
    cbn [eval_cons eval_kexpr] in E. rewrite Hkg, Hks in E.
    destruct (opt_key_eqb_true _ _ E) as [x [E1 E2]]. inversion E2; subst x. exact E1.
Qed.

(* fee admin *)
Definition fee_admin_rule (w : world) (b : binding) (sg : list key) (signer : string) : Prop :=
  exists ks kf, bkey b signer = Some ks /\ bkey b "fee_state" = Some kf /\ In ks sg /\
                kf = pda PROG_MARGINFI [VStr "feestate"] /\
                typed w kf "FeeState" /\ key_field (acct_of w kf) "global_fee_admin" = Some ks.

Lemma seeds_are_eq f sl : seeds_are f sl = true ->
  (forall s, In s sl -> match s with SLit _ | SKeyOf _ => True | _ => False end) -> f_seeds f = Some (sl, None).
Proof.
  unfold seeds_are. destruct (f_seeds f) as [[sl' [p|]]|]; try discriminate.
  intros H _. f_equal. f_equal. revert sl H.
  induction sl' as [|x l IH]; intros [|y m] H; try reflexivity; try discriminate;
    try (destruct x; discriminate).
  destruct x, y; try discriminate; apply Bool.andb_true_iff in H; destruct H as [H1 H2];
    apply seqb_eq in H1; subst; f_equal; apply IH; exact H2.
Qed.

Lemma check_fee_admin_sound e signer w b sg :
  check_fee_admin e signer = true -> accepts e w b sg = true -> fee_admin_rule w b sg signer.
Proof.
  unfold check_fee_admin. intros Hc Ha.
  apply Bool.andb_true_iff in Hc. destruct Hc as [Hc Hfs].
  apply Bool.andb_true_iff in Hc. destruct Hc as [Hsig Hname]. apply seqb_eq in Hname. subst signer.
  destruct (signer_field_sound e w b sg _ Hsig Ha) as [ks [Hks Hin]].
  assert (Hfs' : with_field e "fee_state" (fun f => wrap_is_loader "FeeState" f && plain f &&
                   (has_one_of f "global_fee_admin" && seeds_are f FEESTATE_SEEDS)) = true).
  { unfold with_field in *. destruct (find_field "fee_state" (e_fields e)); [|discriminate].
    rewrite !Bool.andb_assoc. exact Hfs. }
  destruct (loader_field_sound e w b sg "fee_state" "FeeState" _ Hfs' Ha)
    as [ff [kf [Hff [Hnf [Hif [Hof [Hkf [Htf HP]]]]]]]].
  apply Bool.andb_true_iff in HP. destruct HP as [Hho Hse].
  rewrite <- Hnf in Hkf.
  destruct (has_one_of_In ff _ Hho) as [err Hh].
  destruct (accepts_has_one e w b sg ff kf _ err Ha Hff Hif Hof Hkf Hh) as [kt [Hk1 Hk2]].
  rewrite Hks in Hk2. inversion Hk2; subst kt.
  assert (Hs : f_seeds ff = Some (FEESTATE_SEEDS, None)).
  { apply seeds_are_eq; [exact Hse|]. intros s [<-|[]]. exact I. }
  destruct (accepts_seeds e w b sg ff kf _ Ha Hff Hof Hkf Hs) as [vs [Hvs Hpda]].
  cbn in Hvs. inversion Hvs; subst vs.
  rewrite Hnf in Hkf. exists ks, kf. repeat split; auto; apply Htf.
Qed.

End Acc.
