(* TxWorldLemmas.v — world-level proofs for the bracket protocols of model/Tx.v:
   per-handler summaries, the receivership / flash-loan invariants over `exec_from`, and the
   transaction-level theorems that props/C10.v and props/C11.v pin. *)
Require Import Base Fixed FixedLemmas Constants TxConstants Tx TxSpec TxLemmas.
From Coq Require Import ZifyBool.
Local Open Scope Z_scope.

Section W.
Context {BW PF : Type} (R : env BW PF).
Notation world := (world BW PF).
Notation acct := (acct PF).

(* ------------------------------------------------------------------------------------------ *)
(* observations of the bracket state of account k                                              *)
(* ------------------------------------------------------------------------------------------ *)
(* A step that is neither a start nor an end of any bracket. *)
Definition quiet (w w' : world) : Prop := forall k,
  (orc w' k = true -> orc w k = true) /\
  (orc w k = true -> orc w' k = true /\ ocache w' k = ocache w k /\ orv w' k = orv w k /\
                     w_accts w' k <> None) /\
  (ofl w' k = true <-> ofl w k = true) /\
  (odl w' k = true -> odl w k = true \/ exists k0, odl w k0 = true /\ orc w k0 = false) /\
  (orv w' k <> 0 -> orv w' k = orv w k) /\
  (ouc w' k = true -> ouc w k = true \/ ofl w k = true \/ exists k0, ouc w k0 = true /\ ofl w k0 = false).

Lemma quiet_refl w : quiet w w.
Proof.
  intros k. split; [auto|]. split.
  - intros H. repeat split; auto. unfold orc in H. destruct (w_accts w k); [discriminate|discriminate].
  - split; [tauto|]. split; [auto|]. split; auto.
Qed.

Lemma get_acct_ok (w : world) a A : get_acct w a = Ok A <-> w_accts w a = Some A.
Proof. unfold get_acct. destruct (w_accts w a); split; intros H; try discriminate; inversion H; reflexivity. Qed.

(* pointwise criterion: every account either keeps its bracket observations (ghost bit may be set
   only under IN_FLASHLOAN), or is untouched *)
Definition same_obs (o o' : option acct) : Prop :=
  match o, o' with
  | Some a, Some a' =>
      f_fl (a_fl a') = f_fl (a_fl a) /\ f_recv (a_fl a') = f_recv (a_fl a) /\ f_delev (a_fl a') = f_delev (a_fl a) /\
      a_recv a' = a_recv a /\ a_cache a' = a_cache a /\
      (a_unchk a' = true -> a_unchk a = true \/ f_fl (a_fl a) = true)
  | None, None => True
  | _, _ => False
  end.

Lemma same_obs_refl o : same_obs o o.
Proof. destruct o; cbn; auto. repeat split; auto. Qed.

Ltac qsplit := refine (conj _ (conj _ (conj _ (conj _ (conj _ _))))).
Ltac qtriv := try solve [ auto | tauto | discriminate | congruence
                        | intros; repeat split; auto; try discriminate; try congruence; try tauto ].

Lemma quiet_pointwise (w w' : world) :
  (forall k, same_obs (w_accts w k) (w_accts w' k)) -> quiet w w'.
Proof.
  intros H k. specialize (H k). unfold orc, ofl, odl, orv, ouc, ocache.
  destruct (w_accts w k) as [a|], (w_accts w' k) as [a'|]; cbn in H; try contradiction.
  - destruct H as (H1 & H2 & H3 & H4 & H5 & H6). rewrite H1, H2, H3, H4, H5. qsplit; qtriv.
  - qsplit; qtriv.
Qed.

Lemma accts_set (w : world) a A k :
  w_accts (set_acct w a A) k = if k =? a then Some A else w_accts w k.
Proof. reflexivity. Qed.

Lemma accts_set_bw (w : world) b k : w_accts (set_bw w b) k = w_accts w k.
Proof. reflexivity. Qed.

(* one account rewritten with the same bracket observations *)
Lemma quiet_set1 (w : world) b a A A' :
  w_accts w a = Some A -> same_obs (Some A) (Some A') -> quiet w (set_acct (set_bw w b) a A').
Proof.
  intros Ha Hs. apply quiet_pointwise. intros k. rewrite accts_set, accts_set_bw.
  destruct (Z.eqb_spec k a) as [->|N]; [rewrite Ha; exact Hs | apply same_obs_refl].
Qed.

Lemma same_obs_upd_pf (A : acct) p u :
  (u = true -> a_unchk A = true \/ f_fl (a_fl A) = true) -> same_obs (Some A) (Some (upd_pf A p u)).
Proof. intros H. cbn. repeat split; auto. Qed.

(* ------------------------------------------------------------------------------------------ *)
(* quiet handlers                                                                              *)
(* ------------------------------------------------------------------------------------------ *)

Lemma auth_checks_ok (w : world) A s b :
  auth_checks w A s b = Ok tt ->
  not_frozen_for_authority A s = true /\ signer_authorized A (w_admin w) s b = true.
Proof. unfold auth_checks. intros H. apply bind_check in H as [H1 H]. apply check_true in H. auto. Qed.

Lemma h_withdraw_quiet w a s bank m al w' : h_withdraw R w a s bank m al = Ok w' -> quiet w w'.
Proof.
  unfold h_withdraw. intros H. apply tx_bind_ok in H as (A & EA & H). apply get_acct_ok in EA.
  apply tx_bind_ok in H as ([] & _ & H). apply bind_check in H as [_ H]. apply bind_check in H as [_ H].
  apply tx_bind_ok in H as ([] & _ & H). apply tx_bind_ok in H as (r & _ & H).
  destruct (f_recv (a_fl A)) eqn:Er.
  - apply tx_Ok_inj in H; subst. eapply quiet_set1; [exact EA|]. apply same_obs_upd_pf. auto.
  - destruct (f_fl (a_fl A)) eqn:Ef.
    + apply tx_Ok_inj in H; subst. eapply quiet_set1; [exact EA|]. apply same_obs_upd_pf. auto.
    + apply tx_bind_ok in H as ([] & _ & H). apply tx_Ok_inj in H; subst.
      eapply quiet_set1; [exact EA|]. apply same_obs_upd_pf. discriminate.
Qed.

Lemma h_repay_quiet w a s bank m al w' : h_repay R w a s bank m al = Ok w' -> quiet w w'.
Proof.
  unfold h_repay. intros H. apply tx_bind_ok in H as (A & EA & H). apply get_acct_ok in EA.
  apply tx_bind_ok in H as ([] & _ & H). apply bind_check in H as [_ H].
  apply tx_bind_ok in H as (r & _ & H). apply tx_Ok_inj in H; subst.
  eapply quiet_set1; [exact EA|]. apply same_obs_upd_pf. auto.
Qed.

Lemma h_borrow_quiet w a s bank m w' : h_borrow R w a s bank m = Ok w' -> quiet w w'.
Proof.
  unfold h_borrow. intros H. apply tx_bind_ok in H as (A & EA & H). apply get_acct_ok in EA.
  apply tx_bind_ok in H as ([] & _ & H). apply bind_check in H as [_ H].
  apply tx_bind_ok in H as (r & _ & H). destruct (f_fl (a_fl A)) eqn:Ef.
  - apply tx_Ok_inj in H; subst. eapply quiet_set1; [exact EA|]. apply same_obs_upd_pf. auto.
  - apply tx_bind_ok in H as ([] & _ & H). apply tx_Ok_inj in H; subst.
    eapply quiet_set1; [exact EA|]. apply same_obs_upd_pf. discriminate.
Qed.

Lemma h_deposit_quiet w a s bank m w' : h_deposit R w a s bank m = Ok w' -> quiet w w'.
Proof.
  unfold h_deposit. intros H. apply tx_bind_ok in H as (A & EA & H). apply get_acct_ok in EA.
  apply tx_bind_ok in H as ([] & _ & H). apply bind_check in H as [_ H].
  apply tx_bind_ok in H as (r & _ & H). apply tx_Ok_inj in H; subst.
  eapply quiet_set1; [exact EA|]. apply same_obs_upd_pf. auto.
Qed.

Lemma set_bw_id (w : world) : set_bw w (w_bw w) = w.
Proof. destruct w; reflexivity. Qed.

Lemma h_init_record_quiet (w : world) a w' : h_init_record w a = Ok w' -> quiet w w'.
Proof.
  unfold h_init_record. intros H. apply tx_bind_ok in H as (A & EA & H). apply get_acct_ok in EA.
  apply bind_check in H as [_ H]. apply tx_Ok_inj in H; subst.
  rewrite <- (set_bw_id w) at 2. eapply quiet_set1; [exact EA|]. cbn. repeat split; auto.
Qed.

Lemma h_bankruptcy_quiet w a s bank w' : h_bankruptcy R w a s bank = Ok w' -> quiet w w'.
Proof.
  unfold h_bankruptcy. intros H. apply tx_bind_ok in H as (A & EA & H). apply get_acct_ok in EA.
  apply bind_check in H as [_ H]. apply bind_check in H as [_ H].
  apply tx_bind_ok in H as (r & _ & H). apply tx_Ok_inj in H; subst.
  eapply quiet_set1; [exact EA|]. cbn. repeat split; auto.
Qed.

Lemma h_liquidate_quiet w l s v ab lb m w' : h_liquidate R w l s v ab lb m = Ok w' -> quiet w w'.
Proof.
  unfold h_liquidate. intros H. apply tx_bind_ok in H as (L & EL & H). apply get_acct_ok in EL.
  apply tx_bind_ok in H as (V & EV & H). apply get_acct_ok in EV.
  apply bind_check in H as [_ H]. apply tx_bind_ok in H as ([] & _ & H).
  apply bind_check in H as [_ H]. apply bind_check in H as [_ H].
  apply tx_bind_ok in H as (r & _ & H). destruct r as [[bw' pl] pv].
  assert (Q : forall u, (u = true -> a_unchk L = true \/ f_fl (a_fl L) = true) ->
              quiet w (set_acct (set_acct (set_bw w bw') v (upd_pf V pv (a_unchk V))) l (upd_pf L pl u))).
  { intros u Hu. apply quiet_pointwise. intros k. rewrite !accts_set, accts_set_bw.
    destruct (Z.eqb_spec k l) as [->|N]; [rewrite EL; apply same_obs_upd_pf; exact Hu|].
    destruct (Z.eqb_spec k v) as [->|N2]; [rewrite EV; apply same_obs_upd_pf; auto | apply same_obs_refl]. }
  destruct (f_fl (a_fl L)) eqn:Ef.
  - apply tx_Ok_inj in H; subst. apply Q. auto.
  - apply tx_bind_ok in H as ([] & _ & H). apply tx_Ok_inj in H; subst. apply Q. discriminate.
Qed.

Lemma h_transfer_quiet w o n s na w' : h_transfer R w o n s na = Ok w' -> quiet w w'.
Proof.
  unfold h_transfer. intros H. apply tx_bind_ok in H as (A & EA & H). apply get_acct_ok in EA.
  apply bind_check in H as [En H]. apply tx_bind_ok in H as ([] & _ & H).
  apply bind_check in H as [Ef H]. apply bind_check in H as [Er H]. apply bind_check in H as [_ H].
  apply tx_Ok_inj in H; subst.
  destruct (w_accts w n) as [x|] eqn:Enn; [discriminate|].
  assert (No : n <> o) by (intros ->; congruence).
  apply negb_true_iff in Ef, Er.
  intros k. unfold orc, ofl, odl, orv, ouc, ocache. rewrite !accts_set.
  destruct (Z.eqb_spec k n) as [->|N].
  - (* the new account: a copy of the old one's flags *)
    rewrite Enn. cbn. rewrite Ef, Er. qsplit; qtriv.
    + intros D. right. exists o. unfold odl, orc. rewrite EA. auto.
    + intros U. right; right. exists o. unfold ouc, ofl. rewrite EA. auto.
  - destruct (Z.eqb_spec k o) as [->|N2].
    + rewrite EA. cbn. rewrite Ef, Er. qsplit; qtriv.
    + destruct (w_accts w k) as [x|]; qsplit; qtriv.
Qed.

Lemma apply_patch_quiet (w : world) p w' : apply_patch w p = Ok w' -> quiet w w'.
Proof.
  unfold apply_patch. destruct (w_accts w (p_key p)) as [a|] eqn:Ea.
  - destruct (p_close p).
    + intros H. apply bind_check in H as [C H]. apply tx_Ok_inj in H; subst.
      apply andb_prop in C as [C1 C2]. apply negb_true_iff in C1, C2.
      intros k. unfold orc, ofl, odl, orv, ouc, ocache. cbn [w_accts del_acct].
      destruct (Z.eqb_spec k (p_key p)) as [->|N].
      * rewrite Ea, C1, C2. qsplit; qtriv.
      * destruct (w_accts w k); qsplit; qtriv.
    + intros H. apply tx_Ok_inj in H; subst. rewrite <- (set_bw_id w) at 2.
      eapply quiet_set1; [exact Ea|]. cbn. repeat split; auto.
  - destruct (p_close p).
    + intros H. apply tx_Ok_inj in H; subst. apply quiet_refl.
    + intros H. apply tx_Ok_inj in H; subst.
      intros k. unfold orc, ofl, odl, orv, ouc, ocache. rewrite accts_set.
      destruct (Z.eqb_spec k (p_key p)) as [->|N].
      * rewrite Ea. cbn. qsplit; qtriv.
      * destruct (w_accts w k); qsplit; qtriv.
Qed.


Lemma quiet_trans (w1 w2 w3 : world) : quiet w1 w2 -> quiet w2 w3 -> quiet w1 w3.
Proof.
  intros Q1 Q2 k. destruct (Q1 k) as (A1 & A2 & A3 & A4 & A5 & A6). destruct (Q2 k) as (B1 & B2 & B3 & B4 & B5 & B6).
  qsplit.
  - auto.
  - intros H. destruct (A2 H) as (H1 & H2 & H3 & H4). destruct (B2 H1) as (G1 & G2 & G3 & G4).
    repeat split; auto; congruence.
  - tauto.
  - intros H. destruct (B4 H) as [H1 | (k0 & H1 & H2)]; [exact (A4 H1)|].
    destruct (Q1 k0) as (_ & C2 & _ & C4 & _). destruct (C4 H1) as [H3 | H3]; [|auto].
    right. exists k0. split; [exact H3|]. destruct (orc w1 k0) eqn:E; [|reflexivity].
    destruct (C2 eq_refl) as (H4 & _). congruence.
  - intros H. pose proof (B5 H) as E. rewrite E in H. rewrite E. exact (A5 H).
  - intros H. destruct (B6 H) as [H1 | [H1 | (k0 & H1 & H2)]].
    + exact (A6 H1).
    + right; left. tauto.
    + destruct (Q1 k0) as (_ & _ & C3 & _ & _ & C6).
      assert (F : ofl w1 k0 = false) by (destruct (ofl w1 k0) eqn:E; [|reflexivity]; destruct C3 as [_ C3]; rewrite C3 in H2; [discriminate|reflexivity]).
      destruct (C6 H1) as [H3 | [H3 | H3]]; [| congruence | auto].
      right; right. exists k0. auto.
Qed.

Lemma foldM_patch_quiet ps : forall (w w' : world), foldM apply_patch ps w = Ok w' -> quiet w w'.
Proof.
  induction ps as [|p ps IH]; intros w w' H; cbn in H.
  - apply tx_Ok_inj in H; subst. apply quiet_refl.
  - apply tx_bind_ok in H as (w1 & E & H). eapply quiet_trans; [eapply apply_patch_quiet; exact E | apply IH; exact H].
Qed.

Lemma quiet_set_bw (w : world) b : quiet w (set_bw w b).
Proof. apply quiet_pointwise. intros k. rewrite accts_set_bw. apply same_obs_refl. Qed.

Lemma h_other_quiet w d w' : h_other R w d = Ok w' -> quiet w w'.
Proof.
  unfold h_other. intros H. apply tx_bind_ok in H as (r & _ & H).
  eapply quiet_trans; [apply (quiet_set_bw w (fst r)) | eapply foldM_patch_quiet; exact H].
Qed.

(* ------------------------------------------------------------------------------------------ *)
(* bracket handlers                                                                            *)
(* ------------------------------------------------------------------------------------------ *)

Lemma h_start_ok K ixes cur cpi (w : world) a recv w' :
  h_start R K ixes cur cpi w a recv = Ok w' ->
  validate_instructions ixes cur cpi K = Ok tt /\
  exists A A', w_accts w a = Some A /\ w' = set_acct w a A' /\
    a_record A = true /\ f_recv (a_fl A) = false /\ f_fl (a_fl A) = false /\ f_disabled (a_fl A) = false /\
    f_recv (a_fl A') = true /\ f_fl (a_fl A') = false /\
    f_delev (a_fl A') = (if is_liq K then f_delev (a_fl A) else true) /\
    a_recv A' = recv /\ a_unchk A' = a_unchk A /\ a_pf A' = a_pf A /\ a_record A' = true /\
    start_cond R K (a_cache A') (w_bw w) (a_pf A) /\
    (K = KDelev -> recv = w_risk_admin w).
Proof.
  unfold h_start. intros H. apply tx_bind_ok in H as (A & EA & H). apply get_acct_ok in EA.
  apply bind_check in H as [Erec H]. apply bind_check in H as [Efl H].
  apply tx_bind_ok in H as ([] & Eadm & H). apply tx_bind_ok in H as (ml & Eml & H).
  apply tx_bind_ok in H as (h & Eh & H). apply bind_check in H as [Ehl H].
  apply tx_bind_ok in H as (el & Eel & H). apply tx_bind_ok in H as ([] & Ev & H).
  apply tx_Ok_inj in H; subst w'.
  apply andb_prop in Efl as [Efl F3]. apply andb_prop in Efl as [F1 F2]. apply negb_true_iff in F1, F2, F3.
  split; [exact Ev|]. eexists A, _. split; [exact EA|]. split; [reflexivity|].
  destruct ml as [am lm], el as [ae le]. cbn [fst snd] in *.
  assert (Hh : h = am - lm).
  { unfold ok_or in Eh. destruct (csub am lm) as [x|e] eqn:Ec; [|destruct e; discriminate].
    apply tx_Ok_inj in Eh; subst. apply csub_inv in Ec as [-> _]. reflexivity. }
  subst h. destruct K; cbn [is_liq] in *.
  - rewrite andb_true_r in Ehl. apply negb_true_iff in Ehl.
    cbn. repeat split; auto; try (intros; discriminate); try (intros; cbn; lia).
  - apply check_true in Eadm.
    cbn. repeat split; auto; try (intros; discriminate); try (intros; cbn; lia).
Qed.

Lemma h_end_ok K cpi (w : world) a signer w' :
  h_end R K cpi w a signer = Ok w' ->
  cpi = false /\
  exists A A', w_accts w a = Some A /\ w' = set_acct w a A' /\
    f_recv (a_fl A) = true /\ f_fl (a_fl A) = false /\ a_recv A = signer /\
    f_recv (a_fl A') = false /\ f_fl (a_fl A') = false /\
    f_delev (a_fl A') = (if is_liq K then f_delev (a_fl A) else false) /\
    a_recv A' = 0 /\ a_unchk A' = a_unchk A /\ a_pf A' = a_pf A /\ a_cache A' = a_cache A /\
    end_cond R K (a_cache A) (w_bw w) (a_pf A) (w_fee_max w).
Proof.
  unfold h_end. intros H. apply tx_bind_ok in H as (A & EA & H). apply get_acct_ok in EA.
  apply bind_check in H as [Erec H]. apply bind_check in H as [Efl H].
  apply tx_bind_ok in H as ([] & Esig & H). apply bind_check in H as [Ecpi H].
  apply tx_bind_ok in H as (pre_h & Epre & H). apply tx_bind_ok in H as (ml & Eml & H).
  apply tx_bind_ok in H as (post_h & Epost & H). apply bind_check in H as [Ehl H].
  apply tx_bind_ok in H as (el & Eel & H). apply bind_check in H as [Eworse H].
  apply tx_bind_ok in H as (seized & Esz & H). apply tx_bind_ok in H as (repaid & Erp & H).
  apply tx_bind_ok in H as ([] & Eprem & H). apply tx_Ok_inj in H; subst w'.
  apply andb_prop in Efl as [Efl F3]. apply andb_prop in Efl as [F1 F2]. apply negb_true_iff in F2, F3.
  split; [destruct cpi; [discriminate|reflexivity]|].
  eexists A, _. split; [exact EA|]. split; [reflexivity|].
  destruct ml as [qa ql], el as [qae qle]. cbn [fst snd] in *.
  assert (Hpost : post_h = qa - ql).
  { unfold ok_or in Epost. destruct (csub qa ql) as [x|e] eqn:Ec; [|destruct e; discriminate].
    apply tx_Ok_inj in Epost; subst. apply csub_inv in Ec as [-> _]. reflexivity. }
  apply usub_inv in Epre as [-> _]. apply usub_inv in Esz as [-> _]. apply usub_inv in Erp as [-> _].
  assert (Hsig : a_recv A = signer).
  { destruct K; cbn in Esig.
    - apply check_true in Esig. lia.
    - apply bind_check in Esig as [Esig _]. lia. }
  subst post_h.
  assert (EC : end_cond R K (a_cache A) (w_bw w) (a_pf A) (w_fee_max w)).
  { exists qa, ql, qae, qle. split; [exact Eml|]. split; [exact Eel|]. split; [lia|].
    intros -> Hth. cbn [is_liq] in *.
    replace (c_ae (a_cache A) <? LIQUIDATION_CLOSEOUT_DOLLAR_THRESHOLD) with false in * by lia.
    cbn [negb andb] in Ehl. rewrite andb_true_r in Ehl. apply negb_true_iff in Ehl. split; [lia|].
    apply tx_bind_ok in Eprem as (f1 & Ef1 & Eprem). apply tx_bind_ok in Eprem as (f2 & Ef2 & Eprem).
    apply uadd_inv in Ef1 as [-> _]. apply uadd_inv in Ef2 as [-> _]. apply check_true in Eprem. lia. }
  destruct K; cbn; repeat split; auto.
Qed.

Lemma h_start_fl_ok ixes cur cpi (w : world) a auth e w' :
  h_start_fl ixes cur cpi w a auth e = Ok w' ->
  exists A, w_accts w a = Some A /\ a_auth A = auth /\
    check_flashloan_can_start (a_fl A) a ixes cur e cpi = Ok tt /\
    w' = set_acct w a (upd_fl A (set_fl (a_fl A) true)).
Proof.
  unfold h_start_fl. intros H. apply tx_bind_ok in H as (A & EA & H). apply get_acct_ok in EA.
  apply bind_check in H as [Ea H]. apply tx_bind_ok in H as ([] & Ec & H). apply tx_Ok_inj in H.
  exists A. repeat split; auto. lia.
Qed.

Lemma h_end_fl_ok cpi (w : world) a auth nr w' :
  h_end_fl R cpi w a auth nr = Ok w' ->
  cpi = false /\
  exists A, w_accts w a = Some A /\ a_auth A = auth /\
    f_disabled (a_fl A) = false /\ f_recv (a_fl A) = false /\ f_frozen (a_fl A) = false /\
    (if nr then e_init_check_norem R (a_pf A) else e_init_check R (w_bw w) (a_pf A)) = Ok tt /\
    w' = set_acct w a (upd_pf (upd_fl A (set_fl (a_fl A) false)) (a_pf A) false).
Proof.
  unfold h_end_fl. intros H. apply tx_bind_ok in H as (A & EA & H). apply get_acct_ok in EA.
  apply bind_check in H as [Ea H]. apply bind_check in H as [Ecpi H].
  apply bind_check in H as [F1 H]. apply bind_check in H as [F2 H]. apply bind_check in H as [F3 H].
  apply tx_bind_ok in H as ([] & Ei & H). apply tx_Ok_inj in H.
  apply negb_true_iff in F1, F2, F3. split; [destruct cpi; [discriminate|reflexivity]|].
  exists A. repeat split; auto. lia.
Qed.


(* ------------------------------------------------------------------------------------------ *)
(* the dispatcher: which handler ran                                                           *)
(* ------------------------------------------------------------------------------------------ *)

Lemma acct_at_0 d a : acct_at d 0 = Ok a -> hd_is a d.
Proof. unfold acct_at, hd_is. destruct (d_accts d) as [|x tl]; cbn; intros H; [discriminate|]. inversion H; subst. eauto. Qed.

Inductive step_kind (ixes : list ixd) (cur : Z) (cpi : bool) (w w' : world) (d : ixd) : Prop :=
| SQuiet : quiet w w' -> step_kind ixes cur cpi w w' d
| SStart K a recv : d_disc d = start_disc K -> hd_is a d ->
    h_start R K ixes cur cpi w a recv = Ok w' -> step_kind ixes cur cpi w w' d
| SEnd K a s : d_disc d = end_disc K -> hd_is a d ->
    h_end R K cpi w a s = Ok w' -> step_kind ixes cur cpi w w' d
| SStartFL a auth e : hd_is a d -> h_start_fl ixes cur cpi w a auth e = Ok w' -> step_kind ixes cur cpi w w' d
| SEndFL a auth nr : hd_is a d -> h_end_fl R cpi w a auth nr = Ok w' -> step_kind ixes cur cpi w w' d.

Lemma disp_consts :
  DISP_SL = IX_SL /\ DISP_SD = IX_SD /\ DISP_EL = IX_EL /\ DISP_ED = IX_ED /\ DISP_SF = IX_SF /\
  DISP_EF = IX_EF /\ DISP_WD = IX_WD /\ DISP_RP = IX_RP /\ DISP_IR = IX_IR /\ DISP_KW = IX_KW /\ DISP_DW = IX_DW.
Proof. repeat split; reflexivity. Qed.

Lemma run_mfi_kind ixes cur cpi w d w' :
  run_mfi R ixes cur cpi w d = Ok w' -> 8 <= d_len d /\ step_kind ixes cur cpi w w' d.
Proof.
  unfold run_mfi. destruct (Z.ltb_spec (d_len d) 8) as [L|L]; [discriminate|]. intros H. split; [exact L|].
  destruct (Z.eqb_spec (d_disc d) DISP_SL) as [E|_].
  { apply tx_bind_ok in H as (a & Ea & H). apply tx_bind_ok in H as (r & Er & H).
    eapply (SStart _ _ _ _ _ _ KLiq); [exact E | apply acct_at_0; exact Ea | exact H]. }
  destruct (Z.eqb_spec (d_disc d) DISP_SD) as [E|_].
  { apply tx_bind_ok in H as (a & Ea & H). apply tx_bind_ok in H as (r & Er & H).
    eapply (SStart _ _ _ _ _ _ KDelev); [exact E | apply acct_at_0; exact Ea | exact H]. }
  destruct (Z.eqb_spec (d_disc d) DISP_EL) as [E|_].
  { apply tx_bind_ok in H as (a & Ea & H). apply tx_bind_ok in H as (r & Er & H).
    eapply (SEnd _ _ _ _ _ _ KLiq); [exact E | apply acct_at_0; exact Ea | exact H]. }
  destruct (Z.eqb_spec (d_disc d) DISP_ED) as [E|_].
  { apply tx_bind_ok in H as (a & Ea & H). apply tx_bind_ok in H as (r & Er & H).
    eapply (SEnd _ _ _ _ _ _ KDelev); [exact E | apply acct_at_0; exact Ea | exact H]. }
  destruct (Z.eqb_spec (d_disc d) DISP_SF) as [E|_].
  { apply tx_bind_ok in H as (a & Ea & H). apply tx_bind_ok in H as (s & Es & H). apply tx_bind_ok in H as (e & Ee & H).
    eapply SStartFL; [apply acct_at_0; exact Ea | exact H]. }
  destruct (Z.eqb_spec (d_disc d) DISP_EF) as [E|_].
  { apply tx_bind_ok in H as (a & Ea & H). apply tx_bind_ok in H as (s & Es & H).
    eapply SEndFL; [apply acct_at_0; exact Ea | exact H]. }
  apply SQuiet.
  destruct ((d_disc d =? DISP_WD) || (d_disc d =? DISP_KW) || (d_disc d =? DISP_DW) || (d_disc d =? IX_SW)).
  { apply tx_bind_ok in H as (a & _ & H). apply tx_bind_ok in H as (s & _ & H). apply tx_bind_ok in H as (b & _ & H).
    apply tx_bind_ok in H as (m & _ & H). apply tx_bind_ok in H as (al & _ & H). eapply h_withdraw_quiet; exact H. }
  destruct (d_disc d =? DISP_RP).
  { apply tx_bind_ok in H as (a & _ & H). apply tx_bind_ok in H as (s & _ & H). apply tx_bind_ok in H as (b & _ & H).
    apply tx_bind_ok in H as (m & _ & H). apply tx_bind_ok in H as (al & _ & H). eapply h_repay_quiet; exact H. }
  destruct (d_disc d =? IX_BR).
  { apply tx_bind_ok in H as (a & _ & H). apply tx_bind_ok in H as (s & _ & H). apply tx_bind_ok in H as (b & _ & H).
    apply tx_bind_ok in H as (m & _ & H). eapply h_borrow_quiet; exact H. }
  destruct (d_disc d =? IX_DP).
  { apply tx_bind_ok in H as (a & _ & H). apply tx_bind_ok in H as (s & _ & H). apply tx_bind_ok in H as (b & _ & H).
    apply tx_bind_ok in H as (m & _ & H). eapply h_deposit_quiet; exact H. }
  destruct (d_disc d =? DISP_IR).
  { apply tx_bind_ok in H as (a & _ & H). eapply h_init_record_quiet; exact H. }
  destruct (d_disc d =? IX_LQ).
  { apply tx_bind_ok in H as (ab & _ & H). apply tx_bind_ok in H as (lb & _ & H). apply tx_bind_ok in H as (l & _ & H).
    apply tx_bind_ok in H as (s & _ & H). apply tx_bind_ok in H as (v & _ & H). apply tx_bind_ok in H as (m & _ & H).
    eapply h_liquidate_quiet; exact H. }
  destruct (d_disc d =? IX_HB).
  { apply tx_bind_ok in H as (s & _ & H). apply tx_bind_ok in H as (b & _ & H). apply tx_bind_ok in H as (a & _ & H).
    eapply h_bankruptcy_quiet; exact H. }
  destruct (d_disc d =? IX_TR).
  { apply tx_bind_ok in H as (o & _ & H). apply tx_bind_ok in H as (n & _ & H). apply tx_bind_ok in H as (s & _ & H).
    apply tx_bind_ok in H as (na & _ & H). eapply h_transfer_quiet; exact H. }
  eapply h_other_quiet; exact H.
Qed.

(* the discriminator determines the handler (the same 8 bytes introspection compares) *)
Lemma run_mfi_start K ixes cur cpi w d w' :
  d_disc d = start_disc K -> run_mfi R ixes cur cpi w d = Ok w' ->
  8 <= d_len d /\ exists a recv, hd_is a d /\ h_start R K ixes cur cpi w a recv = Ok w'.
Proof.
  unfold run_mfi. destruct (Z.ltb_spec (d_len d) 8) as [L|L]; [discriminate|]. intros E H. split; [exact L|].
  rewrite E in H. destruct K; cbn [start_disc] in H.
  - change (IX_SL =? DISP_SL) with true in H. cbn match in H.
    apply tx_bind_ok in H as (a & Ea & H). apply tx_bind_ok in H as (r & Er & H).
    exists a, r. split; [apply acct_at_0; exact Ea | exact H].
  - change (IX_SD =? DISP_SL) with false in H. change (IX_SD =? DISP_SD) with true in H. cbn match in H.
    apply tx_bind_ok in H as (a & Ea & H). apply tx_bind_ok in H as (r & Er & H).
    exists a, r. split; [apply acct_at_0; exact Ea | exact H].
Qed.

Lemma run_mfi_end K ixes cur cpi w d w' :
  d_disc d = end_disc K -> run_mfi R ixes cur cpi w d = Ok w' ->
  8 <= d_len d /\ exists a s, hd_is a d /\ h_end R K cpi w a s = Ok w'.
Proof.
  unfold run_mfi. destruct (Z.ltb_spec (d_len d) 8) as [L|L]; [discriminate|]. intros E H. split; [exact L|].
  rewrite E in H. destruct K; cbn [end_disc] in H.
  - change (IX_EL =? DISP_SL) with false in H. change (IX_EL =? DISP_SD) with false in H.
    change (IX_EL =? DISP_EL) with true in H. cbn match in H.
    apply tx_bind_ok in H as (a & Ea & H). apply tx_bind_ok in H as (r & Er & H).
    exists a, r. split; [apply acct_at_0; exact Ea | exact H].
  - change (IX_ED =? DISP_SL) with false in H. change (IX_ED =? DISP_SD) with false in H.
    change (IX_ED =? DISP_EL) with false in H. change (IX_ED =? DISP_ED) with true in H. cbn match in H.
    apply tx_bind_ok in H as (a & Ea & H). apply tx_bind_ok in H as (r & Er & H).
    exists a, r. split; [apply acct_at_0; exact Ea | exact H].
Qed.

Lemma run_mfi_endfl ixes cur cpi w d w' :
  d_disc d = IX_EF -> run_mfi R ixes cur cpi w d = Ok w' ->
  exists a s nr, hd_is a d /\ h_end_fl R cpi w a s nr = Ok w'.
Proof.
  unfold run_mfi. destruct (Z.ltb_spec (d_len d) 8) as [L|L]; [discriminate|]. intros E H.
  rewrite E in H.
  change (IX_EF =? DISP_SL) with false in H. change (IX_EF =? DISP_SD) with false in H.
  change (IX_EF =? DISP_EL) with false in H. change (IX_EF =? DISP_ED) with false in H.
  change (IX_EF =? DISP_SF) with false in H. change (IX_EF =? DISP_EF) with true in H. cbn match in H.
  apply tx_bind_ok in H as (a & Ea & H). apply tx_bind_ok in H as (s & Es & H).
  eexists a, s, _. split; [apply acct_at_0; exact Ea | exact H].
Qed.


(* ------------------------------------------------------------------------------------------ *)
(* the receivership / deleverage bracket invariant                                             *)
(* ------------------------------------------------------------------------------------------ *)

Definition rquiet (w w' : world) : Prop := forall k,
  (orc w' k = true -> orc w k = true) /\
  (orc w k = true -> orc w' k = true /\ ocache w' k = ocache w k /\ orv w' k = orv w k /\ w_accts w' k <> None) /\
  (odl w' k = true -> odl w k = true \/ exists k0, odl w k0 = true /\ orc w k0 = false) /\
  (orv w' k <> 0 -> orv w' k = orv w k).

Definition fquiet (w w' : world) : Prop := forall k,
  (ofl w' k = true <-> ofl w k = true) /\
  (ouc w' k = true -> ouc w k = true \/ ofl w k = true \/ exists k0, ouc w k0 = true /\ ofl w k0 = false).

Lemma quiet_r w w' : quiet w w' -> rquiet w w'.
Proof. intros Q k. destruct (Q k) as (A1 & A2 & A3 & A4 & A5 & A6). repeat split; auto; apply A2; auto. Qed.

Lemma quiet_f w w' : quiet w w' -> fquiet w w'.
Proof. intros Q k. destruct (Q k) as (A1 & A2 & A3 & A4 & A5 & A6). split; [exact A3 | exact A6]. Qed.

Lemma rquiet_set (w : world) a A A' :
  w_accts w a = Some A -> f_recv (a_fl A') = f_recv (a_fl A) -> f_delev (a_fl A') = f_delev (a_fl A) ->
  a_recv A' = a_recv A -> a_cache A' = a_cache A -> rquiet w (set_acct w a A').
Proof.
  intros Ha H1 H2 H3 H4 k. unfold orc, odl, orv, ocache. rewrite accts_set.
  destruct (Z.eqb_spec k a) as [->|N].
  - rewrite Ha. rewrite H1, H2, H3, H4. repeat split; auto; discriminate.
  - destruct (w_accts w k); repeat split; auto; discriminate.
Qed.

Lemma fquiet_set (w : world) a A A' :
  w_accts w a = Some A -> f_fl (a_fl A') = f_fl (a_fl A) -> a_unchk A' = a_unchk A -> fquiet w (set_acct w a A').
Proof.
  intros Ha H1 H2 k. unfold ofl, ouc. rewrite accts_set.
  destruct (Z.eqb_spec k a) as [->|N].
  - rewrite Ha. rewrite H1, H2. split; [tauto | auto].
  - destruct (w_accts w k); split; try tauto; auto.
Qed.

Lemma clean_rquiet w w' : clean_r w -> rquiet w w' -> clean_r w'.
Proof.
  intros C Q k. destruct (Q k) as (A1 & A2 & A3 & A4). destruct (C k) as (C1 & C2 & C3).
  split; [|split].
  - destruct (orc w' k) eqn:E; [|reflexivity]. rewrite (A1 eq_refl) in C1. discriminate.
  - destruct (odl w' k) eqn:E; [|reflexivity]. destruct (A3 eq_refl) as [H | (k0 & H & _)].
    + congruence.
    + destruct (C k0) as (_ & C2' & _). congruence.
  - destruct (Z.eq_dec (orv w' k) 0) as [E|E]; [exact E|]. rewrite (A4 E). exact C3.
Qed.

Record irc (ixes : list ixd) (w : world) (K : bkind) (a i : Z) (c0 : cache4) : Prop := mkIrc {
  i_start : start_at ixes i K a;
  i_val : validate_instructions ixes i false K = Ok tt;
  i_others : forall k, k <> a -> orc w k = false /\ odl w k = false /\ orv w k = 0;
  i_liq : K = KLiq -> odl w a = false;
  i_open : orc w a = true -> ocache w a = c0;
  i_closed : orc w a = false -> odl w a = false /\ orv w a = 0
}.

Lemma irc_delev_recv ixes w K a i c0 k0 : irc ixes w K a i c0 -> odl w k0 = true -> orc w k0 = true.
Proof.
  intros I H. destruct (Z.eq_dec k0 a) as [->|N].
  - destruct (orc w a) eqn:E; [reflexivity|]. destruct (i_closed _ _ _ _ _ _ I E) as [H1 _]. congruence.
  - destruct (i_others _ _ _ _ _ _ I k0 N) as (_ & H1 & _). congruence.
Qed.

Lemma irc_rquiet ixes w w' K a i c0 : irc ixes w K a i c0 -> rquiet w w' -> irc ixes w' K a i c0.
Proof.
  intros I Q.
  assert (ND : forall k, odl w' k = true -> odl w k = true).
  { intros k H. destruct (Q k) as (_ & _ & A3 & _). destruct (A3 H) as [H1 | (k0 & H1 & H2)]; [exact H1|].
    rewrite (irc_delev_recv _ _ _ _ _ _ _ I H1) in H2. discriminate. }
  constructor.
  - exact (i_start _ _ _ _ _ _ I).
  - exact (i_val _ _ _ _ _ _ I).
  - intros k N. destruct (i_others _ _ _ _ _ _ I k N) as (C1 & C2 & C3). destruct (Q k) as (A1 & A2 & A3 & A4).
    split; [|split].
    + destruct (orc w' k) eqn:E; [|reflexivity]. rewrite (A1 eq_refl) in C1. discriminate.
    + destruct (odl w' k) eqn:E; [|reflexivity]. rewrite (ND k E) in C2. discriminate.
    + destruct (Z.eq_dec (orv w' k) 0) as [E|E]; [exact E|]. rewrite (A4 E). exact C3.
  - intros HK. destruct (odl w' a) eqn:E; [|reflexivity]. pose proof (ND a E) as Y.
    rewrite (i_liq _ _ _ _ _ _ I HK) in Y. discriminate.
  - intros H. destruct (Q a) as (A1 & A2 & _). pose proof (A1 H) as H0. destruct (A2 H0) as (_ & H2 & _).
    rewrite H2. exact (i_open _ _ _ _ _ _ I H0).
  - intros H. destruct (Q a) as (A1 & A2 & A3 & A4).
    assert (H0 : orc w a = false).
    { destruct (orc w a) eqn:E; [|reflexivity]. destruct (A2 eq_refl) as (H1 & _). congruence. }
    destruct (i_closed _ _ _ _ _ _ I H0) as (C2 & C3). split.
    + destruct (odl w' a) eqn:E; [|reflexivity]. rewrite (ND a E) in C2. discriminate.
    + destruct (Z.eq_dec (orv w' a) 0) as [E|E]; [exact E|]. rewrite (A4 E). exact C3.
Qed.

(* facts about the validated shape *)
Lemma excl_disc ixes i K j d :
  validate_instructions ixes i false K = Ok tt -> nth_z ixes j = Some d -> d_prog d = PMfi ->
  existsb (fun h => h =? d_disc d) (excl_list K) = true.
Proof.
  intros V N P. apply validate_instructions_spec in V as (_ & _ & _ & Hx & _).
  pose proof (forallb_In _ _ _ Hx (nth_z_In _ _ _ N)) as X. unfold excl_ok in X. rewrite P in X. cbn in X.
  apply andb_prop in X as [_ X]. exact X.
Qed.

Lemma start_in_excl K K' : existsb (fun h => h =? start_disc K') (excl_list K) = true -> K' = K.
Proof. destruct K, K'; intros H; try reflexivity; vm_compute in H; discriminate. Qed.

Lemma end_in_excl K K' : existsb (fun h => h =? end_disc K') (excl_list K) = true -> K' = K.
Proof. destruct K, K'; intros H; try reflexivity; vm_compute in H; discriminate. Qed.

Lemma mfi_tgt K d : d_prog d = PMfi -> 8 <= d_len d -> d_disc d = start_disc K -> tgt PMfi (start_disc K) d = true.
Proof.
  intros P L D. unfold tgt, is_cb, long, is_exp. rewrite P, D. cbn. rewrite Z.eqb_refl.
  replace (8 <=? d_len d) with true by lia. reflexivity.
Qed.

Lemma start_unique ixes i K a j d :
  validate_instructions ixes i false K = Ok tt -> start_at ixes i K a ->
  nth_z ixes j = Some d -> d_prog d = PMfi -> 8 <= d_len d -> d_disc d = start_disc K -> j = i.
Proof.
  intros V (d0 & N0 & P0 & L0 & D0 & _) N P L D.
  apply validate_instructions_spec in V as (_ & Hf & _).
  apply validate_ix_first_spec in Hf as (pre & x & post & -> & Hp & _ & Hq).
  rewrite (tgt_unique _ _ _ _ _ _ _ _ Hp Hq N (mfi_tgt K d P L D)).
  rewrite (tgt_unique _ _ _ _ _ _ _ _ Hp Hq N0 (mfi_tgt K d0 P0 L0 D0)). reflexivity.
Qed.

Lemma validate_cpi_false ixes cur cpi K : validate_instructions ixes cur cpi K = Ok tt -> cpi = false.
Proof. intros V. apply validate_instructions_spec in V. tauto. Qed.

(* one (possibly inner) marginfi call, while a bracket opened at index i is being tracked *)
Lemma irc_step_call ixes cur cpi w w' d K a i c0 :
  exec_call R ixes cur cpi w d = Ok w' -> irc ixes w K a i c0 ->
  (cpi = false -> nth_z ixes cur = Some d /\ i < cur) ->
  irc ixes w' K a i c0 /\
  (cpi = false -> d_prog d = PMfi -> d_disc d = end_disc K ->
     orc w' a = false /\ hd_is a d /\ final_facts R K c0 w' a).
Proof.
  unfold exec_call. intros H I Hc. destruct (prog_eqb (d_prog d) PMfi) eqn:Ep.
  2:{ apply tx_Ok_inj in H; subst w'. split; [exact I|]. intros _ P. rewrite P in Ep. discriminate. }
  apply prog_eqb_eq in Ep. split.
  - pose proof (run_mfi_kind _ _ _ _ _ _ H) as [L SK]. destruct SK as [Q | K' b recv D Hb Hs | K' b s D Hb He | b au e Hb Hs | b au nr Hb He].
    + exact (irc_rquiet _ _ _ _ _ _ _ I (quiet_r _ _ Q)).
    + (* a second start: impossible *)
      exfalso. apply h_start_ok in Hs as (V & _). pose proof (validate_cpi_false _ _ _ _ V) as ->.
      destruct (Hc eq_refl) as [N Hi].
      pose proof (excl_disc _ _ _ _ _ (i_val _ _ _ _ _ _ I) N Ep) as X. rewrite D in X. apply start_in_excl in X. subst K'.
      pose proof (start_unique _ _ _ _ _ _ (i_val _ _ _ _ _ _ I) (i_start _ _ _ _ _ _ I) N Ep L D). lia.
    + (* an end: it can only be the end of the tracked bracket *)
      apply h_end_ok in He as (-> & A & A' & EA & -> & F1 & F2 & F3 & G1 & G2 & G3 & G4 & G5 & G6 & G7 & EC).
      destruct (Hc eq_refl) as [N Hi].
      pose proof (excl_disc _ _ _ _ _ (i_val _ _ _ _ _ _ I) N Ep) as X. rewrite D in X. apply end_in_excl in X. subst K'.
      assert (b = a).
      { destruct (Z.eq_dec b a) as [E|E]; [exact E|]. destruct (i_others _ _ _ _ _ _ I b E) as (C1 & _).
        unfold orc in C1. rewrite EA in C1. congruence. }
      subst b. constructor.
      * exact (i_start _ _ _ _ _ _ I).
      * exact (i_val _ _ _ _ _ _ I).
      * intros k Nk. unfold orc, odl, orv. rewrite accts_set. rewrite (proj2 (Z.eqb_neq k a) Nk).
        exact (i_others _ _ _ _ _ _ I k Nk).
      * intros HK. unfold odl. rewrite accts_set, Z.eqb_refl. rewrite G3. subst K. cbn.
        pose proof (i_liq _ _ _ _ _ _ I eq_refl) as Y. unfold odl in Y. rewrite EA in Y. exact Y.
      * unfold orc. rewrite accts_set, Z.eqb_refl. rewrite G1. discriminate.
      * intros _. unfold odl, orv. rewrite accts_set, Z.eqb_refl. rewrite G3, G4. split; [|reflexivity].
        destruct K; cbn; [|reflexivity].
        pose proof (i_liq _ _ _ _ _ _ I eq_refl) as Y. unfold odl in Y. rewrite EA in Y. exact Y.
    + apply h_start_fl_ok in Hs as (A & EA & _ & _ & ->).
      apply (irc_rquiet _ _ _ _ _ _ _ I). eapply rquiet_set; [exact EA| | | |]; reflexivity.
    + apply h_end_fl_ok in He as (_ & A & EA & _ & _ & _ & _ & _ & ->).
      apply (irc_rquiet _ _ _ _ _ _ _ I). eapply rquiet_set; [exact EA| | | |]; reflexivity.
  - intros -> _ D. destruct (Hc eq_refl) as [N Hi].
    apply run_mfi_end with (K := K) in H as (L & b & s & Hb & He); [|exact D].
    apply h_end_ok in He as (_ & A & A' & EA & -> & F1 & F2 & F3 & G1 & G2 & G3 & G4 & G5 & G6 & G7 & EC).
    assert (b = a).
    { destruct (Z.eq_dec b a) as [E|E]; [exact E|]. destruct (i_others _ _ _ _ _ _ I b E) as (C1 & _).
      unfold orc in C1. rewrite EA in C1. congruence. }
    subst b. split; [|split].
    + unfold orc. rewrite accts_set, Z.eqb_refl. exact G1.
    + exact Hb.
    + exists A'. split; [rewrite accts_set, Z.eqb_refl; reflexivity|].
      assert (Ec : a_cache A = c0).
      { assert (O : orc w a = true) by (unfold orc; rewrite EA; exact F1).
        pose proof (i_open _ _ _ _ _ _ I O) as Y. unfold ocache in Y. rewrite EA in Y. exact Y. }
      split; [congruence|]. rewrite G6. rewrite <- Ec. exact EC.
Qed.


(* ------------------------------------------------------------------------------------------ *)
(* top-level instructions                                                                      *)
(* ------------------------------------------------------------------------------------------ *)

Lemma exec_call_cpi_quiet ixes cur w d w' : exec_call R ixes cur true w d = Ok w' -> quiet w w'.
Proof.
  unfold exec_call. destruct (prog_eqb (d_prog d) PMfi).
  - intros H. pose proof (run_mfi_kind _ _ _ _ _ _ H) as [L SK].
    destruct SK as [Q | K' b recv D Hb Hs | K' b s D Hb He | b au e Hb Hs | b au nr Hb He].
    + exact Q.
    + apply h_start_ok in Hs as (V & _). apply validate_cpi_false in V. discriminate.
    + apply h_end_ok in He as (V & _). discriminate.
    + apply h_start_fl_ok in Hs as (A & _ & _ & V & _). apply check_flashloan_can_start_spec in V.
      destruct V as (_ & _ & V & _). discriminate.
    + apply h_end_fl_ok in He as (V & _). discriminate.
  - intros H. apply tx_Ok_inj in H; subst. apply quiet_refl.
Qed.

Lemma foldM_cpi_quiet ixes cur l : forall w w', foldM (exec_call R ixes cur true) l w = Ok w' -> quiet w w'.
Proof.
  induction l as [|d l IH]; intros w w' H; cbn in H.
  - apply tx_Ok_inj in H; subst. apply quiet_refl.
  - apply tx_bind_ok in H as (w1 & E & H). eapply quiet_trans; [eapply exec_call_cpi_quiet; exact E | apply IH; exact H].
Qed.

Lemma exec_top_cases ixes cur w t w' :
  exec_top R ixes cur w t = Ok w' ->
  (d_prog (t_d t) <> PMfi /\ quiet w w') \/
  (d_prog (t_d t) = PMfi /\ run_mfi R ixes cur false w (t_d t) = Ok w').
Proof.
  unfold exec_top, exec_call. destruct (prog_eqb (d_prog (t_d t)) PMfi) eqn:E.
  - apply prog_eqb_eq in E. intros H. right. split; [exact E|]. exact H.
  - intros H. left. split.
    + intros P. rewrite P in E. discriminate.
    + eapply foldM_cpi_quiet. exact H.
Qed.

Lemma irc_step_top ixes n w w' t K a i c0 :
  exec_top R ixes n w t = Ok w' -> nth_z ixes n = Some (t_d t) -> i < n -> irc ixes w K a i c0 ->
  irc ixes w' K a i c0 /\
  (d_prog (t_d t) = PMfi -> d_disc (t_d t) = end_disc K ->
     orc w' a = false /\ hd_is a (t_d t) /\ final_facts R K c0 w' a).
Proof.
  intros H N Hi I. destruct (exec_top_cases _ _ _ _ _ H) as [[NP Q] | [P Hr]].
  - split; [exact (irc_rquiet _ _ _ _ _ _ _ I (quiet_r _ _ Q)) | intros P; contradiction].
  - assert (Hc : exec_call R ixes n false w (t_d t) = Ok w') by (unfold exec_call; rewrite P; exact Hr).
    destruct (irc_step_call _ _ _ _ _ _ _ _ _ _ Hc I (fun _ => conj N Hi)) as [I' F].
    split; [exact I' | intros _ D; exact (F eq_refl P D)].
Qed.

Definition ir1 ixes n (w : world) K a i c0 : Prop :=
  0 <= i < n /\ irc ixes w K a i c0 /\
  (n = len_z ixes -> orc w a = false /\ last_end ixes K a /\ final_facts R K c0 w a).

Lemma len_z_app {A} (l1 l2 : list A) : len_z (l1 ++ l2) = len_z l1 + len_z l2.
Proof. unfold len_z. rewrite app_length. lia. Qed.

Lemma len_z_nonneg {A} (l : list A) : 0 <= len_z l.
Proof. unfold len_z. lia. Qed.

Lemma ir1_step ixes n w w' t K a i c0 :
  exec_top R ixes n w t = Ok w' -> nth_z ixes n = Some (t_d t) ->
  ir1 ixes n w K a i c0 -> ir1 ixes (n + 1) w' K a i c0.
Proof.
  intros H N (Hi & I & _). destruct (irc_step_top _ _ _ _ _ _ _ _ _ H N (proj2 Hi) I) as [I' F].
  split; [lia|]. split; [exact I'|]. intros Hn.
  pose proof (i_val _ _ _ _ _ _ I) as V. apply validate_instructions_spec in V as (_ & _ & Hl & _).
  apply validate_ix_last_spec in Hl as (pre & y & E & Hy).
  assert (Ny : nth_z ixes n = Some y).
  { rewrite E. replace n with (len_z pre); [apply nth_z_app_mid|].
    rewrite E, len_z_app in Hn. cbn in Hn. unfold len_z in *. cbn in Hn. lia. }
  rewrite N in Ny. apply tx_Ok_inj in Ny || (inversion Ny as [Ey]).
  unfold is_end, is_exp in Hy. apply andb_prop in Hy as [Ly Hy]. apply andb_prop in Hy as [Py Dy].
  apply prog_eqb_eq in Py. apply Z.eqb_eq in Dy. rewrite <- Ey in Py, Dy.
  destruct (F Py Dy) as (F1 & F2 & F3). split; [exact F1|]. split; [|exact F3].
  exists pre, y. split; [exact E|]. split; [|rewrite <- Ey; exact F2].
  unfold is_end, is_exp. rewrite Ly. rewrite <- Ey. rewrite Py, Dy. cbn. apply Z.eqb_refl.
Qed.

Definition inv0 ixes n (w : world) : Prop :=
  clean_r w /\ forall j K a, 0 <= j < n -> ~ start_at ixes j K a.

Lemma start_disc_inj K K' : start_disc K = start_disc K' -> K = K'.
Proof. destruct K, K'; intros H; try reflexivity; vm_compute in H; discriminate. Qed.

Lemma hd_is_inj a b d : hd_is a d -> hd_is b d -> a = b.
Proof. intros (t1 & E1) (t2 & E2). congruence. Qed.

Lemma inv0_step ixes n w w' t :
  exec_top R ixes n w t = Ok w' -> nth_z ixes n = Some (t_d t) -> 0 <= n -> inv0 ixes n w ->
  inv0 ixes (n + 1) w' \/
  exists K a c0 A, ir1 ixes (n + 1) w' K a n c0 /\ w_accts w a = Some A /\
                   f_recv (a_fl A) = false /\ start_cond R K c0 (w_bw w) (a_pf A).
Proof.
  intros H N Hn [C NS].
  (* if the world stays clean, the instruction at n was not a start *)
  assert (Keep : clean_r w' -> inv0 ixes (n + 1) w').
  { intros C'. split; [exact C'|]. intros j K a Hj SA.
    destruct (Z.eq_dec j n) as [->|Nj]; [|apply (NS j K a); [lia | exact SA]].
    destruct SA as (d & Nd & P & L & D & Hd). rewrite N in Nd. inversion Nd; subst d.
    destruct (exec_top_cases _ _ _ _ _ H) as [[NP _] | [_ Hr]]; [contradiction|].
    apply run_mfi_start with (K := K) in Hr as (_ & b & r & Hb & Hs); [|exact D].
    apply h_start_ok in Hs as (_ & A & A' & EA & -> & _ & _ & _ & _ & G1 & _).
    destruct (C' b) as (C1 & _). unfold orc in C1. rewrite accts_set, Z.eqb_refl in C1. congruence. }
  destruct (exec_top_cases _ _ _ _ _ H) as [[NP Q] | [P Hr]].
  - left. apply Keep. exact (clean_rquiet _ _ C (quiet_r _ _ Q)).
  - pose proof (run_mfi_kind _ _ _ _ _ _ Hr) as [L SK].
    destruct SK as [Q | K b recv D Hb Hs | K b s D Hb He | b au e Hb Hs | b au nr Hb He].
    + left. apply Keep. exact (clean_rquiet _ _ C (quiet_r _ _ Q)).
    + right. apply h_start_ok in Hs as (V & A & A' & EA & -> & G0 & F1 & F2 & F3 & G1 & G2 & G3 & G4 & G5 & G6 & G7 & SC & _).
      exists K, b, (a_cache A'), A. split; [|split; [exact EA | split; [exact F1 | exact SC]]].
      split; [clear - Hn; lia|]. split.
      * constructor.
        -- exists (t_d t). repeat split; auto.
        -- exact V.
        -- intros k Nk. unfold orc, odl, orv. rewrite accts_set. rewrite (proj2 (Z.eqb_neq k b) Nk). exact (C k).
        -- intros ->. unfold odl. rewrite accts_set, Z.eqb_refl. rewrite G3. cbn.
           destruct (C b) as (_ & C2 & _). unfold odl in C2. rewrite EA in C2. exact C2.
        -- intros _. unfold ocache. rewrite accts_set, Z.eqb_refl. reflexivity.
        -- unfold orc. rewrite accts_set, Z.eqb_refl. rewrite G1. discriminate.
      * intros Hl. apply validate_instructions_spec in V as (_ & _ & _ & _ & _ & _ & V). clear - Hl V. lia.
    + exfalso. apply h_end_ok in He as (_ & A & A' & EA & _ & F1 & _).
      destruct (C b) as (C1 & _). unfold orc in C1. rewrite EA in C1. congruence.
    + left. apply Keep. apply h_start_fl_ok in Hs as (A & EA & _ & _ & ->).
      apply (clean_rquiet _ _ C). eapply rquiet_set; [exact EA| | | |]; reflexivity.
    + left. apply Keep. apply h_end_fl_ok in He as (_ & A & EA & _ & _ & _ & _ & _ & ->).
      apply (clean_rquiet _ _ C). eapply rquiet_set; [exact EA| | | |]; reflexivity.
Qed.

Definition invR ixes n (w : world) : Prop :=
  inv0 ixes n w \/ exists K a i c0, ir1 ixes n w K a i c0.

Lemma invR_step ixes n w w' t :
  0 <= n -> invR ixes n w -> nth_z ixes n = Some (t_d t) -> exec_top R ixes n w t = Ok w' ->
  invR ixes (n + 1) w'.
Proof.
  intros Hn [I0 | (K & a & i & c0 & I1)] N H.
  - destruct (inv0_step _ _ _ _ _ H N Hn I0) as [I | (K & a & c0 & A & I & _)]; [left; exact I|].
    right. exists K, a, n, c0. exact I.
  - right. exists K, a, i, c0. exact (ir1_step _ _ _ _ _ _ _ _ _ H N I1).
Qed.

(* induction over the execution of a segment l of the transaction pre ++ l ++ post *)
Lemma exec_from_ind (P : Z -> world -> Prop) ixes :
  (forall n w t w', 0 <= n -> P n w -> nth_z ixes n = Some (t_d t) -> exec_top R ixes n w t = Ok w' -> P (n + 1) w') ->
  forall l pre post w w', ixes = map t_d (pre ++ l ++ post) -> P (len_z pre) w ->
    exec_from R ixes (len_z pre) w l = Committed w' -> P (len_z pre + len_z l) w'.
Proof.
  intros Step. induction l as [|t tl IH]; intros pre post w w' E Pw H.
  - cbn in H. inversion H; subst. replace (len_z pre + len_z []) with (len_z pre) by (unfold len_z; cbn; lia). exact Pw.
  - cbn [exec_from] in H. destruct (exec_top R ixes (len_z pre) w t) as [w1|e] eqn:Et; [|discriminate].
    assert (N : nth_z ixes (len_z pre) = Some (t_d t)).
    { rewrite E. rewrite map_app. cbn [app map]. replace (len_z pre) with (len_z (map t_d pre)) by (unfold len_z; rewrite map_length; reflexivity).
      apply nth_z_app_mid. }
    pose proof (Step _ _ _ _ (len_z_nonneg pre) Pw N Et) as P1.
    replace (len_z pre + len_z (t :: tl)) with (len_z (pre ++ [t]) + len_z tl)
      by (rewrite len_z_app; unfold len_z; cbn [length]; lia).
    apply (IH (pre ++ [t]) post w1 w').
    + rewrite E. rewrite <- app_assoc. reflexivity.
    + rewrite len_z_app. replace (len_z [t]) with 1 by reflexivity. exact P1.
    + rewrite len_z_app. replace (len_z [t]) with 1 by reflexivity. exact H.
Qed.

Lemma exec_from_app ixes : forall l1 l2 cur w,
  exec_from R ixes cur w (l1 ++ l2) =
  match exec_from R ixes cur w l1 with
  | Committed w1 => exec_from R ixes (cur + len_z l1) w1 l2
  | Aborted i e => Aborted i e
  end.
Proof.
  induction l1 as [|t l1 IH]; intros l2 cur w; cbn [app exec_from].
  - replace (cur + len_z []) with cur by (unfold len_z; cbn; lia). reflexivity.
  - destruct (exec_top R ixes cur w t) as [w1|e]; [|reflexivity]. rewrite IH.
    replace (cur + 1 + len_z l1) with (cur + len_z (t :: l1)) by (unfold len_z; cbn [length]; lia). reflexivity.
Qed.

Lemma invR_clean ixes w : invR ixes (len_z ixes) w -> clean_r w.
Proof.
  intros [[C _] | (K & a & i & c0 & (_ & I & F))]; [exact C|].
  destruct (F eq_refl) as (F1 & _). destruct (i_closed _ _ _ _ _ _ I F1) as (F2 & F3).
  intros k. destruct (Z.eq_dec k a) as [->|N]; [auto | exact (i_others _ _ _ _ _ _ I k N)].
Qed.

(* C10: the receivership marker, the deleverage marker and the recorded receiver never survive *)
Theorem recv_never_survives (w w' : world) tx :
  clean_r w -> exec_tx R w tx = Some w' -> clean_r w'.
Proof.
  unfold exec_tx, exec_tx_r. intros C H. destruct (exec_from R (map t_d tx) 0 w tx) as [w1|] eqn:E; [|discriminate].
  inversion H; subst w1. apply (invR_clean (map t_d tx)).
  pose proof (exec_from_ind (invR (map t_d tx)) (map t_d tx) (fun n w t w' Hn => invR_step _ n w w' t Hn) tx [] [] w w') as X.
  replace (len_z (map t_d tx)) with (len_z (@nil top_ix) + len_z tx) by (unfold len_z; rewrite map_length; cbn; lia).
  apply X.
  - cbn. rewrite app_nil_r. reflexivity.
  - left. split; [exact C|]. intros j K a Hj. unfold len_z in Hj. cbn in Hj. lia.
  - exact E.
Qed.


(* ------------------------------------------------------------------------------------------ *)
(* C10: the shape and the end-time conditions of a committed transaction that contains a start *)
(* ------------------------------------------------------------------------------------------ *)

Lemma nth_z_map {A B} (f : A -> B) (l : list A) i y :
  nth_z (map f l) i = Some y -> exists x, nth_z l i = Some x /\ f x = y.
Proof.
  rewrite !nth_z_eq. destruct (i <? 0); [discriminate|]. rewrite nth_error_map.
  destruct (nth_error l (Z.to_nat i)) as [x|]; cbn; intros H; [|discriminate]. inversion H. eauto.
Qed.

Theorem bracket_tx (w w' : world) tx i K a :
  clean_r w -> exec_tx R w tx = Some w' -> start_at (map t_d tx) i K a ->
  validate_instructions (map t_d tx) i false K = Ok tt /\
  last_end (map t_d tx) K a /\
  exists l1 t l2 wi Ai c0,
    tx = l1 ++ t :: l2 /\ len_z l1 = i /\
    exec_from R (map t_d tx) 0 w l1 = Committed wi /\
    w_accts wi a = Some Ai /\ f_recv (a_fl Ai) = false /\
    start_cond R K c0 (w_bw wi) (a_pf Ai) /\
    final_facts R K c0 w' a.
Proof.
  unfold exec_tx, exec_tx_r. intros C H SA. set (ixes := map t_d tx) in *.
  destruct (exec_from R ixes 0 w tx) as [wf|] eqn:E; [|discriminate]. inversion H; subst wf. clear H.
  pose proof SA as (d & Nd & P & L & D & Hd).
  destruct (nth_z_map _ _ _ _ Nd) as (t & Nt & Et). destruct (nth_z_split _ _ _ Nt) as (l1 & l2 & Etx & Hl1).
  rewrite Etx in E. rewrite exec_from_app in E.
  destruct (exec_from R ixes 0 w l1) as [wi|] eqn:E1; [|discriminate].
  assert (Hix : ixes = map t_d ([] ++ l1 ++ t :: l2)) by (unfold ixes; rewrite Etx; reflexivity).
  (* the prefix *)
  assert (Ii : invR ixes i wi).
  { rewrite <- Hl1. replace (len_z l1) with (len_z (@nil top_ix) + len_z l1) by (unfold len_z; cbn; lia).
    apply (exec_from_ind (invR ixes) ixes (fun n w t w' Hn => invR_step _ n w w' t Hn) l1 [] (t :: l2) w wi Hix).
    - left. split; [exact C|]. intros j K0 a0 Hj. unfold len_z in Hj. cbn in Hj. lia.
    - exact E1. }
  (* the start itself *)
  replace (0 + len_z l1) with i in E by lia. cbn [exec_from] in E.
  destruct (exec_top R ixes i wi t) as [w1|] eqn:Et1; [|discriminate].
  assert (Ni : nth_z ixes i = Some (t_d t)) by (rewrite Et; exact Nd).
  assert (Hi0 : 0 <= i) by (apply nth_z_Some in Nd; lia).
  assert (I1 : exists Ai c0, ir1 ixes (i + 1) w1 K a i c0 /\ w_accts wi a = Some Ai /\
                             f_recv (a_fl Ai) = false /\ start_cond R K c0 (w_bw wi) (a_pf Ai)).
  { destruct Ii as [I0 | (K0 & a0 & i0 & c1 & (Hr & I & _))].
    - destruct (inv0_step _ _ _ _ _ Et1 Ni Hi0 I0) as [[_ NS] | (K' & b & c0 & A & I & EA & F & SC)].
      + exfalso. apply (NS i K a); [lia | exact SA].
      + destruct I as (Hr & I & Fin). pose proof (i_start _ _ _ _ _ _ I) as (d' & Nd' & _ & _ & D' & Hd').
        rewrite Nd in Nd'. inversion Nd'; subst d'.
        assert (K' = K) by (apply start_disc_inj; congruence). subst K'.
        assert (b = a) by (eapply hd_is_inj; eauto). subst b.
        exists A, c0. split; [split; [exact Hr | split; [exact I | exact Fin]] | auto].
    - exfalso. pose proof (excl_disc _ _ _ _ _ (i_val _ _ _ _ _ _ I) Nd P) as X. rewrite D in X.
      apply start_in_excl in X. subst K0.
      pose proof (start_unique _ _ _ _ _ _ (i_val _ _ _ _ _ _ I) (i_start _ _ _ _ _ _ I) Nd P L D). lia. }
  destruct I1 as (Ai & c0 & I1 & EAi & Fi & SC).
  (* the rest of the transaction *)
  assert (If : ir1 ixes (len_z ixes) w' K a i c0).
  { assert (Hix2 : ixes = map t_d ((l1 ++ [t]) ++ l2 ++ [])).
    { unfold ixes. rewrite Etx, app_nil_r, <- app_assoc. reflexivity. }
    replace (len_z ixes) with (len_z (l1 ++ [t]) + len_z l2).
    2:{ unfold ixes. rewrite Etx. unfold len_z. rewrite map_length, !app_length. cbn [length]. lia. }
    apply (exec_from_ind (fun n w => ir1 ixes n w K a i c0) ixes
             (fun n w t w' _ I N H => ir1_step _ _ _ _ _ _ _ _ _ H N I) l2 (l1 ++ [t]) [] w1 w' Hix2).
    - rewrite len_z_app. replace (len_z [t]) with 1 by reflexivity. rewrite Hl1. exact I1.
    - rewrite len_z_app. replace (len_z [t]) with 1 by reflexivity. rewrite Hl1. exact E. }
  destruct If as (_ & I & Fin). destruct (Fin eq_refl) as (_ & LE & FF).
  split; [exact (i_val _ _ _ _ _ _ I)|]. split; [exact LE|].
  exists l1, t, l2, wi, Ai, c0.
  split; [exact Etx|]. split; [exact Hl1|]. split; [exact E1|]. split; [exact EAi|]. split; [exact Fi|].
  split; [exact SC | exact FF].
Qed.

(* ------------------------------------------------------------------------------------------ *)
(* C11: the flash-loan invariant                                                               *)
(* ------------------------------------------------------------------------------------------ *)

Definition pending (ixes : list ixd) (n k : Z) : Prop :=
  exists j d, n <= j /\ nth_z ixes j = Some d /\ is_endfl_for k d.

Definition invF ixes n (w : world) : Prop :=
  (forall k, ofl w k = true -> pending ixes n k) /\ (forall k, ouc w k = true -> ofl w k = true).

Lemma invF_fquiet ixes n w w' : invF ixes n w -> fquiet w w' -> invF ixes n w'.
Proof.
  intros [P U] Q. split; intros k H; destruct (Q k) as [A3 A6].
  - apply P. tauto.
  - destruct (A6 H) as [H1 | [H1 | (k0 & H1 & H2)]].
    + apply A3. exact (U k H1).
    + tauto.
    + rewrite (U k0 H1) in H2. discriminate.
Qed.

Lemma exec_top_endfl_clears ixes n w t w' k :
  exec_top R ixes n w t = Ok w' -> is_endfl_for k (t_d t) -> ofl w' k = false.
Proof.
  intros H (P & L & D & Hk). destruct (exec_top_cases _ _ _ _ _ H) as [[NP _] | [_ Hr]]; [contradiction|].
  apply run_mfi_endfl in Hr as (a & s & nr & Ha & He); [|exact D].
  assert (a = k) by (eapply hd_is_inj; [exact Ha | exact Hk]). subst a.
  apply h_end_fl_ok in He as (_ & A & EA & _ & _ & _ & _ & _ & ->).
  unfold ofl. rewrite accts_set, Z.eqb_refl. reflexivity.
Qed.

Lemma invF_step ixes n w w' t :
  0 <= n -> invF ixes n w -> nth_z ixes n = Some (t_d t) -> exec_top R ixes n w t = Ok w' ->
  invF ixes (n + 1) w'.
Proof.
  intros Hn I N H.
  (* first: the invariant with the old position, then move the position *)
  assert (W : invF ixes n w').
  { destruct (exec_top_cases _ _ _ _ _ H) as [[NP Q] | [P Hr]].
    - exact (invF_fquiet _ _ _ _ I (quiet_f _ _ Q)).
    - pose proof (run_mfi_kind _ _ _ _ _ _ Hr) as [L SK].
      destruct SK as [Q | K b recv D Hb Hs | K b s D Hb He | b au e Hb Hs | b au nr Hb He].
      + exact (invF_fquiet _ _ _ _ I (quiet_f _ _ Q)).
      + apply h_start_ok in Hs as (_ & A & A' & EA & -> & _ & _ & F2 & _ & _ & G2 & _ & _ & G5 & _).
        apply (invF_fquiet _ _ _ _ I). eapply fquiet_set; [exact EA | congruence | exact G5].
      + apply h_end_ok in He as (_ & A & A' & EA & -> & _ & F2 & _ & _ & G2 & _ & _ & G5 & _).
        apply (invF_fquiet _ _ _ _ I). eapply fquiet_set; [exact EA | congruence | exact G5].
      + apply h_start_fl_ok in Hs as (A & EA & _ & V & ->).
        apply check_flashloan_can_start_spec in V as (_ & Hlt & _ & (e0 & Ne & He0) & _).
        destruct I as [Pn U]. split; intros k Hk.
        * unfold ofl in Hk. rewrite accts_set in Hk. destruct (Z.eqb_spec k b) as [Ek|Nk].
          -- subst k. exists e, e0. split; [lia | split; [exact Ne | exact He0]].
          -- apply Pn. exact Hk.
        * unfold ouc in Hk. unfold ofl. rewrite accts_set in *. destruct (Z.eqb_spec k b) as [Ek|Nk]; [reflexivity|].
          apply U. exact Hk.
      + apply h_end_fl_ok in He as (_ & A & EA & _ & _ & _ & _ & _ & ->).
        destruct I as [Pn U]. split; intros k Hk.
        * unfold ofl in Hk. rewrite accts_set in Hk. destruct (Z.eqb_spec k b) as [Ek|Nk]; [discriminate|].
          apply Pn. exact Hk.
        * unfold ouc in Hk. unfold ofl. rewrite accts_set in *. destruct (Z.eqb_spec k b) as [Ek|Nk]; [discriminate|].
          apply U. exact Hk. }
  destruct W as [Pn U]. split; [|exact U]. intros k Hk. destruct (Pn k Hk) as (j & d & Hj & Nj & Ej).
  destruct (Z.eq_dec j n) as [->|Nn].
  - rewrite N in Nj. inversion Nj; subst d. rewrite (exec_top_endfl_clears _ _ _ _ _ _ H Ej) in Hk. discriminate.
  - exists j, d. split; [lia | auto].
Qed.

(* C11: no committed transaction leaves IN_FLASHLOAN set or a skipped initial-margin check behind *)
Theorem fl_never_survives (w w' : world) tx :
  (forall k, ofl w k = false) -> (forall k, ouc w k = false) -> exec_tx R w tx = Some w' ->
  forall k, ofl w' k = false /\ ouc w' k = false.
Proof.
  unfold exec_tx, exec_tx_r. intros C U H. destruct (exec_from R (map t_d tx) 0 w tx) as [w1|] eqn:E; [|discriminate].
  inversion H; subst w1.
  assert (I : invF (map t_d tx) (len_z (map t_d tx)) w').
  { pose proof (exec_from_ind (invF (map t_d tx)) (map t_d tx) (fun n w t w' Hn => invF_step _ n w w' t Hn) tx [] [] w w') as X.
    replace (len_z (map t_d tx)) with (len_z (@nil top_ix) + len_z tx) by (unfold len_z; rewrite map_length; cbn; lia).
    apply X.
    - cbn. rewrite app_nil_r. reflexivity.
    - split; intros k Hk; [rewrite C in Hk | rewrite U in Hk]; discriminate.
    - exact E. }
  destruct I as [Pn Un]. intros k.
  assert (F : ofl w' k = false).
  { destruct (ofl w' k) eqn:Ek; [|reflexivity]. destruct (Pn k Ek) as (j & d & Hj & Nj & _).
    apply nth_z_Some in Nj. lia. }
  split; [exact F|]. destruct (ouc w' k) eqn:Ek; [|reflexivity]. rewrite (Un k Ek) in F. discriminate.
Qed.


(* ------------------------------------------------------------------------------------------ *)
(* guards                                                                                      *)
(* ------------------------------------------------------------------------------------------ *)

Lemma signer_auth_cases (w : world) A s :
  auth_checks w A s true = Ok tt ->
  f_recv (a_fl A) = true \/ (f_frozen (a_fl A) = false /\ s = a_auth A) \/
  (f_frozen (a_fl A) = true /\ s = w_admin w /\ s <> a_auth A).
Proof.
  intros H. apply auth_checks_ok in H as [H1 H2]. unfold not_frozen_for_authority, signer_authorized in *.
  destruct (f_recv (a_fl A)); [left; reflexivity|]. right. cbn [andb] in H2.
  destruct (f_frozen (a_fl A)); cbn [andb negb] in *.
  - right. repeat split; lia.
  - left. split; [reflexivity | lia].
Qed.

(* C10: a signer who is neither the authority (nor the admin of a frozen account) can act on the
   account with withdraw / repay only while it is in receivership *)
Theorem third_party_needs_receivership (w : world) a s bank m al w' A :
  w_accts w a = Some A ->
  (h_withdraw R w a s bank m al = Ok w' \/ h_repay R w a s bank m al = Ok w') ->
  f_recv (a_fl A) = true \/ (f_frozen (a_fl A) = false /\ s = a_auth A) \/
  (f_frozen (a_fl A) = true /\ s = w_admin w /\ s <> a_auth A).
Proof.
  intros EA [H|H]; [unfold h_withdraw in H | unfold h_repay in H];
    apply tx_bind_ok in H as (A0 & E0 & H); apply get_acct_ok in E0; rewrite EA in E0; inversion E0; subst A0;
    apply tx_bind_ok in H as ([] & Ec & _); exact (signer_auth_cases _ _ _ Ec).
Qed.

(* withdraw.rs: zero-weight and zero-price collateral cannot be withdrawn in receivership *)
Theorem withdraw_guard (w : world) a s bank m al w' A :
  w_accts w a = Some A -> f_recv (a_fl A) = true -> h_withdraw R w a s bank m al = Ok w' ->
  e_w_init R (w_bw w) bank <> 0 /\ exists p, e_price_low R (w_bw w) bank = Ok p /\ 0 < p.
Proof.
  intros EA Fr H. unfold h_withdraw in H. apply tx_bind_ok in H as (A0 & E0 & H). apply get_acct_ok in E0.
  rewrite EA in E0; inversion E0; subst A0. apply tx_bind_ok in H as ([] & _ & H).
  apply bind_check in H as [C1 H]. apply bind_check in H as [_ H]. apply tx_bind_ok in H as ([] & C2 & _).
  rewrite Fr in *. cbn [andb] in C1. apply negb_true_iff in C1. split; [lia|].
  apply tx_bind_ok in C2 as (p & Ep & C2). apply check_true in C2. exists p. split; [exact Ep | lia].
Qed.

Ltac blocked H := destruct H as [?|?]; [exfalso | reflexivity].

Lemma is_ok_false {A} (r : res A) : (forall v, r = Ok v -> False) -> is_ok r = false.
Proof. destruct r; intros H; [exfalso; eapply H; reflexivity | reflexivity]. Qed.

(* C11: while IN_FLASHLOAN is set, start_liquidation / start_deleverage, classic liquidation of the
   account, bankruptcy, transfer and a nested start_flashloan all fail *)
Theorem flashloan_blocks (w : world) a A :
  w_accts w a = Some A -> f_fl (a_fl A) = true ->
  (forall K ixes cur cpi r, is_ok (h_start R K ixes cur cpi w a r) = false) /\
  (forall l s ab lb m, is_ok (h_liquidate R w l s a ab lb m) = false) /\
  (forall s b, is_ok (h_bankruptcy R w a s b) = false) /\
  (forall n s na, is_ok (h_transfer R w a n s na) = false) /\
  (forall ixes cur cpi au e, is_ok (h_start_fl ixes cur cpi w a au e) = false).
Proof.
  intros EA Ff. repeat split; intros; apply is_ok_false; intros v H.
  - apply h_start_ok in H as (_ & A0 & _ & E0 & _ & _ & _ & F & _). rewrite EA in E0; inversion E0; subst. congruence.
  - unfold h_liquidate in H. apply tx_bind_ok in H as (L & _ & H). apply tx_bind_ok in H as (V & EV & H).
    apply get_acct_ok in EV. rewrite EA in EV; inversion EV; subst V.
    apply bind_check in H as [_ H]. apply tx_bind_ok in H as ([] & _ & H). apply bind_check in H as [_ H].
    apply bind_check in H as [C _]. rewrite Ff in C. discriminate.
  - unfold h_bankruptcy in H. apply tx_bind_ok in H as (A0 & E0 & H). apply get_acct_ok in E0.
    rewrite EA in E0; inversion E0; subst A0. apply bind_check in H as [_ H]. apply bind_check in H as [C _].
    rewrite Ff in C. discriminate.
  - unfold h_transfer in H. apply tx_bind_ok in H as (A0 & E0 & H). apply get_acct_ok in E0.
    rewrite EA in E0; inversion E0; subst A0. apply bind_check in H as [_ H]. apply tx_bind_ok in H as ([] & _ & H).
    apply bind_check in H as [C _]. rewrite Ff in C. discriminate.
  - apply h_start_fl_ok in H as (A0 & E0 & _ & V & _). rewrite EA in E0; inversion E0; subst A0.
    apply check_flashloan_can_start_spec in V as (_ & _ & _ & _ & _ & F & _). congruence.
Qed.

(* while IN_RECEIVERSHIP is set: no second start, no classic liquidation in either role, no
   bankruptcy, no transfer, no borrow, no deposit, no flash loan start or end *)
Theorem receivership_blocks (w : world) a A :
  w_accts w a = Some A -> f_recv (a_fl A) = true ->
  (forall K ixes cur cpi r, is_ok (h_start R K ixes cur cpi w a r) = false) /\
  (forall l s ab lb m, is_ok (h_liquidate R w l s a ab lb m) = false) /\
  (forall v s ab lb m, is_ok (h_liquidate R w a s v ab lb m) = false) /\
  (forall s b, is_ok (h_bankruptcy R w a s b) = false) /\
  (forall n s na, is_ok (h_transfer R w a n s na) = false) /\
  (forall s b m, is_ok (h_borrow R w a s b m) = false) /\
  (forall s b m, is_ok (h_deposit R w a s b m) = false) /\
  (forall ixes cur cpi au e, is_ok (h_start_fl ixes cur cpi w a au e) = false) /\
  (forall cpi au nr, is_ok (h_end_fl R cpi w a au nr) = false).
Proof.
  intros EA Fr. repeat split; intros; apply is_ok_false; intros v0 H.
  - apply h_start_ok in H as (_ & A0 & _ & E0 & _ & _ & F & _). rewrite EA in E0; inversion E0; subst. congruence.
  - unfold h_liquidate in H. apply tx_bind_ok in H as (L & _ & H). apply tx_bind_ok in H as (V & EV & H).
    apply get_acct_ok in EV. rewrite EA in EV; inversion EV; subst V.
    apply bind_check in H as [_ H]. apply tx_bind_ok in H as ([] & _ & H). apply bind_check in H as [C _].
    rewrite Fr in C. discriminate.
  - unfold h_liquidate in H. apply tx_bind_ok in H as (L & EL & H). apply get_acct_ok in EL.
    rewrite EA in EL; inversion EL; subst L. apply tx_bind_ok in H as (V & _ & H).
    apply bind_check in H as [C _]. rewrite Fr in C. discriminate.
  - unfold h_bankruptcy in H. apply tx_bind_ok in H as (A0 & E0 & H). apply get_acct_ok in E0.
    rewrite EA in E0; inversion E0; subst A0. apply bind_check in H as [C _]. rewrite Fr in C. discriminate.
  - unfold h_transfer in H. apply tx_bind_ok in H as (A0 & E0 & H). apply get_acct_ok in E0.
    rewrite EA in E0; inversion E0; subst A0. apply bind_check in H as [_ H]. apply tx_bind_ok in H as ([] & _ & H).
    apply bind_check in H as [_ H]. apply bind_check in H as [C _]. rewrite Fr in C. discriminate.
  - unfold h_borrow in H. apply tx_bind_ok in H as (A0 & E0 & H). apply get_acct_ok in E0.
    rewrite EA in E0; inversion E0; subst A0. apply tx_bind_ok in H as ([] & _ & H). apply bind_check in H as [C _].
    rewrite Fr in C. rewrite andb_false_r in C. discriminate.
  - unfold h_deposit in H. apply tx_bind_ok in H as (A0 & E0 & H). apply get_acct_ok in E0.
    rewrite EA in E0; inversion E0; subst A0. apply tx_bind_ok in H as ([] & _ & H). apply bind_check in H as [C _].
    rewrite Fr in C. rewrite andb_false_r in C. discriminate.
  - apply h_start_fl_ok in H as (A0 & E0 & _ & V & _). rewrite EA in E0; inversion E0; subst A0.
    apply check_flashloan_can_start_spec in V as (_ & _ & _ & _ & _ & _ & F & _). congruence.
  - apply h_end_fl_ok in H as (_ & A0 & E0 & _ & _ & F & _). rewrite EA in E0; inversion E0; subst A0. congruence.
Qed.

(* ------------------------------------------------------------------------------------------ *)
(* the end-time conditions with the numbers of the property text                               *)
(* ------------------------------------------------------------------------------------------ *)

Lemma end_cond_literal K c bw pf fee :
  end_cond R K c bw pf fee ->
  exists qa ql qae qle,
    e_maint R bw pf = Ok (qa, ql) /\ e_equity R bw pf = Ok (qae, qle) /\
    c_am c - c_lm c <= qa - ql /\
    (K = KLiq -> 5 * 2^48 <= c_ae c ->
       qa - ql <= 0 /\
       (0 <= fee < 2^64 -> - 2^100 <= c_le c - qle <= 2^100 ->
        (c_ae c - qae) * 2^48 <= (c_le c - qle) * (2^48 + Z.max fee 14073748835533))).
Proof.
  intros (qa & ql & qae & qle & E1 & E2 & H1 & H2). exists qa, ql, qae, qle.
  split; [exact E1|]. split; [exact E2|]. split; [exact H1|]. intros HK Hth.
  change LIQUIDATION_CLOSEOUT_DOLLAR_THRESHOLD with (5 * 2^48) in H2.
  destruct (H2 HK Hth) as [H3 H4]. split; [exact H3|]. intros Hf Hr.
  unfold LIQUIDATION_BONUS_FEE_MINIMUM in H4. rewrite ONE_val in H4.
  set (r := c_le c - qle) in *. set (sz := c_ae c - qae) in *.
  set (M := Z.max (281474976710656 + fee) (281474976710656 + 14073748835533)) in *.
  assert (HM : M = 2^48 + Z.max fee 14073748835533) by (unfold M; lia).
  assert (HM2 : 0 < M < 2^65) by (unfold M; lia).
  unfold wmul, mul_raw in H4. rewrite ONE_val in H4.
  assert (Hlo : - 2^117 <= r * M / 281474976710656).
  { apply Z.div_le_lower_bound; [lia|]. nia. }
  assert (Hhi : r * M / 281474976710656 <= 2^117).
  { apply Z.div_le_upper_bound; [lia|]. nia. }
  rewrite wrap128_id in H4 by (rewrite I128_MIN_val, I128_MAX_val; lia).
  pose proof (Z.mul_div_le (r * M) 281474976710656 ltac:(lia)) as Hd.
  rewrite <- HM. change (2^48) with 281474976710656. nia.
Qed.


(* ------------------------------------------------------------------------------------------ *)
(* statements in the form props/C10.v and props/C11.v pin                                      *)
(* ------------------------------------------------------------------------------------------ *)

(* neither start nor end of any bracket can run via CPI *)
Theorem bracket_ops_not_in_cpi (w : world) :
  (forall K ixes cur a r, is_ok (h_start R K ixes cur true w a r) = false) /\
  (forall K a s, is_ok (h_end R K true w a s) = false) /\
  (forall ixes cur a au e, is_ok (h_start_fl ixes cur true w a au e) = false) /\
  (forall a au nr, is_ok (h_end_fl R true w a au nr) = false).
Proof.
  repeat split; intros; apply is_ok_false; intros v H.
  - apply h_start_ok in H as (V & _). apply validate_cpi_false in V. discriminate.
  - apply h_end_ok in H as (V & _). discriminate.
  - apply h_start_fl_ok in H as (A & _ & _ & V & _). apply check_flashloan_can_start_spec in V.
    destruct V as (_ & _ & V & _). discriminate.
  - apply h_end_fl_ok in H as (V & _). discriminate.
Qed.

Theorem start_facts K ixes cur cpi (w : world) a recv w' :
  h_start R K ixes cur cpi w a recv = Ok w' ->
  validate_instructions ixes cur cpi K = Ok tt /\
  exists A, w_accts w a = Some A /\ a_record A = true /\
    f_recv (a_fl A) = false /\ f_fl (a_fl A) = false /\ f_disabled (a_fl A) = false /\
    start_cond R K (ocache w' a) (w_bw w) (a_pf A) /\
    orc w' a = true /\ orv w' a = recv /\ (K = KDelev -> recv = w_risk_admin w) /\
    (forall k, k <> a -> w_accts w' k = w_accts w k).
Proof.
  intros H. apply h_start_ok in H as (V & A & A' & EA & -> & G0 & F1 & F2 & F3 & G1 & G2 & G3 & G4 & G5 & G6 & G7 & SC & HD).
  split; [exact V|]. exists A. unfold ocache, orc, orv. rewrite accts_set, Z.eqb_refl.
  repeat split; auto; try apply SC. intros k N. rewrite accts_set. rewrite (proj2 (Z.eqb_neq k a) N). reflexivity.
Qed.

Theorem end_facts K cpi (w : world) a s w' :
  h_end R K cpi w a s = Ok w' ->
  cpi = false /\
  exists A, w_accts w a = Some A /\ f_recv (a_fl A) = true /\ a_recv A = s /\
    end_cond R K (a_cache A) (w_bw w) (a_pf A) (w_fee_max w) /\
    orc w' a = false /\ orv w' a = 0 /\ (K = KDelev -> odl w' a = false) /\
    (forall k, k <> a -> w_accts w' k = w_accts w k).
Proof.
  intros H. apply h_end_ok in H as (-> & A & A' & EA & -> & F1 & F2 & F3 & G1 & G2 & G3 & G4 & G5 & G6 & G7 & EC).
  split; [reflexivity|]. exists A. unfold orc, orv, odl. rewrite accts_set, Z.eqb_refl.
  repeat split; auto.
  - intros ->. rewrite G3. reflexivity.
  - intros k N. rewrite accts_set. rewrite (proj2 (Z.eqb_neq k a) N). reflexivity.
Qed.

Theorem end_fl_facts cpi (w : world) a auth nr w' :
  h_end_fl R cpi w a auth nr = Ok w' ->
  cpi = false /\
  exists A, w_accts w a = Some A /\ a_auth A = auth /\
    (if nr then e_init_check_norem R (a_pf A) else e_init_check R (w_bw w) (a_pf A)) = Ok tt /\
    ofl w' a = false /\ ouc w' a = false /\
    (exists A', w_accts w' a = Some A' /\ a_pf A' = a_pf A) /\ w_bw w' = w_bw w.
Proof.
  intros H. apply h_end_fl_ok in H as (-> & A & EA & Ea & _ & _ & _ & Ei & ->).
  split; [reflexivity|]. exists A. unfold ofl, ouc. rewrite accts_set, Z.eqb_refl.
  repeat split; auto. eexists. split; reflexivity.
Qed.

Theorem start_fl_facts ixes cur cpi (w : world) a auth e w' :
  h_start_fl ixes cur cpi w a auth e = Ok w' ->
  exists A, w_accts w a = Some A /\ a_auth A = auth /\
    check_flashloan_can_start (a_fl A) a ixes cur e cpi = Ok tt /\ ofl w' a = true.
Proof.
  intros H. apply h_start_fl_ok in H as (A & EA & Ea & V & ->). exists A.
  unfold ofl. rewrite accts_set, Z.eqb_refl. repeat split; auto.
Qed.

End W.
