(* BridgeLemmas.v — the invariant HOk2 (proved preserved by every instruction in HandlerWorld.v) implies the
   local well-formedness hypotheses that the C05 and C07 handler theorems assume, so those hypotheses hold in
   every state reachable from a well-formed world. *)
Require Import Base Constants Fixed Curve Bank BankOps Risk TransferFee Handlers.
Require Import FixedLemmas BankLemmas AccrualLemmas HandlerLemmas SolvencyLemmas LedgerLemmas SolvencyHandlers SolvencyWorld HandlerWorld.
Require Import BankruptcyLemmas LiquidationLemmas.
From Coq Require Import ZifyBool.
Local Open Scope Z_scope.

Lemma HOk2_bank_sane w b hb : HOk2 w -> nth_bank w b = Ok hb -> bank_sane (hb_b hb).
Proof.
  intros (_ & _ & Hb) H. destruct (Hb _ _ H) as (((A & L & Ta & Tl) & P & Lp & _) & _). unfold bank_sane. lia.
Qed.

Lemma HOk2_acct_wf w a ac : HOk2 w -> nth_acct w a = Ok ac -> Forall wf_bal (ha_la ac).
Proof. intros H Hac. eapply acct_wf_of; eauto. Qed.

Lemma HOk2_hw_ok w : HOk2 w -> hw_ok w.
Proof.
  intros H. pose proof H as (_ & L & Hb). split.
  - apply Forall_forall. intros hb Hin. apply In_nth_error in Hin as (k & Hk).
    assert (Hn : nth_bank w k = Ok hb) by (unfold nth_bank, nth_res; rewrite Hk; reflexivity).
    destruct (Hb _ _ Hn) as (Hok & _). destruct (hb_ok_tot _ Hok). split; [exact (hb_ok_sv _ Hok)|split; assumption].
  - unfold accts_ok. apply Forall_forall. intros ac Hin. apply In_nth_error in Hin as (k & Hk).
    assert (Hn : nth_acct w k = Ok ac) by (unfold nth_acct, nth_res; rewrite Hk; reflexivity).
    exact (HOk2_acct_wf _ _ _ H Hn).
Qed.
