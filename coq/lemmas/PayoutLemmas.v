(* PayoutLemmas.v — proofs about model/Payout.v (fee / insurance / emissions vault drawdowns and their destinations). *)
Require Import Base Constants TxConstants Fixed Curve Bank Payout FixedLemmas BankLemmas HandlerLemmas.
From Coq Require Import ZifyBool.
Local Open Scope Z_scope.

Tactic Notation "ybind" hyp(H) "as" ident(x) ident(Hx) := apply bind_ok in H; destruct H as [x [Hx H]].

Lemma ycheck c e u : check c e = Ok u -> c = true.
Proof. unfold check; destruct c; [reflexivity | discriminate]. Qed.

(* ---------------------------------------------------------------- token table *)
Lemma credit_keys ts k a : map tk_key (credit ts k a) = map tk_key ts.
Proof. unfold credit. rewrite map_map. apply map_ext. intros t. destruct (tk_key t =? k); reflexivity. Qed.

Lemma credit_mints ts k a : map tk_mint (credit ts k a) = map tk_mint ts.
Proof. unfold credit. rewrite map_map. apply map_ext. intros t. destruct (tk_key t =? k); reflexivity. Qed.

Lemma find_tok_key ts k t : find_tok ts k = Some t -> tk_key t = k.
Proof. unfold find_tok. intros H. apply find_some in H. destruct H as [_ H]. lia. Qed.

Lemma tok_amt_credit_other ts k a k' : k' <> k -> tok_amt (credit ts k a) k' = tok_amt ts k'.
Proof.
  intros Hne. unfold tok_amt, find_tok, credit.
  induction ts as [|t ts IH]; cbn [map find]; [reflexivity|].
  destruct (tk_key t =? k) eqn:Ek; cbn [tk_key].
  - destruct (tk_key t =? k') eqn:Ek'; [lia|]. exact IH.
  - destruct (tk_key t =? k') eqn:Ek'; [reflexivity|]. exact IH.
Qed.

Lemma tok_amt_credit_same ts k a t : find_tok ts k = Some t -> tok_amt (credit ts k a) k = tok_amt ts k + a.
Proof.
  unfold tok_amt, find_tok, credit.
  induction ts as [|t0 ts IH]; cbn [map find]; [discriminate|].
  destruct (tk_key t0 =? k) eqn:Ek; cbn [tk_key]; rewrite ?Ek.
  - intros _. cbn [tk_amt]. reflexivity.
  - exact IH.
Qed.

(* keys are unique in a well-formed table; then a credit raises the mint's total by exactly the amount *)
Lemma tok_total_credit_absent mint ts k a : ~ In k (map tk_key ts) -> tok_total mint (credit ts k a) = tok_total mint ts.
Proof.
  unfold tok_total, credit. induction ts as [|t ts IH]; cbn [map fold_right In]; [reflexivity|].
  intros Hn. destruct (tk_key t =? k) eqn:Ek; [exfalso; apply Hn; left; lia|].
  rewrite IH; [reflexivity|]. intros Hin; apply Hn; right; exact Hin.
Qed.

Lemma tok_total_credit mint ts k a t :
  NoDup (map tk_key ts) -> find_tok ts k = Some t ->
  tok_total mint (credit ts k a) = tok_total mint ts + (if tk_mint t =? mint then a else 0).
Proof.
  unfold find_tok. induction ts as [|t0 ts IH]; cbn [map find]; [discriminate|].
  intros Hnd Hf. inversion Hnd as [|x l Hnot Hnd']; subst.
  destruct (tk_key t0 =? k) eqn:Ek.
  - assert (t0 = t) by congruence. subst t0.
    assert (Hk : tk_key t = k) by lia.
    change (credit (t :: ts) k a) with ((if tk_key t =? k then mkTok (tk_key t) (tk_mint t) (tk_amt t + a) else t) :: credit ts k a).
    rewrite Ek. unfold tok_total at 1. cbn [fold_right tk_mint tk_amt].
    fold (tok_total mint (credit ts k a)). rewrite tok_total_credit_absent by (rewrite <- Hk; exact Hnot).
    unfold tok_total at 2. cbn [fold_right]. fold (tok_total mint ts).
    destruct (tk_mint t =? mint); lia.
  - change (credit (t0 :: ts) k a) with ((if tk_key t0 =? k then mkTok (tk_key t0) (tk_mint t0) (tk_amt t0 + a) else t0) :: credit ts k a).
    rewrite Ek. unfold tok_total at 1 2. cbn [fold_right]. fold (tok_total mint (credit ts k a)). fold (tok_total mint ts).
    rewrite (IH Hnd' Hf). lia.
Qed.

(* ---------------------------------------------------------------- vault_pay *)
Lemma vault_pay_inv vault amount mint ts dst v ts' :
  vault_pay vault amount mint ts dst = Ok (v, ts') ->
  exists t, find_tok ts dst = Some t /\ amount <= vault /\ tk_mint t = mint /\ v = vault - amount /\ ts' = credit ts dst amount.
Proof.
  unfold vault_pay. destruct (find_tok ts dst) as [t|] eqn:Ef; [|discriminate].
  intros H. ybind H as u1 H1. apply ycheck in H1. ybind H as u2 H2. apply ycheck in H2.
  apply Ok_inj in H. inversion H; subst. exists t. repeat split; try reflexivity; lia.
Qed.

Ltac ysimpl := cbn [y_admin y_auth y_aflags y_fee_dest y_em_wallet y_fee_vault y_ins_vault y_em_vault y_toks y_bank y_bal
                    y_now y_acct_last set_fee_vault set_ins_vault set_em_vault set_toks set_fee_dest set_em_wallet
                    set_bank_bal set_acct_last set_now set_aflags fst snd] in *.

(* one inversion step on a hypothesis `… = Ok w'` of the payout model *)
Ltac ystep H :=
  match type of H with
  | bind (check _ _) _ = Ok _ =>
      let u := fresh "u" in let Hc := fresh "Hc" in apply bind_ok in H; destruct H as [u [Hc H]]; apply ycheck in Hc
  | bind (vault_pay _ _ _ _ _) _ = Ok _ =>
      let p := fresh "p" in let Hp := fresh "Hp" in apply bind_ok in H; destruct H as [p [Hp H]]; destruct p as [? ?];
      apply vault_pay_inv in Hp; destruct Hp as [? [? [? [? [? ?]]]]]
  | bind (claim_emissions _ _ _) _ = Ok _ =>
      let p := fresh "p" in let Hp := fresh "Hclaim" in apply bind_ok in H; destruct H as [p [Hp H]]; destruct p as [? ?]
  | Ok _ = Ok _ => apply Ok_inj in H
  end.
Ltac yinv H := repeat ystep H.

(* ---------------------------------------------------------------- well-formedness and its preservation *)
Definition pay_wf (w : payw) : Prop :=
  NoDup (map tk_key (y_toks w)) /\ 0 <= y_fee_vault w /\ 0 <= y_ins_vault w /\ 0 <= y_em_vault w.

(* 'the emissions vault covers what is still to be credited plus what the position has been credited and not yet paid' *)
Definition em_covered (w : payw) : Prop :=
  b_em_rem (y_bank w) + bl_em (y_bal w) <= y_em_vault w * ONE.

(* the frame of the common payout tail *)
Lemma pay_emissions_inv w dst w' :
  pay_emissions w dst = Ok w' ->
  exists bk bl n, settle_emissions (y_bank w) (y_bal w) (y_now w) = Ok (bk, bl, n) /\
    y_bank w' = bk /\ y_bal w' = bl /\
    y_admin w' = y_admin w /\ y_auth w' = y_auth w /\ y_aflags w' = y_aflags w /\ y_fee_dest w' = y_fee_dest w /\
    y_em_wallet w' = y_em_wallet w /\ y_fee_vault w' = y_fee_vault w /\ y_ins_vault w' = y_ins_vault w /\ y_now w' = y_now w /\
    ((n <= 0 /\ y_em_vault w' = y_em_vault w /\ y_toks w' = y_toks w) \/
     (0 < n /\ n <= y_em_vault w /\ y_em_vault w' = y_em_vault w - n /\ y_toks w' = credit (y_toks w) dst n /\
      exists t, find_tok (y_toks w) dst = Some t /\ tk_mint t = MINT_EM)).
Proof.
  unfold pay_emissions. intros H. ybind H as r Hr. destruct r as [[bk bl] n].
  exists bk, bl, n. split; [exact Hr|].
  destruct (0 <? n) eqn:En.
  - yinv H. subst w'. ysimpl. repeat split; try reflexivity.
    right. repeat split; try lia; try (subst; reflexivity).
    match goal with Hf : find_tok _ _ = Some ?t |- _ => exists t; split; assumption end.
  - yinv H. subst w'. ysimpl. repeat split; try reflexivity. left. repeat split; try reflexivity; lia.
Qed.

Lemma settle_cover b bl now b' bl' n :
  settle_emissions b bl now = Ok (b', bl', n) ->
  b_em_rem b' + bl_em bl' + n * ONE = b_em_rem b + bl_em bl /\ 0 <= n.
Proof.
  intros H. destruct (settle_emissions_exact _ _ _ _ _ _ H) as [b1 [bl1 [Hc [Hb [Hn [Hr Hnn]]]]]].
  destruct (claim_emissions_conserves _ _ _ _ _ Hc) as [Hcons _]. subst b'. split; lia.
Qed.

(* unfold one instruction of pay_step; the token-account lookup of the instructions that start with it is resolved *)
Ltac yopen H :=
  cbn [pay_step] in H;
  unfold ix_withdraw_fees, ix_withdraw_fees_permissionless, ix_update_fees_destination, ix_withdraw_insurance,
         ix_withdraw_emissions, ix_withdraw_emissions_permissionless, ix_settle_emissions, ix_update_emissions_destination in H;
  try match type of H with
      | match find_tok ?ts ?d with _ => _ end = _ =>
          let t0 := fresh "t0" in let Ef0 := fresh "Ef0" in destruct (find_tok ts d) as [t0|] eqn:Ef0; [|discriminate H]
      end.

(* the frame of the emission payouts, after the guards *)
Ltac yem H :=
  match type of H with
  | pay_emissions _ _ = Ok _ =>
      apply pay_emissions_inv in H;
      destruct H as [?bk [?bl [?n [?Hs [?Hbk [?Hbl [?Had [?Hau [?Hfl [?Hfd [?Hwl [?Hfv [?Hiv [?Hnow ?Hd]]]]]]]]]]]]]]
  end.

(* ---------------------------------------------------------------- the step theorems *)

(* FEE VAULT: it is drawn down only by the group admin, or by anyone into the destination the admin fixed; the tokens
   arrive, all of them, in the one destination account named by the instruction *)
Lemma fee_vault_drawdown w signer op w' :
  pay_step w signer op = Ok w' -> y_fee_vault w' < y_fee_vault w ->
  exists dst paid t, paid = y_fee_vault w - y_fee_vault w' /\ find_tok (y_toks w) dst = Some t /\ tk_mint t = MINT_BANK /\
    y_toks w' = credit (y_toks w) dst paid /\
    ((signer = y_admin w /\ exists a, op = YWithdrawFees dst a) \/
     (dst = y_fee_dest w /\ exists a, op = YWithdrawFeesPermissionless dst a)).
Proof.
  destruct op as [d a|d a|d|d a|d|d| |wl|dt|f]; intros H Hlt; yopen H; yinv H; try yem H; try subst w'; ysimpl; try lia.
  - match goal with Hf : find_tok (y_toks w) d = Some ?t |- _ => exists d, a, t end.
    subst. split; [lia|]. split; [assumption|]. split; [assumption|]. split; [reflexivity|].
    left. split; [lia|]. exists a. reflexivity.
  - match goal with Hf : find_tok (y_toks w) d = Some ?t, Hm : tk_mint ?t = MINT_BANK |- _ => exists d, (Z.min a (y_fee_vault w)), t end.
    subst. split; [lia|]. split; [assumption|]. split; [assumption|]. split; [reflexivity|].
    right. split; [lia|]. exists a. reflexivity.
Qed.

(* INSURANCE VAULT: only the group admin *)
Lemma ins_vault_drawdown w signer op w' :
  pay_step w signer op = Ok w' -> y_ins_vault w' < y_ins_vault w ->
  signer = y_admin w /\ exists dst a t, op = YWithdrawInsurance dst a /\ a = y_ins_vault w - y_ins_vault w' /\
    find_tok (y_toks w) dst = Some t /\ y_toks w' = credit (y_toks w) dst a.
Proof.
  destruct op as [d a|d a|d|d a|d|d| |wl|dt|f]; intros H Hlt; yopen H; yinv H; try yem H; try subst w'; ysimpl; try lia.
  split; [lia|].
  match goal with Hf : find_tok (y_toks w) d = Some ?t |- _ => exists d, a, t end.
  subst. repeat split; try assumption; lia.
Qed.

(* the two destinations are changed only by their owners: the fee destination by the group admin, the emissions wallet by
   the account authority (and then only while the account is neither disabled nor frozen) *)
Lemma destinations_changed_by_owner w signer op w' :
  pay_step w signer op = Ok w' ->
  (y_fee_dest w' <> y_fee_dest w -> signer = y_admin w /\ op = YUpdateFeesDest (y_fee_dest w') /\
     exists t, find_tok (y_toks w) (y_fee_dest w') = Some t /\ tk_mint t = MINT_BANK) /\
  (y_em_wallet w' <> y_em_wallet w -> signer = y_auth w /\ op = YUpdateEmissionsDest (y_em_wallet w') /\
     aflag w ACCOUNT_DISABLED = false /\ aflag w ACCOUNT_FROZEN = false).
Proof.
  destruct op as [d a|d a|d|d a|d|d| |wl|dt|f]; intros H; yopen H; yinv H; try yem H; try subst w'; ysimpl;
    (split; intros C; try congruence).
  - split; [lia|]. split; [reflexivity|]. exists t0. split; [assumption | lia].
  - split; [lia|]. split; [reflexivity|].
    split; [destruct (aflag w ACCOUNT_DISABLED); [discriminate | reflexivity] | destruct (aflag w ACCOUNT_FROZEN); [discriminate | reflexivity]].
Qed.

(* EMISSIONS VAULT: a payout goes either to the token account named by an authorized signer (the authority; the group
   admin only while the account is frozen) or, triggered by anyone, to the associated token account of the wallet the
   authority registered; never from a disabled account; it is the whole-token part of what the position had been
   credited, and the position keeps the fraction *)
Lemma em_vault_drawdown w signer op w' :
  pay_step w signer op = Ok w' -> y_em_vault w' < y_em_vault w ->
  exists dst n t, n = y_em_vault w - y_em_vault w' /\ find_tok (y_toks w) dst = Some t /\ tk_mint t = MINT_EM /\
    y_toks w' = credit (y_toks w) dst n /\
    aflag w ACCOUNT_DISABLED = false /\
    settle_emissions (y_bank w) (y_bal w) (y_now w) = Ok (y_bank w', y_bal w', n) /\
    ((op = YWithdrawEmissions dst /\ authorized w signer = true) \/
     (op = YWithdrawEmissionsPermissionless dst /\ y_em_wallet w <> 0 /\ dst = ata (y_em_wallet w) /\ aflag w ACCOUNT_FROZEN = false)).
Proof.
  destruct op as [d a|d a|d|d a|d|d| |wl|dt|f]; intros H Hlt; yopen H; yinv H; try yem H; try subst w'; ysimpl; try lia.
  - destruct Hd as [[Hn [Hv _]]|[Hn [Hle [Hv [Hts [t [Hf Hm]]]]]]]; [lia|].
    exists d, n, t. subst bk bl.
    split; [lia|]. split; [assumption|]. split; [assumption|]. split; [assumption|].
    split; [destruct (aflag w ACCOUNT_DISABLED); [discriminate | reflexivity]|]. split; [assumption|].
    left. split; [reflexivity | assumption].
  - destruct Hd as [[Hn [Hv _]]|[Hn [Hle [Hv [Hts [t [Hf Hm]]]]]]]; [lia|].
    exists d, n, t. subst bk bl.
    split; [lia|]. split; [assumption|]. split; [assumption|]. split; [assumption|].
    split; [destruct (aflag w ACCOUNT_DISABLED); [discriminate | reflexivity]|]. split; [assumption|].
    right. split; [reflexivity|]. split; [lia|]. split; [lia|]. destruct (aflag w ACCOUNT_FROZEN); [discriminate | reflexivity].
Qed.

(* ---------------------------------------------------------------- invariants over histories *)
Definition pay_inv (w : payw) : Prop := pay_wf w /\ em_covered w.

(* tokens are neither created nor destroyed: per mint, vaults + token accounts stay constant *)
Definition supply_bank (w : payw) : Z := y_fee_vault w + y_ins_vault w + tok_total MINT_BANK (y_toks w).
Definition supply_em (w : payw) : Z := y_em_vault w + tok_total MINT_EM (y_toks w).

Lemma pay_emissions_cover w d w' :
  NoDup (map tk_key (y_toks w)) -> 0 <= y_fee_vault w -> 0 <= y_ins_vault w -> 0 <= y_em_vault w ->
  b_em_rem (y_bank w) + bl_em (y_bal w) <= y_em_vault w * ONE ->
  pay_emissions w d = Ok w' ->
  ((NoDup (map tk_key (y_toks w')) /\ 0 <= y_fee_vault w' /\ 0 <= y_ins_vault w' /\ 0 <= y_em_vault w') /\
   b_em_rem (y_bank w') + bl_em (y_bal w') <= y_em_vault w' * ONE) /\
  y_fee_vault w' + y_ins_vault w' + tok_total MINT_BANK (y_toks w') = y_fee_vault w + y_ins_vault w + tok_total MINT_BANK (y_toks w) /\
  y_em_vault w' + tok_total MINT_EM (y_toks w') = y_em_vault w + tok_total MINT_EM (y_toks w) /\
  y_admin w' = y_admin w /\ y_auth w' = y_auth w.
Proof.
  intros Hnd Hf0 Hi0 He0 Hcov H. apply pay_emissions_inv in H.
  destruct H as [bk [bl [n [Hs [Hbk [Hbl [Had [Hau [_ [_ [_ [Hfv [Hiv [_ Hd]]]]]]]]]]]]]].
  destruct (settle_cover _ _ _ _ _ _ Hs) as [Hsum Hn0]. rewrite Hbk, Hbl, Hfv, Hiv.
  destruct Hd as [[Hn [Hv Hts]]|[Hn [Hle [Hv [Hts [t [Hf Hm]]]]]]].
  - assert (n = 0) by lia. subst n. rewrite Hv, Hts. repeat split; try assumption; lia.
  - rewrite Hv, Hts, credit_keys. replace ((y_em_vault w - n) * ONE) with (y_em_vault w * ONE - n * ONE) by ring.
    rewrite (tok_total_credit MINT_BANK _ _ _ t Hnd Hf), (tok_total_credit MINT_EM _ _ _ t Hnd Hf).
    rewrite Hm. change (MINT_EM =? MINT_BANK) with false. change (MINT_EM =? MINT_EM) with true. cbv iota.
    repeat split; try assumption; lia.
Qed.

Lemma pay_step_inv w signer op w' :
  pay_inv w -> pay_step w signer op = Ok w' ->
  pay_inv w' /\ supply_bank w' = supply_bank w /\ supply_em w' = supply_em w /\
  y_admin w' = y_admin w /\ y_auth w' = y_auth w.
Proof.
  intros [[Hnd [Hf0 [Hi0 He0]]] Hcov]. unfold pay_inv, pay_wf, em_covered, supply_bank, supply_em in *.
  assert (Hpay : forall a d t, find_tok (y_toks w) d = Some t -> tk_mint t = MINT_BANK ->
            tok_total MINT_BANK (credit (y_toks w) d a) = tok_total MINT_BANK (y_toks w) + a /\
            tok_total MINT_EM (credit (y_toks w) d a) = tok_total MINT_EM (y_toks w)).
  { intros a d t Hf Hm. rewrite (tok_total_credit MINT_BANK _ _ _ t Hnd Hf), (tok_total_credit MINT_EM _ _ _ t Hnd Hf).
    rewrite Hm. change (MINT_BANK =? MINT_BANK) with true. change (MINT_BANK =? MINT_EM) with false. cbv iota. split; lia. }
  destruct op as [d a|d a|d|d a|d|d| |wl|dt|f]; intros H; yopen H; yinv H.
  - subst. ysimpl. rewrite credit_keys.
    match goal with Hf : find_tok (y_toks w) d = Some ?t, Hm : tk_mint ?t = MINT_BANK |- _ => destruct (Hpay a d t Hf Hm) as [P1 P2] end.
    rewrite P1, P2. repeat split; try assumption; lia.
  - subst. ysimpl. rewrite credit_keys.
    match goal with Hf : find_tok (y_toks w) d = Some ?t, Hm : tk_mint ?t = MINT_BANK |- _ =>
      destruct (Hpay (Z.min a (y_fee_vault w)) d t Hf Hm) as [P1 P2] end.
    rewrite P1, P2. repeat split; try assumption; lia.
  - subst. ysimpl. repeat split; assumption.
  - subst. ysimpl. rewrite credit_keys.
    match goal with Hf : find_tok (y_toks w) d = Some ?t, Hm : tk_mint ?t = MINT_BANK |- _ => destruct (Hpay a d t Hf Hm) as [P1 P2] end.
    rewrite P1, P2. repeat split; try assumption; lia.
  - exact (pay_emissions_cover w d w' Hnd Hf0 Hi0 He0 Hcov H).
  - exact (pay_emissions_cover w d w' Hnd Hf0 Hi0 He0 Hcov H).
  - subst. ysimpl.
    match goal with Hc : claim_emissions _ _ _ = Ok _ |- _ => destruct (claim_emissions_conserves _ _ _ _ _ Hc) as [Hcc _] end.
    repeat split; try assumption; lia.
  - subst. ysimpl. repeat split; assumption.
  - subst. ysimpl. repeat split; assumption.
  - subst. ysimpl. repeat split; assumption.
Qed.

Lemma pay_apply_inv w so : pay_inv w ->
  pay_inv (pay_apply w so) /\ supply_bank (pay_apply w so) = supply_bank w /\ supply_em (pay_apply w so) = supply_em w /\
  y_admin (pay_apply w so) = y_admin w /\ y_auth (pay_apply w so) = y_auth w.
Proof.
  intros Hi. unfold pay_apply. destruct (pay_step w (fst so) (snd so)) as [w'|e] eqn:Es.
  - exact (pay_step_inv _ _ _ _ Hi Es).
  - repeat split; try reflexivity; apply Hi.
Qed.

(* every reachable state: the emissions vault covers remaining + outstanding, no vault is negative, supplies are constant *)
Lemma pay_run_inv ops : forall w, pay_inv w ->
  pay_inv (pay_run w ops) /\ supply_bank (pay_run w ops) = supply_bank w /\ supply_em (pay_run w ops) = supply_em w /\
  y_admin (pay_run w ops) = y_admin w /\ y_auth (pay_run w ops) = y_auth w.
Proof.
  induction ops as [|so ops IH]; intros w Hi; cbn [pay_run fold_left].
  - repeat split; try reflexivity; apply Hi.
  - destruct (pay_apply_inv w so Hi) as [Hi' [Hb [He [Ha Hu]]]].
    destruct (IH _ Hi') as [Hi'' [Hb' [He' [Ha' Hu']]]]. fold (pay_run (pay_apply w so) ops) in *.
    repeat split; try apply Hi''; congruence.
Qed.

(* the vault-side statement of the property text: at every reachable state the emissions vault holds at least the funded
   remaining amount plus the position's unpaid credit *)
Lemma em_vault_covers_always ops w : pay_inv w ->
  b_em_rem (y_bank (pay_run w ops)) + bl_em (y_bal (pay_run w ops)) <= y_em_vault (pay_run w ops) * ONE.
Proof. intros Hi. destruct (pay_run_inv ops w Hi) as [[_ Hc] _]. exact Hc. Qed.
