(* PriceLemmas.v — C09: what a successfully loaded feed / a successfully computed price implies. *)
Require Import Base Constants Fixed Price FixedLemmas.
From Coq Require Import ZifyBool.
Local Open Scope Z_scope.

(* ---------------------------------------------------------------- monad inversion *)
Lemma pbind_ok {A B} (r : res A) (f : A -> res B) v : bind r f = Ok v -> exists a, r = Ok a /\ f a = Ok v.
Proof. destruct r; cbn [bind]; intros H; [eauto | discriminate]. Qed.
Lemma check_ok c e u : check c e = Ok u -> c = true.
Proof. unfold check; destruct c; [reflexivity | discriminate]. Qed.
Lemma ok_or_ok {A} (r : res A) e v : ok_or r e = Ok v -> r = Ok v.
Proof. unfold ok_or; destruct r as [a|[| |c]]; intros H; try discriminate; assumption. Qed.
Lemma px_assert_ok b u : px_assert b = Ok u -> b = true.
Proof. unfold px_assert; destruct b; [reflexivity | discriminate]. Qed.
Lemma bind_err {A B} (r : res A) (f : A -> res B) e : r = Err e -> bind r f = Err e.
Proof. intros ->; reflexivity. Qed.

Ltac binv H x Hx := apply pbind_ok in H; destruct H as [x [Hx H]].
Ltac chk H := apply check_ok in H.

(* ---------------------------------------------------------------- specification vocabulary *)
Definition pyth_setups : list Z := [OS_PythPushOracle; OS_StakedWithPythPush; OS_KaminoPythPush; OS_DriftPythPull; OS_SolendPythPull].
Definition swb_setups : list Z := [OS_SwitchboardPull; OS_KaminoSwitchboardPull; OS_DriftSwitchboardPull; OS_SolendSwitchboardPull].
Definition venue_setups : list Z := [OS_KaminoPythPush; OS_KaminoSwitchboardPull; OS_DriftPythPull; OS_DriftSwitchboardPull;
                                     OS_SolendPythPull; OS_SolendSwitchboardPull].

(* raw acceptance conditions, exactly as the code evaluates them *)
Definition pyth_accepted (a : oacct) (now max_age : Z) : Prop :=
  oa_owner a = PYTH_RECEIVER_ID /\
  exists m, oa_body a = BPyth m /\ pm_full m = true /\ max_age <= I64_MAX /\
            now <= sat_i64 (pm_publish m + max_age).
Definition swb_accepted (a : oacct) (now max_age : Z) : Prop :=
  oa_owner a = SWITCHBOARD_PULL_ID /\
  exists m, oa_body a = BSwb m /\ sat_i64 (now - sm_last_update m) <= wrap_s 64 max_age.

Definition first_account_accepted (c : ocfg) (ais : list oacct) (now max_age : Z) : Prop :=
  exists a rest, ais = a :: rest /\ oa_key a = oc_key0 c /\
    ((In (oc_setup c) pyth_setups /\ pyth_accepted a now max_age) \/
     (In (oc_setup c) swb_setups /\ swb_accepted a now max_age)).

(* ---------------------------------------------------------------- loaders *)
Lemma pyth_account_inv a m : px_pyth_account a = Ok m -> oa_owner a = PYTH_RECEIVER_ID /\ oa_body a = BPyth m.
Proof.
  unfold px_pyth_account. intros H. binv H u Hu. chk Hu. apply Z.eqb_eq in Hu.
  destruct (oa_body a); try discriminate. apply Ok_inj in H. subst. auto.
Qed.

Lemma pyth_load_inv a now ma f :
  px_pyth_load_checked a now ma = Ok f ->
  pyth_accepted a now ma /\
  exists m, oa_body a = BPyth m /\ f = FPyth (pm_price m) (pm_conf m) (pm_expo m) (pm_ema_price m) (pm_ema_conf m).
Proof.
  unfold px_pyth_load_checked. intros H.
  binv H m Hm. apply pyth_account_inv in Hm as [Ho Hb].
  binv H u Hu. chk Hu.
  binv H ma' Hma. apply chk_inv in Hma as [-> Hr].
  binv H u2 Hu2. chk Hu2. apply Ok_inj in H.
  split.
  - split; [assumption|]. exists m. repeat split; try assumption.
    + unfold in_i64, in_range in Hr. lia.
    + lia.
  - exists m. split; [assumption | symmetry; assumption].
Qed.

Lemma swb_load_inv a now ma f :
  px_swb_load_checked a now ma = Ok f ->
  swb_accepted a now ma /\ exists m, oa_body a = BSwb m /\ f = FSwb (sm_value m) (sm_std_dev m).
Proof.
  unfold px_swb_load_checked. intros H.
  binv H u Hu. chk Hu. apply Z.eqb_eq in Hu.
  binv H m Hm.
  assert (Hb : oa_body a = BSwb m).
  { unfold px_swb_parse in Hm. destruct (oa_body a); try discriminate. apply Ok_inj in Hm. subst; reflexivity. }
  destruct (wrap_s 64 ma <? sat_i64 (now - sm_last_update m)) eqn:Hs; [discriminate|].
  apply Ok_inj in H. split.
  - split; [assumption|]. exists m. split; [assumption | lia].
  - exists m. split; [assumption | symmetry; assumption].
Qed.

Lemma pyth_owned_inv a oe now ma f :
  px_pyth_owned a oe now ma = Ok f -> pyth_accepted a now ma.
Proof.
  unfold px_pyth_owned. intros H. binv H u Hu. apply pyth_load_inv in H as [H _]. exact H.
Qed.

(* the exchange-rate tails never turn an error into a feed: they are only reached with a feed *)

(* ---------------------------------------------------------------- try_from_bank_with_max_age *)
Ltac setup_case H E k :=
  match type of H with
  | context [oc_setup ?c =? k] => destruct (oc_setup c =? k) eqn:E
  end.

Lemma in_pyth s : s = OS_PythPushOracle \/ s = OS_StakedWithPythPush \/ s = OS_KaminoPythPush \/
                  s = OS_DriftPythPull \/ s = OS_SolendPythPull -> In s pyth_setups.
Proof. unfold pyth_setups; cbn [In]; intuition. Qed.
Lemma in_swb s : s = OS_SwitchboardPull \/ s = OS_KaminoSwitchboardPull \/ s = OS_DriftSwitchboardPull \/
                 s = OS_SolendSwitchboardPull -> In s swb_setups.
Proof. unfold swb_setups; cbn [In]; intuition. Qed.

Theorem load_authentic c ais vn sk ck ma f :
  px_try_from_bank_with_max_age c ais vn sk ck ma = Ok f ->
  (oc_setup c = OS_Fixed /\ ais = [] /\ f = FFixed (oc_fixed_price c) /\ 0 <= oc_fixed_price c) \/
  first_account_accepted c ais (ck_now ck) ma.
Proof.
  intros H. unfold px_try_from_bank_with_max_age in H.
  setup_case H E0 OS_None; [discriminate|].
  setup_case H E3 OS_PythPushOracle.
  { right. apply Z.eqb_eq in E3. destruct ais as [|a [|a1 r]]; try discriminate.
    binv H u Hu. binv H u1 Hk. chk Hk. apply Z.eqb_eq in Hk.
    apply pyth_load_inv in H as [H _].
    exists a, []. repeat split; try assumption. left. split; [apply in_pyth; auto | assumption]. }
  setup_case H E4 OS_SwitchboardPull.
  { right. apply Z.eqb_eq in E4. destruct ais as [|a [|a1 r]]; try discriminate.
    binv H u1 Hk. chk Hk. apply Z.eqb_eq in Hk.
    apply swb_load_inv in H as [H _].
    exists a, []. repeat split; try assumption. right. split; [apply in_swb; auto | assumption]. }
  setup_case H E5 OS_StakedWithPythPush.
  { right. apply Z.eqb_eq in E5. destruct ais as [|a [|a1 [|a2 [|a3 r]]]]; try discriminate.
    binv H u0 Hk12. binv H supply Hsup. binv H u1 Hpos. binv H stake Hst. binv H adj Hadj.
    binv H u2 Hk. chk Hk. apply Z.eqb_eq in Hk. binv H f0 Hf. apply pyth_owned_inv in Hf.
    exists a, [a1; a2]. repeat split; try assumption. left. split; [apply in_pyth; auto | assumption]. }
  setup_case H E6 OS_KaminoPythPush.
  { right. apply Z.eqb_eq in E6. destruct ais as [|a [|a1 [|a2 r]]]; try discriminate.
    binv H u0 Hk. chk Hk. apply Z.eqb_eq in Hk. binv H u1 Hk1. binv H u2 Hl. binv H u3 Hs.
    binv H f0 Hf. apply pyth_owned_inv in Hf.
    exists a, [a1]. repeat split; try assumption. left. split; [apply in_pyth; auto | assumption]. }
  setup_case H E7 OS_KaminoSwitchboardPull.
  { right. apply Z.eqb_eq in E7. destruct ais as [|a [|a1 [|a2 r]]]; try discriminate.
    binv H u0 Hk. chk Hk. apply Z.eqb_eq in Hk. binv H u1 Hk1. binv H u2 Hl. binv H u3 Hs.
    binv H f0 Hf. apply swb_load_inv in Hf as [Hf _].
    exists a, [a1]. repeat split; try assumption. right. split; [apply in_swb; auto | assumption]. }
  setup_case H E8 OS_Fixed.
  { left. apply Z.eqb_eq in E8. destruct ais as [|a r]; try discriminate.
    binv H u0 Hp. chk Hp. apply Ok_inj in H. repeat split; auto. lia. }
  setup_case H E9 OS_DriftPythPull.
  { right. apply Z.eqb_eq in E9. destruct ais as [|a [|a1 [|a2 r]]]; try discriminate.
    binv H u0 Hk. chk Hk. apply Z.eqb_eq in Hk. binv H u1 Hk1. binv H u2 Hl. binv H u3 Hs.
    binv H f0 Hf. apply pyth_owned_inv in Hf.
    exists a, [a1]. repeat split; try assumption. left. split; [apply in_pyth; auto | assumption]. }
  setup_case H E10 OS_DriftSwitchboardPull.
  { right. apply Z.eqb_eq in E10. destruct ais as [|a [|a1 [|a2 r]]]; try discriminate.
    binv H u0 Hk. chk Hk. apply Z.eqb_eq in Hk. binv H u1 Hk1. binv H u2 Hl. binv H u3 Hs.
    binv H f0 Hf. apply swb_load_inv in Hf as [Hf _].
    exists a, [a1]. repeat split; try assumption. right. split; [apply in_swb; auto | assumption]. }
  setup_case H E11 OS_SolendPythPull.
  { right. apply Z.eqb_eq in E11. destruct ais as [|a [|a1 [|a2 r]]]; try discriminate.
    binv H u1 Hk1. binv H u2 Hl. binv H u3 Hs. binv H u0 Hk. chk Hk. apply Z.eqb_eq in Hk.
    binv H f0 Hf. apply pyth_owned_inv in Hf.
    exists a, [a1]. repeat split; try assumption. left. split; [apply in_pyth; auto | assumption]. }
  setup_case H E12 OS_SolendSwitchboardPull.
  { right. apply Z.eqb_eq in E12. destruct ais as [|a [|a1 [|a2 r]]]; try discriminate.
    binv H u0 Hk. chk Hk. apply Z.eqb_eq in Hk. binv H u1 Hk1. binv H u2 Hl. binv H u3 Hs.
    binv H f0 Hf. apply swb_load_inv in Hf as [Hf _].
    exists a, [a1]. repeat split; try assumption. right. split; [apply in_swb; auto | assumption]. }
  discriminate.
Qed.

(* ---------------------------------------------------------------- freshness in plain arithmetic *)
Lemma I64_MAX_val : I64_MAX = 9223372036854775807. Proof. reflexivity. Qed.
Lemma I64_MIN_val : I64_MIN = -9223372036854775808. Proof. reflexivity. Qed.

(* Pyth: publish_time.saturating_add(max_age) >= now  means  now - publish_time <= max_age *)
Lemma pyth_fresh now publish ma :
  I64_MIN <= publish -> 0 <= ma -> now <= sat_i64 (publish + ma) -> now - publish <= ma.
Proof.
  unfold sat_i64, clamp. rewrite I64_MIN_val, I64_MAX_val. intros. lia.
Qed.

(* Switchboard: now.saturating_sub(last) > max_age as i64 is false  means  now - last <= max_age,
   for every max_age below i64::MAX (the cast wraps above it) *)
Lemma swb_fresh now last ma :
  0 <= ma -> ma <> I64_MAX -> ma <= U64_MAX -> sat_i64 (now - last) <= wrap_s 64 ma -> now - last <= ma.
Proof.
  unfold sat_i64, clamp, wrap_s, U64_MAX. rewrite I64_MIN_val, I64_MAX_val.
  change (2 ^ (64 - 1)) with 9223372036854775808. change (2 ^ 64) with 18446744073709551616.
  intros H0 Hne Hu H.
  destruct (Z_le_gt_dec ma 9223372036854775806) as [Hs|Hb].
  - rewrite Z.mod_small in H by lia. lia.
  - assert (Hm : (ma + 9223372036854775808) mod 18446744073709551616 = ma - 9223372036854775808).
    { rewrite <- (Z.mod_small (ma - 9223372036854775808) 18446744073709551616) by lia.
      replace (ma + 9223372036854775808) with (ma - 9223372036854775808 + 1 * 18446744073709551616) by lia.
      apply Z.mod_add. lia. }
    rewrite Hm in H. lia.
Qed.

Lemma oracle_max_age_val c :
  px_oracle_max_age c = if (oc_max_age c =? 0) && (oc_setup c =? OS_PythPushOracle) then 60 else oc_max_age c.
Proof. reflexivity. Qed.

(* The statement for the bank's own configuration (u16 max age; publish time is an i64 field). *)
Theorem load_authentic_fresh c ais vn sk ck f :
  0 <= oc_max_age c <= 65535 ->
  (forall a m, In a ais -> oa_body a = BPyth m -> I64_MIN <= pm_publish m) ->
  px_try_from_bank c ais vn sk ck = Ok f ->
  (oc_setup c = OS_Fixed /\ ais = [] /\ f = FFixed (oc_fixed_price c) /\ 0 <= oc_fixed_price c) \/
  exists a rest, ais = a :: rest /\ oa_key a = oc_key0 c /\
    let max_age := if (oc_max_age c =? 0) && (oc_setup c =? OS_PythPushOracle) then 60 else oc_max_age c in
    ((In (oc_setup c) pyth_setups /\ oa_owner a = PYTH_RECEIVER_ID /\
      exists m, oa_body a = BPyth m /\ pm_full m = true /\ ck_now ck - pm_publish m <= max_age) \/
     (In (oc_setup c) swb_setups /\ oa_owner a = SWITCHBOARD_PULL_ID /\
      exists m, oa_body a = BSwb m /\ ck_now ck - sm_last_update m <= max_age)).
Proof.
  intros Hr Hp H. unfold px_try_from_bank in H. apply load_authentic in H.
  destruct H as [H | (a & rest & -> & Hk & H)]; [left; exact H | right].
  exists a, rest. split; [reflexivity|]. split; [assumption|]. cbv zeta.
  rewrite oracle_max_age_val in H.
  set (ma := if (oc_max_age c =? 0) && (oc_setup c =? OS_PythPushOracle) then 60 else oc_max_age c) in *.
  assert (Hma : 0 <= ma <= 65535) by (subst ma; destruct ((oc_max_age c =? 0) && (oc_setup c =? OS_PythPushOracle)); lia).
  destruct H as [[Hs (Ho & m & Hb & Hf & _ & Hfresh)] | [Hs (Ho & m & Hb & Hfresh)]].
  - left. split; [assumption|]. split; [assumption|]. exists m. repeat split; try assumption.
    apply pyth_fresh; try lia. apply (Hp a m); [left; reflexivity | assumption].
  - right. split; [assumption|]. split; [assumption|]. exists m. split; [assumption|].
    apply swb_fresh; try lia; rewrite ?I64_MAX_val; unfold U64_MAX; lia.
Qed.

(* The plain setups hand back exactly the numbers stored in the authenticated account. *)
Theorem load_plain_exact c ais vn sk ck ma f :
  px_try_from_bank_with_max_age c ais vn sk ck ma = Ok f ->
  (oc_setup c = OS_PythPushOracle ->
     exists a m, ais = [a] /\ oa_body a = BPyth m /\
       f = FPyth (pm_price m) (pm_conf m) (pm_expo m) (pm_ema_price m) (pm_ema_conf m)) /\
  (oc_setup c = OS_SwitchboardPull ->
     exists a m, ais = [a] /\ oa_body a = BSwb m /\ f = FSwb (sm_value m) (sm_std_dev m)).
Proof.
  intros H. split; intros Es; unfold px_try_from_bank_with_max_age in H; rewrite Es in H;
    cbn [Z.eqb OS_None OS_PythPushOracle OS_SwitchboardPull Pos.eqb] in H.
  - destruct ais as [|a [|a1 r]]; try discriminate.
    binv H u Hu. binv H u1 Hk. apply pyth_load_inv in H as [_ (m & Hb & ->)]. exists a, m. auto.
  - destruct ais as [|a [|a1 r]]; try discriminate.
    binv H u1 Hk. apply swb_load_inv in H as [_ (m & Hb & ->)]. exists a, m. auto.
Qed.

(* Second / third accounts of the composite setups: configured keys, accepted loader, not stale. *)
Theorem load_venue_checked c ais vn sk ck ma f :
  px_try_from_bank_with_max_age c ais vn sk ck ma = Ok f ->
  In (oc_setup c) venue_setups ->
  exists a a1, ais = [a; a1] /\ oa_key a1 = oc_key1 c /\ vn_loader vn = VLOk /\
    ((oc_setup c = OS_DriftPythPull \/ oc_setup c = OS_DriftSwitchboardPull) /\ ck_now ck <= wrap_s 64 (vn_last vn) \/
     (oc_setup c <> OS_DriftPythPull /\ oc_setup c <> OS_DriftSwitchboardPull) /\ ck_slot ck <= vn_last vn).
Proof.
  intros H Hin. unfold venue_setups in Hin. cbn [In] in Hin.
  assert (Hl : forall e u, px_check_loader (vn_loader vn) e = Ok u -> vn_loader vn = VLOk).
  { intros e u. unfold px_check_loader. destruct (vn_loader vn); [reflexivity | discriminate | discriminate]. }
  unfold px_try_from_bank_with_max_age in H.
  destruct Hin as [Es|[Es|[Es|[Es|[Es|[Es|[]]]]]]]; rewrite <- Es in *;
    cbn [Z.eqb Pos.eqb OS_None OS_PythPushOracle OS_SwitchboardPull OS_StakedWithPythPush OS_KaminoPythPush
         OS_KaminoSwitchboardPull OS_Fixed OS_DriftPythPull OS_DriftSwitchboardPull OS_SolendPythPull
         OS_SolendSwitchboardPull] in H;
    destruct ais as [|a [|a1 [|a2 r]]]; try discriminate; exists a, a1; (split; [reflexivity|]).
  - binv H u0 Hk. binv H u1 Hk1. chk Hk1. apply Z.eqb_eq in Hk1. binv H u2 Hld. apply Hl in Hld. binv H u3 Hs. chk Hs.
    repeat split; try assumption. right. repeat split; try discriminate. lia.
  - binv H u0 Hk. binv H u1 Hk1. chk Hk1. apply Z.eqb_eq in Hk1. binv H u2 Hld. apply Hl in Hld. binv H u3 Hs. chk Hs.
    repeat split; try assumption. right. repeat split; try discriminate. lia.
  - binv H u0 Hk. binv H u1 Hk1. chk Hk1. apply Z.eqb_eq in Hk1. binv H u2 Hld. apply Hl in Hld. binv H u3 Hs. chk Hs.
    repeat split; try assumption. left. split; [left; reflexivity | lia].
  - binv H u0 Hk. binv H u1 Hk1. chk Hk1. apply Z.eqb_eq in Hk1. binv H u2 Hld. apply Hl in Hld. binv H u3 Hs. chk Hs.
    repeat split; try assumption. left. split; [right; reflexivity | lia].
  - binv H u1 Hk1. chk Hk1. apply Z.eqb_eq in Hk1. binv H u2 Hld. apply Hl in Hld. binv H u3 Hs. chk Hs.
    repeat split; try assumption. right. repeat split; try discriminate. lia.
  - binv H u0 Hk. binv H u1 Hk1. chk Hk1. apply Z.eqb_eq in Hk1. binv H u2 Hld. apply Hl in Hld. binv H u3 Hs. chk Hs.
    repeat split; try assumption. right. repeat split; try discriminate. lia.
Qed.

Theorem load_staked_checked c ais vn sk ck ma f :
  px_try_from_bank_with_max_age c ais vn sk ck ma = Ok f ->
  oc_setup c = OS_StakedWithPythPush ->
  exists a a1 a2 supply stake, ais = [a; a1; a2] /\ oa_key a1 = oc_key1 c /\ oa_key a2 = oc_key2 c /\
    sk_supply sk = Ok supply /\ 0 < supply /\ sk_stake sk = Ok stake /\ LAMPORTS_PER_SOL <= stake.
Proof.
  intros H Es. unfold px_try_from_bank_with_max_age in H. rewrite Es in H.
  cbn [Z.eqb Pos.eqb OS_None OS_PythPushOracle OS_SwitchboardPull OS_StakedWithPythPush] in H.
  destruct ais as [|a [|a1 [|a2 [|a3 r]]]]; try discriminate.
  binv H u0 Hk12. chk Hk12. binv H supply Hsup. binv H u1 Hpos. chk Hpos. binv H stake Hst. binv H adj Hadj.
  apply ok_or_ok in Hadj. apply chko_inv in Hadj as [-> Hr]. unfold in_u64, in_range in Hr.
  exists a, a1, a2, supply, stake. repeat split; try assumption; lia.
Qed.

(* ---------------------------------------------------------------- constants *)
Lemma price_constants :
  Z.abs (100 * CONF_INTERVAL_MULTIPLE - 212 * 2^48) < 100 /\
  Z.abs (100 * STD_DEV_MULTIPLE - 196 * 2^48) < 100 /\
  Z.abs (20 * MAX_CONF_INTERVAL - 2^48) < 20 /\
  U32_MAX_FX = 4294967295 * 2^48 /\ U32_MAX_DIV_10_FX = 429496730 * 2^48 /\
  MAX_PYTH_ORACLE_AGE = 60 /\ ORACLE_MIN_AGE = 10.
Proof. repeat split; reflexivity. Qed.

Lemma MAXCI_val : MAX_CONF_INTERVAL = 14073748835533. Proof. reflexivity. Qed.
Lemma U32FX_val : U32_MAX_FX = 4294967295 * ONE. Proof. reflexivity. Qed.

(* the configured maximum as a plain u32 numerator over u32::MAX; 0 selects the default 10% *)
Definition max_conf_num (omc : Z) : Z := if 0 <? omc then omc else 429496730.

Lemma max_conf_factor_val omc : px_max_conf_factor omc = max_conf_num omc * ONE.
Proof. unfold px_max_conf_factor, max_conf_num, of_int. destruct (0 <? omc); reflexivity. Qed.

Lemma max_conf_num_pos omc : 0 <= omc -> 0 < max_conf_num omc.
Proof. unfold max_conf_num. intros. destruct (0 <? omc) eqn:E; lia. Qed.

(* ---------------------------------------------------------------- the confidence test and the cap *)
Lemma conf_cap_inv ci price omc d :
  0 <= omc ->
  px_conf_check_and_cap ci price omc = Ok d ->
  0 <= ci /\ 0 <= price /\ ci * 4294967295 <= price * max_conf_num omc /\
  d = Z.min ci (price * MAX_CONF_INTERVAL / ONE).
Proof.
  intros Homc H. unfold px_conf_check_and_cap in H.
  binv H m Hm. apply ok_or_ok in Hm. apply cmul_inv in Hm as [Em _].
  binv H mc Hmc. apply ok_or_ok in Hmc.
  destruct (mc <? ci) eqn:Hlt; [discriminate|].
  binv H cap Hcap. apply ok_or_ok in Hcap. apply cmul_inv in Hcap as [Ecap _].
  binv H u1 Ha1. apply px_assert_ok in Ha1. binv H u2 Ha2. apply px_assert_ok in Ha2.
  apply Ok_inj in H. unfold fmin in H.
  pose proof ONE_pos as HO.
  assert (Hp : 0 <= price).
  { destruct (Z_le_gt_dec 0 price) as [?|Hneg]; [assumption|exfalso].
    assert (price * MAX_CONF_INTERVAL / ONE < 0).
    { apply Z.div_lt_upper_bound; [lia|]. rewrite MAXCI_val. lia. }
    lia. }
  rewrite max_conf_factor_val in Em.
  assert (Em' : m = price * max_conf_num omc).
  { rewrite Em. rewrite Z.mul_assoc. apply Z.div_mul. lia. }
  pose proof (max_conf_num_pos omc Homc) as Hk.
  assert (Hm0 : 0 <= m) by (rewrite Em'; apply Z.mul_nonneg_nonneg; lia).
  rewrite U32FX_val in Hmc.
  apply cdiv_inv_nonneg in Hmc as [Emc _]; [|assumption|lia].
  rewrite Z.div_mul_cancel_r in Emc by lia.
  assert (Hle : 4294967295 * mc <= m) by (rewrite Emc; apply Z.mul_div_le; lia).
  repeat split; lia.
Qed.

(* ---------------------------------------------------------------- prices *)
Definition is_fixed (f : feed) : bool := match f with FFixed _ => true | _ => false end.

Lemma pot_nonfixed f t b omc :
  is_fixed f = false ->
  px_price_of_type f t b omc =
  (let* price := px_price f t in
   match b with
   | None => Ok price
   | Some bias =>
       let* ci := px_conf_interval f t omc in
       match bias with PLow => ok_or (csub price ci) EMath | PHigh => ok_or (cadd price ci) EMath end
   end).
Proof. destruct f; intros H; try reflexivity. discriminate. Qed.

Lemma conf_interval_nonfixed f t omc :
  is_fixed f = false ->
  px_conf_interval f t omc =
  (let* ci := px_scaled_conf f t in let* price := px_price f t in px_conf_check_and_cap ci price omc).
Proof. destruct f; intros H; try reflexivity. discriminate. Qed.

Lemma pot_fixed p t b omc : px_price_of_type (FFixed p) t b omc = Ok p.
Proof. reflexivity. Qed.

Definition bias_apply (b : pbias) (price d : Z) : Z := match b with PLow => price - d | PHigh => price + d end.

Lemma biased_inv f t b omc p :
  0 <= omc -> is_fixed f = false ->
  px_price_of_type f t (Some b) omc = Ok p ->
  exists price ci,
    px_price f t = Ok price /\ px_scaled_conf f t = Ok ci /\ px_price_of_type f t None omc = Ok price /\
    0 <= ci /\ 0 <= price /\ ci * 4294967295 <= price * max_conf_num omc /\
    p = bias_apply b price (Z.min ci (price * MAX_CONF_INTERVAL / ONE)).
Proof.
  intros Homc Hf H. rewrite pot_nonfixed in H by assumption.
  binv H price Hprice. binv H d Hd.
  rewrite conf_interval_nonfixed in Hd by assumption.
  binv Hd ci Hci. binv Hd price' Hprice'. rewrite Hprice in Hprice'. apply Ok_inj in Hprice'. subst price'.
  apply conf_cap_inv in Hd as (H0 & H1 & H2 & H3); [|assumption].
  exists price, ci. repeat split; try assumption.
  - rewrite pot_nonfixed by assumption. rewrite Hprice. reflexivity.
  - subst d. destruct b; apply ok_or_ok in H; [apply csub_inv in H | apply cadd_inv in H]; destruct H as [-> _]; reflexivity.
Qed.

(* 5% cap in exact integers: MAX_CONF_INTERVAL = 14073748835533 = (2^48 + 4) / 20 *)
Lemma cap_bounds price :
  0 <= price ->
  let cap := price * MAX_CONF_INTERVAL / ONE in
  0 <= cap /\ 20 * cap * 2^48 <= price * (2^48 + 4) < 20 * (cap + 1) * 2^48.
Proof.
  intros Hp cap. subst cap. rewrite MAXCI_val, ONE_val.
  change (2^48) with 281474976710656.
  pose proof (Z.div_mod (price * 14073748835533) 281474976710656 ltac:(lia)) as Hdm.
  pose proof (Z.mod_pos_bound (price * 14073748835533) 281474976710656 ltac:(lia)) as Hmb.
  split; [apply Z.div_pos; lia | lia].
Qed.

Theorem price_confident f t b omc p :
  0 <= omc -> is_fixed f = false ->
  px_price_of_type f t (Some b) omc = Ok p ->
  exists price ci, px_price f t = Ok price /\ px_scaled_conf f t = Ok ci /\
    0 <= price /\ 0 <= ci /\
    ci * 4294967295 <= price * (if 0 <? omc then omc else 429496730).
Proof.
  intros Ho Hf H. apply biased_inv in H as (price & ci & H1 & H2 & _ & H4 & H5 & H6 & _); try assumption.
  exists price, ci. unfold max_conf_num in H6. repeat split; assumption.
Qed.

Theorem price_bias f t b omc p :
  0 <= omc ->
  px_price_of_type f t (Some b) omc = Ok p ->
  exists price d,
    px_price_of_type f t None omc = Ok price /\
    p = (match b with PLow => price - d | PHigh => price + d end) /\ 0 <= d /\
    (is_fixed f = true -> d = 0) /\
    (is_fixed f = false ->
       0 <= price /\ 20 * d * 2^48 <= price * (2^48 + 4) /\
       exists ci cap, px_scaled_conf f t = Ok ci /\ 0 <= ci /\ d = Z.min ci cap /\
         20 * cap * 2^48 <= price * (2^48 + 4) < 20 * (cap + 1) * 2^48).
Proof.
  intros Ho H. destruct (is_fixed f) eqn:Hf.
  - destruct f; try discriminate. rewrite pot_fixed in H. apply Ok_inj in H. subst p.
    exists price, 0. rewrite pot_fixed. repeat split; try (destruct b; lia); try discriminate.
  - apply biased_inv in H as (price & ci & H1 & H2 & H3 & H4 & H5 & H6 & H7); try assumption.
    pose proof (cap_bounds price H5) as Hc. cbv zeta in Hc. destruct Hc as [Hc0 Hc].
    set (cap := price * MAX_CONF_INTERVAL / ONE) in *.
    exists price, (Z.min ci cap). split; [assumption|]. split; [subst p; destruct b; reflexivity|].
    split; [lia|]. split; [discriminate|]. intros _. split; [assumption|]. split.
    + assert (Z.min ci cap <= cap) by lia.
      assert (20 * Z.min ci cap * 2^48 <= 20 * cap * 2^48) by (change (2^48) with 281474976710656; lia). lia.
    + exists ci, cap. repeat split; try assumption; lia.
Qed.

(* A biased price exists only for a non-negative price, is ordered around it, and is positive exactly
   when the price is. *)
Theorem biased_price_sign f t b omc p :
  0 <= omc -> is_fixed f = false ->
  px_price_of_type f t (Some b) omc = Ok p ->
  exists price, px_price_of_type f t None omc = Ok price /\ 0 <= price /\
    (b = PLow -> 0 <= p <= price) /\ (b = PHigh -> price <= p) /\ (0 < p <-> 0 < price).
Proof.
  intros Ho Hf H. apply price_bias in H as (price & d & H1 & H2 & H3 & _ & H5); [|assumption].
  destruct (H5 Hf) as (Hp & Hd & _). exists price. split; [assumption|]. split; [assumption|].
  change (2^48) with 281474976710656 in Hd.
  destruct b; subst p; repeat split; intros; try discriminate; try lia.
Qed.

Theorem negative_price_rejected f t b omc q :
  0 <= omc -> is_fixed f = false -> px_price f t = Ok q -> q < 0 ->
  forall p, px_price_of_type f t (Some b) omc <> Ok p.
Proof.
  intros Ho Hf Hq Hneg p H. apply biased_inv in H as (price & ci & H1 & _ & _ & _ & H5 & _); try assumption.
  rewrite Hq in H1. apply Ok_inj in H1. lia.
Qed.

(* ---------------------------------------------------------------- what "scaled confidence" and "price" are *)
Lemma exp10_nat (n : nat) : (n < 24)%nat -> nth_error EXP_10_I80F48 n = Some (10 ^ Z.of_nat n * ONE).
Proof.
  intros H. do 24 (destruct n as [|n]; [reflexivity|]). lia.
Qed.

Lemma exp10_val n : 0 <= n < 24 -> px_exp10 n = Ok (10 ^ n * ONE).
Proof.
  intros H. unfold px_exp10, px_exp10_opt.
  replace ((0 <=? n) && (n <? Z.of_nat (length EXP_10_I80F48))) with true
    by (change (Z.of_nat (length EXP_10_I80F48)) with 24; lia).
  rewrite exp10_nat by lia. rewrite Z2Nat.id by lia. reflexivity.
Qed.

Lemma exp10_inv n v : px_exp10 n = Ok v -> 0 <= n < 24 /\ v = 10 ^ n * ONE.
Proof.
  intros H. assert (Hr : 0 <= n < 24).
  { unfold px_exp10, px_exp10_opt in H.
    destruct ((0 <=? n) && (n <? Z.of_nat (length EXP_10_I80F48))) eqn:E; [|discriminate].
    change (Z.of_nat (length EXP_10_I80F48)) with 24 in E. lia. }
  split; [assumption|]. rewrite exp10_val in H by assumption. apply Ok_inj in H. auto.
Qed.

(* a non-negative Pyth integer x with exponent e becomes floor(x * 10^e * 2^48): exact for e >= 0,
   rounded down by less than one unit in the last place for e < 0 *)
Theorem pyth_components_value x e q :
  0 <= x -> px_pyth_components (of_int x) e = Ok q ->
  -24 < e < 24 /\
  (0 <= e -> q = x * 10 ^ e * 2^48) /\
  (e < 0 -> q * 10 ^ (- e) <= x * 2^48 < (q + 1) * 10 ^ (- e)).
Proof.
  intros Hx H. unfold px_pyth_components in H. binv H sf Hsf. apply exp10_inv in Hsf as [Hr ->].
  split; [lia|]. pose proof ONE_pos as HO. change (2^48) with ONE.
  destruct (e =? 0) eqn:E0.
  - apply Ok_inj in H. subst q. apply Z.eqb_eq in E0. subst e. unfold of_int. split; intros; lia.
  - destruct (e <? 0) eqn:En.
    + apply ok_or_ok in H. replace (Z.abs e) with (- e) in * by lia.
      assert (Hpow : 0 < 10 ^ (- e)) by (apply Z.pow_pos_nonneg; lia).
      apply cdiv_inv_nonneg in H as [Eq _]; unfold of_int in *; try nia.
      split; [lia|]. intros _.
      rewrite Z.div_mul_cancel_r in Eq by lia.
      pose proof (Z.div_mod (x * ONE) (10 ^ (- e)) ltac:(lia)) as Hdm.
      pose proof (Z.mod_pos_bound (x * ONE) (10 ^ (- e)) Hpow) as Hmb.
      subst q. nia.
    + apply ok_or_ok in H. apply cmul_inv in H as [Eq _]. replace (Z.abs e) with e in * by lia.
      split; [|lia]. intros _. subst q. unfold of_int.
      replace (x * ONE * (10 ^ e * ONE)) with (x * 10 ^ e * ONE * ONE) by ring. apply Z.div_mul. lia.
Qed.

Theorem scaled_conf_value f t ci :
  px_scaled_conf f t = Ok ci ->
  match f with
  | FPyth p c e ep ec =>
      exists c0, px_pyth_components (of_int (match t with TimeWeighted => ec | RealTime => c end)) e = Ok c0 /\
                 ci = c0 * CONF_INTERVAL_MULTIPLE / 2^48
  | FSwb v s =>
      exists s0, cdiv (px_from_i128 s) (10 ^ 18 * 2^48) = Ok s0 /\ ci = s0 * STD_DEV_MULTIPLE / 2^48
  | FFixed _ => ci = 0
  end.
Proof.
  destruct f; cbn [px_scaled_conf]; intros H.
  - binv H c0 Hc0. apply ok_or_ok in H. apply cmul_inv in H as [-> _]. exists c0. split; [assumption | reflexivity].
  - binv H sf Hsf. apply exp10_inv in Hsf as [_ ->]. binv H s0 Hs0. apply ok_or_ok in Hs0.
    apply ok_or_ok in H. apply cmul_inv in H as [-> _]. exists s0. split; [assumption | reflexivity].
  - apply Ok_inj in H. auto.
Qed.

(* ---------------------------------------------------------------- fail-closed valuation *)
Lemma try_get_err pf e : pf = Err e -> exists e' c, px_try_get_price_feed pf = (Err e', c).
Proof.
  intros ->. unfold px_try_get_price_feed. destruct e as [| |c]; eauto.
  destruct (c <? 0); eauto.
Qed.

Lemma try_get_ok pf f c : px_try_get_price_feed pf = (Ok f, c) -> pf = Ok f /\ c = 0.
Proof.
  unfold px_try_get_price_feed. destruct pf as [f0|[| |c0]]; intros H; try (inversion H; auto; fail).
  destruct (c0 <? 0); inversion H.
Qed.

Theorem liab_value_fail_closed req pf omc k e :
  pf = Err e -> exists e', px_weighted_liab_value req pf omc k = Err e'.
Proof.
  intros H. destruct (try_get_err pf e H) as (e' & c & Hg). unfold px_weighted_liab_value. rewrite Hg.
  exists e'. reflexivity.
Qed.

Theorem liab_value_price_error req f omc k e :
  px_price_of_type f (px_req_price_type req) (Some PHigh) omc = Err e ->
  px_weighted_liab_value req (Ok f) omc k = Err e.
Proof. intros H. unfold px_weighted_liab_value. cbn [px_try_get_price_feed bind]. rewrite H. reflexivity. Qed.

Theorem liab_value_inv req pf omc k v p :
  px_weighted_liab_value req pf omc k = Ok (v, p) ->
  exists f, pf = Ok f /\ px_price_of_type f (px_req_price_type req) (Some PHigh) omc = Ok p /\ k p = Ok v.
Proof.
  unfold px_weighted_liab_value. destruct (px_try_get_price_feed pf) as [rf c] eqn:Hg. intros H.
  binv H f Hf. subst rf. apply try_get_ok in Hg as [-> _].
  binv H hi Hhi. binv H v' Hv. apply Ok_inj in H. inversion H; subst. eauto.
Qed.

Theorem asset_value_fail_closed iso ro req pf omc k e :
  pf = Err e ->
  (req = RInitial \/ iso = true -> exists c, px_weighted_asset_value iso ro req pf omc k = Ok (0, 0, c)) /\
  (req <> RInitial -> iso = false -> exists e', px_weighted_asset_value iso ro req pf omc k = Err e').
Proof.
  intros H. destruct (try_get_err pf e H) as (e' & c & Hg). unfold px_weighted_asset_value. split.
  - intros [Hr | Hi].
    + subst req. destruct iso; [eauto|]. destruct ro; cbn [andb]; [eauto|]. rewrite Hg. eauto.
    + subst iso. eauto.
  - intros Hr Hi. subst iso. replace (ro && match req with RInitial => true | _ => false end) with false
      by (destruct req; [contradiction| |]; destruct ro; reflexivity).
    rewrite Hg. destruct req; [contradiction | eauto | eauto].
Qed.

Theorem asset_value_price_error iso ro req f omc k e :
  iso = false -> (ro = false \/ req <> RInitial) ->
  px_price_of_type f (px_req_price_type req) (Some PLow) omc = Err e ->
  px_weighted_asset_value iso ro req (Ok f) omc k = Err e.
Proof.
  intros -> Hro H. unfold px_weighted_asset_value.
  replace (ro && match req with RInitial => true | _ => false end) with false
    by (destruct Hro as [->|Hr]; [reflexivity | destruct req; [contradiction| |]; destruct ro; reflexivity]).
  cbn [px_try_get_price_feed]. destruct req; cbn [bind]; rewrite H; reflexivity.
Qed.

Theorem asset_value_inv iso ro req pf omc k v p c :
  px_weighted_asset_value iso ro req pf omc k = Ok (v, p, c) ->
  (v = 0 /\ p = 0) \/
  (c = 0 /\ exists f, pf = Ok f /\ px_price_of_type f (px_req_price_type req) (Some PLow) omc = Ok p /\ k p = Ok v).
Proof.
  unfold px_weighted_asset_value. intros H.
  destruct iso; [apply Ok_inj in H; inversion H; auto|].
  destruct (ro && match req with RInitial => true | _ => false end); [apply Ok_inj in H; inversion H; auto|].
  destruct (px_try_get_price_feed pf) as [rf c0] eqn:Hg.
  destruct rf as [f|e].
  - apply try_get_ok in Hg as [-> _]. right.
    assert (H' : (let* lo := px_price_of_type f (px_req_price_type req) (Some PLow) omc in
                  let* v0 := k lo in Ok (v0, lo, 0)) = Ok (v, p, c)) by (destruct req; exact H).
    clear H. binv H' lo Hlo. binv H' v0 Hv. apply Ok_inj in H'. inversion H'; subst. eauto.
  - destruct req; try discriminate. apply Ok_inj in H. inversion H; auto.
Qed.

(* ---------------------------------------------------------------- strictly positive prices where value is seized *)
Lemma low_positive f omc p :
  0 <= omc -> px_price_of_type f RealTime (Some PLow) omc = Ok p -> 0 < p ->
  exists q, px_price_of_type f RealTime None omc = Ok q /\ 0 < q /\ p <= q.
Proof.
  intros Ho H Hp. destruct (is_fixed f) eqn:Hf.
  - destruct f; try discriminate. rewrite pot_fixed in *. apply Ok_inj in H. subst. eauto with zarith.
  - apply biased_price_sign in H as (q & Hq & _ & Hl & _ & Hpos); try assumption.
    exists q. split; [assumption|]. split; [apply Hpos; assumption | apply Hl; reflexivity].
Qed.

Lemma high_positive f omc p :
  0 <= omc -> px_price_of_type f RealTime (Some PHigh) omc = Ok p -> 0 < p ->
  exists q, px_price_of_type f RealTime None omc = Ok q /\ 0 < q /\ q <= p.
Proof.
  intros Ho H Hp. destruct (is_fixed f) eqn:Hf.
  - destruct f; try discriminate. rewrite pot_fixed in *. apply Ok_inj in H. subst. eauto with zarith.
  - apply biased_price_sign in H as (q & Hq & _ & _ & Hh & Hpos); try assumption.
    exists q. split; [assumption|]. split; [apply Hpos; assumption | apply Hh; reflexivity].
Qed.

Theorem liquidation_prices_positive apf lpf oa ol pa pl :
  0 <= oa -> 0 <= ol ->
  px_liquidation_prices apf lpf oa ol = Ok (pa, pl) ->
  0 < pa /\ 0 < pl /\
  exists fa fl qa ql, apf = Ok fa /\ lpf = Ok fl /\
    px_price_of_type fa RealTime (Some PLow) oa = Ok pa /\ px_price_of_type fl RealTime (Some PHigh) ol = Ok pl /\
    px_price_of_type fa RealTime None oa = Ok qa /\ px_price_of_type fl RealTime None ol = Ok ql /\
    0 < qa /\ pa <= qa /\ 0 < ql /\ ql <= pl.
Proof.
  intros Ha Hl H. unfold px_liquidation_prices in H.
  binv H fa Hfa. binv H pa' Hpa. binv H u1 Hc1. chk Hc1.
  binv H fl Hfl. binv H pl' Hpl. binv H u2 Hc2. chk Hc2. apply Ok_inj in H. inversion H; subst pa' pl'.
  assert (Hpa0 : 0 < pa) by lia. assert (Hpl0 : 0 < pl) by lia.
  destruct (low_positive fa oa pa Ha Hpa Hpa0) as (qa & Hqa & Hqa0 & Hqale).
  destruct (high_positive fl ol pl Hl Hpl Hpl0) as (ql & Hql & Hql0 & Hqlle).
  split; [assumption|]. split; [assumption|]. exists fa, fl, qa, ql. repeat split; assumption.
Qed.

Theorem liquidation_nonpositive_rejected apf lpf oa ol fa fl :
  apf = Ok fa -> lpf = Ok fl ->
  (forall pa, px_price_of_type fa RealTime (Some PLow) oa = Ok pa -> pa <= 0 ->
     px_liquidation_prices apf lpf oa ol = Err (E E_ZeroAssetPrice)) /\
  (forall pa pl, px_price_of_type fa RealTime (Some PLow) oa = Ok pa -> 0 < pa ->
     px_price_of_type fl RealTime (Some PHigh) ol = Ok pl -> pl <= 0 ->
     px_liquidation_prices apf lpf oa ol = Err (E E_ZeroLiabilityPrice)).
Proof.
  intros -> ->. unfold px_liquidation_prices. cbn [bind]. split.
  - intros pa H Hle. rewrite H. cbn [bind]. unfold check. replace (0 <? pa) with false by lia. reflexivity.
  - intros pa pl H Hp H2 Hle. rewrite H. cbn [bind]. unfold check. replace (0 <? pa) with true by lia.
    cbn [bind]. rewrite H2. cbn [bind]. replace (0 <? pl) with false by lia. reflexivity.
Qed.

Theorem receivership_withdraw_price_positive pf omc p :
  0 <= omc ->
  px_receivership_withdraw_price pf omc = Ok p ->
  0 < p /\ exists f q, pf = Ok f /\ px_price_of_type f RealTime (Some PLow) omc = Ok p /\
                       px_price_of_type f RealTime None omc = Ok q /\ 0 < q /\ p <= q.
Proof.
  intros Ho H. unfold px_receivership_withdraw_price in H.
  binv H f Hf. binv H p' Hp. binv H u Hc. chk Hc. apply Ok_inj in H. subst p'.
  assert (Hp0 : 0 < p) by lia. destruct (low_positive f omc p Ho Hp Hp0) as (q & Hq & Hq0 & Hle).
  split; [assumption|]. exists f, q. repeat split; assumption.
Qed.

(* ---------------------------------------------------------------- end to end *)
(* A debt valuation that succeeds used a price from the configured, authentic, fresh account. *)
Theorem liab_value_only_from_authentic c ais vn sk ck req k v p :
  0 <= oc_max_age c <= 65535 ->
  (forall a m, In a ais -> oa_body a = BPyth m -> I64_MIN <= pm_publish m) ->
  px_weighted_liab_value req (px_try_from_bank c ais vn sk ck) (oc_max_conf c) k = Ok (v, p) ->
  exists f, px_try_from_bank c ais vn sk ck = Ok f /\
    px_price_of_type f (px_req_price_type req) (Some PHigh) (oc_max_conf c) = Ok p /\ k p = Ok v /\
    ((oc_setup c = OS_Fixed /\ ais = [] /\ f = FFixed (oc_fixed_price c) /\ 0 <= oc_fixed_price c) \/
     exists a rest, ais = a :: rest /\ oa_key a = oc_key0 c /\
       let max_age := if (oc_max_age c =? 0) && (oc_setup c =? OS_PythPushOracle) then 60 else oc_max_age c in
       ((In (oc_setup c) pyth_setups /\ oa_owner a = PYTH_RECEIVER_ID /\
         exists m, oa_body a = BPyth m /\ pm_full m = true /\ ck_now ck - pm_publish m <= max_age) \/
        (In (oc_setup c) swb_setups /\ oa_owner a = SWITCHBOARD_PULL_ID /\
         exists m, oa_body a = BSwb m /\ ck_now ck - sm_last_update m <= max_age))).
Proof.
  intros Hr Hp H. apply liab_value_inv in H as (f & Hf & Hpr & Hk).
  exists f. repeat split; try assumption. eapply load_authentic_fresh; eassumption.
Qed.
