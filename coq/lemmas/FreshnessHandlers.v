(* FreshnessHandlers.v — C06, second sentence, at instruction level: every fund-moving handler first accrues
   the interest of each bank it transacts in up to the current time, runs its accounting on the accrued bank,
   and leaves the bank stamped with the current time. *)
Require Import Base Constants Fixed Curve Bank BankOps Risk TransferFee Handlers.
Require Import FixedLemmas BankLemmas ValueLemmas CurveLemmas AccrualLemmas TransferFeeLemmas HandlerLemmas SolvencyLemmas FrameLemmas LedgerLemmas HandlerEffects SolvencyHandlers SolvencyWorld HandlerWorld.
From Coq Require Import ZifyBool.
Local Open Scope Z_scope.

(* the bank after the handler: stamped with the clock, liability share value = the accrued one,
   asset share value = the accrued one (bankruptcy may lower it by socialising the loss) *)
Definition fresh_after (w : hworld) (hb hb' : hbank) (asv_may_drop : bool) : Prop :=
  exists bk1, accrue_interest (hb_b hb) (hw_pf w) (hw_now w) = Ok bk1 /\
    b_last_update (hb_b hb') = hw_now w /\ b_lsv (hb_b hb') = b_lsv bk1 /\
    (if asv_may_drop then b_asv (hb_b hb') <= b_asv bk1 else b_asv (hb_b hb') = b_asv bk1).

Lemma accrue_stamp hb pf now bk1 : hb_ok hb -> accrue_interest (hb_b hb) pf now = Ok bk1 -> b_last_update bk1 = now.
Proof.
  intros ((A & L & Ta & Tl) & _) H. pose proof (accrue_monotone _ _ _ _ A L Ta Tl H) as (_ & _ & _ & _ & _ & _ & _ & _ & U). exact U.
Qed.
Lemma cache_stamp b pf now b' : update_bank_cache b pf now = Ok b' -> b_last_update b = now ->
  b_last_update b' = now /\ b_asv b' = b_asv b /\ b_lsv b' = b_lsv b.
Proof. intros H U. apply update_bank_cache_core in H as [-> | ->]; cbn; repeat split; try reflexivity; exact U. Qed.

Ltac sv_of_prim H lem := pose proof (lem _ _ _ _ _ _ _ H).

Theorem deposit_fresh w a b n up w' hb hb' :
  HOk2 w -> 0 <= n -> h_deposit w a b n up = Ok w' -> nth_bank w b = Ok hb -> nth_bank w' b = Ok hb' -> fresh_after w hb hb' false.
Proof.
  intros H2 Hn H Hb Hb'.
  destruct (h_deposit_effect _ _ _ _ _ _ Hn H) as (hb0 & hb0' & ac & ac' & (E1 & E2 & E3 & _) & F).
  rewrite Hb in E1. apply Ok_inj in E1. subst hb0.
  pose proof (nth_bank_of_eq _ _ _ _ _ E3 Hb) as X. rewrite Hb' in X. apply Ok_inj in X. subst hb0'.
  pose proof H2 as (_ & _ & Hbk). destruct (Hbk _ _ Hb) as (Hok & _).
  destruct (HOk2_HOk _ H2) as (_ & _ & Ha). destruct (Ha _ _ E2) as (Wac & Pac).
  destruct F as (bk1 & Hacc & _ & _ & Hcase). exists bk1. split; [exact Hacc|].
  pose proof (accrue_stamp _ _ _ _ Hok Hacc) as U1.
  destruct Hcase as [[-> ->] | (dep & i & la1 & bl & bk2 & bl2 & pre & f & bk3 & Hd & Hloc & Hbl & Hinc & _ & _ & Hcache & -> & ->)].
  - cbn [set_hb_b hb_b]. split; [exact U1|]. split; reflexivity.
  - destruct (after_accrue _ _ _ _ _ Hok (Pac _ _ Hb) Hacc) as (_ & _ & Pac1 & Ta1 & Tl1 & Hsv1).
    destruct (located_le _ _ bk1 _ _ true _ _ _ Hloc Hbl Wac Pac1 Ta1 Tl1) as (Wbl & _).
    assert (Hdn : 0 <= of_int dep) by (unfold of_int; pose proof ONE_pos; nia).
    pose proof (increase_balance_inv _ _ _ _ _ _ _ Hsv1 Wbl Hdn Hinc) as Fi. destruct (if_sv _ _ _ _ _ _ Fi) as (S1 & S2).
    pose proof (lu_increase _ _ _ _ _ _ _ Hinc) as U2. unfold lu_same in U2.
    destruct (cache_stamp _ _ _ _ Hcache ltac:(congruence)) as (U3 & C1 & C2).
    cbn [mk_hb set_hb_b hb_b]. repeat split; congruence.
Qed.

Theorem withdraw_fresh w a b n all w' hb hb' :
  HOk2 w -> 0 <= n -> h_withdraw w a b n all = Ok w' -> nth_bank w b = Ok hb -> nth_bank w' b = Ok hb' -> fresh_after w hb hb' false.
Proof.
  intros H2 Hn H Hb Hb'.
  destruct (h_withdraw_effect _ _ _ _ _ _ H) as (hb0 & hb0' & ac & ac' & (E1 & E2 & E3 & _) & F).
  rewrite Hb in E1. apply Ok_inj in E1. subst hb0.
  pose proof (nth_bank_of_eq _ _ _ _ _ E3 Hb) as X. rewrite Hb' in X. apply Ok_inj in X. subst hb0'.
  pose proof H2 as (_ & _ & Hbk). destruct (Hbk _ _ Hb) as (Hok & _).
  destruct (HOk2_HOk _ H2) as (_ & _ & Ha). destruct (Ha _ _ E2) as (Wac & Pac).
  destruct F as (bk1 & i & bl & bk2 & bl2 & pre & paid & bk3 & Hacc & _ & Hi & Hbl & Hprim & _ & _ & Hcache & -> & _).
  exists bk1. split; [exact Hacc|]. pose proof (accrue_stamp _ _ _ _ Hok Hacc) as U1.
  destruct (after_accrue _ _ _ _ _ Hok (Pac _ _ Hb) Hacc) as (_ & _ & Pac1 & Ta1 & Tl1 & Hsv1).
  destruct (located_le _ bk1 bk1 _ (hw_now w) false _ _ _ (find_as_located _ _ _ Hi) Hbl Wac Pac1 Ta1 Tl1) as (Wbl & _).
  pose proof Hok as (_ & _ & _ & _ & Hb1 & Hb2).
  assert (Hx : b_last_update bk2 = b_last_update bk1 /\ b_asv bk2 = b_asv bk1 /\ b_lsv bk2 = b_lsv bk1).
  { destruct all.
    - pose proof (withdraw_all_inv _ _ _ _ _ _ Hsv1 Wbl Hprim) as Fw. destruct (wa_sv _ _ _ _ _ Fw) as (S1 & S2).
      pose proof (lu_withdraw_all _ _ _ _ _ _ Hprim) as U2. unfold lu_same in U2. repeat split; assumption.
    - destruct Hprim as (Hpre & Hdec). pose proof (pre_fee_nonneg _ _ _ Hb1 Hb2 Hn Hpre) as Hp0.
      assert (Hdn : 0 <= of_int pre) by (unfold of_int; pose proof ONE_pos; nia).
      pose proof (decrease_balance_inv _ _ _ _ _ _ _ Hsv1 Wbl Hdn Hdec) as Fd. destruct (df_sv _ _ _ _ _ _ Fd) as (S1 & S2).
      pose proof (lu_decrease _ _ _ _ _ _ _ Hdec) as U2. unfold lu_same in U2. repeat split; assumption. }
  destruct Hx as (U2 & S1 & S2).
  destruct (cache_stamp _ _ _ _ Hcache ltac:(congruence)) as (U3 & C1 & C2).
  cbn [mk_hb set_hb_b hb_b]. repeat split; congruence.
Qed.

Theorem borrow_fresh w a b n w' hb hb' :
  HOk2 w -> 0 <= n -> h_borrow w a b n = Ok w' -> nth_bank w b = Ok hb -> nth_bank w' b = Ok hb' -> fresh_after w hb hb' false.
Proof.
  intros H2 Hn H Hb Hb'.
  destruct (h_borrow_effect _ _ _ _ _ H) as (hb0 & hb0' & ac & ac' & (E1 & E2 & E3 & _) & F).
  rewrite Hb in E1. apply Ok_inj in E1. subst hb0.
  pose proof (nth_bank_of_eq _ _ _ _ _ E3 Hb) as X. rewrite Hb' in X. apply Ok_inj in X. subst hb0'.
  pose proof H2 as (Hpf & _ & Hbk). destruct (Hbk _ _ Hb) as (Hok & Hfr).
  destruct (HOk2_HOk _ H2) as (_ & _ & Ha). destruct (Ha _ _ E2) as (Wac & Pac).
  destruct F as (bk1 & i & la1 & bl & pre & delta & ofee & bk2 & bl2 & bk4 & bk5 & Hacc & _ & _ & _ & Hloc & Hbl & Hpre & Hof & Hdec & _ & Hbook & Hcache & -> & _).
  exists bk1. split; [exact Hacc|]. pose proof (accrue_stamp _ _ _ _ Hok Hacc) as U1.
  destruct (after_accrue _ _ _ _ _ Hok (Pac _ _ Hb) Hacc) as (_ & _ & Pac1 & Ta1 & Tl1 & Hsv1).
  destruct (located_le _ _ bk1 _ _ true _ _ _ Hloc Hbl Wac Pac1 Ta1 Tl1) as (Wbl & _).
  pose proof Hok as (_ & _ & _ & _ & Hb1 & Hb2).
  pose proof (pre_fee_nonneg _ _ _ Hb1 Hb2 Hn Hpre) as Hp0.
  destruct (orig_fee_inv _ _ _ _ Hp0 Hof) as (-> & Ho0).
  assert (Hdn : 0 <= of_int pre + ofee) by (unfold of_int; pose proof ONE_pos; nia).
  pose proof (decrease_balance_inv _ _ _ _ _ _ _ Hsv1 Wbl Hdn Hdec) as Fd. destruct (df_sv _ _ _ _ _ _ Fd) as (S1 & S2).
  pose proof (lu_decrease _ _ _ _ _ _ _ Hdec) as U2. unfold lu_same in U2.
  pose proof (fees_rep_accrue _ _ _ _ Hok Hfr Hacc) as Hfr1.
  pose proof (fees_rep_gp _ _ Hfr1 (gp_decrease _ _ _ _ _ _ _ Hdec)) as Hfr2.
  destruct (book_orig_fee_inv _ _ _ _ Hpf Ho0 Hfr2 Hbook) as (_ & _ & B1 & B2 & _).
  assert (U4 : b_last_update bk4 = b_last_update bk2).
  { unfold book_orig_fee in Hbook. destruct (ofee =? 0); [apply Ok_inj in Hbook; subst; reflexivity|].
    destruct (pf_rate (hw_pf w) =? 0); [apply Ok_inj in Hbook; subst; reflexivity|].
    apply bind_ok in Hbook as (pfa & _ & Hbook). apply Ok_inj in Hbook. subst. reflexivity. }
  destruct (cache_stamp _ _ _ _ Hcache ltac:(congruence)) as (U5 & C1 & C2).
  cbn [mk_hb set_hb_b hb_b]. repeat split; congruence.
Qed.

Theorem repay_fresh w a b n all w' hb hb' :
  HOk2 w -> 0 <= n -> h_repay w a b n all = Ok w' -> nth_bank w b = Ok hb -> nth_bank w' b = Ok hb' -> fresh_after w hb hb' false.
Proof.
  intros H2 Hn H Hb Hb'.
  destruct (h_repay_effect _ _ _ _ _ _ H) as (hb0 & hb0' & ac & ac' & (E1 & E2 & E3 & _) & F).
  rewrite Hb in E1. apply Ok_inj in E1. subst hb0.
  pose proof (nth_bank_of_eq _ _ _ _ _ E3 Hb) as X. rewrite Hb' in X. apply Ok_inj in X. subst hb0'.
  pose proof H2 as (_ & _ & Hbk). destruct (Hbk _ _ Hb) as (Hok & _).
  destruct (HOk2_HOk _ H2) as (_ & _ & Ha). destruct (Ha _ _ E2) as (Wac & Pac).
  destruct F as (bk1 & i & bl & bk2 & bl2 & post & V' & bk5 & Hacc & _ & Hi & Hbl & Hprim & _ & Hcache & -> & _).
  exists bk1. split; [exact Hacc|]. pose proof (accrue_stamp _ _ _ _ Hok Hacc) as U1.
  destruct (after_accrue _ _ _ _ _ Hok (Pac _ _ Hb) Hacc) as (_ & _ & Pac1 & Ta1 & Tl1 & Hsv1).
  destruct (located_le _ bk1 bk1 _ (hw_now w) false _ _ _ (find_as_located _ _ _ Hi) Hbl Wac Pac1 Ta1 Tl1) as (Wbl & _).
  assert (Hx : b_last_update bk2 = b_last_update bk1 /\ b_asv bk2 = b_asv bk1 /\ b_lsv bk2 = b_lsv bk1).
  { destruct all.
    - pose proof (repay_all_inv _ _ _ _ _ _ Hsv1 Wbl Hprim) as Fr. destruct (ra_sv _ _ _ _ _ Fr) as (S1 & S2).
      pose proof (lu_repay_all _ _ _ _ _ _ Hprim) as U2. unfold lu_same in U2. repeat split; assumption.
    - destruct Hprim as (_ & Hinc).
      assert (Hdn : 0 <= of_int n) by (unfold of_int; pose proof ONE_pos; nia).
      pose proof (increase_balance_inv _ _ _ _ _ _ _ Hsv1 Wbl Hdn Hinc) as Fi. destruct (if_sv _ _ _ _ _ _ Fi) as (S1 & S2).
      pose proof (lu_increase _ _ _ _ _ _ _ Hinc) as U2. unfold lu_same in U2. repeat split; assumption. }
  destruct Hx as (U2 & S1 & S2).
  assert (Hm : b_last_update (mark_tokenless_complete bk2) = b_last_update bk2 /\ b_asv (mark_tokenless_complete bk2) = b_asv bk2 /\
               b_lsv (mark_tokenless_complete bk2) = b_lsv bk2).
  { unfold mark_tokenless_complete. destruct (_ && _); cbn; repeat split; reflexivity. }
  destruct Hm as (M0 & M1 & M2).
  destruct (cache_stamp _ _ _ _ Hcache ltac:(congruence)) as (U3 & C1 & C2).
  cbn [mk_hb set_hb_b hb_b]. repeat split; congruence.
Qed.

Theorem close_balance_fresh w a b w' hb hb' :
  HOk2 w -> h_close_balance w a b = Ok w' -> nth_bank w b = Ok hb -> nth_bank w' b = Ok hb' -> fresh_after w hb hb' false.
Proof.
  intros H2 H Hb Hb'.
  destruct (h_close_balance_effect _ _ _ _ H) as (hb0 & hb0' & ac & ac' & (E1 & E2 & E3 & _) & F).
  rewrite Hb in E1. apply Ok_inj in E1. subst hb0.
  pose proof (nth_bank_of_eq _ _ _ _ _ E3 Hb) as X. rewrite Hb' in X. apply Ok_inj in X. subst hb0'.
  pose proof H2 as (_ & _ & Hbk). destruct (Hbk _ _ Hb) as (Hok & _).
  destruct (HOk2_HOk _ H2) as (_ & _ & Ha). destruct (Ha _ _ E2) as (Wac & Pac).
  destruct F as (bk1 & bk2 & i & bl & bk3 & bl3 & Hacc & _ & Hcache & Hi & Hbl & Hcl & -> & _).
  exists bk1. split; [exact Hacc|]. pose proof (accrue_stamp _ _ _ _ Hok Hacc) as U1.
  destruct (cache_stamp _ _ _ _ Hcache U1) as (U2 & C1 & C2).
  destruct (after_accrue _ _ _ _ _ Hok (Pac _ _ Hb) Hacc) as (_ & _ & Pac1 & Ta1 & Tl1 & Hsv1).
  destruct (NAV_cache _ _ _ _ Hcache) as (_ & _ & _ & T1 & T2 & _).
  assert (Pac2 : pos_le bk2 (bank_pk b) (ha_la ac)) by (unfold pos_le; rewrite T1, T2; exact Pac1).
  destruct (located_le _ bk2 bk2 _ (hw_now w) false _ _ _ (find_as_located _ _ _ Hi) Hbl Wac Pac2 ltac:(lia) ltac:(lia)) as (Wbl & _).
  assert (Hsv2 : wf_sv bk2) by (destruct Hsv1; unfold wf_sv; lia).
  destruct (close_balance_inv _ _ _ _ _ Hsv2 Wbl Hcl) as (_ & _ & _ & S1 & S2 & _).
  pose proof (lu_close_balance _ _ _ _ _ Hcl) as U3. unfold lu_same in U3.
  cbn [set_hb_b hb_b]. repeat split; congruence.
Qed.

Theorem bankruptcy_fresh w a b w' hb hb' :
  HOk2 w -> h_bankruptcy w a b = Ok w' -> nth_bank w b = Ok hb -> nth_bank w' b = Ok hb' -> fresh_after w hb hb' true.
Proof.
  intros H2 H Hb Hb'.
  destruct (h_bankruptcy_effect _ _ _ _ H) as (hb0 & hb0' & ac & ac' & (E1 & E2 & E3 & _) & F).
  rewrite Hb in E1. apply Ok_inj in E1. subst hb0.
  pose proof (nth_bank_of_eq _ _ _ _ _ E3 Hb) as X. rewrite Hb' in X. apply Ok_inj in X. subst hb0'.
  pose proof H2 as (_ & _ & Hbk). destruct (Hbk _ _ Hb) as (Hok & _).
  destruct (HOk2_HOk _ H2) as (_ & _ & Ha). destruct (Ha _ _ E2) as (Wac & Pac).
  destruct F as (ps & A & Lq & bk1 & i & bl & bad & avail_n & covered & loss & ce & cov_n & pre & f & bk2 & kill & bk3 & bl3 & bk4 &
          _ & _ & Hacc & Hi & Hbl & Hbad & Hthr & _ & _ & Hloss & _ & _ & _ & _ & _ & Hsoc & Hinc & Hcache & -> & _).
  exists bk1. split; [exact Hacc|]. pose proof (accrue_stamp _ _ _ _ Hok Hacc) as U1.
  destruct (after_accrue _ _ _ _ _ Hok (Pac _ _ Hb) Hacc) as (_ & _ & Pac1 & Ta1 & Tl1 & Hsv1).
  assert (Hfind : wrapper_find (bank_pk b) (ha_la ac) = Ok i) by (unfold wrapper_find; rewrite Hi; reflexivity).
  destruct (located_le _ bk1 bk1 _ (hw_now w) false _ _ _ (find_as_located _ _ _ Hfind) Hbl Wac Pac1 Ta1 Tl1) as (Wbl & _).
  destruct (socialize_sv _ _ _ _ Hsv1 Ta1 Hsoc) as (Hsv2 & _ & _).
  assert (Hs : b_last_update bk2 = b_last_update bk1 /\ b_lsv bk2 = b_lsv bk1 /\ b_asv bk2 <= b_asv bk1).
  { unfold socialize_loss in Hsoc. apply bind_ok in Hsoc as (total & Htot & Hsoc). apply math_ok, cmul_inv in Htot as [Htot _].
    destruct Hsv1 as (A1 & L1). pose proof ONE_pos as HO.
    destruct (total <=? loss) eqn:E.
    - apply Ok_inj, pair_equal_spec in Hsoc as [<- _]. cbn. repeat split; try reflexivity. lia.
    - apply bind_ok in Hsoc as (d & Hd & Hsoc). apply usub_inv in Hd as [Hd _].
      apply bind_ok in Hsoc as (nsv & Hnsv & Hsoc). apply Ok_inj, pair_equal_spec in Hsoc as [<- _].
      cbn [set_b_asv b_last_update b_lsv b_asv]. split; [reflexivity|]. split; [reflexivity|].
      assert (Hthr0 : 0 < ZERO_AMOUNT_THRESHOLD) by reflexivity.
      assert (Hl0 : 0 <= loss) by (rewrite Hloss; unfold fmax; lia).
      assert (Htp : 0 < b_tas bk1).
      { destruct (Z.eq_dec (b_tas bk1) 0) as [E0|]; [|lia]. exfalso. apply math_ok in Hnsv. unfold cdiv in Hnsv. rewrite E0 in Hnsv. cbn in Hnsv. discriminate. }
      apply math_ok in Hnsv. apply cdiv_inv_nonneg in Hnsv as [Hnsv _]; [|lia|lia].
      assert (Ht2 : total * ONE <= b_tas bk1 * b_asv bk1) by (rewrite Htot; rewrite Z.mul_comm; apply Z.mul_div_le; exact HO).
      rewrite Hnsv. apply Z.div_le_upper_bound; [lia|]. nia. }
  destruct Hs as (U2 & S2 & S1).
  assert (Hthr0 : 0 < ZERO_AMOUNT_THRESHOLD) by reflexivity. assert (Hb0 : 0 <= bad) by lia.
  pose proof (increase_balance_inv _ _ _ _ _ _ _ Hsv2 Wbl Hb0 Hinc) as Fi. destruct (if_sv _ _ _ _ _ _ Fi) as (S3 & S4).
  pose proof (lu_increase _ _ _ _ _ _ _ Hinc) as U3. unfold lu_same in U3.
  destruct (cache_stamp _ _ _ _ Hcache ltac:(congruence)) as (U4 & C1 & C2).
  cbn [set_hb_b hb_b]. destruct kill; cbn [set_b_op_state b_last_update b_lsv b_asv]; repeat split; try congruence; lia.
Qed.

Theorem liquidate_fresh w liqor liqee ab lb n w' ha hl ha' hl' :
  HOk2 w -> 0 <= n -> h_liquidate w liqor liqee ab lb n = Ok w' ->
  nth_bank w ab = Ok ha -> nth_bank w lb = Ok hl -> nth_bank w' ab = Ok ha' -> nth_bank w' lb = Ok hl' ->
  fresh_after w ha ha' false /\ fresh_after w hl hl' false.
Proof.
  intros H2 Hn H Ea El Ea' El'.
  destruct (h_liquidate_effect _ _ _ _ _ _ _ H) as (ha0 & hl0 & ha0' & hl0' & ee & er & ee3 & er3 & Ea0 & El0 & Eee & Eer & Eb & _ & _ & _ & _ & F).
  pose proof (liquidate_facts_distinct _ _ _ _ _ _ _ _ _ _ _ _ _ _ F) as Hd.
  rewrite Ea in Ea0. apply Ok_inj in Ea0. subst ha0. rewrite El in El0. apply Ok_inj in El0. subst hl0.
  pose proof (liquidate_facts_ne _ _ _ _ _ _ _ _ _ _ _ _ _ _ F) as Hne.
  assert (Xa : ha' = ha0').
  { unfold nth_bank in Ea'. rewrite Eb in Ea'. rewrite nth_res_set_other in Ea' by congruence.
    rewrite (nth_res_set_same _ _ _ _ Ea) in Ea'. apply Ok_inj in Ea'. congruence. }
  assert (Xl : hl' = hl0').
  { unfold nth_bank in El'. rewrite Eb in El'.
    assert (Y : nth_res lb (set_nth ab ha0' (hw_banks w)) = Ok hl) by (rewrite nth_res_set_other by assumption; exact El).
    rewrite (nth_res_set_same _ _ _ _ Y) in El'. apply Ok_inj in El'. congruence. }
  subst ha0' hl0'.
  pose proof H2 as (_ & _ & Hbk). destruct (Hbk _ _ Ea) as (Hoka & _). destruct (Hbk _ _ El) as (Hokl & _).
  pose proof (HOk2_HOk _ H2) as (_ & _ & Haccts).
  destruct (Haccts _ _ Eee) as (Wee & Pee).
  assert (Her0 : forall ac, nth_res liqor (set_nth liqee (sort_acct ee) (hw_accts w)) = Ok ac ->
            Forall wf_bal (ha_la ac) /\ pos_le (hb_b ha) (bank_pk ab) (ha_la ac) /\ pos_le (hb_b hl) (bank_pk lb) (ha_la ac)).
  { intros ac Hac. rewrite nth_res_set_other in Hac by congruence.
    assert (Hac' : nth_acct w liqor = Ok ac) by exact Hac.
    destruct (Haccts _ _ Hac') as (W & P). split; [exact W|]. split; [exact (P _ _ Ea)|exact (P _ _ El)]. }
  destruct F as (ba1 & bl1 & er0 & q_liq & q_fin & ins_fee & i1 & la1 & b1 & bl2 & b1' & i2 & b2 & ba2 & b2' & i3 & la3 & b3 & ba3 & b3' &
          i4 & b4 & bl3 & b4' & ins_n & f & ba4 & bl5 & F).
  cbv zeta in F.
  destruct F as (Hamt & _ & _ & Hacca & Haccl & Hr0 & Hif & Hif0 & Hqf0 & Hloc1 & Hb1 & Hdec1 & Hi2 & Hb2 & Hdec2 & Hloc3 & Hb3 & Hinc3 &
                 Hi4 & Hb4 & Hinc4 & Hinsn & Hvle & Hf & Hrange & Hca & Hcl & -> & -> & _ & _).
  pose proof (accrue_stamp _ _ _ _ Hoka Hacca) as Ua1. pose proof (accrue_stamp _ _ _ _ Hokl Haccl) as Ul1.
  (* share values are untouched by the four legs: read them off the one-step lemmas of the solvency proof *)
  destruct (Her0 _ Hr0) as (Wer0 & Pra & Prl).
  destruct (after_accrue _ _ _ _ _ Hoka (Pee _ _ Ea) Hacca) as (Hoka1 & _ & Pea1 & Taa & Tla & Hsva).
  destruct (after_accrue _ _ _ _ _ Hokl (Pee _ _ El) Haccl) as (Hokl1 & _ & Pel1 & Tal & Tll & Hsvl).
  destruct (after_accrue _ _ _ _ _ Hoka Pra Hacca) as (_ & _ & Pra1 & _).
  destruct (after_accrue _ _ _ _ _ Hokl Prl Haccl) as (_ & _ & Prl1 & _).
  apply usub_inv in Hif as [-> _].
  assert (Hq1 : 0 <= q_liq) by lia.
  assert (Ham0 : 0 <= of_int n) by (unfold of_int; pose proof ONE_pos; nia).
  assert (Wee1 : Forall wf_bal (ha_la (sort_acct ee))) by (unfold sort_acct; cbn [ha_la]; apply Forall_sort; exact Wee).
  assert (Pea1s : pos_le ba1 (bank_pk ab) (ha_la (sort_acct ee))) by (unfold sort_acct; cbn [ha_la]; apply pos_le2_sort; exact Pea1).
  assert (Pel1s : pos_le bl1 (bank_pk lb) (ha_la (sort_acct ee))) by (unfold sort_acct; cbn [ha_la]; apply pos_le2_sort; exact Pel1).
  pose proof (bank_pk_neq _ _ Hne) as Hpkne.
  destruct (located_le2 _ _ _ _ _ _ true _ _ _ Hloc1 Hb1 Wer0 Prl1 Tal Tll) as (Wb1 & Wla1 & L1a & L1l & A1 & K1 & _).
  destruct (dec_step _ _ _ _ _ _ _ _ Hokl1 Wb1 Hq1 L1a Hdec1) as (Hokl2 & Wb1' & _ & El2a & El2l & Tl2 & Ta2 & _ & _ & _ & Ab1 & Kb1).
  destruct (located_le2 _ ba1 _ _ _ (hw_now w) false _ _ _ (find_as_located _ _ _ Hi2) Hb2 Wee1 Pea1s Taa Tla) as (Wb2 & _ & L2a & L2l & A2 & K2 & _).
  destruct (dec_step _ _ _ _ _ _ _ _ Hoka1 Wb2 Ham0 L2a Hdec2) as (Hoka2 & Wb2' & _ & Ea2a & Ea2l & Tla2 & Taa2 & _ & _ & _ & Ab2 & Kb2).
  assert (Wer1 : Forall wf_bal (set_nth i1 b1' la1)) by (apply Forall_set_nth; assumption).
  assert (Pr3 : pos_le2 (b_tas ba1) (b_tls ba1) (bank_pk ab) (set_nth i1 b1' la1)).
  { apply pos_le2_set_nth; [eapply find_or_create_pos_le2; [exact Hloc1|exact Pra1|exact Taa|exact Tla]|].
    intros _ Hk. exfalso. rewrite Kb1, K1 in Hk. congruence. }
  destruct (located_le2 _ _ _ _ _ _ true _ _ _ Hloc3 Hb3 Wer1 Pr3 Taa Tla) as (Wb3 & Wla3 & L3a & L3l & A3 & K3 & _).
  destruct (inc_step _ _ _ _ _ _ _ _ Hoka2 Wb3 Ham0 ltac:(lia) Hinc3) as (Hoka3 & _ & _ & Ea3a & Ea3l & _).
  assert (Wee2 : Forall wf_bal (set_nth i2 b2' (ha_la (sort_acct ee)))) by (apply Forall_set_nth; assumption).
  assert (Pe4 : pos_le2 (b_tas bl1) (b_tls bl1) (bank_pk lb) (set_nth i2 b2' (ha_la (sort_acct ee)))).
  { apply pos_le2_set_nth; [exact Pel1s|]. intros _ Hk. exfalso. rewrite Kb2, K2 in Hk. congruence. }
  cbn [ha_la] in Hi4, Hb4.
  destruct (located_le2 _ bl2 _ _ _ (hw_now w) false _ _ _ (find_as_located _ _ _ Hi4) Hb4 Wee2 Pe4 Tal Tll) as (Wb4 & _ & L4a & L4l & _).
  destruct (inc_step _ _ _ _ _ _ _ _ Hokl2 Wb4 Hqf0 ltac:(lia) Hinc4) as (Hokl3 & _ & _ & El3a & El3l & _).
  pose proof (lu_decrease _ _ _ _ _ _ _ Hdec1) as V1. pose proof (lu_decrease _ _ _ _ _ _ _ Hdec2) as V2.
  pose proof (lu_increase _ _ _ _ _ _ _ Hinc3) as V3. pose proof (lu_increase _ _ _ _ _ _ _ Hinc4) as V4. unfold lu_same in *.
  destruct (cache_stamp _ _ _ _ Hca ltac:(congruence)) as (Ua4 & Ca1 & Ca2).
  destruct (cache_stamp _ _ _ _ Hcl ltac:(cbn [set_b_ins b_last_update]; congruence)) as (Ul5 & Cl1 & Cl2).
  cbn [set_b_ins b_asv b_lsv] in Cl1, Cl2.
  split.
  - exists ba1. split; [exact Hacca|]. cbn [set_hb_b hb_b]. repeat split; congruence.
  - exists bl1. split; [exact Haccl|]. cbn [set_hb_b set_hb_vault set_hb_insv hb_b]. repeat split; congruence.
Qed.
