(* AuthLemmas.v — C08 over the GENERATED accounts table: the boolean checkers of Spec.v evaluate to true on
   the table produced from the current source (vm_compute; the table is finite, so this is a proof), and the
   soundness lemmas of AnchorSemLemmas.v lift each of them to a statement over all worlds, bindings and
   signer sets. *)
Require Import Base Constants Panic AnchorTypes AnchorSem Gate AccountsTable HandlerFacts Spec AnchorSemLemmas.
From Coq Require Import ZifyBool.
Local Open Scope string_scope.
Local Open Scope Z_scope.

(* the generated flag masks are the ones the signer-rule model uses *)
Lemma flag_masks_tie : ACCOUNT_IN_RECEIVERSHIP = FL_RECEIVERSHIP /\ ACCOUNT_FROZEN = FL_FROZEN.
Proof. split; reflexivity. Qed.

Lemma all_classes_checked : check_all_classes = true.
Proof. vm_compute. reflexivity. Qed.

Lemma receivership_family_checked : check_receivership_family = true.
Proof. vm_compute. reflexivity. Qed.

Lemma group_binding_checked : check_group_binding = true.
Proof. vm_compute. reflexivity. Qed.

Lemma vaults_checked : check_vaults = true.
Proof. vm_compute. reflexivity. Qed.

Lemma fee_states_checked : check_fee_states = true.
Proof. vm_compute. reflexivity. Qed.

Lemma liq_records_checked : check_liq_records = true.
Proof. vm_compute. reflexivity. Qed.

Lemma class_checked e : In e accounts_table -> check_class e = true.
Proof.
  intros H. pose proof all_classes_checked as A. unfold check_all_classes in A.
  apply Bool.andb_true_iff in A. destruct A as [A _]. exact (proj1 (forallb_forall _ _) A e H).
Qed.

(* no instruction of the program escapes the classification *)
Lemma every_instruction_classified e : In e accounts_table -> exists c, classify (e_ix e) = Some c.
Proof.
  intros H. pose proof (class_checked e H) as C. unfold check_class in C.
  destruct (classify (e_ix e)) as [c|]; [eauto|discriminate].
Qed.

(* and every classified name is an instruction of the program *)
Lemma classification_names_exist name c :
  In (name, c) classification -> exists e, In e accounts_table /\ e_ix e = name.
Proof.
  intros H. pose proof all_classes_checked as A. unfold check_all_classes in A.
  apply Bool.andb_true_iff in A. destruct A as [_ A].
  pose proof (proj1 (forallb_forall _ _) A (name, c) H) as F. cbn [fst] in F.
  destruct (find_entry name accounts_table) as [e|] eqn:E; [|discriminate].
  exists e. exact (find_entry_some _ _ _ E).
Qed.

Section T.
Context (pda : key -> list seed_val -> key).
Context (opq : string -> world -> binding -> bool).
Notation accepts := (accepts pda opq).
Notation accepted := (accepted pda opq).

Lemma user_ops e allow acct signer grp :
  In e accounts_table -> classify (e_ix e) = Some (KUser allow acct signer grp) ->
  forall w b sg, accepts e w b sg = true -> user_rule w b sg allow acct signer grp.
Proof.
  intros H C w b sg Ha. pose proof (class_checked e H) as K. unfold check_class in K. rewrite C in K.
  exact (check_user_sound pda opq e allow acct signer grp w b sg K Ha).
Qed.

Lemma owner_ops e acct signer :
  In e accounts_table -> classify (e_ix e) = Some (KOwner acct signer) ->
  forall w b sg, accepts e w b sg = true -> owner_rule w b sg acct signer.
Proof.
  intros H C w b sg Ha. pose proof (class_checked e H) as K. unfold check_class in K. rewrite C in K.
  exact (check_owner_sound pda opq e acct signer w b sg K Ha).
Qed.

Lemma admin_single_role e r signer grp :
  In e accounts_table -> classify (e_ix e) = Some (KAdmin [r] signer grp) ->
  forall w b sg, accepts e w b sg = true -> admin_rule w b sg r signer grp.
Proof.
  intros H C w b sg Ha. pose proof (class_checked e H) as K. unfold check_class in K. rewrite C in K.
  exact (check_admin_decl_sound pda opq e r signer grp w b sg K Ha).
Qed.

Lemma fee_admin_ops e signer :
  In e accounts_table -> classify (e_ix e) = Some (KFeeAdmin signer) ->
  forall w b sg, accepts e w b sg = true -> fee_admin_rule pda w b sg signer.
Proof.
  intros H C w b sg Ha. pose proof (class_checked e H) as K. unfold check_class in K. rewrite C in K.
  exact (check_fee_admin_sound pda opq e signer w b sg K Ha).
Qed.

(* "anyone during a receivership" is syntactically confined to the withdraw / repay family *)
Lemma receivership_only_withdraw_repay e f c err :
  In e accounts_table -> In f (e_fields e) -> In (c, err) (f_cons f) -> cons_allows_receivership c = true ->
  In (e_ix e) withdraw_repay_family.
Proof.
  intros He Hf Hc Hal. pose proof receivership_family_checked as A. unfold check_receivership_family in A.
  pose proof (proj1 (forallb_forall _ _) A e He) as F. apply Bool.orb_true_iff in F. destruct F as [F|F].
  - exfalso. apply Bool.negb_true_iff in F.
    assert (T : entry_allows_receivership e = true).
    { unfold entry_allows_receivership. apply existsb_exists. exists f. split; [exact Hf|].
      apply existsb_exists. exists (c, err). split; [exact Hc|exact Hal]. }
    congruence.
  - apply smem_In. exact F.
Qed.

(* roles checked in the handler body: the guards are modelled by hand in Spec.handler_signer_guard *)
Lemma no_bank_gate_calls ix : calls_of ix = [] -> forall w b, handler_bank_gate ix w b = Ok tt.
Proof. intros H w b. unfold handler_bank_gate. rewrite H. reflexivity. Qed.

Lemma clone_emode_roles e :
  In e accounts_table -> e_ix e = "lending_pool_clone_emode" ->
  forall w b sg, accepted e w b sg = true ->
  exists ks kg, bkey b "signer" = Some ks /\ bkey b "group" = Some kg /\ In ks sg /\ typed w kg "MarginfiGroup" /\
    (key_field (acct_of w kg) (role_field RAdmin) = Some ks \/ key_field (acct_of w kg) (role_field REmode) = Some ks).
Proof.
  intros He Hn w b sg Hacc. unfold Spec.accepted in Hacc. apply Bool.andb_true_iff in Hacc. destruct Hacc as [Ha Hg].
  pose proof (class_checked e He) as K. unfold check_class in K. rewrite Hn in K.
  change (classify "lending_pool_clone_emode") with (Some (KAdmin [RAdmin; REmode] "signer" "group")) in K.
  cbn [check_admin] in K. unfold check_admin_body in K. apply Bool.andb_true_iff in K. destruct K as [Ks Kg].
  destruct (signer_field_sound pda opq e w b sg _ Ks Ha) as [ks [Hks Hin]].
  assert (Kg' : with_field e "group" (fun f => wrap_is_loader "MarginfiGroup" f && plain f && true) = true).
  { unfold with_field in *. destruct (find_field "group" (e_fields e)); [|discriminate]. rewrite Kg. reflexivity. }
  destruct (loader_field_sound pda opq e w b sg "group" "MarginfiGroup" (fun _ => true) Kg' Ha)
    as [fg [kg [_ [_ [_ [_ [Hkg [Htg _]]]]]]]].
  exists ks, kg. repeat split; auto; try apply Htg.
  rewrite Hn in Hg. unfold handler_guard in Hg.
  rewrite (no_bank_gate_calls "lending_pool_clone_emode" eq_refl) in Hg. cbn [bind] in Hg.
  unfold handler_signer_guard in Hg.
  change (seqb "lending_pool_clone_emode" "lending_pool_handle_bankruptcy") with false in Hg.
  change (seqb "lending_pool_clone_emode" "lending_pool_clone_emode") with true in Hg.
  cbv iota in Hg. rewrite (bound_acct_eq w b _ kg Hkg), Hks in Hg.
  unfold check in Hg.
  destruct (opt_key_eqb (Some ks) (key_field (acct_of w kg) "admin")) eqn:E1.
  - left. destruct (opt_key_eqb_true _ _ E1) as [x [A1 A2]]. inversion A1; subst x. exact A2.
  - destruct (opt_key_eqb (Some ks) (key_field (acct_of w kg) "emode_admin")) eqn:E2; [|discriminate Hg].
    right. destruct (opt_key_eqb_true _ _ E2) as [x [A1 A2]]. inversion A1; subst x. exact A2.
Qed.

Lemma bankruptcy_roles e :
  In e accounts_table -> e_ix e = "lending_pool_handle_bankruptcy" ->
  forall w b sg, accepted e w b sg = true ->
  exists ks kg kb ka, bkey b "signer" = Some ks /\ bkey b "group" = Some kg /\ bkey b "bank" = Some kb /\
    bkey b "marginfi_account" = Some ka /\ In ks sg /\
    typed w kg "MarginfiGroup" /\ typed w kb "Bank" /\ typed w ka "MarginfiAccount" /\
    key_field (acct_of w kb) "group" = Some kg /\ key_field (acct_of w ka) "group" = Some kg /\
    (bank_get_flag (num_field (acct_of w kb) "flags") PERMISSIONLESS_BAD_DEBT_SETTLEMENT_FLAG = true \/
     key_field (acct_of w kg) (role_field RRisk) = Some ks \/ key_field (acct_of w kg) (role_field RAdmin) = Some ks).
Proof.
  intros He Hn w b sg Hacc. unfold Spec.accepted in Hacc. apply Bool.andb_true_iff in Hacc. destruct Hacc as [Ha Hg].
  pose proof (class_checked e He) as K. unfold check_class in K. rewrite Hn in K.
  change (classify "lending_pool_handle_bankruptcy")
    with (Some (KBankruptcy "signer" "group" "bank" "marginfi_account")) in K.
  unfold check_bankruptcy in K.
  apply Bool.andb_true_iff in K. destruct K as [K Kacct].
  apply Bool.andb_true_iff in K. destruct K as [K Kbank].
  apply Bool.andb_true_iff in K. destruct K as [Ks Kg].
  destruct (signer_field_sound pda opq e w b sg _ Ks Ha) as [ks [Hks Hin]].
  assert (Kg' : with_field e "group" (fun f => wrap_is_loader "MarginfiGroup" f && plain f && true) = true).
  { unfold with_field in *. destruct (find_field "group" (e_fields e)); [|discriminate]. rewrite Kg. reflexivity. }
  destruct (loader_field_sound pda opq e w b sg "group" "MarginfiGroup" (fun _ => true) Kg' Ha)
    as [fg [kg [_ [_ [_ [_ [Hkg [Htg _]]]]]]]].
  destruct (loader_field_sound pda opq e w b sg "bank" "Bank" _ Kbank Ha)
    as [fb [kb [Hfb [Hnb [Hib [Hob [Hkb [Htb HPb]]]]]]]].
  destruct (loader_field_sound pda opq e w b sg "marginfi_account" "MarginfiAccount" _ Kacct Ha)
    as [fa [ka [Hfa [Hna [Hia [Hoa [Hka [Hta HPa]]]]]]]].
  destruct (has_one_of_In fb _ HPb) as [eb Hhb]. destruct (has_one_of_In fa _ HPa) as [ea Hha].
  rewrite <- Hnb in Hkb. rewrite <- Hna in Hka.
  destruct (accepts_has_one pda opq e w b sg fb kb _ eb Ha Hfb Hib Hob Hkb Hhb) as [k1 [B1 B2]].
  destruct (accepts_has_one pda opq e w b sg fa ka _ ea Ha Hfa Hia Hoa Hka Hha) as [k2 [A1 A2]].
  rewrite Hkg in B2, A2. inversion B2; subst k1. inversion A2; subst k2.
  rewrite Hnb in Hkb. rewrite Hna in Hka.
  exists ks, kg, kb, ka. repeat split; auto; try apply Htg; try apply Htb; try apply Hta.
  rewrite Hn in Hg. unfold handler_guard in Hg.
  destruct (handler_bank_gate "lending_pool_handle_bankruptcy" w b) as [[]|er]; [|discriminate Hg].
  cbn [bind] in Hg. unfold handler_signer_guard in Hg.
  change (seqb "lending_pool_handle_bankruptcy" "lending_pool_handle_bankruptcy") with true in Hg.
  cbv iota in Hg. rewrite (bound_acct_eq w b _ kb Hkb), (bound_acct_eq w b _ kg Hkg), Hks in Hg.
  destruct (bank_get_flag (num_field (acct_of w kb) "flags") PERMISSIONLESS_BAD_DEBT_SETTLEMENT_FLAG); [left; reflexivity|].
  right. unfold check in Hg.
  destruct (opt_key_eqb (Some ks) (key_field (acct_of w kg) "risk_admin")) eqn:E1.
  - left. destruct (opt_key_eqb_true _ _ E1) as [x [X1 X2]]. inversion X1; subst x. exact X2.
  - destruct (opt_key_eqb (Some ks) (key_field (acct_of w kg) "admin")) eqn:E2; [|discriminate Hg].
    right. destruct (opt_key_eqb_true _ _ E2) as [x [X1 X2]]. inversion X1; subst x. exact X2.
Qed.

(* end_liquidation: only the receiver recorded on the account's own liquidation record *)
Lemma end_liquidation_receiver e acct record receiver :
  In e accounts_table -> classify (e_ix e) = Some (KEndLiquidation acct record receiver) ->
  forall w b sg, accepts e w b sg = true ->
  exists ka kr ks, bkey b acct = Some ka /\ bkey b record = Some kr /\ bkey b receiver = Some ks /\ In ks sg /\
    typed w ka "MarginfiAccount" /\ typed w kr "LiquidationRecord" /\
    key_field (acct_of w ka) record = Some kr /\ key_field (acct_of w kr) receiver = Some ks.
Proof.
  intros He C w b sg Ha. pose proof (class_checked e He) as K. unfold check_class in K. rewrite C in K.
  unfold check_end_liq in K.
  apply Bool.andb_true_iff in K. destruct K as [K Krec].
  apply Bool.andb_true_iff in K. destruct K as [Ks Kacct].
  destruct (signer_field_sound pda opq e w b sg _ Ks Ha) as [ks [Hks Hin]].
  destruct (loader_field_sound pda opq e w b sg acct "MarginfiAccount" _ Kacct Ha)
    as [fa [ka [Hfa [Hna [Hia [Hoa [Hka [Hta HPa]]]]]]]].
  destruct (loader_field_sound pda opq e w b sg record "LiquidationRecord" _ Krec Ha)
    as [fr [kr [Hfr [Hnr [Hir [Hor [Hkr [Htr HPr]]]]]]]].
  destruct (has_one_of_In fa _ HPa) as [ea Hha]. destruct (has_one_of_In fr _ HPr) as [er Hhr].
  pose proof Hka as Hka'. pose proof Hkr as Hkr'. rewrite <- Hna in Hka'. rewrite <- Hnr in Hkr'.
  destruct (accepts_has_one pda opq e w b sg fa ka _ ea Ha Hfa Hia Hoa Hka' Hha) as [k1 [A1 A2]].
  destruct (accepts_has_one pda opq e w b sg fr kr _ er Ha Hfr Hir Hor Hkr' Hhr) as [k2 [R1 R2]].
  rewrite Hkr in A2. inversion A2; subst k1. rewrite Hks in R2. inversion R2; subst k2.
  exists ka, kr, ks. repeat split; auto; try apply Hta; try apply Htr.
Qed.

(* ---------------------------------------------------------------------------------------------
   bindings, table-wide *)

(* every typed account of every instruction is owned by the program its type belongs to and carries that
   type's discriminator (no table fact needed: this is what AccountLoader checks) *)
Lemma typed_accounts e f ty :
  In f (e_fields e) -> f_init f = false -> f_opt f = false -> f_wrap f = WLoader ty ->
  forall w b sg, accepts e w b sg = true -> exists k, bkey b (f_name f) = Some k /\ typed w k ty.
Proof.
  intros Hf Hi Ho Hw w b sg Ha. destruct (accepts_bound pda opq e w b sg f Ha Hf) as [k Hk].
  exists k. split; [exact Hk|]. exact (accepts_loader pda opq e w b sg f k ty Ha Hf Hi Ho Hk Hw).
Qed.

Lemma group_field_of_some e g : group_field_of e = Some g ->
  exists fg, In fg (e_fields e) /\ f_name fg = g /\ wrap_is_loader "MarginfiGroup" fg = true.
Proof.
  unfold group_field_of. destruct (find _ (e_fields e)) as [fg|] eqn:E; [|discriminate].
  intros H. inversion H; subst. apply find_some in E. destruct E. eauto.
Qed.

(* every Bank and every MarginfiAccount an instruction takes belongs to the group account it takes, except
   for the listed (instruction, field) pairs *)
Lemma group_binding e f :
  In e accounts_table -> In f (e_fields e) -> plain f = true ->
  (wrap_is_loader "Bank" f || wrap_is_loader "MarginfiAccount" f) = true ->
  in_pairs (e_ix e) (f_name f) group_binding_exceptions = false ->
  exists g, group_field_of e = Some g /\
    forall w b sg, accepts e w b sg = true ->
      exists k kg, bkey b (f_name f) = Some k /\ bkey b g = Some kg /\ key_field (acct_of w k) g = Some kg.
Proof.
  intros He Hf Hp Hw Hex. pose proof group_binding_checked as A. unfold check_group_binding in A.
  pose proof (proj1 (forallb_forall _ _) A e He) as B. unfold check_group_binding_entry in B.
  pose proof (proj1 (forallb_forall _ _) B f Hf) as F. cbv beta in F. rewrite Hp, Hw in F. cbn [andb] in F.
  destruct (group_field_of e) as [g|] eqn:G; [|congruence].
  rewrite Hex, Bool.orb_false_r in F. exists g. split; [reflexivity|].
  intros w b sg Ha. apply plain_spec in Hp. destruct Hp as [Ho Hi].
  destruct (accepts_bound pda opq e w b sg f Ha Hf) as [k Hk].
  destruct (has_one_of_In f g F) as [err Hh].
  destruct (accepts_has_one pda opq e w b sg f k g err Ha Hf Hi Ho Hk Hh) as [kg [K1 K2]].
  exists k, kg. auto.
Qed.

(* a bank or account that belongs to another group is rejected *)
Lemma foreign_group_rejected e f g :
  In e accounts_table -> In f (e_fields e) -> plain f = true ->
  (wrap_is_loader "Bank" f || wrap_is_loader "MarginfiAccount" f) = true ->
  in_pairs (e_ix e) (f_name f) group_binding_exceptions = false ->
  group_field_of e = Some g ->
  forall w b sg k kg, bkey b (f_name f) = Some k -> bkey b g = Some kg ->
    key_field (acct_of w k) g <> Some kg -> accepts e w b sg = false.
Proof.
  intros He Hf Hp Hw Hex G w b sg k kg Hk Hkg Hne.
  destruct (AnchorSem.accepts pda opq e w b sg) eqn:Ha; [exfalso|reflexivity].
  destruct (group_binding e f He Hf Hp Hw Hex) as [g' [G' H]]. rewrite G in G'. inversion G'; subst g'.
  destruct (H w b sg Ha) as [k' [kg' [A1 [A2 A3]]]]. rewrite Hk in A1. rewrite Hkg in A2.
  inversion A1; inversion A2; subst. exact (Hne A3).
Qed.

(* vaults and vault authorities: the key is the one stored in a bank the instruction takes, or the PDA of
   that bank *)
Lemma vault_binding e f lit :
  In e accounts_table -> In f (e_fields e) ->
  contains "vault" (f_name f) = true -> sassoc (f_name f) vault_seed_of_name = Some lit ->
  forall w b sg, accepts e w b sg = true ->
    exists k bf kb, bkey b (f_name f) = Some k /\ In bf (e_fields e) /\ wrap_is_loader "Bank" bf = true /\
      bkey b (f_name bf) = Some kb /\
      (key_field (acct_of w kb) (f_name f) = Some k \/ k = pda PROG_MARGINFI [VStr lit; VKey kb]).
Proof.
  intros He Hf Hc Hs w b sg Ha. pose proof vaults_checked as A. unfold check_vaults in A.
  pose proof (proj1 (forallb_forall _ _) A e He) as B.
  pose proof (proj1 (forallb_forall _ _) B f Hf) as F. unfold check_vault_field in F. rewrite Hc, Hs in F.
  apply Bool.andb_true_iff in F. destruct F as [Ho F]. apply Bool.negb_true_iff in Ho.
  apply existsb_exists in F. destruct F as [bf [Hbf Hb]].
  unfold bank_fields in Hbf. apply filter_In in Hbf. destruct Hbf as [Hbf Hbw].
  destruct (accepts_bound pda opq e w b sg f Ha Hf) as [k Hk].
  destruct (accepts_bound pda opq e w b sg bf Ha Hbf) as [kb Hkb].
  exists k, bf, kb. repeat split; auto.
  unfold vault_bound_to in Hb. apply Bool.orb_true_iff in Hb. destruct Hb as [Hb|Hb].
  - left. apply Bool.andb_true_iff in Hb. destruct Hb as [Hpl Hho]. apply plain_spec in Hpl. destruct Hpl as [Hob Hib].
    destruct (has_one_of_In bf _ Hho) as [err Hh].
    destruct (accepts_has_one pda opq e w b sg bf kb _ err Ha Hbf Hib Hob Hkb Hh) as [kt [K1 K2]].
    rewrite Hk in K2. inversion K2; subst kt. exact K1.
  - right.
    assert (Hse : f_seeds f = Some ([SLit lit; SKeyOf (f_name bf)], None)).
    { apply seeds_are_eq; [exact Hb|]. intros s [<-|[<-|[]]]; exact I. }
    destruct (accepts_seeds pda opq e w b sg f k _ Ha Hf Ho Hk Hse) as [vs [Hvs Hp]].
    cbn in Hvs. rewrite Hkb in Hvs. cbn in Hvs. inversion Hvs; subst vs. exact Hp.
Qed.

Lemma fee_state_binding e f :
  In e accounts_table -> In f (e_fields e) -> f_name f = "fee_state" ->
  forall w b sg, accepts e w b sg = true -> bkey b "fee_state" = Some (pda PROG_MARGINFI [VStr "feestate"]).
Proof.
  intros He Hf Hn w b sg Ha. pose proof fee_states_checked as A. unfold check_fee_states in A.
  pose proof (proj1 (forallb_forall _ _) A e He) as B.
  pose proof (proj1 (forallb_forall _ _) B f Hf) as F. unfold check_fee_state_field in F.
  rewrite Hn in F. change (seqb "fee_state" "fee_state") with true in F. cbv iota in F.
  apply Bool.andb_true_iff in F. destruct F as [Hse Ho]. apply Bool.negb_true_iff in Ho.
  destruct (accepts_bound pda opq e w b sg f Ha Hf) as [k Hk].
  assert (Hs : f_seeds f = Some (FEESTATE_SEEDS, None)).
  { apply seeds_are_eq; [exact Hse|]. intros s [<-|[]]. exact I. }
  destruct (accepts_seeds pda opq e w b sg f k _ Ha Hf Ho Hk Hs) as [vs [Hvs Hp]].
  cbn in Hvs. inversion Hvs; subst vs. rewrite <- Hn, Hk, Hp. reflexivity.
Qed.

Lemma liquidation_record_binding e f :
  In e accounts_table -> In f (e_fields e) -> f_name f = "liquidation_record" ->
  forall w b sg, accepts e w b sg = true ->
    exists k a ka, bkey b "liquidation_record" = Some k /\ In a (e_fields e) /\
      wrap_is_loader "MarginfiAccount" a = true /\ bkey b (f_name a) = Some ka /\
      (key_field (acct_of w ka) "liquidation_record" = Some k \/
       k = pda PROG_MARGINFI [VStr "liq_record"; VKey ka]).
Proof.
  intros He Hf Hn w b sg Ha. pose proof liq_records_checked as A. unfold check_liq_records in A.
  pose proof (proj1 (forallb_forall _ _) A e He) as B. unfold check_liq_record_entry in B.
  pose proof (proj1 (forallb_forall _ _) B f Hf) as F. cbv beta in F.
  rewrite Hn in F. change (seqb "liquidation_record" "liquidation_record") with true in F. cbv iota in F.
  apply Bool.andb_true_iff in F. destruct F as [Ho F]. apply Bool.negb_true_iff in Ho.
  destruct (accepts_bound pda opq e w b sg f Ha Hf) as [k Hk]. rewrite Hn in Hk.
  apply Bool.orb_true_iff in F. destruct F as [F|F]; apply existsb_exists in F; destruct F as [a [Hain Hp]].
  - apply Bool.andb_true_iff in Hp. destruct Hp as [Hp Hho]. apply Bool.andb_true_iff in Hp. destruct Hp as [Hw Hpl].
    apply plain_spec in Hpl. destruct Hpl as [Hoa Hia].
    destruct (accepts_bound pda opq e w b sg a Ha Hain) as [ka Hka].
    destruct (has_one_of_In a _ Hho) as [err Hh].
    destruct (accepts_has_one pda opq e w b sg a ka _ err Ha Hain Hia Hoa Hka Hh) as [kt [K1 K2]].
    rewrite Hk in K2. inversion K2; subst kt. exists k, a, ka. repeat split; auto.
  - apply Bool.andb_true_iff in Hp. destruct Hp as [Hp Hse]. apply Bool.andb_true_iff in Hp. destruct Hp as [Hw Hpl].
    destruct (accepts_bound pda opq e w b sg a Ha Hain) as [ka Hka].
    assert (Hs : f_seeds f = Some ([SLit "liq_record"; SKeyOf (f_name a)], None)).
    { apply seeds_are_eq; [exact Hse|]. intros s [<-|[<-|[]]]; exact I. }
    rewrite <- Hn in Hk.
    destruct (accepts_seeds pda opq e w b sg f k _ Ha Hf Ho Hk Hs) as [vs [Hvs Hp']].
    cbn in Hvs. rewrite Hka in Hvs. cbn in Hvs. inversion Hvs; subst vs. rewrite Hn in Hk.
    exists k, a, ka. repeat split; auto.
Qed.

(* C19: who can trigger / redirect an emissions payout *)
Lemma emission_withdraw_signer e :
  In e accounts_table -> e_ix e = "lending_account_withdraw_emissions" ->
  forall w b sg, accepts e w b sg = true -> user_rule w b sg false "marginfi_account" "authority" "group".
Proof. intros H E. apply (user_ops e false _ _ _ H). rewrite E. reflexivity. Qed.

Lemma emission_destination_owner e :
  In e accounts_table -> e_ix e = "marginfi_account_update_emissions_destination_account" ->
  forall w b sg, accepts e w b sg = true -> owner_rule w b sg "marginfi_account" "authority".
Proof. intros H E. apply (owner_ops e _ _ H). rewrite E. reflexivity. Qed.

End T.
