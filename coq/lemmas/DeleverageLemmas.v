(* DeleverageLemmas.v — C12: the daily withdrawal window of forced deleverages (invariant by induction
   over any list of withdrawals), the health comparison at the end of a deleverage transaction, the
   receivership bracket. *)
Require Import Base Constants PrivGen Fixed Curve Bank BankOps Risk Handlers TransferFee Deleverage FixedLemmas BankLemmas.
From Coq Require Import ZifyBool.
Local Open Scope Z_scope.

Lemma check_inv_d c e u : check c e = Ok u -> c = true.
Proof. unfold check; destruct c; intros H; [reflexivity | discriminate]. Qed.

(* ---------------------------------------------------------------- the window *)
Lemma reset_due_spacing c now : reset_due c now = true -> DAILY_RESET_INTERVAL <= now - wc_last_reset c.
Proof.
  unfold reset_due, sat_i64, clamp, DAILY_RESET_INTERVAL, I64_MIN, I64_MAX. intros H.
  apply Z.leb_le in H. lia.
Qed.

(* an accepted withdrawal: limit unchanged, window restarted iff due, the new amount is the clamped u64 sum,
   and under a non-zero limit the UNCLAMPED sum does not exceed the limit *)
Lemma update_withdrawn_inv c eq now c' :
  update_withdrawn_equity c eq now = Ok c' ->
  let base := if reset_due c now then 0 else wc_withdrawn c in
  let total := Z.min U64_MAX (base + withdrawn_u64 eq) in
  wc_limit c' = wc_limit c /\
  wc_last_reset c' = (if reset_due c now then now else wc_last_reset c) /\
  wc_withdrawn c' = Z.min U32_MAXZ total /\
  (wc_limit c <> 0 -> total <= wc_limit c).
Proof.
  unfold update_withdrawn_equity. destruct (reset_due c now); cbn [wc_limit wc_withdrawn wc_last_reset].
  - destruct (negb (wc_limit c =? 0) && (wc_limit c <? Z.min U64_MAX (0 + withdrawn_u64 eq))) eqn:E; [discriminate|].
    intros H. apply Ok_inj in H. subst c'. cbn [wc_limit wc_withdrawn wc_last_reset]. repeat split; try reflexivity. intros Hl. lia.
  - destruct (negb (wc_limit c =? 0) && (wc_limit c <? Z.min U64_MAX (wc_withdrawn c + withdrawn_u64 eq))) eqn:E; [discriminate|].
    intros H. apply Ok_inj in H. subst c'. cbn [wc_limit wc_withdrawn wc_last_reset]. repeat split; try reflexivity. intros Hl. lia.
Qed.

(* the u64 dollars of an equity: the whole dollars when they fit, u64::MAX otherwise *)
Lemma withdrawn_u64_spec eq :
  (0 <= dollars eq <= U64_MAX /\ withdrawn_u64 eq = dollars eq) \/ withdrawn_u64 eq = U64_MAX.
Proof.
  unfold withdrawn_u64, to_u64_checked, chko, dollars. destruct (in_u64 (to_int eq)) eqn:E; [left | right; reflexivity].
  unfold in_u64, in_range in E. split; [lia | reflexivity].
Qed.

(* ghost invariant: the cache holds exactly the whole dollars accepted since the last reset (a u32 field, >= 0) *)
Definition WInv (s : wtrace) : Prop :=
  window_dollars (wt_window s) = wc_withdrawn (wt_cache s) /\ 0 <= wc_withdrawn (wt_cache s).

Lemma wstep_limit s ev : wc_limit (wt_cache (wstep s ev)) = wc_limit (wt_cache s).
Proof.
  destruct ev as [now eq]. unfold wstep.
  destruct (update_withdrawn_equity (wt_cache s) eq now) as [c'|e] eqn:E; [|reflexivity].
  apply update_withdrawn_inv in E as (Hl & _). destruct (reset_due (wt_cache s) now); cbn [wt_cache]; exact Hl.
Qed.

Lemma wrun_limit evs : forall s, wc_limit (wt_cache (wrun s evs)) = wc_limit (wt_cache s).
Proof.
  induction evs as [|ev rest IH]; intros s; [reflexivity|].
  cbn [wrun fold_left]. fold (wrun (wstep s ev) rest). rewrite IH. apply wstep_limit.
Qed.

Lemma wstep_window s now eq :
  wc_limit (wt_cache s) <> 0 -> wc_limit (wt_cache s) <= 4294967295 ->
  WInv s -> window_dollars (wt_window s) <= wc_limit (wt_cache s) ->
  WInv (wstep s (now, eq)) /\ window_dollars (wt_window (wstep s (now, eq))) <= wc_limit (wt_cache (wstep s (now, eq))).
Proof.
  intros Hl0 Hty [Hinv Hnn] Hle. unfold wstep.
  destruct (update_withdrawn_equity (wt_cache s) eq now) as [c'|e] eqn:E; [|split; [split|]; assumption].
  apply update_withdrawn_inv in E as (Hl & _ & Hw & Hcap). cbv zeta in Hw, Hcap. specialize (Hcap Hl0).
  rewrite U32_MAXZ_val in Hw. rewrite U64_MAX_val in Hw, Hcap. unfold WInv.
  destruct (withdrawn_u64_spec eq) as [[Hd He]|He]; rewrite He in Hw, Hcap; rewrite ?U64_MAX_val in *.
  - destruct (reset_due (wt_cache s) now); cbn [wt_cache wt_window window_dollars fold_right].
    + split; [split|]; lia.
    + fold (window_dollars (wt_window s)). split; [split|]; lia.
  - (* a value that does not fit u64 can never be accepted under a u32 limit *)
    exfalso. destruct (reset_due (wt_cache s) now); lia.
Qed.

(* with a limit configured, whatever the withdrawals (any values, any timestamps), the whole dollars
   accepted since the last reset never exceed the limit *)
Theorem daily_limit evs : forall s,
  wc_limit (wt_cache s) <> 0 -> wc_limit (wt_cache s) <= 4294967295 ->
  WInv s -> window_dollars (wt_window s) <= wc_limit (wt_cache s) ->
  WInv (wrun s evs) /\ window_dollars (wt_window (wrun s evs)) <= wc_limit (wt_cache s).
Proof.
  induction evs as [|[now eq] rest IH]; intros s Hl0 Hty Hinv Hle; [split; assumption|].
  cbn [wrun fold_left]. fold (wrun (wstep s (now, eq)) rest).
  destruct (wstep_window s now eq Hl0 Hty Hinv Hle) as (Hi' & Hle').
  pose proof (wstep_limit s (now, eq)) as HL.
  destruct (IH (wstep s (now, eq))) as (A & B); try assumption; try (rewrite HL; assumption).
  split; [exact A|]. rewrite HL in B. exact B.
Qed.

(* a fresh window *)
Lemma fresh_window limit now : WInv (mkWT (mkWC limit 0 now) [] []) /\ window_dollars [] <= 0.
Proof. unfold WInv. cbn. split; [split; [reflexivity | lia] | lia]. Qed.

(* the group admin's configure keeps the ghost invariant (it never touches the amount withdrawn) *)
Lemma configure_keeps_winv s limit now c' :
  WInv s -> configure_withdrawal_limit (wt_cache s) limit now = Ok c' ->
  WInv (mkWT c' (wt_window s) (wt_resets s)) /\ wc_limit c' = limit /\ limit <> 0.
Proof.
  unfold configure_withdrawal_limit, WInv. intros Hinv H.
  apply bind_ok in H as (u & Hc & H). apply check_inv_d in Hc. apply Ok_inj in H. subst c'. cbn [wt_cache wt_window wc_withdrawn wc_limit]. split; [exact Hinv|]. split; [reflexivity | lia].
Qed.

(* resets are at least a day apart *)
Definition RInv (d : Z) (s : wtrace) : Prop :=
  spaced_by d (wt_resets s) /\ match wt_resets s with [] => True | r :: _ => r = wc_last_reset (wt_cache s) end.

Lemma wstep_resets s ev :
  (wt_resets s <> [] \/ True) -> RInv DAILY_RESET_INTERVAL s -> RInv DAILY_RESET_INTERVAL (wstep s ev).
Proof.
  intros _ [Hs Hh]. destruct ev as [now eq]. unfold wstep.
  destruct (update_withdrawn_equity (wt_cache s) eq now) as [c'|e] eqn:E; [|split; assumption].
  apply update_withdrawn_inv in E as (_ & Hr & _).
  destruct (reset_due (wt_cache s) now) eqn:Ed; unfold RInv; cbn [wt_resets wt_cache].
  - split; [|symmetry; exact Hr].
    destruct (wt_resets s) as [|r rest] eqn:Er; [exact I|].
    cbn [spaced_by]. split; [|exact Hs]. apply reset_due_spacing in Ed. rewrite Hh. exact Ed.
  - split; [exact Hs|]. destruct (wt_resets s); [exact I|]. rewrite Hr. exact Hh.
Qed.

Theorem daily_resets_spaced evs : forall s,
  RInv DAILY_RESET_INTERVAL s -> spaced_by 86400 (wt_resets (wrun s evs)).
Proof.
  induction evs as [|ev rest IH]; intros s H; [exact (proj1 H)|].
  cbn [wrun fold_left]. fold (wrun (wstep s ev) rest). apply IH. apply wstep_resets; [right; exact I | exact H].
Qed.

(* the two repaired u32 defects, as regression facts: a withdrawal of 2^32 + 5 dollars under a limit of 1000
   and a second 3e9 dollars under a limit of u32::MAX are refused *)
Lemma wrap_case_refused :
  update_withdrawn_equity (mkWC 1000 0 1700000000) (of_int (4294967296 + 5)) 1700000001 = Err (E E_DailyWithdrawalLimitExceeded).
Proof. reflexivity. Qed.

Lemma saturation_case_refused :
  update_withdrawn_equity (mkWC 4294967295 3000000000 1700000000) (of_int 3000000000) 1700000002 = Err (E E_DailyWithdrawalLimitExceeded).
Proof. reflexivity. Qed.

(* ---------------------------------------------------------------- the transaction *)
Lemma nth_res_set_same {A} (l : list A) : forall n v y, nth_res n l = Ok y -> nth_res n (set_nth n v l) = Ok v.
Proof.
  unfold nth_res. induction l as [|x xs IH]; intros n v y H.
  - destruct n; discriminate.
  - destruct n; cbn [set_nth nth_error]; [reflexivity|]. cbn [nth_error] in H. apply (IH n v y H).
Qed.

Lemma positions_put_hacct w a x la : positions (put_hacct w a x) la = positions w la.
Proof. reflexivity. Qed.

Lemma nth_acct_put_same w a x y : nth_acct w a = Ok y -> nth_acct (put_hacct w a x) a = Ok x.
Proof. unfold nth_acct, put_hacct. cbn [hw_accts]. apply nth_res_set_same. Qed.

Lemma pre_liquidation_health ps b h am lm : pre_liquidation ps None b = Ok (h, am, lm) -> h = am - lm.
Proof.
  unfold pre_liquidation. cbn [bind]. intros H.
  apply bind_ok in H as ([a l] & _ & H). apply bind_ok in H as (h' & Hh & H). apply math_ok in Hh. apply csub_inv in Hh as (Hh & _).
  apply bind_ok in H as (u & _ & H). apply Ok_inj in H. injection H as -> -> ->. exact Hh.
Qed.

(* maintenance health as start / end compute it *)
Definition health_of (w : hworld) (la : laccount) : res (fx * fx * fx) :=
  let* ps := positions w la in pre_liquidation ps None true.

Lemma maint_health_of w a ac h am lm :
  nth_acct w a = Ok ac -> health_of w (ha_la ac) = Ok (h, am, lm) -> maint_health w a = Ok h.
Proof.
  unfold maint_health, health_of. intros -> H. cbn [bind].
  apply bind_ok in H as (ps & Hp & H). rewrite Hp. cbn [bind]. rewrite H. reflexivity.
Qed.

Lemma dv_start_inv w a signs w1 s :
  dv_start w a signs = Ok (w1, s) ->
  signs = true /\
  exists ac h, nth_acct w a = Ok ac /\
    aflag ac G_ACCOUNT_IN_RECEIVERSHIP = false /\
    health_of w (ha_la ac) = Ok (h, sn_assets_maint s, sn_liabs_maint s) /\
    w1 = put_hacct w a (set_aflag (set_aflag ac G_ACCOUNT_IN_DELEVERAGE) G_ACCOUNT_IN_RECEIVERSHIP).
Proof.
  unfold dv_start. intros H.
  apply bind_ok in H as (ac & Hac & H).
  apply bind_ok in H as (u1 & Hf & H). apply check_inv_d in Hf.
  apply bind_ok in H as (u2 & Hs & H). apply check_inv_d in Hs.
  apply bind_ok in H as (ps & Hps & H).
  apply bind_ok in H as ([[h am] lm] & Hpl & H).
  apply bind_ok in H as ([ae le] & _ & H).
  apply Ok_inj in H. injection H as <- <-.
  split; [exact Hs|]. exists ac, h. split; [exact Hac|]. split.
  { destruct (aflag ac G_ACCOUNT_IN_RECEIVERSHIP); [discriminate | reflexivity]. }
  split; [|reflexivity].
  unfold health_of. cbn [set_aflag ha_la] in Hps. rewrite Hps. cbn [bind sn_assets_maint sn_liabs_maint]. exact Hpl.
Qed.

Lemma dv_end_inv w a signs s w3 :
  dv_end w a signs s = Ok w3 ->
  exists ac post am lm, nth_acct w a = Ok ac /\
    health_of w (ha_la ac) = Ok (post, am, lm) /\
    sn_assets_maint s - sn_liabs_maint s <= post /\
    w3 = put_hacct w a (unset_aflag (unset_aflag ac G_ACCOUNT_IN_DELEVERAGE) G_ACCOUNT_IN_RECEIVERSHIP).
Proof.
  unfold dv_end. intros H.
  apply bind_ok in H as (ac & Hac & H).
  apply bind_ok in H as (u1 & _ & H). apply bind_ok in H as (u2 & _ & H).
  apply bind_ok in H as (ps & Hps & H).
  apply bind_ok in H as ([[post am] lm] & Hpl & H).
  apply bind_ok in H as ([ae le] & _ & H).
  apply bind_ok in H as (u3 & Hh & H).
  apply bind_ok in H as (x1 & _ & H). apply bind_ok in H as (x2 & _ & H).
  apply Ok_inj in H. subst w3.
  exists ac, post, am, lm. split; [exact Hac|]. split.
  { unfold health_of. cbn [unset_aflag ha_la] in Hps. rewrite Hps. cbn [bind]. exact Hpl. }
  split; [|reflexivity].
  unfold health_not_worse in Hh. apply bind_ok in Hh as (pre & Hpre & Hh). apply usub_inv in Hpre as (Hpre & _).
  apply check_inv_d in Hh. lia.
Qed.

(* a forced deleverage cannot leave the account less healthy *)
Theorem deleverage_health_not_worse w c a r signs steps w' c' :
  dv_tx w c a r signs steps = Ok (w', c') ->
  exists h0 h1, maint_health w a = Ok h0 /\ maint_health w' a = Ok h1 /\ h0 <= h1.
Proof.
  unfold dv_tx. intros H.
  apply bind_ok in H as ([w1 s] & Hst & H).
  apply bind_ok in H as ([w2 c2] & _ & H).
  apply bind_ok in H as (w3 & Hend & H). apply Ok_inj in H. injection H as <- <-.
  apply dv_start_inv in Hst as (_ & ac & h & Hac & _ & Hh & _).
  apply dv_end_inv in Hend as (ac2 & post & am & lm & Hac2 & Hh2 & Hle & ->).
  exists h, post. split; [apply (maint_health_of _ _ _ _ _ _ Hac Hh)|]. split.
  - apply (maint_health_of _ _ (unset_aflag (unset_aflag ac2 G_ACCOUNT_IN_DELEVERAGE) G_ACCOUNT_IN_RECEIVERSHIP) post am lm).
    + apply (nth_acct_put_same _ _ _ _ Hac2).
    + unfold health_of in *. cbn [unset_aflag ha_la]. rewrite positions_put_hacct. exact Hh2.
  - unfold health_of in Hh. apply bind_ok in Hh as (ps & _ & Hh). apply pre_liquidation_health in Hh. lia.
Qed.

Lemma land_ldiff_self f a : Z.land (Z.ldiff f a) a = 0.
Proof.
  apply Z.bits_inj'. intros n Hn. rewrite Z.land_spec, Z.ldiff_spec, Z.bits_0.
  destruct (Z.testbit f n), (Z.testbit a n); reflexivity.
Qed.

Lemma land_ldiff_ldiff f a b : Z.land (Z.ldiff (Z.ldiff f a) b) a = 0.
Proof.
  apply Z.bits_inj'. intros n Hn. rewrite Z.land_spec, !Z.ldiff_spec, Z.bits_0.
  destruct (Z.testbit f n), (Z.testbit a n), (Z.testbit b n); reflexivity.
Qed.

(* bracketed like a liquidation: it starts on an account that is not in receivership and ends with both
   receivership flags cleared, whatever the flag word was *)
Theorem deleverage_bracket w c a r signs steps w' c' :
  dv_tx w c a r signs steps = Ok (w', c') ->
  (exists ac, nth_acct w a = Ok ac /\ aflag ac G_ACCOUNT_IN_RECEIVERSHIP = false) /\
  (exists ac', nth_acct w' a = Ok ac' /\ aflag ac' G_ACCOUNT_IN_RECEIVERSHIP = false /\ aflag ac' G_ACCOUNT_IN_DELEVERAGE = false).
Proof.
  unfold dv_tx. intros H.
  apply bind_ok in H as ([w1 s] & Hst & H).
  apply bind_ok in H as ([w2 c2] & _ & H).
  apply bind_ok in H as (w3 & Hend & H). apply Ok_inj in H. injection H as <- <-.
  apply dv_start_inv in Hst as (_ & ac & h & Hac & Hnr & _ & _).
  apply dv_end_inv in Hend as (ac2 & post & am & lm & Hac2 & _ & _ & ->).
  split; [exists ac; split; assumption|].
  eexists. split; [apply (nth_acct_put_same _ _ _ _ Hac2)|].
  unfold aflag, unset_aflag. cbn [ha_flags]. split.
  - rewrite land_ldiff_self. reflexivity.
  - rewrite land_ldiff_ldiff. reflexivity.
Qed.

Theorem deleverage_only_risk_admin w c a r signs steps x :
  dv_tx w c a r signs steps = Ok x -> signs = true.
Proof.
  unfold dv_tx. intros H. apply bind_ok in H as ([w1 s] & Hst & _).
  apply dv_start_inv in Hst as (Hs & _). exact Hs.
Qed.

(* ---------------------------------------------------------------- the transaction feeds the window *)
Lemma hw_now_put_hbank w b hb : hw_now (put_hbank w b hb) = hw_now w. Proof. reflexivity. Qed.
Lemma hw_now_put_hacct w a ac : hw_now (put_hacct w a ac) = hw_now w. Proof. reflexivity. Qed.
Lemma hw_now_put_utok w a b v : hw_now (put_utok w a b v) = hw_now w.
Proof. unfold put_utok. destruct (nth_error (hw_utok w) a); reflexivity. Qed.

Lemma xfer_out_now w a b n w' : xfer_out w a b n = Ok w' -> hw_now w' = hw_now w.
Proof.
  unfold xfer_out. intros H.
  apply bind_ok in H as (hb & _ & H). apply bind_ok in H as (u & _ & H). apply bind_ok in H as (x & _ & H).
  apply bind_ok in H as (f & _ & H). apply Ok_inj in H. subst w'. rewrite hw_now_put_utok. reflexivity.
Qed.

Lemma xfer_in_now w a b n w' : xfer_in w a b n = Ok w' -> hw_now w' = hw_now w.
Proof.
  unfold xfer_in. intros H.
  apply bind_ok in H as (hb & _ & H). apply bind_ok in H as (u & _ & H). apply bind_ok in H as (x & _ & H).
  apply bind_ok in H as (f & _ & H). apply Ok_inj in H. subst w'. rewrite hw_now_put_utok. reflexivity.
Qed.

Lemma dv_withdraw_inv w c a r b n all w' c' :
  dv_withdraw w c a r b n all = Ok (w', c') ->
  hw_now w' = hw_now w /\ (c' = c \/ exists eq, update_withdrawn_equity c eq (hw_now w) = Ok c').
Proof.
  unfold dv_withdraw. intros H.
  apply bind_ok in H as (hb & _ & H). apply bind_ok in H as (ac & _ & H).
  apply bind_ok in H as (u1 & _ & H). apply bind_ok in H as (u2 & _ & H). apply bind_ok in H as (u3 & _ & H).
  apply bind_ok in H as (u4 & _ & H). apply bind_ok in H as (u5 & _ & H). apply bind_ok in H as (price & _ & H).
  apply bind_ok in H as (u6 & _ & H). apply bind_ok in H as (bk1 & _ & H). apply bind_ok in H as (i & _ & H).
  apply bind_ok in H as (bl & _ & H). apply bind_ok in H as ([[bk2 bl2] pre] & _ & H).
  apply bind_ok in H as (cc & Hc & H).
  apply bind_ok in H as (w2 & Hx & H). apply xfer_out_now in Hx.
  apply bind_ok in H as (hb2 & _ & H). apply bind_ok in H as (bk3 & _ & H). apply bind_ok in H as (ac2 & _ & H).
  apply Ok_inj in H. injection H as <- <-.
  split.
  - rewrite hw_now_put_hacct, hw_now_put_hbank, Hx. reflexivity.
  - destruct (aflag ac G_ACCOUNT_IN_DELEVERAGE).
    + apply bind_ok in Hc as (eq & _ & Hc). right. exists eq. exact Hc.
    + apply Ok_inj in Hc. left. symmetry. exact Hc.
Qed.

Lemma dv_repay_now w a r b n all w' : dv_repay w a r b n all = Ok w' -> hw_now w' = hw_now w.
Proof.
  unfold dv_repay. intros H.
  apply bind_ok in H as (hb & _ & H). apply bind_ok in H as (ac & _ & H).
  apply bind_ok in H as (u1 & _ & H). apply bind_ok in H as (u2 & _ & H). apply bind_ok in H as (u3 & _ & H).
  apply bind_ok in H as (bk1 & _ & H). apply bind_ok in H as (i & _ & H). apply bind_ok in H as (bl & _ & H).
  apply bind_ok in H as ([[bk2 bl2] post] & _ & H).
  apply bind_ok in H as (w2 & Hx & H).
  assert (Hn : hw_now w2 = hw_now w).
  { destruct (hw_risk_admin_signs w && get_flag (b_flags bk2) TOKENLESS_REPAYMENTS_ALLOWED && all).
    - apply Ok_inj in Hx. subst w2. reflexivity.
    - apply bind_ok in Hx as (pre & _ & Hx). apply xfer_in_now in Hx. rewrite Hx. reflexivity. }
  apply bind_ok in H as (hb2 & _ & H). apply bind_ok in H as (bk5 & _ & H). apply bind_ok in H as (ac2 & _ & H).
  apply Ok_inj in H. subst w'. rewrite hw_now_put_hacct, hw_now_put_hbank. exact Hn.
Qed.

Lemma dv_steps_window a r steps : forall w c w' c',
  foldM (dv_step a r) steps (w, c) = Ok (w', c') ->
  hw_now w' = hw_now w /\ exists eqs, window_fold (hw_now w) c eqs = Ok c'.
Proof.
  induction steps as [|s rest IH]; intros w c w' c' H.
  - cbn [foldM] in H. apply Ok_inj in H. injection H as <- <-. split; [reflexivity|]. exists []. reflexivity.
  - cbn [foldM] in H. apply bind_ok in H as ([w1 c1] & Hs & H).
    apply IH in H as (Hn & eqs & Hf).
    destruct s as [b n all|b n all]; unfold dv_step in Hs; cbn [fst snd] in Hs.
    + apply dv_withdraw_inv in Hs as (Hn1 & [->|[eq He]]).
      * split; [congruence|]. exists eqs. rewrite <- Hn1. exact Hf.
      * split; [congruence|]. exists (eq :: eqs). unfold window_fold. cbn [foldM]. rewrite He. cbn [bind].
        rewrite <- Hn1. exact Hf.
    + apply bind_ok in Hs as (w1' & Hr & Hs). apply Ok_inj in Hs. injection Hs as <- <-.
      apply dv_repay_now in Hr. split; [congruence|]. exists eqs. rewrite <- Hr. exact Hf.
Qed.

(* the window cache after a successful transaction is the cache before it with the transaction's withdrawn
   equities fed through update_withdrawn_equity at the transaction's timestamp, each of them accepted *)
Theorem deleverage_tx_window w c a r signs steps w' c' :
  dv_tx w c a r signs steps = Ok (w', c') ->
  exists eqs, window_fold (hw_now w) c eqs = Ok c'.
Proof.
  unfold dv_tx. intros H.
  apply bind_ok in H as ([w1 s] & Hst & H).
  apply bind_ok in H as ([w2 c2] & Hsteps & H).
  apply bind_ok in H as (w3 & _ & H). apply Ok_inj in H. injection H as <- <-.
  apply dv_start_inv in Hst as (_ & ac & h & _ & _ & _ & ->).
  apply dv_steps_window in Hsteps as (_ & eqs & Hf). exists eqs. exact Hf.
Qed.

(* purging a lender's balance: only the risk admin, only on a bank whose tokenless repayments are complete *)
Theorem purge_guard w a b signs w' :
  dv_purge w a b signs = Ok w' ->
  signs = true /\ exists hb, nth_bank w b = Ok hb /\ get_flag (b_flags (hb_b hb)) TOKENLESS_REPAYMENTS_COMPLETE = true.
Proof.
  unfold dv_purge. intros H.
  apply bind_ok in H as (u & Hs & H). apply check_inv_d in Hs.
  apply bind_ok in H as (hb & Hb & H). apply bind_ok in H as (ac & _ & H).
  apply bind_ok in H as (u1 & _ & H). apply bind_ok in H as (u2 & Hf & H). apply check_inv_d in Hf.
  split; [exact Hs|]. exists hb. split; [exact Hb | exact Hf].
Qed.
