(* BankLemmas.v — inversion ("spec") lemmas for the wrapper primitives of Bank.v. *)
Require Import Base Constants Fixed Curve Bank FixedLemmas.
From Coq Require Import ZifyBool.
Local Open Scope Z_scope.

Ltac inv_bind H :=
  repeat (let x := fresh "x" in let Hx := fresh "Hx" in apply bind_ok in H as (x & Hx & H)).

Lemma math_ok {A} (r : res A) v : math r = Ok v -> r = Ok v.
Proof. unfold math, ok_or. destruct r as [a|[| |c]]; intros H; try discriminate; assumption. Qed.

Lemma check_ok c e u : check c e = Ok u -> c = true.
Proof. unfold check. destruct c; [reflexivity | discriminate]. Qed.

Lemma pair_ok {A B} (a a' : A) (b b' : B) : Ok (a, b) = Ok (a', b') -> a = a' /\ b = b'.
Proof. intros H. apply Ok_inj in H. inversion H; auto. Qed.

(* fields of a bank that only claim_emissions may touch are the emission ones *)
Definition bank_same_core (b b' : bank) : Prop :=
  b_asv b' = b_asv b /\ b_lsv b' = b_lsv b /\ b_tas b' = b_tas b /\ b_tls b' = b_tls b /\
  b_ins b' = b_ins b /\ b_grp b' = b_grp b /\ b_prog b' = b_prog b /\
  b_last_update b' = b_last_update b /\ b_dep_limit b' = b_dep_limit b /\
  b_bor_limit b' = b_bor_limit b /\ b_asset_tag b' = b_asset_tag b /\ b_decimals b' = b_decimals b /\
  b_flags b' = b_flags b /\ b_em_rate b' = b_em_rate b /\ b_lend_cnt b' = b_lend_cnt b /\
  b_bor_cnt b' = b_bor_cnt b /\ b_op_state b' = b_op_state b /\ b_ir b' = b_ir b.

Definition bal_same_core (bl bl' : balance) : Prop :=
  bl_active bl' = bl_active bl /\ bl_bank bl' = bl_bank bl /\ bl_tag bl' = bl_tag bl /\
  bl_a bl' = bl_a bl /\ bl_l bl' = bl_l bl.

Lemma claim_emissions_core b bl now b1 bl1 :
  claim_emissions b bl now = Ok (b1, bl1) -> bank_same_core b b1 /\ bal_same_core bl bl1.
Proof.
  unfold claim_emissions. intros H. inv_bind H.
  destruct x0 as [amount|].
  - inv_bind H. apply pair_ok in H as [<- <-]. split; repeat split; reflexivity.
  - apply pair_ok in H as [<- <-]. split; repeat split; reflexivity.
Qed.

(* conversions *)
Lemma get_asset_amount_inv b sh v : get_asset_amount b sh = Ok v -> v = sh * b_asv b / ONE.
Proof. unfold get_asset_amount. intros H. apply math_ok, cmul_inv in H as [-> _]. try reflexivity. Qed.
Lemma get_liability_amount_inv b sh v : get_liability_amount b sh = Ok v -> v = sh * b_lsv b / ONE.
Proof. unfold get_liability_amount. intros H. apply math_ok, cmul_inv in H as [-> _]. try reflexivity. Qed.

Lemma get_asset_shares_inv b v s : 0 <= v -> 0 <= b_asv b -> get_asset_shares b v = Ok s ->
  (b_asv b = 0 /\ s = 0) \/ (0 < b_asv b /\ s = v * ONE / b_asv b).
Proof.
  unfold get_asset_shares. intros Hv Ha H. destruct (b_asv b =? 0) eqn:E.
  - apply Ok_inj in H. left; lia.
  - right. split; [lia|]. apply math_ok in H. apply cdiv_inv_nonneg in H as [-> _]; try lia.
Qed.
Lemma get_liability_shares_inv b v s : 0 <= v -> 0 < b_lsv b -> get_liability_shares b v = Ok s ->
  s = v * ONE / b_lsv b.
Proof.
  unfold get_liability_shares. intros Hv Ha H. apply math_ok in H.
  apply cdiv_inv_nonneg in H as [-> _]; try lia.
Qed.

(* change_*_shares: totals move by exactly the share delta, nothing else changes *)
Lemma change_asset_shares_inv b sh byp b' :
  change_asset_shares b sh byp = Ok b' -> b' = set_b_tas (b_tas b + sh) b.
Proof.
  unfold change_asset_shares. intros H. inv_bind H. apply math_ok, cadd_inv in Hx as [-> _].
  destruct ((0 <? sh) && dep_limit_active (set_b_tas (b_tas b + sh) b) && negb byp).
  - inv_bind H. destruct (x0 <=? x); [discriminate|]. apply Ok_inj in H. auto.
  - apply Ok_inj in H. auto.
Qed.
Lemma change_liability_shares_inv b sh byp b' :
  change_liability_shares b sh byp = Ok b' -> b' = set_b_tls (b_tls b + sh) b.
Proof.
  unfold change_liability_shares. intros H. inv_bind H. apply math_ok, cadd_inv in Hx as [-> _].
  destruct (negb byp && (0 <? sh) && bor_limit_active (set_b_tls (b_tls b + sh) b)).
  - inv_bind H. destruct (of_int _ <=? x); [discriminate|]. apply Ok_inj in H. auto.
  - apply Ok_inj in H. auto.
Qed.

(* the limit checks actually performed *)
Lemma change_asset_shares_limit b sh b' :
  change_asset_shares b sh false = Ok b' -> 0 < sh -> b_dep_limit b <> U64_MAX ->
  b_asset_tag b <> ASSET_TAG_DRIFT ->
  b_tas b' * b_asv b' / ONE < of_int (b_dep_limit b').
Proof.
  unfold change_asset_shares. intros H Hs Hl Ht. inv_bind H. apply math_ok, cadd_inv in Hx as [-> _].
  assert (E : (0 <? sh) && dep_limit_active (set_b_tas (b_tas b + sh) b) && negb false = true).
  { unfold dep_limit_active. cbn [set_b_tas b_dep_limit negb]. lia. }
  rewrite E in H. inv_bind H. apply get_asset_amount_inv in Hx.
  unfold deposit_limit_fx in Hx0. cbn [set_b_tas b_asset_tag b_dep_limit] in Hx0.
  replace (b_asset_tag b =? ASSET_TAG_DRIFT) with false in Hx0 by lia. apply Ok_inj in Hx0.
  destruct (x0 <=? x) eqn:F; [discriminate|]. apply Ok_inj in H. subst. cbn in *. lia.
Qed.

Lemma change_liability_shares_limit b sh b' :
  change_liability_shares b sh false = Ok b' -> 0 < sh -> b_bor_limit b <> U64_MAX ->
  b_tls b' * b_lsv b' / ONE < of_int (b_bor_limit b').
Proof.
  unfold change_liability_shares. intros H Hs Hl. inv_bind H. apply math_ok, cadd_inv in Hx as [-> _].
  assert (E : negb false && (0 <? sh) && bor_limit_active (set_b_tls (b_tls b + sh) b) = true).
  { unfold bor_limit_active. cbn [set_b_tls b_bor_limit negb]. lia. }
  rewrite E in H. inv_bind H. apply get_liability_amount_inv in Hx.
  destruct (of_int _ <=? x) eqn:F; [discriminate|]. apply Ok_inj in H. subst. cbn in *. lia.
Qed.

Lemma check_utilization_inv b : check_utilization_ratio b = Ok tt ->
  b_tls b * b_lsv b / ONE <= b_tas b * b_asv b / ONE.
Proof.
  unfold check_utilization_ratio. intros H. inv_bind H.
  apply get_asset_amount_inv in Hx. apply get_liability_amount_inv in Hx0.
  destruct (x <? x0) eqn:F; [discriminate|]. lia.
Qed.

(* ------------------------------------------------------------------------------------------ *)
Definition wf_sv (b : bank) : Prop := 0 <= b_asv b /\ 0 < b_lsv b.
Definition wf_bal (bl : balance) : Prop := 0 <= bl_a bl /\ 0 <= bl_l bl.

Lemma update_counts_fields b ha hl ha' hl' :
  let b' := update_counts b ha hl ha' hl' in
  b_asv b' = b_asv b /\ b_lsv b' = b_lsv b /\ b_tas b' = b_tas b /\ b_tls b' = b_tls b /\
  b_ins b' = b_ins b /\ b_grp b' = b_grp b /\ b_prog b' = b_prog b /\
  b_last_update b' = b_last_update b /\ b_dep_limit b' = b_dep_limit b /\ b_bor_limit b' = b_bor_limit b /\
  b_em_rem b' = b_em_rem b /\ b_flags b' = b_flags b /\ b_asset_tag b' = b_asset_tag b.
Proof.
  unfold update_counts, inc_lend, dec_lend, inc_bor, dec_bor.
  destruct (negb ha && ha'), (ha && negb ha'), (negb hl && hl'), (hl && negb hl'); cbn; repeat split; reflexivity.
Qed.

(* asset shares minted for an amount: 0 if the share value is 0, else floor(amount / share value) *)
Definition ashares (b : bank) (amt : Z) : Z := if b_asv b =? 0 then 0 else amt * ONE / b_asv b.
Definition lshares (b : bank) (amt : Z) : Z := amt * ONE / b_lsv b.

Definition inc_l_dec (b : bank) (bl : balance) (delta : Z) : Z := Z.min (bl_l bl * b_lsv b / ONE) delta.
Definition inc_a_inc (b : bank) (bl : balance) (delta : Z) : Z := Z.max (delta - bl_l bl * b_lsv b / ONE) 0.

Record inc_facts (b : bank) (bl : balance) (delta : fx) (t : inc_type) (b' : bank) (bl' : balance) : Prop := {
  if_a : bl_a bl' = bl_a bl + ashares b (inc_a_inc b bl delta);
  if_l : bl_l bl' = bl_l bl - lshares b (inc_l_dec b bl delta);
  if_tas : b_tas b' = b_tas b + ashares b (inc_a_inc b bl delta);
  if_tls : b_tls b' = b_tls b - lshares b (inc_l_dec b bl delta);
  if_sv : b_asv b' = b_asv b /\ b_lsv b' = b_lsv b;
  if_fees : b_ins b' = b_ins b /\ b_grp b' = b_grp b /\ b_prog b' = b_prog b;
  if_meta : bl_active bl' = bl_active bl /\ bl_bank bl' = bl_bank bl /\ bl_tag bl' = bl_tag bl;
  if_cfg : b_dep_limit b' = b_dep_limit b /\ b_bor_limit b' = b_bor_limit b /\ b_last_update b' = b_last_update b
           /\ b_flags b' = b_flags b /\ b_asset_tag b' = b_asset_tag b;
  if_type : match t with
            | IncRepayOnly => inc_a_inc b bl delta < ZERO_AMOUNT_THRESHOLD
            | IncDepositOnly => inc_l_dec b bl delta < ZERO_AMOUNT_THRESHOLD
            | IncBypassDepositLimit => True end;
  if_cap : match t with
           | IncBypassDepositLimit => True
           | _ => 0 < ashares b (inc_a_inc b bl delta) -> b_dep_limit b <> U64_MAX -> b_asset_tag b <> ASSET_TAG_DRIFT ->
                  b_tas b' * b_asv b' / ONE < of_int (b_dep_limit b') end
}.

Lemma fabs_small x : I128_MIN < x <= I128_MAX -> is_zero_tol x = true -> Z.abs x < ZERO_AMOUNT_THRESHOLD.
Proof.
  unfold is_zero_tol, fabs_w. intros Hx H. rewrite wrap128_id in H; [lia|].
  rewrite I128_MIN_val, I128_MAX_val in *. lia.
Qed.

Lemma increase_balance_inv b bl now delta t b' bl' :
  wf_sv b -> wf_bal bl -> 0 <= delta ->
  increase_balance b bl now delta t = Ok (b', bl') -> inc_facts b bl delta t b' bl'.
Proof.
  intros [Hasv Hlsv] [Hba Hbl] Hd H. unfold increase_balance in H.
  apply bind_ok in H as ([b0 bl0] & Hc & H).
  apply claim_emissions_core in Hc as [Hcb Hcl].
  destruct Hcb as (C1 & C2 & C3 & C4 & C5 & C6 & C7 & C8 & C9 & C10 & C11 & C12 & C13 & C14 & C15 & C16 & C17 & C18).
  destruct Hcl as (D1 & D2 & D3 & D4 & D5).
  apply bind_ok in H as (cur_l & Hcur & H).
  assert (Hcr : I128_MIN <= cur_l <= I128_MAX).
  { unfold get_liability_amount in Hcur. apply math_ok, cmul_inv in Hcur as [_ ?]. assumption. }
  apply get_liability_amount_inv in Hcur.
  apply bind_ok in H as (d0 & Hd0 & H). apply math_ok, csub_inv in Hd0 as [Hd0 Hd0r].
  apply bind_ok in H as (u & Hty & H).
  apply bind_ok in H as (ash & Hash & H).
  apply bind_ok in H as (a' & Ha' & H). apply math_ok, cadd_inv in Ha' as [Ha' _].
  apply bind_ok in H as (b1 & Hb1 & H).
  pose proof Hb1 as Hb1lim. apply change_asset_shares_inv in Hb1.
  apply bind_ok in H as (lsh & Hlsh & H).
  apply bind_ok in H as (nl & Hnl & H). apply chk_inv in Hnl as [Hnl _].
  apply bind_ok in H as (l' & Hl' & H). apply math_ok, cadd_inv in Hl' as [Hl' _].
  apply bind_ok in H as (b2 & Hb2 & H). apply change_liability_shares_inv in Hb2.
  apply pair_ok in H as [Hbf Hblf].
  assert (Hcl0 : 0 <= cur_l).
  { subst cur_l. apply Z.div_pos; [apply Z.mul_nonneg_nonneg; lia | apply ONE_pos]. }
  assert (Hash' : ash = ashares b (Z.max (delta - cur_l) 0)).
  { unfold fmax in Hash. apply get_asset_shares_inv in Hash; try lia.
    unfold ashares. rewrite <- C1, <- Hd0. destruct Hash as [[E ->]|[E ->]]; [replace (b_asv b0 =? 0) with true by lia | replace (b_asv b0 =? 0) with false by lia]; reflexivity. }
  assert (Hlsh' : lsh = lshares b (Z.min cur_l delta)).
  { unfold fmin in Hlsh. apply get_liability_shares_inv in Hlsh; [| lia | subst b1; cbn; lia].
    unfold lshares. subst b1. cbn in Hlsh. rewrite <- C2. exact Hlsh. }
  pose proof (update_counts_fields b2 (is_pos_tol (bl_a bl0)) (is_pos_tol (bl_l bl0))
                (is_pos_tol (bl_a (set_bl_l l' (set_bl_a a' bl0)))) (is_pos_tol (bl_l (set_bl_l l' (set_bl_a a' bl0)))))
    as (U1 & U2 & U3 & U4 & U5 & U6 & U7 & U8 & U9 & U10 & U11 & U12 & U13).
  rewrite Hbf in *. clear Hbf.
  assert (Hcl : cur_l = bl_l bl * b_lsv b / ONE) by (rewrite Hcur, D5, C2; reflexivity).
  constructor; unfold inc_a_inc, inc_l_dec; rewrite <- ?Hcl.
  - subst bl'. cbn. rewrite Ha', Hash', D4. reflexivity.
  - subst bl'. cbn. rewrite Hl', Hnl, Hlsh'. cbn. rewrite D5. lia.
  - rewrite U3. subst b2 b1. cbn. rewrite Hash', C3. reflexivity.
  - rewrite U4. subst b2 b1. cbn. rewrite Hnl, Hlsh', C4. lia.
  - rewrite U1, U2. subst b2 b1. cbn. split; assumption.
  - rewrite U5, U6, U7. subst b2 b1. cbn. repeat split; assumption.
  - subst bl'. cbn. repeat split; assumption.
  - rewrite U9, U10, U8, U12, U13. subst b2 b1. cbn. repeat split; assumption.
  - destruct t; [| |exact I].
    + apply check_ok in Hty. unfold fmax in Hty. rewrite <- Hd0.
      apply fabs_small in Hty; [lia|]. rewrite I128_MIN_val. rewrite I128_MAX_val in *. lia.
    + apply check_ok in Hty. unfold fmin in Hty.
      apply fabs_small in Hty; [lia|]. rewrite I128_MIN_val. lia.
  - destruct t; [| |exact I]; intros Hpos Hlim Htag;
    rewrite U3, U1; subst b2; cbn [set_b_tls b_tas b_asv b_dep_limit];
    rewrite U9; cbn [set_b_tls b_dep_limit];
    apply (change_asset_shares_limit b0 ash); try (rewrite ?C9, ?C11; assumption); try lia.
Qed.

(* ------------------------------------------------------------------------------------------ *)
Definition dec_a_dec (b : bank) (bl : balance) (delta : Z) : Z := Z.min (bl_a bl * b_asv b / ONE) delta.
Definition dec_l_inc (b : bank) (bl : balance) (delta : Z) : Z := Z.max (delta - bl_a bl * b_asv b / ONE) 0.

Record dec_facts (b : bank) (bl : balance) (delta : fx) (t : dec_type) (b' : bank) (bl' : balance) : Prop := {
  df_a : bl_a bl' = bl_a bl - ashares b (dec_a_dec b bl delta);
  df_l : bl_l bl' = bl_l bl + lshares b (dec_l_inc b bl delta);
  df_tas : b_tas b' = b_tas b - ashares b (dec_a_dec b bl delta);
  df_tls : b_tls b' = b_tls b + lshares b (dec_l_inc b bl delta);
  df_sv : b_asv b' = b_asv b /\ b_lsv b' = b_lsv b;
  df_fees : b_ins b' = b_ins b /\ b_grp b' = b_grp b /\ b_prog b' = b_prog b;
  df_meta : bl_active bl' = bl_active bl /\ bl_bank bl' = bl_bank bl /\ bl_tag bl' = bl_tag bl;
  df_cfg : b_dep_limit b' = b_dep_limit b /\ b_bor_limit b' = b_bor_limit b /\ b_last_update b' = b_last_update b
           /\ b_flags b' = b_flags b /\ b_asset_tag b' = b_asset_tag b;
  df_type : match t with
            | DecWithdrawOnly => dec_l_inc b bl delta < ZERO_AMOUNT_THRESHOLD
            | DecBorrowOnly => dec_a_dec b bl delta < ZERO_AMOUNT_THRESHOLD
            | DecBypassBorrowLimit => True end;
  df_cap : match t with
           | DecBypassBorrowLimit => True
           | _ => (0 < lshares b (dec_l_inc b bl delta) -> b_bor_limit b <> U64_MAX ->
                   b_tls b' * b_lsv b' / ONE < of_int (b_bor_limit b')) /\
                  b_tls b' * b_lsv b' / ONE <= b_tas b' * b_asv b' / ONE end
}.

Lemma decrease_balance_inv b bl now delta t b' bl' :
  wf_sv b -> wf_bal bl -> 0 <= delta ->
  decrease_balance b bl now delta t = Ok (b', bl') -> dec_facts b bl delta t b' bl'.
Proof.
  intros [Hasv Hlsv] [Hba Hbl] Hd H. unfold decrease_balance in H.
  apply bind_ok in H as ([b0 bl0] & Hc & H).
  apply claim_emissions_core in Hc as [Hcb Hcl].
  destruct Hcb as (C1 & C2 & C3 & C4 & C5 & C6 & C7 & C8 & C9 & C10 & C11 & C12 & C13 & C14 & C15 & C16 & C17 & C18).
  destruct Hcl as (D1 & D2 & D3 & D4 & D5).
  apply bind_ok in H as (cur_a & Hcur & H).
  assert (Hcr : I128_MIN <= cur_a <= I128_MAX).
  { unfold get_asset_amount in Hcur. apply math_ok, cmul_inv in Hcur as [_ ?]. assumption. }
  apply get_asset_amount_inv in Hcur.
  apply bind_ok in H as (d0 & Hd0 & H). apply math_ok, csub_inv in Hd0 as [Hd0 Hd0r].
  apply bind_ok in H as (u & Hty & H).
  apply bind_ok in H as (ash & Hash & H).
  apply bind_ok in H as (nash & Hnash & H). apply chk_inv in Hnash as [Hnash _].
  apply bind_ok in H as (a' & Ha' & H). apply math_ok, cadd_inv in Ha' as [Ha' _].
  apply bind_ok in H as (b1 & Hb1 & H). apply change_asset_shares_inv in Hb1.
  apply bind_ok in H as (lsh & Hlsh & H).
  apply bind_ok in H as (l' & Hl' & H). apply math_ok, cadd_inv in Hl' as [Hl' _].
  apply bind_ok in H as (b2 & Hb2 & H).
  pose proof Hb2 as Hb2lim. apply change_liability_shares_inv in Hb2.
  apply bind_ok in H as (u2 & Hut & H).
  apply pair_ok in H as [Hbf Hblf].
  assert (Hca0 : 0 <= cur_a).
  { subst cur_a. apply Z.div_pos; [apply Z.mul_nonneg_nonneg; lia | apply ONE_pos]. }
  assert (Hash' : ash = ashares b (Z.min cur_a delta)).
  { unfold fmin in Hash. apply get_asset_shares_inv in Hash; try lia.
    unfold ashares. rewrite <- C1. destruct Hash as [[E ->]|[E ->]]; [replace (b_asv b0 =? 0) with true by lia | replace (b_asv b0 =? 0) with false by lia]; reflexivity. }
  assert (Hlsh' : lsh = lshares b (Z.max (delta - cur_a) 0)).
  { unfold fmax in Hlsh. apply get_liability_shares_inv in Hlsh; [| lia | subst b1; cbn; lia].
    unfold lshares. subst b1. cbn in Hlsh. rewrite <- C2, <- Hd0. exact Hlsh. }
  pose proof (update_counts_fields b2 (is_pos_tol (bl_a bl0)) (is_pos_tol (bl_l bl0))
                (is_pos_tol (bl_a (set_bl_l l' (set_bl_a a' bl0)))) (is_pos_tol (bl_l (set_bl_l l' (set_bl_a a' bl0)))))
    as (U1 & U2 & U3 & U4 & U5 & U6 & U7 & U8 & U9 & U10 & U11 & U12 & U13).
  rewrite Hbf in *. clear Hbf.
  assert (Hcl : cur_a = bl_a bl * b_asv b / ONE) by (rewrite Hcur, D4, C1; reflexivity).
  constructor; unfold dec_a_dec, dec_l_inc; rewrite <- ?Hcl.
  - subst bl'. cbn. rewrite Ha', Hnash, Hash', D4. lia.
  - subst bl'. cbn. rewrite Hl', Hlsh'. cbn. rewrite D5. reflexivity.
  - rewrite U3. subst b2 b1. cbn. rewrite Hnash, Hash', C3. lia.
  - rewrite U4. subst b2 b1. cbn. rewrite Hlsh', C4. reflexivity.
  - rewrite U1, U2. subst b2 b1. cbn. split; assumption.
  - rewrite U5, U6, U7. subst b2 b1. cbn. repeat split; assumption.
  - subst bl'. cbn. repeat split; assumption.
  - rewrite U9, U10, U8, U12, U13. subst b2 b1. cbn. repeat split; assumption.
  - destruct t; [| |exact I].
    + apply check_ok in Hty. unfold fmax in Hty. rewrite <- Hd0.
      apply fabs_small in Hty; [lia|]. rewrite I128_MIN_val. rewrite I128_MAX_val in *. lia.
    + apply check_ok in Hty. unfold fmin in Hty.
      apply fabs_small in Hty; [lia|]. rewrite I128_MIN_val. lia.
  - destruct t; [| |exact I].
    + cbn [negb] in Hut. apply check_utilization_inv in Hut || (destruct u2; apply check_utilization_inv in Hut).
      rewrite U3, U4, U1, U2, U10. split; [|exact Hut].
      intros Hpos Hlim.
      apply (change_liability_shares_limit b1 lsh b2); try assumption; [rewrite Hlsh'; exact Hpos | rewrite Hb1; cbn; rewrite C10; exact Hlim].
    + cbn [negb] in Hut. apply check_utilization_inv in Hut || (destruct u2; apply check_utilization_inv in Hut).
      rewrite U3, U4, U1, U2, U10. split; [|exact Hut].
      intros Hpos Hlim.
      apply (change_liability_shares_limit b1 lsh b2); try assumption; [rewrite Hlsh'; exact Hpos | rewrite Hb1; cbn; rewrite C10; exact Hlim].
Qed.

(* ------------------------------------------------------------------------------------------ *)
(* full withdrawal / full repayment / close *)
Record wall_facts (b : bank) (bl : balance) (b' : bank) (bl' : balance) (n : Z) : Prop := {
  wa_payout : n = (bl_a bl * b_asv b / ONE) / ONE;                      (* floor of the asset amount, in tokens *)
  wa_dust : b_ins b' = b_ins b + (bl_a bl * b_asv b / ONE) mod ONE;     (* fraction booked to insurance fees *)
  wa_tas : b_tas b' = b_tas b - bl_a bl;
  wa_tls : b_tls b' = b_tls b;
  wa_sv : b_asv b' = b_asv b /\ b_lsv b' = b_lsv b;
  wa_fees : b_grp b' = b_grp b /\ b_prog b' = b_prog b;
  wa_closed : bl' = bal_empty;
  wa_pos : ZERO_AMOUNT_THRESHOLD < bl_a bl * b_asv b / ONE;
  wa_liab_dust : bl_l bl * b_lsv b / ONE < ZERO_AMOUNT_THRESHOLD;
  wa_util : b_tls b' * b_lsv b' / ONE <= b_tas b' * b_asv b' / ONE;
  wa_range : 0 <= n <= U64_MAX
}.

Lemma floor_frac x : x / ONE * ONE + x mod ONE = x.
Proof. pose proof (Z.div_mod x ONE). pose proof ONE_pos. lia. Qed.

Lemma cfloor_inv x r : cfloor x = Ok r -> r = x / ONE * ONE.
Proof. unfold cfloor, ffloor_raw. intros H. apply chko_inv in H as [-> _]. reflexivity. Qed.

Lemma cceil_inv x r : cceil x = Ok r -> r = (if x mod ONE =? 0 then x else x / ONE * ONE + ONE).
Proof. unfold cceil, ffloor_raw, ffrac. intros H. apply chko_inv in H as [-> _]. reflexivity. Qed.

Lemma to_u64_inv x n : to_u64_checked x = Ok n -> n = x / ONE /\ 0 <= n <= U64_MAX.
Proof. unfold to_u64_checked, to_int, in_u64, in_range. intros H. apply chko_inv in H as [-> H]. split; [reflexivity | lia]. Qed.

Lemma dec_lend_fields b : let b' := dec_lend b in
  b_asv b' = b_asv b /\ b_lsv b' = b_lsv b /\ b_tas b' = b_tas b /\ b_tls b' = b_tls b /\
  b_ins b' = b_ins b /\ b_grp b' = b_grp b /\ b_prog b' = b_prog b.
Proof. cbn -[Z.mul Z.div Z.modulo Z.add Z.sub ONE]. repeat split; reflexivity. Qed.

Lemma withdraw_all_inv b bl now b' bl' n :
  wf_sv b -> wf_bal bl ->
  withdraw_all b bl now = Ok (b', bl', n) -> wall_facts b bl b' bl' n.
Proof.
  intros [Hasv Hlsv] [Hba Hbl] H. unfold withdraw_all in H.
  apply bind_ok in H as ([b0 bl0] & Hc & H).
  apply claim_emissions_core in Hc as [Hcb Hcl].
  destruct Hcb as (C1 & C2 & C3 & C4 & C5 & C6 & C7 & _).
  destruct Hcl as (D1 & D2 & D3 & D4 & D5).
  apply bind_ok in H as (cur_a & Hcur & H).
  assert (Hcr : I128_MIN <= cur_a <= I128_MAX).
  { unfold get_asset_amount in Hcur. apply math_ok, cmul_inv in Hcur as [_ ?]. assumption. }
  apply get_asset_amount_inv in Hcur.
  apply bind_ok in H as (cur_l & Hcurl & H).
  assert (Hclr : I128_MIN <= cur_l <= I128_MAX).
  { unfold get_liability_amount in Hcurl. apply math_ok, cmul_inv in Hcurl as [_ ?]. assumption. }
  apply get_liability_amount_inv in Hcurl.
  apply bind_ok in H as (u1 & Hp & H). apply check_ok in Hp.
  apply bind_ok in H as (u2 & Hz & H). apply check_ok in Hz.
  apply bind_ok in H as (blc & Hclose & H).
  apply bind_ok in H as (nsh & Hnsh & H). apply chk_inv in Hnsh as [Hnsh _].
  apply bind_ok in H as (b2 & Hb2 & H). apply change_asset_shares_inv in Hb2.
  apply bind_ok in H as (u3 & Hut & H). destruct u3. apply check_utilization_inv in Hut.
  apply bind_ok in H as (fl & Hfl & H). apply math_ok, cfloor_inv in Hfl.
  apply bind_ok in H as (dust & Hdust & H). apply math_ok, csub_inv in Hdust as [Hdust _].
  apply bind_ok in H as (ins & Hins & H). apply math_ok, cadd_inv in Hins as [Hins _].
  apply bind_ok in H as (n0 & Hn & H). apply math_ok, to_u64_inv in Hn as [Hn Hnr].
  apply Ok_inj in H. inversion H; subst b' bl' n; clear H.
  assert (Hcl0 : 0 <= cur_l).
  { subst cur_l. apply Z.div_pos; [apply Z.mul_nonneg_nonneg; lia | apply ONE_pos]. }
  assert (Hblc : blc = bal_empty).
  { unfold balance_close in Hclose. apply bind_ok in Hclose as (? & _ & Hclose). apply Ok_inj in Hclose. auto. }
  assert (Eca : cur_a = bl_a bl * b_asv b / ONE) by (rewrite Hcur, D4, C1; reflexivity).
  assert (Ecl : cur_l = bl_l bl * b_lsv b / ONE) by (rewrite Hcurl, D5, C2; reflexivity).
  pose proof (floor_frac cur_a). pose proof ONE_pos.
  constructor; rewrite <- ?Eca, <- ?Ecl; cbn [b_ins b_tas b_tls b_asv b_lsv b_grp b_prog set_b_ins].
  - rewrite Hn, Hfl. rewrite Z.div_mul by lia. reflexivity.
  - rewrite Hins, Hdust, Hfl, Hb2. cbn -[Z.mul Z.div Z.modulo Z.add Z.sub ONE]. rewrite C5. lia.
  - rewrite Hb2. cbn -[Z.mul Z.div Z.modulo Z.add Z.sub ONE]. rewrite Hnsh, C3, D4. lia.
  - rewrite Hb2. cbn -[Z.mul Z.div Z.modulo Z.add Z.sub ONE]. exact C4.
  - rewrite Hb2. cbn -[Z.mul Z.div Z.modulo Z.add Z.sub ONE]. split; assumption.
  - rewrite Hb2. cbn -[Z.mul Z.div Z.modulo Z.add Z.sub ONE]. split; assumption.
  - exact Hblc.
  - unfold is_pos_tol in Hp. lia.
  - apply fabs_small in Hz; [lia|]. rewrite I128_MIN_val. lia.
  - exact Hut.
  - rewrite Hn, Hfl in *. exact Hnr.
Qed.

Record rall_facts (b : bank) (bl : balance) (b' : bank) (bl' : balance) (n : Z) : Prop := {
  ra_charge : n * ONE = (let x := bl_l bl * b_lsv b / ONE in if x mod ONE =? 0 then x else x / ONE * ONE + ONE);
  ra_dust : b_ins b' = b_ins b + (n * ONE - bl_l bl * b_lsv b / ONE);
  ra_tas : b_tas b' = b_tas b;
  ra_tls : b_tls b' = b_tls b - bl_l bl;
  ra_sv : b_asv b' = b_asv b /\ b_lsv b' = b_lsv b;
  ra_fees : b_grp b' = b_grp b /\ b_prog b' = b_prog b;
  ra_closed : bl' = bal_empty;
  ra_pos : ZERO_AMOUNT_THRESHOLD < bl_l bl * b_lsv b / ONE;
  ra_asset_dust : bl_a bl * b_asv b / ONE < ZERO_AMOUNT_THRESHOLD;
  ra_range : 0 <= n <= U64_MAX
}.

Lemma repay_all_inv b bl now b' bl' n :
  wf_sv b -> wf_bal bl ->
  repay_all b bl now = Ok (b', bl', n) -> rall_facts b bl b' bl' n.
Proof.
  intros [Hasv Hlsv] [Hba Hbl] H. unfold repay_all in H.
  apply bind_ok in H as ([b0 bl0] & Hc & H).
  apply claim_emissions_core in Hc as [Hcb Hcl].
  destruct Hcb as (C1 & C2 & C3 & C4 & C5 & C6 & C7 & _).
  destruct Hcl as (D1 & D2 & D3 & D4 & D5).
  apply bind_ok in H as (cur_l & Hcurl & H).
  assert (Hclr : I128_MIN <= cur_l <= I128_MAX).
  { unfold get_liability_amount in Hcurl. apply math_ok, cmul_inv in Hcurl as [_ ?]. assumption. }
  apply get_liability_amount_inv in Hcurl.
  apply bind_ok in H as (cur_a & Hcur & H).
  assert (Hcr : I128_MIN <= cur_a <= I128_MAX).
  { unfold get_asset_amount in Hcur. apply math_ok, cmul_inv in Hcur as [_ ?]. assumption. }
  apply get_asset_amount_inv in Hcur.
  apply bind_ok in H as (u1 & Hp & H). apply check_ok in Hp.
  apply bind_ok in H as (u2 & Hz & H). apply check_ok in Hz.
  apply bind_ok in H as (blc & Hclose & H).
  apply bind_ok in H as (nsh & Hnsh & H). apply chk_inv in Hnsh as [Hnsh _].
  apply bind_ok in H as (b2 & Hb2 & H). apply change_liability_shares_inv in Hb2.
  apply bind_ok in H as (ce & Hce & H). apply math_ok, cceil_inv in Hce.
  apply bind_ok in H as (dust & Hdust & H). apply math_ok, csub_inv in Hdust as [Hdust _].
  apply bind_ok in H as (ins & Hins & H). apply math_ok, cadd_inv in Hins as [Hins _].
  apply bind_ok in H as (n0 & Hn & H). apply math_ok, to_u64_inv in Hn as [Hn Hnr].
  apply Ok_inj in H. inversion H; subst b' bl' n; clear H.
  assert (Hca0 : 0 <= cur_a).
  { subst cur_a. apply Z.div_pos; [apply Z.mul_nonneg_nonneg; lia | apply ONE_pos]. }
  assert (Hblc : blc = bal_empty).
  { unfold balance_close in Hclose. apply bind_ok in Hclose as (? & _ & Hclose). apply Ok_inj in Hclose. auto. }
  assert (Eca : cur_a = bl_a bl * b_asv b / ONE) by (rewrite Hcur, D4, C1; reflexivity).
  assert (Ecl : cur_l = bl_l bl * b_lsv b / ONE) by (rewrite Hcurl, D5, C2; reflexivity).
  pose proof (floor_frac cur_l). pose proof ONE_pos.
  assert (Hn1 : n0 * ONE = ce).
  { rewrite Hn, Hce. destruct (cur_l mod ONE =? 0) eqn:F.
    - pose proof (Z.div_mod cur_l ONE). lia.
    - replace (cur_l / ONE * ONE + ONE) with ((cur_l / ONE + 1) * ONE) by ring. rewrite Z.div_mul by lia. ring. }
  constructor; cbn zeta; rewrite <- ?Eca, <- ?Ecl; cbn [b_ins b_tas b_tls b_asv b_lsv b_grp b_prog set_b_ins].
  - rewrite Hn1. exact Hce.
  - rewrite Hins, Hdust, Hn1, Hb2. cbn -[Z.mul Z.div Z.modulo Z.add Z.sub ONE]. rewrite C5. lia.
  - rewrite Hb2. cbn -[Z.mul Z.div Z.modulo Z.add Z.sub ONE]. exact C3.
  - rewrite Hb2. cbn -[Z.mul Z.div Z.modulo Z.add Z.sub ONE]. rewrite Hnsh, C4, D5. lia.
  - rewrite Hb2. cbn -[Z.mul Z.div Z.modulo Z.add Z.sub ONE]. split; assumption.
  - rewrite Hb2. cbn -[Z.mul Z.div Z.modulo Z.add Z.sub ONE]. split; assumption.
  - exact Hblc.
  - unfold is_pos_tol in Hp. lia.
  - apply fabs_small in Hz; [lia|]. rewrite I128_MIN_val. lia.
  - exact Hnr.
Qed.

Lemma close_balance_inv b bl now b' bl' :
  wf_sv b -> wf_bal bl -> close_balance b bl now = Ok (b', bl') ->
  bl' = bal_empty /\ b_tas b' = b_tas b /\ b_tls b' = b_tls b /\ b_asv b' = b_asv b /\ b_lsv b' = b_lsv b /\
  b_ins b' = b_ins b /\ b_grp b' = b_grp b /\ b_prog b' = b_prog b /\
  bl_a bl * b_asv b / ONE < ZERO_AMOUNT_THRESHOLD /\ bl_l bl * b_lsv b / ONE < ZERO_AMOUNT_THRESHOLD.
Proof.
  intros [Hasv Hlsv] [Hba Hbl] H. unfold close_balance in H.
  apply bind_ok in H as ([b0 bl0] & Hc & H).
  apply claim_emissions_core in Hc as [Hcb Hcl].
  destruct Hcb as (C1 & C2 & C3 & C4 & C5 & C6 & C7 & _).
  destruct Hcl as (D1 & D2 & D3 & D4 & D5).
  apply bind_ok in H as (cur_l & Hcurl & H).
  assert (Hclr : I128_MIN <= cur_l <= I128_MAX).
  { unfold get_liability_amount in Hcurl. apply math_ok, cmul_inv in Hcurl as [_ ?]. assumption. }
  apply get_liability_amount_inv in Hcurl.
  apply bind_ok in H as (cur_a & Hcur & H).
  assert (Hcr : I128_MIN <= cur_a <= I128_MAX).
  { unfold get_asset_amount in Hcur. apply math_ok, cmul_inv in Hcur as [_ ?]. assumption. }
  apply get_asset_amount_inv in Hcur.
  apply bind_ok in H as (u1 & Hz1 & H). apply check_ok in Hz1.
  apply bind_ok in H as (u2 & Hz2 & H). apply check_ok in Hz2.
  apply bind_ok in H as (blc & Hclose & H).
  apply pair_ok in H as [<- <-].
  assert (Hblc : blc = bal_empty).
  { unfold balance_close in Hclose. apply bind_ok in Hclose as (? & _ & Hclose). apply Ok_inj in Hclose. auto. }
  assert (Hca0 : 0 <= cur_a).
  { subst cur_a. apply Z.div_pos; [apply Z.mul_nonneg_nonneg; lia | apply ONE_pos]. }
  assert (Hcl0 : 0 <= cur_l).
  { subst cur_l. apply Z.div_pos; [apply Z.mul_nonneg_nonneg; lia | apply ONE_pos]. }
  apply fabs_small in Hz1; [|rewrite I128_MIN_val; lia]. apply fabs_small in Hz2; [|rewrite I128_MIN_val; lia].
  rewrite <- C1, <- C2, <- D4, <- D5, <- Hcur, <- Hcurl.
  repeat split; try assumption; lia.
Qed.
