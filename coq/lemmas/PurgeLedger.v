(* PurgeLedger.v — C02 for lending_account_purge_delev_balance: the purged position's asset shares leave the
   bank total exactly, at most ZERO_AMOUNT_THRESHOLD liability shares are abandoned in the total, and the
   instruction-level ledger invariant is preserved. *)
Require Import Base Constants PrivGen Fixed Curve Bank BankOps Risk TransferFee Handlers Deleverage.
Require Import FixedLemmas BankLemmas ValueLemmas CurveLemmas AccrualLemmas TransferFeeLemmas HandlerLemmas SolvencyLemmas FrameLemmas LedgerLemmas HandlerEffects SolvencyHandlers SolvencyWorld HandlerWorld.
From Coq Require Import ZifyBool.
Local Open Scope Z_scope.

Lemma purge_facts w a b signs w' :
  dv_purge w a b signs = Ok w' ->
  exists hb ac i bl bk2,
    signs = true /\
    eff1 w w' a b hb (set_hb_b bk2 hb) ac (mkHA (sort_balances (set_nth i bal_empty (ha_la ac))) (ha_flags ac)) /\
    get_flag (b_flags (hb_b hb)) TOKENLESS_REPAYMENTS_COMPLETE = true /\
    wrapper_find (bank_pk b) (ha_la ac) = Ok i /\ nth_res i (ha_la ac) = Ok bl /\
    fabs_w (bl_l bl) <= ZERO_AMOUNT_THRESHOLD /\
    bk2 = set_b_tas (b_tas (hb_b hb) - bl_a bl) (dec_lend (hb_b hb)).
Proof.
  unfold dv_purge. intros H.
  apply bind_ok in H as (u0 & Hs & H). apply bind_ok in H as (hb & Hhb & H). apply bind_ok in H as (ac & Hac & H).
  apply bind_ok in H as (u1 & _ & H). apply bind_ok in H as (u2 & Hfl & H).
  apply bind_ok in H as (i & Hi & H). apply bind_ok in H as (bl & Hbl & H). apply bind_ok in H as (u3 & Hth & H).
  apply bind_ok in H as (neg & Hneg & H). apply bind_ok in H as (bk2 & Hch & H). apply Ok_inj in H. subst w'.
  exists hb, ac, i, bl, bk2.
  split; [apply check_ok in Hs; exact Hs|].
  split.
  { unfold eff1, put_hacct, put_hbank. cbn [hw_banks hw_accts hw_now hw_pf hw_risk_admin_signs].
    repeat split; try assumption; reflexivity. }
  split; [apply check_ok in Hfl; exact Hfl|].
  split; [unfold wrapper_find; destruct (find_active (bank_pk b) (ha_la ac)); [exact Hi | discriminate]|].
  split; [exact Hbl|].
  split; [apply check_ok in Hth; lia|].
  apply change_asset_shares_inv in Hch. rewrite Hch.
  unfold uneg, chk in Hneg. destruct (in_i128 (- bl_a bl)); [|discriminate]. apply Ok_inj in Hneg. subst neg.
  reflexivity.
Qed.

Lemma wf_sv_purged bk x : wf_sv bk -> wf_sv (set_b_tas x (dec_lend bk)).
Proof. intros H. exact H. Qed.

(* the instruction keeps the ledger invariant; the position's asset shares leave the total exactly, its (dust)
   liability shares stay behind in the bank total *)
Theorem purge_keeps_ledger w a b signs w' :
  HLedger w -> dv_purge w a b signs = Ok w' -> HLedger w'.
Proof.
  intros L H. destruct (purge_facts _ _ _ _ _ H) as (hb & ac & i & bl & bk2 & _ & E & _ & Hfind & Hbl & _ & Hbk2).
  pose proof E as (E1 & E2 & _).
  pose proof (nth_res_map hb_b _ _ _ E1) as M1. pose proof (nth_res_map ha_la _ _ _ E2) as M2.
  pose proof (nth_res_ok _ _ _ M1) as Ebk. pose proof (nth_res_ok _ _ _ M2) as Ela.
  pose proof (Forall_nth_error _ _ _ _ (lg_wf _ L) Ela) as Hwla.
  pose proof (Forall_nth_error _ _ _ _ (lg_sv _ L) Ebk) as Hsv.
  assert (Hloc : (let* i := wrapper_find (bank_pk b) (ha_la ac) in Ok (i, ha_la ac)) = (Ok (i, ha_la ac) : res (nat * laccount))).
  { rewrite Hfind. reflexivity. }
  destruct (slot_located (bank_pk b) (hb_b hb) (ha_la ac) (hw_now w) false i (ha_la ac) bl Hloc Hbl Hwla) as (Hact & Hbank & Hwbl & _ & _).
  destruct Hwbl as [Hba Hbl0].
  eapply (eff1_ledger w w' a b hb (set_hb_b bk2 hb) ac _ (hb_b hb) false i (ha_la ac) bl bal_empty _ _ true L E Hloc Hbl).
  - subst bk2. cbn [hb_b set_hb_b].
    pose proof (slot_ok_closed (bank_pk b) (hb_b hb) bl (set_b_tas (b_tas (hb_b hb) - bl_a bl) (dec_lend (hb_b hb))) Hact Hbank
                  (wf_sv_purged _ _ Hsv) (conj Hba Hbl0)) as S.
    apply S; cbn; lia.
  - reflexivity.
Qed.

Theorem purge_effect_on_totals w a b signs w' :
  HLedger w -> dv_purge w a b signs = Ok w' ->
  exists hb hb' ac i bl,
    nth_bank w b = Ok hb /\ nth_bank w' b = Ok hb' /\ nth_acct w a = Ok ac /\
    find_active (bank_pk b) (ha_la ac) = Some i /\ nth_res i (ha_la ac) = Ok bl /\
    b_tas (hb_b hb') = b_tas (hb_b hb) - bl_a bl /\ b_tls (hb_b hb') = b_tls (hb_b hb) /\
    0 <= bl_l bl /\ (bl_l bl <= I128_MAX -> bl_l bl <= ZERO_AMOUNT_THRESHOLD) /\
    b_asv (hb_b hb') = b_asv (hb_b hb) /\ b_lsv (hb_b hb') = b_lsv (hb_b hb) /\ hb_vault hb' = hb_vault hb.
Proof.
  intros L H. destruct (purge_facts _ _ _ _ _ H) as (hb & ac & i & bl & bk2 & _ & E & _ & Hfind & Hbl & Hth & Hbk2).
  pose proof E as (E1 & E2 & E3 & _).
  pose proof (nth_res_map ha_la _ _ _ E2) as M2. pose proof (nth_res_ok _ _ _ M2) as Ela.
  pose proof (Forall_nth_error _ _ _ _ (lg_wf _ L) Ela) as Hwla.
  pose proof (Forall_nth_error _ _ _ _ Hwla (nth_res_ok _ _ _ Hbl)) as [Hba Hbl0].
  exists hb, (set_hb_b bk2 hb), ac, i, bl.
  split; [exact E1|]. split.
  { unfold nth_bank. rewrite E3. apply nth_res_ok in E1. unfold nth_res. rewrite (nth_set_nth_same _ _ _ _ E1). reflexivity. }
  split; [exact E2|]. split.
  { unfold wrapper_find in Hfind. destruct (find_active (bank_pk b) (ha_la ac)); [apply Ok_inj in Hfind; subst; reflexivity | discriminate]. }
  split; [exact Hbl|]. subst bk2. cbn [hb_b set_hb_b].
  split; [reflexivity|]. split; [reflexivity|]. split; [exact Hbl0|]. split.
  { intros Hmax. unfold fabs_w in Hth. rewrite Z.abs_eq in Hth by lia.
    rewrite wrap128_id in Hth; [exact Hth|]. rewrite I128_MIN_val. lia. }
  repeat split; reflexivity.
Qed.

(* C01 for the purge: no token moves and the bank's obligations shrink by the purged deposits, so the solvency gap of the
   bank grows by exactly (purged asset shares) x (asset share value); every other bank is untouched *)
Theorem purge_gap w a b signs w' :
  HLedger w -> dv_purge w a b signs = Ok w' ->
  exists hb hb' ac i bl,
    nth_bank w b = Ok hb /\ nth_bank w' b = Ok hb' /\ nth_acct w a = Ok ac /\ nth_res i (ha_la ac) = Ok bl /\
    gap hb' = gap hb + bl_a bl * b_asv (hb_b hb) /\ gap hb <= gap hb' /\
    (forall k, k <> b -> nth_bank w' k = nth_bank w k).
Proof.
  intros L H. pose proof (purge_facts _ _ _ _ _ H) as (hb0 & ac0 & i0 & bl0 & bk2 & _ & E & _ & _ & _ & _ & _).
  destruct (purge_effect_on_totals _ _ _ _ _ L H) as (hb & hb' & ac & i & bl & B1 & B2 & A1 & _ & Hbl & T1 & T2 & _ & _ & S1 & S2 & V).
  destruct E as (E1 & _ & E3 & _).
  pose proof (nth_res_map hb_b _ _ _ B1) as M1. pose proof (nth_res_ok _ _ _ M1) as Ebk.
  pose proof (Forall_nth_error _ _ _ _ (lg_sv _ L) Ebk) as [Hasv _].
  pose proof (nth_res_map ha_la _ _ _ A1) as M2. pose proof (nth_res_ok _ _ _ M2) as Ela.
  pose proof (Forall_nth_error _ _ _ _ (lg_wf _ L) Ela) as Hwla.
  pose proof (Forall_nth_error _ _ _ _ Hwla (nth_res_ok _ _ _ Hbl)) as [Hba _].
  exists hb, hb', ac, i, bl. split; [exact B1|]. split; [exact B2|]. split; [exact A1|]. split; [exact Hbl|].
  assert (G : gap hb' = gap hb + bl_a bl * b_asv (hb_b hb)).
  { unfold gap, gapb, NAV, Dv, Lv, Fv. rewrite V, T1, T2, S1, S2.
    rewrite E1 in B1. apply Ok_inj in B1. subst hb0.
    assert (F : b_ins (hb_b hb') = b_ins (hb_b hb) /\ b_grp (hb_b hb') = b_grp (hb_b hb) /\ b_prog (hb_b hb') = b_prog (hb_b hb)).
    { unfold nth_bank in B2. rewrite E3 in B2. apply nth_res_ok in E1. unfold nth_res in B2. rewrite (nth_set_nth_same _ _ _ _ E1) in B2.
      apply Ok_inj in B2. subst hb'. pose proof (purge_facts _ _ _ _ _ H) as (hb1 & ac1 & i1 & bl1 & bk3 & _ & E' & _ & _ & _ & _ & Hbk3).
      destruct E' as (E1' & _ & E3' & _). 
      assert (hb1 = hb) by (apply nth_res_ok in E1'; unfold nth_bank, nth_res in *; congruence). subst hb1.
      assert (Heq : set_hb_b bk2 hb = set_hb_b bk3 hb).
      { assert (Hin : nth_error (set_nth b (set_hb_b bk2 hb) (hw_banks w)) b = nth_error (set_nth b (set_hb_b bk3 hb) (hw_banks w)) b) by (rewrite <- E3, <- E3'; reflexivity).
        rewrite (nth_set_nth_same _ _ _ _ E1), (nth_set_nth_same _ _ _ _ E1) in Hin. congruence. }
      rewrite Heq. subst bk3. cbn. repeat split; reflexivity. }
    destruct F as (-> & -> & ->). ring. }
  split; [exact G|]. split; [rewrite G; nia|].
  intros k Hk. unfold nth_bank. rewrite E3. unfold nth_res. rewrite nth_set_nth_other by lia. reflexivity.
Qed.
