(* GroupRolesLemmas.v — proofs about model/GroupRoles.v (assignment of the administrator roles). *)
Require Import Base Constants ConfigGen Fixed Curve Config Emode ConfigPaths GroupRoles FixedLemmas.
From Coq Require Import ZifyBool.
Local Open Scope Z_scope.

Lemma gcheck c e u : check c e = Ok u -> c = true.
Proof. unfold check; destruct c; [reflexivity | discriminate]. Qed.

(* a successful marginfi_group_configure was signed by the CURRENT admin and stores every requested key under the role of
   the same name (no cross-assignment) *)
Lemma group_configure_exact g signer a now g' :
  ix_group_configure g signer a now = Ok g' ->
  signer = gr_admin g /\
  role_keys g' = [gc_admin a; gc_emode a; gc_curve a; gc_limit a; gc_emissions a; gc_metadata a; gc_risk a] /\
  ix_group_set_caps (gc_init a) (gc_maint a) = Ok (gr_caps g') /\ gr_fee_last g' = now.
Proof.
  unfold ix_group_configure. intros H.
  apply bind_ok in H. destruct H as [u [Hc H]]. apply gcheck in Hc.
  apply bind_ok in H. destruct H as [c [Hcaps H]]. apply Ok_inj in H. subst g'.
  cbn. repeat split; try reflexivity; try assumption. lia.
Qed.

(* without the current admin's signature nothing changes *)
Lemma group_configure_needs_admin g signer a now :
  signer <> gr_admin g -> ix_group_configure g signer a now = Err (E E_Unauthorized).
Proof.
  intros Hne. unfold ix_group_configure. replace (gr_admin g =? signer) with false by lia. reflexivity.
Qed.

(* any history in which nobody signs as the admin of the starting state leaves the whole role table (and the caps) as it
   was: a delegate - or anybody else - can neither take a role nor hand one on *)
Lemma roles_frozen_without_admin ops : forall g,
  Forall (fun op => fst (fst op) <> gr_admin g) ops -> gr_run g ops = g.
Proof.
  induction ops as [|op ops IH]; intros g Hall; cbn [gr_run fold_left]; [reflexivity|].
  inversion Hall as [|x l Hx Hl]; subst.
  assert (Hs : gr_apply g op = g).
  { unfold gr_apply. destruct op as [[s a] now]. cbn [fst] in Hx. rewrite (group_configure_needs_admin g s a now Hx). reflexivity. }
  rewrite Hs. apply IH. exact Hl.
Qed.

(* who can act under a role after a history: only a key that the role held at the start, or the key that a configure
   signed by the admin OF THAT MOMENT requested for exactly that role *)
Definition gc_key (a : gc_args) (r : grole) : Z :=
  match r with
  | GAdmin => gc_admin a | GEmode => gc_emode a | GCurve => gc_curve a | GLimit => gc_limit a
  | GEmissions => gc_emissions a | GMetadata => gc_metadata a | GRisk => gc_risk a
  end.

Lemma role_holder_appointed_by_admin ops : forall g r k,
  role_key (gr_run g ops) r = k ->
  role_key g r = k \/
  exists pre s a now post, ops = pre ++ (s, a, now) :: post /\ s = gr_admin (gr_run g pre) /\ gc_key a r = k.
Proof.
  induction ops as [|op ops IH]; intros g r k Hk; cbn [gr_run fold_left] in Hk; [left; exact Hk|].
  fold (gr_run (gr_apply g op) ops) in Hk.
  destruct (IH _ _ _ Hk) as [H0 | [pre [s [a [now [post [Hops [Hs Hkey]]]]]]]].
  - unfold gr_apply in H0. destruct op as [[s a] now].
    destruct (ix_group_configure g s a now) as [g'|e] eqn:Eg; [|left; exact H0].
    right. destruct (group_configure_exact _ _ _ _ _ Eg) as [Hs [Hkeys _]].
    exists [], s, a, now, ops. split; [reflexivity|]. split; [exact Hs|].
    unfold role_keys in Hkeys. inversion Hkeys as [[K1 K2 K3 K4 K5 K6 K7]].
    destruct r; cbn [role_key gc_key] in *; congruence.
  - right. exists (op :: pre), s, a, now, post. split; [rewrite Hops; reflexivity|]. split; [|exact Hkey].
    cbn [gr_run fold_left]. exact Hs.
Qed.
