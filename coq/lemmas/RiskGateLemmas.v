(* RiskGateLemmas.v — C04: the post-action initial-health gate of lending_account_borrow /
   lending_account_withdraw (handler model Handlers.v, risk engine Risk.v).
   Part 1: what the gate is (handlers split into effects / gate / finish; soundness; converse).
   Part 2: what the engine computes (sum of weighted values, weights, prices, e-mode reconciliation,
           isolated tier) and why it is conservative (monotonicity, rounding bound). *)
Require Import Base Constants Fixed Curve Bank BankOps Risk TransferFee Handlers.
Require Import FixedLemmas BankLemmas AccrualLemmas HandlerLemmas SolvencyLemmas ErrLemmas.
From Coq Require Import ZifyBool.
Local Open Scope Z_scope.

(* ================================================================================================
   Part 1 — the gate inside the handlers *)

(* everything lending_account_borrow does before the health check: the world and the (sorted)
   account the check is evaluated on *)
Definition borrow_effects (w : hworld) (a b : nat) (amount : Z) : res (hworld * hacct) :=
  let* hb := nth_bank w b in let* ac := nth_acct w a in
  let bk := hb_b hb in
  let* _ := check (is_marginfi_tag (b_asset_tag bk)) (E E_WrongAssetTagForStandardInstructions) in
  let* _ := check (negb (get_flag (b_flags bk) TOKENLESS_REPAYMENTS_ALLOWED)) (E E_ForbiddenIx) in
  let* _ := check (negb (aflag ac ACCOUNT_DISABLED) && negb (aflag ac ACCOUNT_IN_RECEIVERSHIP)) (E E_AccountDisabled) in
  let* bk1 := accrue_interest bk (hw_pf w) (hw_now w) in
  let* _ := validate_asset_tags bk1 (ha_la ac) in
  let* _ := validate_bank_state bk1 KFailsIfPausedOrReduce in
  let* (i, la1) := wrapper_find_or_create (bank_pk b) bk1 (ha_la ac) (hw_now w) in
  let* bl := nth_res i la1 in
  let* pre := pre_fee hb amount in
  let* (delta, ofee) :=
    if hb_orig_fee hb =? 0 then Ok (of_int pre, 0)
    else let* f := math (cmul (of_int pre) (hb_orig_fee hb)) in
         let* _ := math (to_u64_checked f) in
         let* d := uadd (of_int pre) f in Ok (d, f) in
  let* (bk2, bl2) := decrease_balance bk1 bl (t64 w) delta DecBorrowOnly in
  let w1 := put_hacct (put_hbank w b (set_hb_b bk2 hb)) a (mkHA (set_nth i bl2 la1) (ha_flags ac)) in
  let* w2 := xfer_out w1 a b pre in
  let* hb2 := nth_bank w2 b in
  let bk3 := hb_b hb2 in
  let* bk4 :=
    if ofee =? 0 then Ok bk3 else
    if pf_rate (hw_pf w) =? 0 then Ok (set_b_grp (clamp I128_MIN I128_MAX (b_grp bk3 + ofee)) bk3)
    else
      let* pfa := math (cmul ofee (pf_rate (hw_pf w))) in
      let rest := clamp I128_MIN I128_MAX (ofee - pfa) in
      Ok (set_b_prog (clamp I128_MIN I128_MAX (b_prog bk3 + pfa))
                     (set_b_grp (clamp I128_MIN I128_MAX (b_grp bk3 + rest)) bk3)) in
  let* ac2 := nth_acct w2 a in
  let ac3 := sort_acct ac2 in
  let w3 := put_hacct (put_hbank w2 b (set_hb_b bk4 hb2)) a ac3 in
  Ok (w3, ac3).

(* what follows a passed check: the bank cache refresh (moves Bank.last_update only) *)
Definition borrow_finish (w w3 : hworld) (b : nat) : res hworld :=
  let* hb3 := nth_bank w3 b in
  let* bk5 := update_bank_cache (hb_b hb3) (hw_pf w) (hw_now w) in
  Ok (put_hbank w3 b (set_hb_b bk5 hb3)).

Definition withdraw_effects (w : hworld) (a b : nat) (amount : Z) (all : bool) : res (hworld * hacct) :=
  let* hb := nth_bank w b in let* ac := nth_acct w a in
  let bk := hb_b hb in
  let* _ := check (is_marginfi_tag (b_asset_tag bk)) (E E_WrongAssetTagForStandardInstructions) in
  let* _ := check (negb (aflag ac ACCOUNT_DISABLED)) (E E_AccountDisabled) in
  let* _ := validate_bank_state bk KFailsInPaused in
  let* bk1 := accrue_interest bk (hw_pf w) (hw_now w) in
  let* i := wrapper_find (bank_pk b) (ha_la ac) in
  let* bl := nth_res i (ha_la ac) in
  let* (bk2, bl2, pre) :=
    if all then withdraw_all bk1 bl (t64 w)
    else let* pre := pre_fee hb amount in
         let* (bk2, bl2) := decrease_balance bk1 bl (t64 w) (of_int pre) DecWithdrawOnly in Ok (bk2, bl2, pre) in
  let pre := if get_flag (b_flags bk2) TOKENLESS_REPAYMENTS_COMPLETE then Z.min pre (hb_vault hb) else pre in
  let w1 := put_hacct (put_hbank w b (set_hb_b bk2 hb)) a (mkHA (set_nth i bl2 (ha_la ac)) (ha_flags ac)) in
  let* w2 := xfer_out w1 a b pre in
  let* hb2 := nth_bank w2 b in
  let* bk3 := update_bank_cache (hb_b hb2) (hw_pf w) (hw_now w) in
  let* ac2 := nth_acct w2 a in
  let ac3 := sort_acct ac2 in
  let w3 := put_hacct (put_hbank w2 b (set_hb_b bk3 hb2)) a ac3 in
  Ok (w3, ac3).

Ltac split_step :=
  match goal with
  | |- Err _ = Err _ => reflexivity
  | |- bind ?r _ = _ =>
      let x := fresh "x" in destruct r as [x|?]; cbn [bind]; [ | reflexivity ]
  | |- (let (_, _) := ?p in _) = _ => destruct p
  | |- (if ?c then _ else _) = _ => destruct c; cbn [bind]
  end.

Lemma h_borrow_split w a b n :
  h_borrow w a b n =
  (let* (w3, ac3) := borrow_effects w a b n in
   let* _ := init_health_check w3 ac3 in borrow_finish w w3 b).
Proof.
  unfold h_borrow, borrow_effects, borrow_finish.
  repeat split_step; reflexivity.
Qed.

Lemma h_withdraw_split w a b n all :
  h_withdraw w a b n all =
  (let* (w3, ac3) := withdraw_effects w a b n all in
   let* _ := init_health_check w3 ac3 in Ok w3).
Proof.
  unfold h_withdraw, withdraw_effects.
  repeat split_step; reflexivity.
Qed.

(* ---------------------------------------------------------------- plumbing *)
Definition feeds (w : hworld) : list feed := map hb_feed (hw_banks w).

Lemma feeds_put_hbank w b hb hb0 :
  nth_bank w b = Ok hb0 -> hb_feed hb = hb_feed hb0 -> feeds (put_hbank w b hb) = feeds w.
Proof.
  intros H E. unfold feeds, put_hbank. cbn [hw_banks]. apply nth_res_ok in H.
  eapply map_set_nth_same; eauto.
Qed.
Lemma feeds_put_hacct w a x : feeds (put_hacct w a x) = feeds w.
Proof. reflexivity. Qed.
Lemma feeds_put_utok w a b v : feeds (put_utok w a b v) = feeds w.
Proof. unfold put_utok. destruct (nth_error (hw_utok w) a); reflexivity. Qed.
Lemma xfer_out_feeds w a b n w' : xfer_out w a b n = Ok w' -> feeds w' = feeds w.
Proof.
  unfold xfer_out. intros H.
  apply bind_ok in H as (hb & Hhb & H). apply bind_ok in H as (u & _ & H).
  apply bind_ok in H as (c & _ & H). apply bind_ok in H as (f & _ & H).
  apply Ok_inj in H. subst w'. rewrite feeds_put_utok. eapply feeds_put_hbank; [exact Hhb | reflexivity].
Qed.

Lemma sort_acct_flags ac : ha_flags (sort_acct ac) = ha_flags ac.
Proof. reflexivity. Qed.

Lemma borrow_effects_facts w a b n w3 ac3 :
  borrow_effects w a b n = Ok (w3, ac3) ->
  nth_acct w3 a = Ok ac3 /\ feeds w3 = feeds w /\
  exists ac0, nth_acct w a = Ok ac0 /\ ha_flags ac3 = ha_flags ac0.
Proof.
  unfold borrow_effects. intros H.
  apply bind_ok in H as (hb & Hhb & H). apply bind_ok in H as (ac & Hac & H).
  apply bind_ok in H as (u1 & _ & H). apply bind_ok in H as (u2 & _ & H). apply bind_ok in H as (u3 & _ & H).
  apply bind_ok in H as (bk1 & _ & H). apply bind_ok in H as (u4 & _ & H). apply bind_ok in H as (u5 & _ & H).
  apply bind_ok in H as ([i la1] & _ & H). apply bind_ok in H as (bl & _ & H).
  apply bind_ok in H as (pre & _ & H). apply bind_ok in H as ([delta ofee] & _ & H).
  apply bind_ok in H as ([bk2 bl2] & _ & H).
  set (w1 := put_hacct (put_hbank w b (set_hb_b bk2 hb)) a (mkHA (set_nth i bl2 la1) (ha_flags ac))) in H.
  apply bind_ok in H as (w2 & Hx & H). apply bind_ok in H as (hb2 & Hhb2 & H).
  apply bind_ok in H as (bk4 & _ & H). apply bind_ok in H as (ac2 & Hac2 & H).
  apply pair_ok in H as [<- <-].
  assert (Hw1b : nth_bank w1 b = Ok (set_hb_b bk2 hb)).
  { unfold w1. rewrite nth_bank_put_hacct. eapply put_hbank_get; exact Hhb. }
  destruct (xfer_out_effect _ _ _ _ _ _ Hx Hw1b) as (_ & _ & _ & Hacc).
  assert (Hw1a : nth_acct w1 a = Ok (mkHA (set_nth i bl2 la1) (ha_flags ac))).
  { unfold w1. eapply put_hacct_get. rewrite nth_acct_put_hbank. exact Hac. }
  rewrite Hacc, Hw1a in Hac2. apply Ok_inj in Hac2. subst ac2.
  split; [|split].
  - eapply put_hacct_get. rewrite nth_acct_put_hbank, Hacc. exact Hw1a.
  - rewrite feeds_put_hacct. rewrite (feeds_put_hbank w2 b (set_hb_b bk4 hb2) hb2 Hhb2 eq_refl).
    rewrite (xfer_out_feeds _ _ _ _ _ Hx). unfold w1. rewrite feeds_put_hacct.
    apply (feeds_put_hbank w b (set_hb_b bk2 hb) hb Hhb eq_refl).
  - exists ac. split; [exact Hac | reflexivity].
Qed.

Lemma withdraw_effects_facts w a b n all w3 ac3 :
  withdraw_effects w a b n all = Ok (w3, ac3) ->
  nth_acct w3 a = Ok ac3 /\ feeds w3 = feeds w /\
  exists ac0, nth_acct w a = Ok ac0 /\ ha_flags ac3 = ha_flags ac0.
Proof.
  unfold withdraw_effects. intros H.
  apply bind_ok in H as (hb & Hhb & H). apply bind_ok in H as (ac & Hac & H).
  apply bind_ok in H as (u1 & _ & H). apply bind_ok in H as (u2 & _ & H). apply bind_ok in H as (u3 & _ & H).
  apply bind_ok in H as (bk1 & _ & H). apply bind_ok in H as (i & _ & H). apply bind_ok in H as (bl & _ & H).
  apply bind_ok in H as ([[bk2 bl2] pre0] & _ & H).
  set (pre := if get_flag (b_flags bk2) TOKENLESS_REPAYMENTS_COMPLETE then Z.min pre0 (hb_vault hb) else pre0) in H.
  set (w1 := put_hacct (put_hbank w b (set_hb_b bk2 hb)) a (mkHA (set_nth i bl2 (ha_la ac)) (ha_flags ac))) in H.
  apply bind_ok in H as (w2 & Hx & H). apply bind_ok in H as (hb2 & Hhb2 & H).
  apply bind_ok in H as (bk3 & _ & H). apply bind_ok in H as (ac2 & Hac2 & H).
  apply pair_ok in H as [<- <-].
  assert (Hw1b : nth_bank w1 b = Ok (set_hb_b bk2 hb)).
  { unfold w1. rewrite nth_bank_put_hacct. eapply put_hbank_get; exact Hhb. }
  destruct (xfer_out_effect _ _ _ _ _ _ Hx Hw1b) as (_ & _ & _ & Hacc).
  assert (Hw1a : nth_acct w1 a = Ok (mkHA (set_nth i bl2 (ha_la ac)) (ha_flags ac))).
  { unfold w1. eapply put_hacct_get. rewrite nth_acct_put_hbank. exact Hac. }
  rewrite Hacc, Hw1a in Hac2. apply Ok_inj in Hac2. subst ac2.
  split; [|split].
  - eapply put_hacct_get. rewrite nth_acct_put_hbank, Hacc. exact Hw1a.
  - rewrite feeds_put_hacct. rewrite (feeds_put_hbank w2 b (set_hb_b bk3 hb2) hb2 Hhb2 eq_refl).
    rewrite (xfer_out_feeds _ _ _ _ _ Hx). unfold w1. rewrite feeds_put_hacct.
    apply (feeds_put_hbank w b (set_hb_b bk2 hb) hb Hhb eq_refl).
  - exists ac. split; [exact Hac | reflexivity].
Qed.

(* ---------------------------------------------------------------- the check itself *)
Lemma check_init_health_ok ps :
  check_init_health ps = Ok tt <->
  exists A L, health_components ps RqInitial = Ok (A, L) /\ L <= A /\ risk_tiers_ok ps = true.
Proof.
  unfold check_init_health. split.
  - intros H. apply bind_ok in H as ([A L] & Hc & H). apply bind_ok in H as (u & H1 & H).
    apply check_ok in H1. apply check_ok in H. exists A, L. split; [exact Hc|]. split; [lia | exact H].
  - intros (A & L & Hc & HL & Ht). rewrite Hc. cbn [bind]. replace (L <=? A) with true by lia.
    cbn [check bind]. rewrite Ht. reflexivity.
Qed.

Lemma init_health_check_ok w ac :
  init_health_check w ac = Ok tt -> aflag ac ACCOUNT_IN_FLASHLOAN = false ->
  exists ps, positions w (ha_la ac) = Ok ps /\ check_init_health ps = Ok tt.
Proof.
  unfold init_health_check. intros H Hf. rewrite Hf in H.
  apply bind_ok in H as (ps & Hp & H). exists ps. destruct (check_init_health ps) as [[]|]; [auto | discriminate].
Qed.

(* the health computation does not read Bank.last_update *)
Definition strip (p : rpos) : rpos :=
  mkPos (ps_bal p) (set_b_last_update 0 (ps_bank p)) (ps_cfg p) (ps_feed p).

Lemma weighted_value_strip p r em : weighted_value (strip p) r em = weighted_value p r em.
Proof. destruct p as [bl bk c f]. reflexivity. Qed.

Lemma health_sum_strip ps : forall r em a l, health_sum (map strip ps) r em a l = health_sum ps r em a l.
Proof.
  induction ps as [|p rest IH]; intros; cbn [map health_sum]; [reflexivity|].
  rewrite weighted_value_strip. destruct (weighted_value p r em) as [[[av lv] c]|]; cbn [bind]; [|reflexivity].
  destruct (math (cadd a av)); cbn [bind]; [|reflexivity].
  destruct (math (cadd l lv)); cbn [bind]; [|reflexivity]. apply IH.
Qed.

Lemma liabs_strip ps :
  map (fun p => ps_cfg p) (filter (fun p => liab_nonempty (ps_bal p)) (map strip ps)) =
  map (fun p => ps_cfg p) (filter (fun p => liab_nonempty (ps_bal p)) ps).
Proof.
  induction ps as [|p rest IH]; cbn [map filter]; [reflexivity|].
  cbn [strip ps_bal]. destruct (liab_nonempty (ps_bal p)); cbn [map]; [f_equal|]; exact IH.
Qed.

Lemma engine_emode_strip ps : engine_emode (map strip ps) = engine_emode ps.
Proof.
  unfold engine_emode. f_equal.
  rewrite <- (map_map (fun p => ps_cfg p) rc_emode), <- (map_map (fun p => ps_cfg p) rc_emode (filter _ ps)).
  f_equal. apply liabs_strip.
Qed.

Lemma risk_tiers_strip ps : risk_tiers_ok (map strip ps) = risk_tiers_ok ps.
Proof.
  unfold risk_tiers_ok.
  assert (E : forall l : list rpos, length l = length (map (fun p => ps_cfg p) l)) by (intros; rewrite map_length; reflexivity).
  assert (F : forall l : list rpos, length (filter (fun p => rc_tier (ps_cfg p) =? TIER_ISOLATED) l) =
                          length (filter (fun c => rc_tier c =? TIER_ISOLATED) (map (fun p => ps_cfg p) l))).
  { induction l as [|x r IH]; cbn [map filter]; [reflexivity|]. destruct (rc_tier (ps_cfg x) =? TIER_ISOLATED); cbn [length]; lia. }
  rewrite !F, (E (filter _ (map strip ps))), (E (filter _ ps)), liabs_strip. reflexivity.
Qed.

Lemma check_init_health_strip ps : check_init_health (map strip ps) = check_init_health ps.
Proof.
  unfold check_init_health, health_components. rewrite engine_emode_strip, health_sum_strip, risk_tiers_strip. reflexivity.
Qed.

Lemma health_components_strip ps r : health_components (map strip ps) r = health_components ps r.
Proof. unfold health_components. rewrite engine_emode_strip, health_sum_strip. reflexivity. Qed.

Lemma mapM_rel {A B} (R : B -> B -> Prop) (f g : A -> res B) l :
  (forall x y, f x = Ok y -> exists y', g x = Ok y' /\ R y y') ->
  forall ys, mapM f l = Ok ys -> exists ys', mapM g l = Ok ys' /\ Forall2 R ys ys'.
Proof.
  intros Hfg. induction l as [|x r IH]; intros ys H; cbn [mapM] in *.
  - apply Ok_inj in H. subst. exists []. split; [reflexivity | constructor].
  - apply bind_ok in H as (y & Hy & H). apply bind_ok in H as (ys0 & Hys & H). apply Ok_inj in H. subst ys.
    destruct (Hfg _ _ Hy) as (y' & Hy' & Ry). destruct (IH _ Hys) as (ys' & Hys' & Rys).
    exists (y' :: ys'). rewrite Hy', Hys'. split; [reflexivity | constructor; assumption].
Qed.

(* refreshing the cache of one bank does not change what the engine sees *)
Lemma positions_touch w b hb3 bk5 la ps :
  nth_bank w b = Ok hb3 -> (bk5 = hb_b hb3 \/ exists t, bk5 = set_b_last_update t (hb_b hb3)) ->
  positions w la = Ok ps ->
  exists ps', positions (put_hbank w b (set_hb_b bk5 hb3)) la = Ok ps' /\ map strip ps' = map strip ps.
Proof.
  intros Hb Hk Hp. unfold positions in *.
  apply (mapM_rel (fun p p' => strip p' = strip p)
           _ (fun bl => let* hb := nth_res (Z.to_nat (bl_bank bl - 1)) (hw_banks (put_hbank w b (set_hb_b bk5 hb3))) in
                        Ok (mkPos bl (hb_b hb) (hb_c hb) (hb_feed hb)))) in Hp.
  - destruct Hp as (ps' & Hp' & HR). exists ps'. split; [exact Hp'|].
    clear Hp'. induction HR as [|p p' r r' E _ IH]; cbn [map]; [reflexivity|]. rewrite E, IH. reflexivity.
  - intros bl p H. apply bind_ok in H as (hb & Hhb & H). apply Ok_inj in H. subst p.
    unfold put_hbank. cbn [hw_banks]. apply nth_res_ok in Hhb. apply nth_res_ok in Hb.
    destruct (Nat.eq_dec b (Z.to_nat (bl_bank bl - 1))) as [Eb|Hne].
    + rewrite <- Eb in *. rewrite Hb in Hhb. assert (hb = hb3) by congruence. subst hb.
      unfold nth_res. rewrite (nth_set_nth_same _ _ _ _ Hb). cbn [bind]. eexists. split; [reflexivity|].
      unfold strip. cbn [ps_bal ps_bank ps_cfg ps_feed set_hb_b hb_b hb_c hb_feed].
      destruct Hk as [-> | [t ->]]; reflexivity.
    + unfold nth_res. rewrite nth_set_nth_other by assumption. rewrite Hhb. cbn [bind].
      eexists. split; reflexivity.
Qed.

(* ---------------------------------------------------------------- soundness of the gate *)
Lemma aflag_flags ac ac' f : ha_flags ac = ha_flags ac' -> aflag ac f = aflag ac' f.
Proof. unfold aflag. intros ->. reflexivity. Qed.

Theorem borrow_gate_sound w a b n w' ac0 :
  h_borrow w a b n = Ok w' -> nth_acct w a = Ok ac0 -> aflag ac0 ACCOUNT_IN_FLASHLOAN = false ->
  exists ac ps A L, nth_acct w' a = Ok ac /\ ha_flags ac = ha_flags ac0 /\
    positions w' (ha_la ac) = Ok ps /\ check_init_health ps = Ok tt /\
    health_components ps RqInitial = Ok (A, L) /\ L <= A /\ risk_tiers_ok ps = true.
Proof.
  intros H Hac0 Hfl. rewrite h_borrow_split in H.
  apply bind_ok in H as ([w3 ac3] & He & H). apply bind_ok in H as (u & Hg & H). destruct u.
  destruct (borrow_effects_facts _ _ _ _ _ _ He) as (Ha3 & _ & ac0' & Hac0' & Hflags).
  rewrite Hac0 in Hac0'. apply Ok_inj in Hac0'. subst ac0'.
  assert (Hfl3 : aflag ac3 ACCOUNT_IN_FLASHLOAN = false) by (rewrite (aflag_flags _ _ _ Hflags); exact Hfl).
  destruct (init_health_check_ok _ _ Hg Hfl3) as (ps3 & Hp3 & Hc3).
  unfold borrow_finish in H. apply bind_ok in H as (hb3 & Hhb3 & H). apply bind_ok in H as (bk5 & Hk & H).
  apply Ok_inj in H. subst w'.
  assert (Hk' : bk5 = hb_b hb3 \/ exists t, bk5 = set_b_last_update t (hb_b hb3)).
  { apply update_bank_cache_core in Hk as [->| ->]; [left; reflexivity | right; eexists; reflexivity]. }
  destruct (positions_touch _ _ _ _ _ _ Hhb3 Hk' Hp3) as (ps' & Hp' & Hs).
  assert (Hc' : check_init_health ps' = Ok tt).
  { rewrite <- check_init_health_strip, Hs, check_init_health_strip. exact Hc3. }
  pose proof Hc' as Hc''. apply check_init_health_ok in Hc'' as (A & L & HAL & HLA & Ht).
  exists ac3, ps', A, L. rewrite nth_acct_put_hbank. repeat split; assumption.
Qed.

Theorem withdraw_gate_sound w a b n all w' ac0 :
  h_withdraw w a b n all = Ok w' -> nth_acct w a = Ok ac0 -> aflag ac0 ACCOUNT_IN_FLASHLOAN = false ->
  exists ac ps A L, nth_acct w' a = Ok ac /\ ha_flags ac = ha_flags ac0 /\
    positions w' (ha_la ac) = Ok ps /\ check_init_health ps = Ok tt /\
    health_components ps RqInitial = Ok (A, L) /\ L <= A /\ risk_tiers_ok ps = true.
Proof.
  intros H Hac0 Hfl. rewrite h_withdraw_split in H.
  apply bind_ok in H as ([w3 ac3] & He & H). apply bind_ok in H as (u & Hg & H). destruct u.
  apply Ok_inj in H. subst w'.
  destruct (withdraw_effects_facts _ _ _ _ _ _ _ He) as (Ha3 & _ & ac0' & Hac0' & Hflags).
  rewrite Hac0 in Hac0'. apply Ok_inj in Hac0'. subst ac0'.
  assert (Hfl3 : aflag ac3 ACCOUNT_IN_FLASHLOAN = false) by (rewrite (aflag_flags _ _ _ Hflags); exact Hfl).
  destruct (init_health_check_ok _ _ Hg Hfl3) as (ps3 & Hp3 & Hc3).
  pose proof Hc3 as Hc''. apply check_init_health_ok in Hc'' as (A & L & HAL & HLA & Ht).
  exists ac3, ps3, A, L. repeat split; assumption.
Qed.

(* ---------------------------------------------------------------- converse: who can say "RiskEngineInitRejected" *)
(* the oracle adapter's own errors are oracle errors, never the risk engine's verdict *)
Definition feed_ng (f : feed) : Prop :=
  ng (fd_load f) /\ ng (fd_low_rt f) /\ ng (fd_high_rt f) /\ ng (fd_low_tw f) /\ ng (fd_high_tw f).
Definition feeds_ng (w : hworld) : Prop := Forall feed_ng (feeds w).

Lemma fixed_feed_ng p : feed_ng (fixed_feed p).
Proof. unfold feed_ng, fixed_feed. cbn. repeat split; apply ng_ok. Qed.

Lemma ng_err_cast {A B} e : ng (@Err A e) -> ng (@Err B e).
Proof. unfold ng. intros H H'. apply H. congruence. Qed.

Lemma ng_calc_value a p d w : ng (calc_value a p d w).
Proof. unfold calc_value. ng_auto. Qed.
#[export] Hint Resolve ng_calc_value : ng_db.
Lemma ng_init_discount b c p : ng (init_discount b c p).
Proof. unfold init_discount. ng_auto. Qed.
#[export] Hint Resolve ng_init_discount : ng_db.

Lemma ng_price_low f r : feed_ng f -> ng (price_low f r).
Proof. intros (_ & ? & _ & ? & _). destruct r; assumption. Qed.
Lemma ng_price_high f r : feed_ng f -> ng (price_high f r).
Proof. intros (_ & _ & ? & _ & ?). destruct r; assumption. Qed.

Lemma ng_weighted_asset_value p r em : feed_ng (ps_feed p) -> ng (weighted_asset_value p r em).
Proof.
  intros Hf. pose proof Hf as (Hl & _). unfold weighted_asset_value.
  destruct (rc_tier (ps_cfg p) =? TIER_ISOLATED); [apply ng_ok|].
  destruct (_ && _); [apply ng_ok|].
  destruct (fd_load (ps_feed p)) as [u|e] eqn:El.
  - apply ng_bind; [apply ng_price_low; exact Hf | intros lp]. ng_auto.
  - destruct r, e; first [apply ng_ok | exact (ng_err_cast _ Hl)].
Qed.
Lemma ng_weighted_liab_value p r : feed_ng (ps_feed p) -> ng (weighted_liab_value p r).
Proof.
  intros Hf. pose proof Hf as (Hl & _). unfold weighted_liab_value.
  apply ng_bind; [exact Hl | intros _]. apply ng_bind; [apply ng_price_high; exact Hf | intros hp]. ng_auto.
Qed.
Lemma ng_weighted_value p r em : feed_ng (ps_feed p) -> ng (weighted_value p r em).
Proof.
  intros Hf. unfold weighted_value. apply ng_bind; [apply ng_get_side | intros sd].
  destruct sd as [[|]|]; [ | | apply ng_ok].
  - apply ng_bind; [apply ng_weighted_asset_value; exact Hf | intros [[v q] c]; apply ng_ok].
  - apply ng_bind; [apply ng_weighted_liab_value; exact Hf | intros [v q]; apply ng_ok].
Qed.
Lemma ng_health_sum ps : Forall (fun p => feed_ng (ps_feed p)) ps -> forall r em a l, ng (health_sum ps r em a l).
Proof.
  induction 1 as [|p rest Hp _ IH]; intros; cbn [health_sum]; [apply ng_ok|].
  apply ng_bind; [apply ng_weighted_value; exact Hp | intros [[av lv] c]].
  apply ng_bind; [ng_auto | intros a']. apply ng_bind; [ng_auto | intros l']. apply IH.
Qed.

Lemma simple_mapM {A B} (f : A -> res B) l : (forall x, simple (f x)) -> simple (mapM f l).
Proof.
  intros Hf. induction l as [|x r IH]; cbn [mapM]; [apply simple_ok|].
  apply simple_bind; [apply Hf | intros y]. apply simple_bind; [exact IH | intros ys; apply simple_ok].
Qed.
Lemma simple_positions w la : simple (positions w la).
Proof.
  unfold positions. apply simple_mapM. intros bl. apply simple_bind; [apply simple_nth_res | intros; apply simple_ok].
Qed.

Lemma mapM_Forall {A B} (P : B -> Prop) (f : A -> res B) l :
  (forall x y, f x = Ok y -> P y) -> forall ys, mapM f l = Ok ys -> Forall P ys.
Proof.
  intros Hf. induction l as [|x r IH]; intros ys H; cbn [mapM] in H.
  - apply Ok_inj in H. subst. constructor.
  - apply bind_ok in H as (y & Hy & H). apply bind_ok in H as (ys0 & Hys & H). apply Ok_inj in H. subst ys.
    constructor; [eapply Hf; eauto | apply IH; assumption].
Qed.

Lemma positions_feeds w la ps : feeds_ng w -> positions w la = Ok ps -> Forall (fun p => feed_ng (ps_feed p)) ps.
Proof.
  intros Hw. unfold positions. apply mapM_Forall. intros bl p H.
  apply bind_ok in H as (hb & Hhb & H). apply Ok_inj in H. subst p. cbn [ps_feed].
  apply nth_res_ok in Hhb. unfold feeds_ng, feeds in Hw. rewrite Forall_forall in Hw. apply Hw.
  apply in_map. eapply nth_error_In; eauto.
Qed.

Lemma check_init_health_rejected ps :
  Forall (fun p => feed_ng (ps_feed p)) ps ->
  check_init_health ps = Err (E E_RiskEngineInitRejected) ->
  exists A L, health_components ps RqInitial = Ok (A, L) /\ A < L.
Proof.
  intros Hf H. unfold check_init_health in H.
  apply bind_err in H as [H | ([A L] & Hc & H)].
  { exfalso. exact (ng_health_sum _ Hf _ _ _ _ H). }
  exists A, L. split; [exact Hc|].
  apply bind_err in H as [H | (u & _ & H)].
  - unfold check in H. destruct (L <=? A) eqn:E; [discriminate | lia].
  - exfalso. revert H. apply ng_check. ne_err.
Qed.

Lemma init_health_check_rejected w ac :
  feeds_ng w -> init_health_check w ac = Err (E E_RiskEngineInitRejected) ->
  aflag ac ACCOUNT_IN_FLASHLOAN = false /\
  exists ps A L, positions w (ha_la ac) = Ok ps /\ health_components ps RqInitial = Ok (A, L) /\ A < L.
Proof.
  intros Hw H. unfold init_health_check in H.
  destruct (aflag ac ACCOUNT_IN_FLASHLOAN); [discriminate|]. split; [reflexivity|].
  apply bind_err in H as [H | (ps & Hp & H)].
  { exfalso. exact (simple_positions _ _ _ H). }
  destruct (check_init_health_rejected ps (positions_feeds _ _ _ Hw Hp) H) as (A & L & Hc & HAL).
  exists ps, A, L. repeat split; assumption.
Qed.

Lemma ng_borrow_effects w a b n : ng (borrow_effects w a b n).
Proof. unfold borrow_effects. ng_auto. Qed.
Lemma ng_withdraw_effects w a b n all : ng (withdraw_effects w a b n all).
Proof. unfold withdraw_effects. ng_auto. Qed.
Lemma ng_borrow_finish w w3 b : ng (borrow_finish w w3 b).
Proof. unfold borrow_finish. ng_auto. Qed.

Theorem borrow_gate_converse w a b n :
  feeds_ng w -> h_borrow w a b n = Err (E E_RiskEngineInitRejected) ->
  exists w3 ac3 ps A L, borrow_effects w a b n = Ok (w3, ac3) /\
    aflag ac3 ACCOUNT_IN_FLASHLOAN = false /\ positions w3 (ha_la ac3) = Ok ps /\
    health_components ps RqInitial = Ok (A, L) /\ A < L.
Proof.
  intros Hw H. rewrite h_borrow_split in H.
  apply bind_err in H as [H | ([w3 ac3] & He & H)].
  { exfalso. exact (ng_borrow_effects _ _ _ _ H). }
  apply bind_err in H as [H | (u & _ & H)].
  2: { exfalso. exact (ng_borrow_finish _ _ _ H). }
  assert (Hw3 : feeds_ng w3).
  { unfold feeds_ng. destruct (borrow_effects_facts _ _ _ _ _ _ He) as (_ & -> & _). exact Hw. }
  destruct (init_health_check_rejected _ _ Hw3 H) as (Hfl & ps & A & L & Hp & Hc & HAL).
  exists w3, ac3, ps, A, L. repeat split; assumption.
Qed.

Theorem withdraw_gate_converse w a b n all :
  feeds_ng w -> h_withdraw w a b n all = Err (E E_RiskEngineInitRejected) ->
  exists w3 ac3 ps A L, withdraw_effects w a b n all = Ok (w3, ac3) /\
    aflag ac3 ACCOUNT_IN_FLASHLOAN = false /\ positions w3 (ha_la ac3) = Ok ps /\
    health_components ps RqInitial = Ok (A, L) /\ A < L.
Proof.
  intros Hw H. rewrite h_withdraw_split in H.
  apply bind_err in H as [H | ([w3 ac3] & He & H)].
  { exfalso. exact (ng_withdraw_effects _ _ _ _ _ H). }
  apply bind_err in H as [H | (u & _ & H)]; [|discriminate].
  assert (Hw3 : feeds_ng w3).
  { unfold feeds_ng. destruct (withdraw_effects_facts _ _ _ _ _ _ _ He) as (_ & -> & _). exact Hw. }
  destruct (init_health_check_rejected _ _ Hw3 H) as (Hfl & ps & A & L & Hp & Hc & HAL).
  exists w3, ac3, ps, A, L. repeat split; assumption.
Qed.

(* never rejected for health while the recomputed components satisfy L <= A *)
Corollary borrow_not_rejected_when_healthy w a b n w3 ac3 ps A L :
  feeds_ng w -> borrow_effects w a b n = Ok (w3, ac3) -> positions w3 (ha_la ac3) = Ok ps ->
  health_components ps RqInitial = Ok (A, L) -> L <= A ->
  h_borrow w a b n <> Err (E E_RiskEngineInitRejected).
Proof.
  intros Hw He Hp Hc HLA H.
  destruct (borrow_gate_converse _ _ _ _ Hw H) as (w3' & ac3' & ps' & A' & L' & He' & _ & Hp' & Hc' & HAL).
  rewrite He in He'. apply pair_ok in He' as [<- <-]. rewrite Hp in Hp'. apply Ok_inj in Hp'. subst ps'.
  rewrite Hc in Hc'. apply pair_ok in Hc' as [<- <-]. lia.
Qed.
Corollary withdraw_not_rejected_when_healthy w a b n all w3 ac3 ps A L :
  feeds_ng w -> withdraw_effects w a b n all = Ok (w3, ac3) -> positions w3 (ha_la ac3) = Ok ps ->
  health_components ps RqInitial = Ok (A, L) -> L <= A ->
  h_withdraw w a b n all <> Err (E E_RiskEngineInitRejected).
Proof.
  intros Hw He Hp Hc HLA H.
  destruct (withdraw_gate_converse _ _ _ _ _ Hw H) as (w3' & ac3' & ps' & A' & L' & He' & _ & Hp' & Hc' & HAL).
  rewrite He in He'. apply pair_ok in He' as [<- <-]. rewrite Hp in Hp'. apply Ok_inj in Hp'. subst ps'.
  rewrite Hc in Hc'. apply pair_ok in Hc' as [<- <-]. lia.
Qed.

(* ================================================================================================
   Part 2 — what the engine computes *)

(* ---------------------------------------------------------------- "empty" and the isolated tier *)
(* a liability counts when the position holds at least 1.0 liability shares (Balance::is_empty
   compares shares with EMPTY_BALANCE_THRESHOLD = 1) *)
Lemma liab_nonempty_iff bl : liab_nonempty bl = true <-> 1 * 2^48 <= bl_l bl.
Proof. unfold liab_nonempty. change EMPTY_BALANCE_THRESHOLD with (1 * 2^48). lia. Qed.
Lemma asset_nonempty_iff bl : asset_nonempty bl = true <-> 1 * 2^48 <= bl_a bl.
Proof. unfold asset_nonempty. change EMPTY_BALANCE_THRESHOLD with (1 * 2^48). lia. Qed.

Definition liabs_of (ps : list rpos) : list rpos := filter (fun p => liab_nonempty (ps_bal p)) ps.

Lemma length_zero_filter {A} (f : A -> bool) l : length (filter f l) = 0%nat -> forall x, In x l -> f x = false.
Proof.
  induction l as [|y r IH]; cbn [filter]; intros H x Hx; [destruct Hx|].
  destruct (f y) eqn:E; [discriminate|]. destruct Hx as [<-|Hx]; [exact E | apply IH; assumption].
Qed.

(* an active isolated-tier liability is the only non-empty liability of the account *)
Theorem risk_tiers_ok_iff ps :
  risk_tiers_ok ps = true <->
  (forall p, In p (liabs_of ps) -> rc_tier (ps_cfg p) = TIER_ISOLATED -> liabs_of ps = [p]).
Proof.
  unfold risk_tiers_ok. fold (liabs_of ps). set (ls := liabs_of ps). split.
  - intros H p Hp Hiso. apply orb_true_iff in H as [H|H].
    + apply Nat.eqb_eq in H. pose proof (length_zero_filter _ _ H p Hp) as F. cbn beta in F. lia.
    + apply Nat.eqb_eq in H. destruct ls as [|q [|q' r]]; cbn [length] in H; try discriminate.
      destruct Hp as [->|[]]. reflexivity.
  - intros H. apply orb_true_iff.
    destruct (filter (fun p => rc_tier (ps_cfg p) =? TIER_ISOLATED) ls) as [|p r] eqn:E; [left; reflexivity|].
    right. assert (Hin : In p (filter (fun p => rc_tier (ps_cfg p) =? TIER_ISOLATED) ls)) by (rewrite E; left; reflexivity).
    apply filter_In in Hin as [Hin Hiso]. rewrite (H p Hin ltac:(lia)). reflexivity.
Qed.

(* ---------------------------------------------------------------- the totals are sums *)
Fixpoint zsum (l : list Z) : Z := match l with [] => 0 | x :: r => x + zsum r end.

Theorem health_sum_is_sum ps : forall r em a l A L,
  health_sum ps r em a l = Ok (A, L) ->
  exists vs : list (fx * fx * Z),
    Forall2 (fun p v => weighted_value p r em = Ok v) ps vs /\
    A = a + zsum (map (fun v => fst (fst v)) vs) /\ L = l + zsum (map (fun v => snd (fst v)) vs).
Proof.
  induction ps as [|p rest IH]; intros r em a l A L H; cbn [health_sum] in H.
  - apply pair_ok in H as [<- <-]. exists []. split; [constructor|]. cbn. lia.
  - apply bind_ok in H as ([[av lv] c] & Hv & H).
    apply bind_ok in H as (a' & Ha & H). apply math_ok, cadd_inv in Ha as [-> _].
    apply bind_ok in H as (l' & Hl & H). apply math_ok, cadd_inv in Hl as [-> _].
    destruct (IH _ _ _ _ _ _ H) as (vs & HF & -> & ->).
    exists ((av, lv, c) :: vs). split; [constructor; assumption|]. cbn [map zsum fst snd]. lia.
Qed.

Corollary health_components_is_sum ps r A L :
  health_components ps r = Ok (A, L) ->
  exists vs : list (fx * fx * Z),
    Forall2 (fun p v => weighted_value p r (engine_emode ps) = Ok v) ps vs /\
    A = zsum (map (fun v => fst (fst v)) vs) /\ L = zsum (map (fun v => snd (fst v)) vs).
Proof.
  unfold health_components. intros H. apply health_sum_is_sum in H as (vs & HF & -> & ->).
  exists vs. repeat split; try assumption; lia.
Qed.

(* one position contributes to exactly one side: a non-empty liability as a liability, otherwise a
   non-empty asset as an asset, otherwise nothing *)
Theorem weighted_value_sides p r em av lv c :
  weighted_value p r em = Ok (av, lv, c) ->
  (liab_nonempty (ps_bal p) = true /\ asset_nonempty (ps_bal p) = false /\ av = 0 /\ c = 0 /\
     exists hp, weighted_liab_value p r = Ok (lv, hp)) \/
  (liab_nonempty (ps_bal p) = false /\ asset_nonempty (ps_bal p) = true /\ lv = 0 /\
     exists lp, weighted_asset_value p r em = Ok (av, lp, c)) \/
  (liab_nonempty (ps_bal p) = false /\ asset_nonempty (ps_bal p) = false /\ av = 0 /\ lv = 0 /\ c = 0).
Proof.
  unfold weighted_value, get_side, liab_nonempty, asset_nonempty. intros H.
  apply bind_ok in H as (sd & Hs & H). apply bind_ok in Hs as (u & Hu & Hs). apply assert_ok in Hu.
  destruct (EMPTY_BALANCE_THRESHOLD <=? bl_l (ps_bal p)) eqn:El.
  - apply Ok_inj in Hs. subst sd. left.
    apply bind_ok in H as ([v hp] & Hv & H). apply Ok_inj in H. inversion H; subst.
    repeat split; try lia. exists hp. exact Hv.
  - destruct (EMPTY_BALANCE_THRESHOLD <=? bl_a (ps_bal p)) eqn:Ea; apply Ok_inj in Hs; subst sd.
    + right; left. apply bind_ok in H as ([[v lp] c'] & Hv & H). apply Ok_inj in H. inversion H; subst.
      repeat split. exists lp. exact Hv.
    + right; right. apply Ok_inj in H. inversion H; subst. repeat split.
Qed.

(* liabilities: liability amount x liability weight of the requirement x HIGH-biased price
   (time-weighted for the initial requirement), an unusable oracle is an error *)
Theorem weighted_liab_value_spec p r v hp :
  weighted_liab_value p r = Ok (v, hp) ->
  fd_load (ps_feed p) = Ok tt /\ price_high (ps_feed p) r = Ok hp /\
  exists amt, get_liability_amount (ps_bank p) (bl_l (ps_bal p)) = Ok amt /\
    calc_value amt hp (balance_decimals (ps_bank p)) (Some (get_weight (ps_cfg p) r SLiabs)) = Ok v.
Proof.
  unfold weighted_liab_value. intros H.
  apply bind_ok in H as (u & Hu & H). destruct u. apply bind_ok in H as (hp' & Hhp & H).
  apply bind_ok in H as (amt & Ha & H). apply bind_ok in H as (v' & Hv & H). apply pair_ok in H as [<- <-].
  repeat split; try assumption. exists amt. split; assumption.
Qed.
Lemma price_high_initial f : price_high f RqInitial = fd_high_tw f. Proof. reflexivity. Qed.
Lemma price_low_initial f : price_low f RqInitial = fd_low_tw f. Proof. reflexivity. Qed.
Lemma price_high_maint f : price_high f RqMaint = fd_high_rt f. Proof. reflexivity. Qed.
Lemma price_low_maint f : price_low f RqMaint = fd_low_rt f. Proof. reflexivity. Qed.
Lemma weight_initial c : get_weight c RqInitial SAssets = rc_awi c /\ get_weight c RqInitial SLiabs = rc_lwi c.
Proof. split; reflexivity. Qed.
Lemma weight_maint c : get_weight c RqMaint SAssets = rc_awm c /\ get_weight c RqMaint SLiabs = rc_lwm c.
Proof. split; reflexivity. Qed.

(* the asset weight for the initial requirement: the larger of the bank's own init weight and the
   reconciled e-mode init weight for the bank's tag (if any), times the init-limit discount (if any) *)
Definition asset_weight_init (p : rpos) (em : list rentry) (lp : fx) : res fx :=
  let c := ps_cfg p in
  let w0 := match find_with_tag em (rc_emode_tag c) with
            | Some e => Z.max (rc_awi c) (re_wi e)
            | None => rc_awi c end in
  let* d := init_discount (ps_bank p) c lp in
  match d with Some d => math (cmul w0 d) | None => Ok w0 end.

(* assets for the initial requirement: 0 for isolated-tier banks, 0 for reduce-only banks, 0 with the
   oracle's error code kept when the oracle cannot be loaded; otherwise asset amount x weight x
   LOW-biased time-weighted price *)
Theorem weighted_asset_value_initial_spec p em v lp c :
  weighted_asset_value p RqInitial em = Ok (v, lp, c) ->
  (rc_tier (ps_cfg p) = TIER_ISOLATED /\ v = 0 /\ c = 0) \/
  (rc_tier (ps_cfg p) <> TIER_ISOLATED /\ b_op_state (ps_bank p) = OP_REDUCE_ONLY /\ v = 0 /\ c = 0) \/
  (rc_tier (ps_cfg p) <> TIER_ISOLATED /\ b_op_state (ps_bank p) <> OP_REDUCE_ONLY /\
     fd_load (ps_feed p) = Err (E c) /\ v = 0) \/
  (rc_tier (ps_cfg p) <> TIER_ISOLATED /\ b_op_state (ps_bank p) <> OP_REDUCE_ONLY /\ c = 0 /\
     fd_load (ps_feed p) = Ok tt /\ fd_low_tw (ps_feed p) = Ok lp /\
     exists w amt, asset_weight_init p em lp = Ok w /\
       get_asset_amount (ps_bank p) (bl_a (ps_bal p)) = Ok amt /\
       calc_value amt lp (balance_decimals (ps_bank p)) (Some w) = Ok v).
Proof.
  unfold weighted_asset_value. intros H.
  destruct (rc_tier (ps_cfg p) =? TIER_ISOLATED) eqn:Et.
  { apply Ok_inj in H. inversion H; subst. left. repeat split. lia. }
  right. destruct (b_op_state (ps_bank p) =? OP_REDUCE_ONLY) eqn:Eo; cbn [andb] in H.
  { apply Ok_inj in H. inversion H; subst. left. repeat split; lia. }
  right. destruct (fd_load (ps_feed p)) as [u|e] eqn:El.
  - right. destruct u. cbn [price_low] in H.
    apply bind_ok in H as (lp' & Hlp & H). apply bind_ok in H as (w & Hw & H).
    apply bind_ok in H as (amt & Ha & H). apply bind_ok in H as (v' & Hv & H).
    apply Ok_inj in H. inversion H; subst.
    repeat split; try lia; try assumption. exists w, amt. split; [|split; assumption].
    unfold asset_weight_init. cbn [get_weight] in Hw.
    apply bind_ok in Hw as (d & Hd & Hw). rewrite Hd. cbn [bind].
    destruct (find_with_tag em (rc_emode_tag (ps_cfg p))); exact Hw.
  - left. destruct e as [| |code]; try discriminate. apply Ok_inj in H. inversion H; subst.
    repeat split; lia.
Qed.

(* the init-limit discount: total_asset_value_init_limit / (bank's total deposits valued at the
   same price, unweighted) when that value exceeds the limit *)
Theorem init_discount_spec b c price d :
  init_discount b c price = Ok d ->
  (rc_tavil c = 0 /\ d = None) \/
  (rc_tavil c <> 0 /\ exists ta tv, get_asset_amount b (b_tas b) = Ok ta /\
     calc_value ta price (balance_decimals b) None = Ok tv /\
     ((tv <= of_int (rc_tavil c) /\ d = None) \/
      (of_int (rc_tavil c) < tv /\ exists q, cdiv (of_int (rc_tavil c)) tv = Ok q /\ d = Some q))).
Proof.
  unfold init_discount. change TOTAL_ASSET_VALUE_INIT_LIMIT_INACTIVE with 0. intros H.
  destruct (rc_tavil c =? 0) eqn:E0.
  { apply Ok_inj in H. left. split; [lia | auto]. }
  right. split; [lia|]. apply bind_ok in H as (ta & Hta & H). apply bind_ok in H as (tv & Htv & H).
  exists ta, tv. split; [exact Hta|]. split; [exact Htv|].
  destruct (of_int (rc_tavil c) <? tv) eqn:El.
  - right. apply bind_ok in H as (q & Hq & H). apply math_ok in Hq. apply Ok_inj in H.
    split; [lia|]. exists q. split; [exact Hq | auto].
  - left. apply Ok_inj in H. split; [lia | auto].
Qed.

(* ---------------------------------------------------------------- valuation arithmetic *)
Lemma exp10_fx_inv d sf : exp10_fx d = Ok sf -> 0 <= d < 24 /\ sf = 10 ^ d * ONE.
Proof.
  unfold exp10_fx. change (Z.of_nat (length EXP_10_I80F48)) with 24.
  destruct ((0 <=? d) && (d <? 24)) eqn:E; [|discriminate]. intros H. apply Ok_inj in H.
  split; [lia|]. subst sf. rewrite <- (Z2Nat.id d) at 2 by lia.
  assert (Hn : (Z.to_nat d < 24)%nat) by lia. revert Hn. generalize (Z.to_nat d). intros n Hn.
  do 24 (destruct n as [|n]; [reflexivity|]). lia.
Qed.

Lemma cdiv_inv_gen a b r : cdiv a b = Ok r -> b <> 0 /\ r = Z.quot (a * ONE) b.
Proof.
  unfold cdiv, div_raw. destruct (b =? 0) eqn:E; [discriminate|]. intros H.
  apply chko_inv in H as [-> _]. split; [lia | reflexivity].
Qed.

(* the three fixed-point steps of calc_value *)
Lemma calc_value_inv a p d w v :
  a <> 0 -> calc_value a p d (Some w) = Ok v ->
  0 <= d < 24 /\ v = Z.quot ((a * w / ONE) * p / ONE * ONE) (10 ^ d * ONE).
Proof.
  intros Ha. unfold calc_value. replace (a =? 0) with false by lia. intros H.
  apply bind_ok in H as (sf & Hsf & H). apply exp10_fx_inv in Hsf as [Hd ->].
  apply bind_ok in H as (wa & Hwa & H).
  destruct (cmul a w) as [x|] eqn:Ex; [|discriminate]. apply Ok_inj in Hwa. subst wa.
  apply cmul_inv in Ex as [-> _].
  apply bind_ok in H as (y & Hy & H). apply math_ok, cmul_inv in Hy as [-> _].
  apply math_ok, cdiv_inv_gen in H as [_ ->]. split; [exact Hd | reflexivity].
Qed.

Lemma pow10_pos d : 0 <= d -> 0 < 10 ^ d.
Proof. intros. apply Z.pow_pos_nonneg; lia. Qed.

(* distance between calc_value and the exact rational amount*weight*price/10^dec: the result never
   exceeds it and falls short of it by less than 1 + (1 + price)/10^dec units in the last place
   (one floor per step). All quantities raw I80F48 bits: exact value = a*w*p / (2^48 * 10^d * 2^48). *)
Theorem calc_value_bound a p d w v :
  0 <= a -> 0 <= w -> 0 <= p -> calc_value a p d (Some w) = Ok v ->
  0 <= v /\
  v * (10 ^ d * 2^48) * 2^48 <= a * w * p /\
  a * w * p < (v + 1) * (10 ^ d * 2^48) * 2^48 + 2^48 * 2^48 + 2^48 * p.
Proof.
  intros Ha Hw Hp H. change (2^48) with ONE. pose proof ONE_pos as HO.
  destruct (Z.eq_dec a 0) as [->|Hne].
  { unfold calc_value in H. cbn [Z.eqb] in H. apply Ok_inj in H. subst v.
    assert (0 <= d \/ d < 0) as [Hd|Hd] by lia.
    - pose proof (pow10_pos d Hd). nia.
    - rewrite Z.pow_neg_r by lia. nia. }
  apply calc_value_inv in H as [Hd ->]; [|exact Hne].
  pose proof (pow10_pos d ltac:(lia)) as H10.
  set (x1 := a * w / ONE). set (x2 := x1 * p / ONE). set (sf := 10 ^ d * ONE).
  assert (Hsf : 0 < sf) by (unfold sf; nia).
  assert (Hx1 : 0 <= x1) by (unfold x1; apply Z.div_pos; nia).
  assert (Hx2 : 0 <= x2) by (unfold x2; apply Z.div_pos; nia).
  rewrite Z.quot_div_nonneg by nia.
  pose proof (Z.div_mod (a * w) ONE ltac:(lia)) as D1. pose proof (Z.mod_pos_bound (a * w) ONE HO) as M1. fold x1 in D1.
  pose proof (Z.div_mod (x1 * p) ONE ltac:(lia)) as D2. pose proof (Z.mod_pos_bound (x1 * p) ONE HO) as M2. fold x2 in D2.
  pose proof (Z.div_mod (x2 * ONE) sf ltac:(lia)) as D3. pose proof (Z.mod_pos_bound (x2 * ONE) sf Hsf) as M3.
  set (v := x2 * ONE / sf) in *.
  assert (Hv : 0 <= v) by (unfold v; apply Z.div_pos; nia).
  split; [exact Hv|]. split.
  - (* v*sf <= x2*ONE ; x2*ONE <= x1*p ; x1*ONE <= a*w *)
    assert (v * sf <= x2 * ONE) by lia. assert (x2 * ONE <= x1 * p) by lia. assert (x1 * ONE <= a * w) by lia.
    assert (v * sf * ONE <= x1 * p * ONE) by nia. nia.
  - assert (x2 * ONE < (v + 1) * sf) by lia. assert (x1 * p < (x2 + 1) * ONE) by lia. assert (a * w < (x1 + 1) * ONE) by lia.
    assert (a * w * p <= (x1 + 1) * ONE * p) by nia.
    assert (x1 * p * ONE < (x2 + 1) * ONE * ONE) by nia.
    assert (x2 * ONE * ONE < (v + 1) * sf * ONE) by nia. nia.
Qed.

(* monotone in the price (any sign), in the weight and in the amount *)
Theorem calc_value_mono_price a p p' d w v v' :
  0 <= a -> 0 <= w -> p <= p' ->
  calc_value a p d (Some w) = Ok v -> calc_value a p' d (Some w) = Ok v' -> v <= v'.
Proof.
  intros Ha Hw Hp H H'. pose proof ONE_pos as HO.
  destruct (Z.eq_dec a 0) as [->|Hne].
  { unfold calc_value in H, H'. cbn [Z.eqb] in H, H'. apply Ok_inj in H. apply Ok_inj in H'. lia. }
  apply calc_value_inv in H as [Hd ->]; [|exact Hne]. apply calc_value_inv in H' as [_ ->]; [|exact Hne].
  pose proof (pow10_pos d ltac:(lia)) as H10.
  assert (Hx1 : 0 <= a * w / ONE) by (apply Z.div_pos; nia).
  apply Z.quot_le_mono; [nia|]. apply Z.mul_le_mono_nonneg_r; [lia|]. apply Z.div_le_mono; [lia|]. nia.
Qed.

Theorem calc_value_mono_weight a p d w w' v v' :
  0 <= a -> 0 <= p -> w <= w' ->
  calc_value a p d (Some w) = Ok v -> calc_value a p d (Some w') = Ok v' -> v <= v'.
Proof.
  intros Ha Hp Hw H H'. pose proof ONE_pos as HO.
  destruct (Z.eq_dec a 0) as [->|Hne].
  { unfold calc_value in H, H'. cbn [Z.eqb] in H, H'. apply Ok_inj in H. apply Ok_inj in H'. lia. }
  apply calc_value_inv in H as [Hd ->]; [|exact Hne]. apply calc_value_inv in H' as [_ ->]; [|exact Hne].
  pose proof (pow10_pos d ltac:(lia)) as H10.
  assert (Hx : a * w / ONE <= a * w' / ONE) by (apply Z.div_le_mono; [lia|nia]).
  apply Z.quot_le_mono; [nia|]. apply Z.mul_le_mono_nonneg_r; [lia|]. apply Z.div_le_mono; [lia|]. nia.
Qed.

Theorem calc_value_mono_amount a a' p d w v v' :
  0 <= a <= a' -> 0 <= p -> 0 <= w ->
  calc_value a p d (Some w) = Ok v -> calc_value a' p d (Some w) = Ok v' -> v <= v'.
Proof.
  intros Ha Hp Hw H H'. pose proof ONE_pos as HO.
  assert (Ha' : 0 <= a') by lia.
  destruct (calc_value_bound _ _ _ _ _ Ha' Hw Hp H') as [Hv' _].
  destruct (Z.eq_dec a 0) as [->|Hne].
  { unfold calc_value in H. cbn [Z.eqb] in H. apply Ok_inj in H. lia. }
  apply calc_value_inv in H as [Hd ->]; [|exact Hne]. apply calc_value_inv in H' as [_ ->]; [|lia].
  pose proof (pow10_pos d ltac:(lia)) as H10.
  assert (Hx : a * w / ONE <= a' * w / ONE) by (apply Z.div_le_mono; [lia|nia]).
  assert (Hx0 : 0 <= a * w / ONE) by (apply Z.div_pos; nia).
  apply Z.quot_le_mono; [nia|]. apply Z.mul_le_mono_nonneg_r; [lia|]. apply Z.div_le_mono; [lia|]. nia.
Qed.

(* the gate is conservative: when the feed's low price is at most its high price, a collateral
   position is valued no higher than the same amount and weight at the high price *)
Corollary low_bias_is_conservative a lo hi d w v v' :
  0 <= a -> 0 <= w -> lo <= hi ->
  calc_value a lo d (Some w) = Ok v -> calc_value a hi d (Some w) = Ok v' -> v <= v'.
Proof. apply calc_value_mono_price. Qed.

(* ---------------------------------------------------------------- packaged statements for props/C04.v *)
Lemma nonempty_means_one_unit bl :
  (liab_nonempty bl = true <-> 1 * 2^48 <= bl_l bl) /\ (asset_nonempty bl = true <-> 1 * 2^48 <= bl_a bl).
Proof. split; [apply liab_nonempty_iff | apply asset_nonempty_iff]. Qed.

Lemma handlers_split w a b n all :
  h_borrow w a b n = (let* (w3, ac3) := borrow_effects w a b n in
                      let* _ := init_health_check w3 ac3 in borrow_finish w w3 b) /\
  h_withdraw w a b n all = (let* (w3, ac3) := withdraw_effects w a b n all in
                            let* _ := init_health_check w3 ac3 in Ok w3).
Proof. split; [apply h_borrow_split | apply h_withdraw_split]. Qed.

Lemma never_rejected_while_healthy w a b n all w3 ac3 ps A L :
  feeds_ng w -> positions w3 (ha_la ac3) = Ok ps -> health_components ps RqInitial = Ok (A, L) -> L <= A ->
  (borrow_effects w a b n = Ok (w3, ac3) -> h_borrow w a b n <> Err (E 6009)) /\
  (withdraw_effects w a b n all = Ok (w3, ac3) -> h_withdraw w a b n all <> Err (E 6009)).
Proof.
  intros Hw Hp Hc HLA. split; intros He.
  - exact (borrow_not_rejected_when_healthy _ _ _ _ _ _ _ _ _ Hw He Hp Hc HLA).
  - exact (withdraw_not_rejected_when_healthy _ _ _ _ _ _ _ _ _ _ Hw He Hp Hc HLA).
Qed.

Lemma liability_value_initial p v hp :
  weighted_liab_value p RqInitial = Ok (v, hp) ->
  fd_load (ps_feed p) = Ok tt /\ fd_high_tw (ps_feed p) = Ok hp /\
  exists amt, get_liability_amount (ps_bank p) (bl_l (ps_bal p)) = Ok amt /\
    calc_value amt hp (balance_decimals (ps_bank p)) (Some (rc_lwi (ps_cfg p))) = Ok v.
Proof. intros H. exact (weighted_liab_value_spec p RqInitial v hp H). Qed.

Lemma emode_is_reconciled_over_borrowing_banks ps :
  engine_emode ps = reconcile_emode (map (fun p => rc_emode (ps_cfg p)) (liabs_of ps)).
Proof. reflexivity. Qed.

Lemma value_monotone a p p' d w w' v v' :
  0 <= a ->
  (0 <= w -> p <= p' -> calc_value a p d (Some w) = Ok v -> calc_value a p' d (Some w) = Ok v' -> v <= v') /\
  (0 <= p -> w <= w' -> calc_value a p d (Some w) = Ok v -> calc_value a p d (Some w') = Ok v' -> v <= v').
Proof.
  intros Ha. split.
  - intros Hw Hp. exact (calc_value_mono_price a p p' d w v v' Ha Hw Hp).
  - intros Hp Hw. exact (calc_value_mono_weight a p d w w' v v' Ha Hp Hw).
Qed.
