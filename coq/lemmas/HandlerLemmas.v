(* HandlerLemmas.v — facts about the instruction-handler model (Handlers.v): fee collection (C19),
   emissions (C19), liquidation (C05), bankruptcy (C07), risk gate (C04), freshness (C06). *)
Require Import Base Constants Fixed Curve Bank BankOps Risk TransferFee Handlers FixedLemmas BankLemmas.
From Coq Require Import ZifyBool.
Local Open Scope Z_scope.

Ltac inv_binds H :=
  repeat (let x := fresh "x" in let Hx := fresh "Hx" in apply bind_ok in H as (x & Hx & H)).

Lemma nth_set_nth_same {A} (l : list A) n v x : nth_error l n = Some x -> nth_error (set_nth n v l) n = Some v.
Proof.
  revert n; induction l as [|a l IH]; intros [|n] H; cbn in *; try discriminate; auto.
Qed.

Lemma nth_res_ok {A} n (l : list A) x : nth_res n l = Ok x -> nth_error l n = Some x.
Proof. unfold nth_res. destruct (nth_error l n); intros H; [apply Ok_inj in H; subst; auto | discriminate]. Qed.

Lemma put_hbank_get w b hb hb0 : nth_bank w b = Ok hb0 -> nth_bank (put_hbank w b hb) b = Ok hb.
Proof.
  unfold nth_bank, put_hbank. cbn [hw_banks]. intros H. apply nth_res_ok in H.
  unfold nth_res. rewrite (nth_set_nth_same _ _ _ _ H). reflexivity.
Qed.

(* ---------------------------------------------------------------- C19: fee collection *)
(* fint x = whole-token part of x *)
Lemma fint_le x : fint x <= x /\ x - fint x < ONE /\ fint x mod ONE = 0.
Proof.
  unfold fint, ffloor_raw. pose proof ONE_pos. pose proof (Z.div_mod x ONE ltac:(lia)).
  pose proof (Z.mod_pos_bound x ONE ltac:(lia)). repeat split; try lia.
  rewrite Z.mod_mul; lia.
Qed.

Lemma collect_fees_inv w b w' hb :
  nth_bank w b = Ok hb -> h_collect_fees w b = Ok w' ->
  exists hb', nth_bank w' b = Ok hb' /\
  let bk := hb_b hb in let bk' := hb_b hb' in
  let avail0 := of_int (hb_vault hb) in
  let mi := fint (fmin (b_ins bk) avail0) in
  let mg := fint (fmin (b_grp bk) (avail0 - mi)) in
  let mp := fint (fmin (b_prog bk) (avail0 - mi - mg)) in
  b_ins bk' = b_ins bk - mi /\ b_grp bk' = b_grp bk - mg /\ b_prog bk' = b_prog bk - mp /\
  hb_vault hb' * ONE = hb_vault hb * ONE - (mi + mg + mp) /\
  (exists fi fg fp, tfee hb (mi / ONE) = Ok fi /\ tfee hb (mg / ONE) = Ok fg /\ tfee hb (mp / ONE) = Ok fp /\
     hb_insv hb' = hb_insv hb + mi / ONE - fi /\
     hb_feev hb' = hb_feev hb + mg / ONE - fg /\
     hb_feeata hb' = hb_feeata hb + mp / ONE - fp) /\
  b_tas bk' = b_tas bk /\ b_tls bk' = b_tls bk /\ b_asv bk' = b_asv bk /\ b_lsv bk' = b_lsv bk.
Proof.
  intros Hb H. unfold h_collect_fees in H. rewrite Hb in H. cbn [bind] in H.
  apply bind_ok in H as (ins_new & H1 & H). apply math_ok, csub_inv in H1 as [H1 _].
  apply bind_ok in H as (avail1 & H2 & H). apply math_ok, csub_inv in H2 as [H2 _].
  apply bind_ok in H as (grp_new & H3 & H). apply math_ok, csub_inv in H3 as [H3 _].
  apply bind_ok in H as (avail2 & H4 & H). apply math_ok, csub_inv in H4 as [H4 _].
  apply bind_ok in H as (u1 & _ & H).
  apply bind_ok in H as (grp_n & H5 & H). apply math_ok, to_u64_inv in H5 as [H5 _].
  apply bind_ok in H as (ins_n & H6 & H). apply math_ok, to_u64_inv in H6 as [H6 _].
  apply bind_ok in H as (prog_new & H7 & H). apply math_ok, csub_inv in H7 as [H7 _].
  apply bind_ok in H as (avail3 & H8 & H). apply math_ok, csub_inv in H8 as [H8 _].
  apply bind_ok in H as (u2 & _ & H).
  apply bind_ok in H as (prog_n & H9 & H). apply math_ok, to_u64_inv in H9 as [H9 _].
  apply bind_ok in H as (u3 & _ & H). apply bind_ok in H as (f1 & F1 & H).
  apply bind_ok in H as (u4 & _ & H). apply bind_ok in H as (f2 & F2 & H).
  apply bind_ok in H as (u5 & _ & H). apply bind_ok in H as (f3 & F3 & H).
  apply Ok_inj in H. subst w'.
  eexists. split; [eapply put_hbank_get; eassumption|].
  cbn zeta. cbn [hb_b hb_vault hb_insv hb_feev hb_feeata set_hb_b set_hb_vault set_hb_insv set_hb_feev set_hb_feeata
                 b_ins b_grp b_prog b_tas b_tls b_asv b_lsv set_b_ins set_b_grp set_b_prog].
  subst avail1 avail2.
  set (mi := fint (fmin (b_ins (hb_b hb)) (of_int (hb_vault hb)))) in *.
  set (mg := fint (fmin (b_grp (hb_b hb)) (of_int (hb_vault hb) - mi))) in *.
  set (mp := fint (fmin (b_prog (hb_b hb)) (of_int (hb_vault hb) - mi - mg))) in *.
  pose proof ONE_pos as HO.
  pose proof (fint_le (fmin (b_ins (hb_b hb)) (of_int (hb_vault hb)))) as (_ & _ & Mi). fold mi in Mi.
  pose proof (fint_le (fmin (b_grp (hb_b hb)) (of_int (hb_vault hb) - mi))) as (_ & _ & Mg). fold mg in Mg.
  pose proof (fint_le (fmin (b_prog (hb_b hb)) (of_int (hb_vault hb) - mi - mg))) as (_ & _ & Mp). fold mp in Mp.
  assert (Ei : mi / ONE * ONE = mi) by (pose proof (Z.div_mod mi ONE ltac:(lia)); lia).
  assert (Eg : mg / ONE * ONE = mg) by (pose proof (Z.div_mod mg ONE ltac:(lia)); lia).
  assert (Ep : mp / ONE * ONE = mp) by (pose proof (Z.div_mod mp ONE ltac:(lia)); lia).
  repeat split; try lia; try reflexivity.
  exists f2, f1, f3. subst ins_n grp_n prog_n. repeat split; try assumption; lia.
Qed.

(* ---------------------------------------------------------------- C19: emissions *)
(* claim_emissions conserves emissions exactly: what a position is credited is taken from the
   bank's remaining amount, it is never more than that remaining amount, never negative when the
   computed emission is non-negative *)
Lemma claim_emissions_conserves b bl now b' bl' :
  claim_emissions b bl now = Ok (b', bl') ->
  b_em_rem b' + bl_em bl' = b_em_rem b + bl_em bl /\
  bl_em bl' - bl_em bl <= Z.max 0 (b_em_rem b) /\
  (0 <= b_em_rem b -> 0 <= b_em_rem b' \/ bl_em bl' <= bl_em bl).
Proof.
  unfold claim_emissions. intros H.
  apply bind_ok in H as (sd & _ & H). apply bind_ok in H as (amt & _ & H).
  destruct amt as [amount|].
  - apply bind_ok in H as (p & _ & H). apply bind_ok in H as (em & _ & H).
    apply bind_ok in H as (out & Ho & H). apply math_ok, cadd_inv in Ho as [-> _].
    apply bind_ok in H as (rem & Hr & H). apply math_ok, csub_inv in Hr as [-> _].
    apply pair_ok in H as [<- <-]. cbn. unfold fmin. repeat split; lia.
  - apply pair_ok in H as [<- <-]. cbn. repeat split; lia.
Qed.

(* settle: whole tokens paid out + fraction kept = outstanding; only the authority's position is debited *)
Lemma settle_emissions_exact b bl now b' bl' n :
  settle_emissions b bl now = Ok (b', bl', n) ->
  exists b1 bl1, claim_emissions b bl now = Ok (b1, bl1) /\ b' = b1 /\
  n * ONE + bl_em bl' = bl_em bl1 /\ 0 <= bl_em bl' < ONE /\ 0 <= n <= U64_MAX.
Proof.
  unfold settle_emissions. intros H.
  apply bind_ok in H as ([b1 bl1] & Hc & H).
  apply bind_ok in H as (fl & Hf & H). apply math_ok, cfloor_inv in Hf.
  apply bind_ok in H as (rest & Hr & H). apply math_ok, csub_inv in Hr as [-> _].
  apply bind_ok in H as (n0 & Hn & H). apply math_ok, to_u64_inv in Hn as [Hn Hnr].
  apply Ok_inj in H. inversion H; subst b' bl' n.
  exists b1, bl1. split; [exact Hc|]. split; [reflexivity|]. cbn [bl_em set_bl_em].
  pose proof ONE_pos. pose proof (Z.div_mod (bl_em bl1) ONE ltac:(lia)). pose proof (Z.mod_pos_bound (bl_em bl1) ONE ltac:(lia)).
  subst fl n0. rewrite Z.div_mul in * by lia. repeat split; lia.
Qed.

(* ---------------------------------------------------------------- frames: who can touch which vault *)
Definition side_vaults (w : hworld) : list (Z * Z * Z) :=
  map (fun hb => (hb_insv hb, hb_feev hb, hb_feeata hb)) (hw_banks w).

Lemma map_set_nth_same {A B} (f : A -> B) l n v x :
  nth_error l n = Some x -> f v = f x -> map f (set_nth n v l) = map f l.
Proof.
  revert n; induction l as [|a l IH]; intros [|n] H E; cbn in *; try discriminate; auto.
  - inversion H; subst. rewrite E. reflexivity.
  - f_equal. eapply IH; eauto.
Qed.

Lemma sv_put_hbank w b hb hb0 :
  nth_bank w b = Ok hb0 ->
  (hb_insv hb, hb_feev hb, hb_feeata hb) = (hb_insv hb0, hb_feev hb0, hb_feeata hb0) ->
  side_vaults (put_hbank w b hb) = side_vaults w.
Proof.
  intros H E. unfold side_vaults, put_hbank. cbn [hw_banks]. apply nth_res_ok in H.
  eapply map_set_nth_same; eauto.
Qed.
Lemma sv_put_hacct w a x : side_vaults (put_hacct w a x) = side_vaults w.
Proof. reflexivity. Qed.
Lemma sv_put_utok w a b v : side_vaults (put_utok w a b v) = side_vaults w.
Proof. unfold put_utok. destruct (nth_error (hw_utok w) a); reflexivity. Qed.

Lemma nth_bank_put_hacct w a x b : nth_bank (put_hacct w a x) b = nth_bank w b.
Proof. reflexivity. Qed.
Lemma nth_bank_put_utok w a b v k : nth_bank (put_utok w a b v) k = nth_bank w k.
Proof. unfold put_utok. destruct (nth_error (hw_utok w) a); reflexivity. Qed.

Lemma xfer_in_sv w a b n w' : xfer_in w a b n = Ok w' -> side_vaults w' = side_vaults w.
Proof.
  unfold xfer_in. intros H. inv_binds H. apply Ok_inj in H. subst w'.
  rewrite sv_put_utok. eapply sv_put_hbank; eauto.
Qed.
Lemma xfer_out_sv w a b n w' : xfer_out w a b n = Ok w' -> side_vaults w' = side_vaults w.
Proof.
  unfold xfer_out. intros H. inv_binds H. apply Ok_inj in H. subst w'.
  rewrite sv_put_utok. eapply sv_put_hbank; eauto.
Qed.

Lemma xfer_in_bank w a b n w' hb : xfer_in w a b n = Ok w' -> nth_bank w b = Ok hb ->
  exists hb', nth_bank w' b = Ok hb' /\ hb_b hb' = hb_b hb /\
              (hb_insv hb', hb_feev hb', hb_feeata hb') = (hb_insv hb, hb_feev hb, hb_feeata hb).
Proof.
  unfold xfer_in. intros H Hb. rewrite Hb in H. cbn [bind] in H. inv_binds H. apply Ok_inj in H. subst w'.
  eexists. rewrite nth_bank_put_utok. split; [eapply put_hbank_get; eauto|]. split; reflexivity.
Qed.
Lemma xfer_out_bank w a b n w' hb : xfer_out w a b n = Ok w' -> nth_bank w b = Ok hb ->
  exists hb', nth_bank w' b = Ok hb' /\ hb_b hb' = hb_b hb /\
              (hb_insv hb', hb_feev hb', hb_feeata hb') = (hb_insv hb, hb_feev hb, hb_feeata hb).
Proof.
  unfold xfer_out. intros H Hb. rewrite Hb in H. cbn [bind] in H. inv_binds H. apply Ok_inj in H. subst w'.
  eexists. rewrite nth_bank_put_utok. split; [eapply put_hbank_get; eauto|]. split; reflexivity.
Qed.

