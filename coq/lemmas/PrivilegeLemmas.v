(* PrivilegeLemmas.v — C12: frame conditions of the delegated-administrator instructions, the freeze,
   bit-mask algebra of the flag word (over all integers, hence all 64-bit words). *)
Require Import Base Constants ConfigGen PrivGen Fixed Curve Config Emode ConfigPaths Privilege FixedLemmas ConfigLemmas.
From Coq Require Import ZifyBool.
Local Open Scope Z_scope.

(* ---------------------------------------------------------------- bit-mask algebra *)
Lemma ldiff_lor_within f a m : Z.land a m = a -> Z.ldiff (Z.lor f a) m = Z.ldiff f m.
Proof.
  intros H. apply Z.bits_inj'. intros n Hn.
  rewrite !Z.ldiff_spec, Z.lor_spec.
  assert (Ha : Z.testbit a n = Z.testbit a n && Z.testbit m n) by (rewrite <- H at 1; apply Z.land_spec).
  destruct (Z.testbit f n), (Z.testbit a n), (Z.testbit m n); simpl in *; congruence.
Qed.

Lemma ldiff_ldiff_within f a m : Z.land a m = a -> Z.ldiff (Z.ldiff f a) m = Z.ldiff f m.
Proof.
  intros H. apply Z.bits_inj'. intros n Hn.
  rewrite !Z.ldiff_spec.
  assert (Ha : Z.testbit a n = Z.testbit a n && Z.testbit m n) by (rewrite <- H at 1; apply Z.land_spec).
  destruct (Z.testbit f n), (Z.testbit a n), (Z.testbit m n); simpl in *; congruence.
Qed.

Lemma ldiff_of_submask f m : Z.land f m = f -> Z.ldiff f m = 0.
Proof.
  intros H. apply Z.bits_inj'. intros n Hn.
  rewrite Z.ldiff_spec, Z.bits_0.
  assert (Ha : Z.testbit f n = Z.testbit f n && Z.testbit m n) by (rewrite <- H at 1; apply Z.land_spec).
  destruct (Z.testbit f n), (Z.testbit m n); simpl in *; congruence.
Qed.

Lemma land_lor_keeps f b a : Z.land f a = a -> Z.land (Z.lor f b) a = a.
Proof.
  intros H. apply Z.bits_inj'. intros n Hn.
  rewrite Z.land_spec, Z.lor_spec.
  assert (Ha : Z.testbit a n = Z.testbit f n && Z.testbit a n) by (rewrite <- H at 1; apply Z.land_spec).
  destruct (Z.testbit f n), (Z.testbit b n), (Z.testbit a n); simpl in *; congruence.
Qed.

Lemma land_ldiff_disjoint f b a : Z.land f a = a -> Z.land b a = 0 -> Z.land (Z.ldiff f b) a = a.
Proof.
  intros H H0. apply Z.bits_inj'. intros n Hn.
  rewrite Z.land_spec, Z.ldiff_spec.
  assert (Ha : Z.testbit a n = Z.testbit f n && Z.testbit a n) by (rewrite <- H at 1; apply Z.land_spec).
  assert (Hb : Z.testbit b n && Z.testbit a n = false) by (rewrite <- Z.land_spec, H0; apply Z.bits_0).
  destruct (Z.testbit f n), (Z.testbit b n), (Z.testbit a n); simpl in *; congruence.
Qed.

Lemma land_ldiff_self f a : Z.land (Z.ldiff f a) a = 0.
Proof.
  apply Z.bits_inj'. intros n Hn. rewrite Z.land_spec, Z.ldiff_spec, Z.bits_0.
  destruct (Z.testbit f n), (Z.testbit a n); reflexivity.
Qed.

Lemma flag_set_iff f a : flag_set f a = true <-> Z.land f a = a.
Proof. unfold flag_set. rewrite Z.eqb_eq. tauto. Qed.

Lemma flag_set_false_iff f a : flag_set f a = false <-> Z.land f a <> a.
Proof. unfold flag_set. rewrite Z.eqb_neq. tauto. Qed.

Lemma pb_frozen_iff b : pb_frozen b = true <-> Z.land (pb_flags b) FREEZE_SETTINGS = FREEZE_SETTINGS.
Proof. unfold pb_frozen, cb_get_flag, pb_flags. rewrite Z.eqb_eq. tauto. Qed.

(* the two emissions bits of a word and the rest of it determine the word *)
Lemma word_split f g m : Z.land f m = Z.land g m -> Z.ldiff f m = Z.ldiff g m -> f = g.
Proof.
  intros H1 H2. apply Z.bits_inj'. intros n Hn.
  assert (A : Z.testbit (Z.land f m) n = Z.testbit (Z.land g m) n) by (rewrite H1; reflexivity).
  assert (B : Z.testbit (Z.ldiff f m) n = Z.testbit (Z.ldiff g m) n) by (rewrite H2; reflexivity).
  rewrite !Z.land_spec in A. rewrite !Z.ldiff_spec in B.
  destruct (Z.testbit f n), (Z.testbit g n), (Z.testbit m n); simpl in *; congruence.
Qed.

(* ---------------------------------------------------------------- small tools *)
Lemma require_role_inv s want e u : require_role s want e = Ok u -> s = want.
Proof.
  unfold require_role. intros H. apply check_inv in H.
  destruct s, want; simpl in H; try discriminate; reflexivity.
Qed.

Lemma role_eqb_eq a b : role_eqb a b = true -> a = b.
Proof. destruct a, b; simpl; intros H; try discriminate; reflexivity. Qed.

Lemma lift_c_inv w r w' : lift_c w r = Ok w' -> exists c, r = Ok c /\ w' = set_bank w (with_c (px_bank w) c).
Proof.
  unfold lift_c. intros H. apply bind_ok in H as (c & Hc & H). apply Ok_inj in H. exists c. split; [exact Hc | symmetry; exact H].
Qed.

Lemma lift_b_inv w r w' : lift_b w r = Ok w' -> exists b, r = Ok b /\ w' = set_bank w b.
Proof.
  unfold lift_b. intros H. apply bind_ok in H as (b & Hb & H). apply Ok_inj in H. exists b. split; [exact Hb | symmetry; exact H].
Qed.

Lemma outside_set_bank w b : outside (set_bank w b) = outside w.
Proof. reflexivity. Qed.

(* ---------------------------------------------------------------- the C13 handlers: what they leave alone *)
Lemma interest_only_frame c io c' :
  ix_configure_interest_only c io = Ok c' ->
  cb_flags c' = cb_flags c /\ cb_emode c' = cb_emode c /\
  cfg_with_ir (cb_cfg c') dummy_ir 0 = cfg_with_ir (cb_cfg c) dummy_ir 0.
Proof.
  unfold ix_configure_interest_only. destruct (cb_get_flag c FREEZE_SETTINGS).
  - intros H. apply Ok_inj in H. subst c'. auto.
  - intros H. apply bind_ok in H as (u & _ & H). apply Ok_inj in H. subst c'. simpl. auto.
Qed.

Lemma interest_only_frozen c io c' :
  cb_get_flag c FREEZE_SETTINGS = true -> ix_configure_interest_only c io = Ok c' -> c' = c.
Proof. unfold ix_configure_interest_only. intros ->. intros H. apply Ok_inj in H. auto. Qed.

Lemma limits_only_frame c d b l c' :
  ix_configure_limits_only c d b l = Ok c' ->
  cb_flags c' = cb_flags c /\ cb_emode c' = cb_emode c /\
  cfg_with_limits (cb_cfg c') 0 0 0 = cfg_with_limits (cb_cfg c) 0 0 0.
Proof.
  unfold ix_configure_limits_only. destruct (cb_get_flag c FREEZE_SETTINGS);
    intros H; apply Ok_inj in H; subst c'; simpl; auto.
Qed.

Lemma limits_only_frozen c d b l c' :
  cb_get_flag c FREEZE_SETTINGS = true -> ix_configure_limits_only c d b l = Ok c' ->
  cb_flags c' = cb_flags c /\ cb_emode c' = cb_emode c /\
  cfg_with_limits (cb_cfg c') 0 0 (bc_init_limit (cb_cfg c')) = cfg_with_limits (cb_cfg c) 0 0 (bc_init_limit (cb_cfg c)).
Proof.
  unfold ix_configure_limits_only. intros ->. intros H. apply Ok_inj in H. subst c'. simpl. auto.
Qed.

Lemma configure_frozen g c o c' :
  cb_get_flag c FREEZE_SETTINGS = true -> ix_configure_bank g c o = Ok c' ->
  cb_flags c' = cb_flags c /\ cb_emode c' = cb_emode c /\
  cfg_with_limits (cb_cfg c') 0 0 (bc_init_limit (cb_cfg c')) = cfg_with_limits (cb_cfg c) 0 0 (bc_init_limit (cb_cfg c)).
Proof.
  unfold ix_configure_bank. intros ->. intros H. apply Ok_inj in H. subst c'.
  unfold bank_configure_unfrozen. simpl. auto.
Qed.

Lemma emode_frame g now c tag es c' :
  ix_configure_emode g now c tag es = Ok c' -> cb_cfg c' = cb_cfg c /\ cb_flags c' = cb_flags c.
Proof.
  unfold ix_configure_emode. intros H. apply bind_ok in H as (u & _ & H). apply Ok_inj in H. subst c'. simpl. auto.
Qed.

Lemma clone_frame g src c c' :
  ix_clone_emode g src c = Ok c' -> cb_cfg c' = cb_cfg c /\ cb_flags c' = cb_flags c.
Proof.
  unfold ix_clone_emode. intros H. apply bind_ok in H as (u & _ & H). apply Ok_inj in H. subst c'. simpl. auto.
Qed.

Lemma propagate_flags s oc c c' : ix_propagate_staked s oc c = Ok c' -> cb_flags c' = cb_flags c /\ cb_emode c' = cb_emode c.
Proof.
  unfold ix_propagate_staked. intros H.
  apply bind_ok in H as (u1 & _ & H). apply bind_ok in H as (u2 & _ & H). apply bind_ok in H as (u3 & _ & H).
  apply Ok_inj in H. subst c'. simpl. auto.
Qed.

(* Bank::update_flag touches the bits of `flag` only *)
Lemma update_flag_within flags v flag m f' :
  Z.land flag m = flag -> cb_update_flag flags v flag = Ok f' -> Z.ldiff f' m = Z.ldiff flags m.
Proof.
  unfold cb_update_flag. intros Hm. destruct (Z.land flag GROUP_FLAGS =? flag); [|discriminate].
  intros H. apply Ok_inj in H. subst f'. destruct v.
  - apply ldiff_lor_within. exact Hm.
  - apply ldiff_ldiff_within. exact Hm.
Qed.

Lemma update_flag_opt_within flags o flag m f' :
  Z.land flag m = flag -> cb_update_flag_opt flags o flag = Ok f' -> Z.ldiff f' m = Z.ldiff flags m.
Proof.
  unfold cb_update_flag_opt. destruct o as [v|].
  - apply update_flag_within.
  - intros _ H. apply Ok_inj in H. subst. reflexivity.
Qed.

Definition CONFIGURE_FLAGS : Z :=
  Z.lor (Z.lor PERMISSIONLESS_BAD_DEBT_SETTLEMENT_FLAG FREEZE_SETTINGS) TOKENLESS_REPAYMENTS_ALLOWED.

Lemma bank_configure_flags c o c' :
  bank_configure c o = Ok c' -> Z.ldiff (cb_flags c') CONFIGURE_FLAGS = Z.ldiff (cb_flags c) CONFIGURE_FLAGS /\ cb_emode c' = cb_emode c.
Proof.
  unfold bank_configure. intros H.
  apply bind_ok in H as (st & _ & H).
  apply bind_ok in H as (f1 & H1 & H). apply bind_ok in H as (f2 & H2 & H). apply bind_ok in H as (f3 & H3 & H).
  apply bind_ok in H as (u & _ & H). apply Ok_inj in H. subst c'. cbn [cb_flags cb_emode].
  apply (update_flag_opt_within _ _ _ CONFIGURE_FLAGS) in H1; [|reflexivity].
  apply (update_flag_opt_within _ _ _ CONFIGURE_FLAGS) in H2; [|reflexivity].
  apply (update_flag_opt_within _ _ _ CONFIGURE_FLAGS) in H3; [|reflexivity].
  split; [congruence | reflexivity].
Qed.

Lemma configure_bank_flags g c o c' :
  ix_configure_bank g c o = Ok c' -> Z.ldiff (cb_flags c') CONFIGURE_FLAGS = Z.ldiff (cb_flags c) CONFIGURE_FLAGS /\ cb_emode c' = cb_emode c.
Proof.
  unfold ix_configure_bank. destruct (cb_get_flag c FREEZE_SETTINGS).
  - intros H. apply Ok_inj in H. subst c'. unfold bank_configure_unfrozen. simpl. auto.
  - intros H. apply bind_ok in H as (b' & Hb & H). apply bind_ok in H as (u & _ & H). apply Ok_inj in H. subst c'.
    apply bank_configure_flags in Hb. exact Hb.
Qed.

(* ---------------------------------------------------------------- frame theorems, one per role *)
Theorem curve_admin_frame g signer w io w' :
  pstep g signer w (PInterestOnly io) = Ok w' ->
  signer = RCurveAdmin /\ erase_ir (px_bank w') = erase_ir (px_bank w) /\ outside w' = outside w.
Proof.
  unfold pstep. intros H. apply bind_ok in H as (u & Hr & H). apply require_role_inv in Hr.
  apply lift_c_inv in H as (c & Hc & ->). apply interest_only_frame in Hc as (Hf & He & Hcfg).
  split; [exact Hr|]. split; [|reflexivity].
  unfold erase_ir, set_bank, with_c. cbn [px_bank pb_c pb_osetup pb_fixed_price pb_em_rate pb_em_remaining pb_em_mint pb_rest].
  rewrite Hf, He, Hcfg. reflexivity.
Qed.

Theorem limit_admin_frame g signer w d b l w' :
  pstep g signer w (PLimitsOnly d b l) = Ok w' ->
  signer = RLimitAdmin /\ erase_limits (px_bank w') = erase_limits (px_bank w) /\ outside w' = outside w.
Proof.
  unfold pstep. intros H. apply bind_ok in H as (u & Hr & H). apply require_role_inv in Hr.
  apply lift_c_inv in H as (c & Hc & ->). apply limits_only_frame in Hc as (Hf & He & Hcfg).
  split; [exact Hr|]. split; [|reflexivity].
  unfold erase_limits, set_bank, with_c. cbn [px_bank pb_c pb_osetup pb_fixed_price pb_em_rate pb_em_remaining pb_em_mint pb_rest].
  rewrite Hf, He, Hcfg. reflexivity.
Qed.

Definition is_emode_ix (ix : pix) : bool :=
  match ix with PEmode _ _ _ | PCloneEmode _ => true | _ => false end.

Theorem emode_admin_frame g signer w ix w' :
  is_emode_ix ix = true -> pstep g signer w ix = Ok w' ->
  In signer (accepted_signers ix) /\ erase_emode (px_bank w') = erase_emode (px_bank w) /\ outside w' = outside w.
Proof.
  destruct ix; simpl; try discriminate; intros _ H.
  - unfold pstep in H. apply bind_ok in H as (u & Hr & H). apply require_role_inv in Hr.
    apply lift_c_inv in H as (c & Hc & ->). apply emode_frame in Hc as (Hcfg & Hf).
    split; [left; symmetry; exact Hr|]. split; [|reflexivity].
    unfold erase_emode, set_bank, with_c. cbn [px_bank pb_c pb_osetup pb_fixed_price pb_em_rate pb_em_remaining pb_em_mint pb_rest].
    rewrite Hf, Hcfg. reflexivity.
  - unfold pstep in H. apply bind_ok in H as (u & Hr & H). apply check_inv in Hr.
    apply lift_c_inv in H as (c & Hc & ->). apply clone_frame in Hc as (Hcfg & Hf).
    split.
    { apply Bool.orb_true_iff in Hr as [Hr|Hr]; apply role_eqb_eq in Hr; subst; simpl; auto. }
    split; [|reflexivity].
    unfold erase_emode, set_bank, with_c. cbn [px_bank pb_c pb_osetup pb_fixed_price pb_em_rate pb_em_remaining pb_em_mint pb_rest].
    rewrite Hf, Hcfg. reflexivity.
Qed.

Theorem metadata_admin_frame g signer w t d w' :
  pstep g signer w (PWriteMetadata t d) = Ok w' ->
  signer = RMetadataAdmin /\ px_bank w' = px_bank w /\ outside_metadata w' = outside_metadata w.
Proof.
  unfold pstep. intros H. apply bind_ok in H as (u & Hr & H). apply require_role_inv in Hr.
  apply bind_ok in H as (m & _ & H). apply Ok_inj in H. subst w'. auto.
Qed.

Theorem risk_admin_frame g signer w w' :
  pstep g signer w PForceTokenlessComplete = Ok w' ->
  signer = RRiskAdmin /\ erase_risk (px_bank w') = erase_risk (px_bank w) /\ outside w' = outside w /\
  (flag_set (pb_flags (px_bank w)) TOKENLESS_REPAYMENTS_ALLOWED = false -> px_bank w' = px_bank w).
Proof.
  unfold pstep. intros H. apply bind_ok in H as (u & Hr & H). apply require_role_inv in Hr.
  apply lift_b_inv in H as (b & Hb & ->). split; [exact Hr|].
  unfold ix_force_tokenless_complete in Hb.
  destruct (flag_set (pb_flags (px_bank w)) TOKENLESS_REPAYMENTS_ALLOWED) eqn:Ha.
  - apply bind_ok in Hb as (f & Hf & Hb). apply Ok_inj in Hb. subst b.
    apply (update_flag_within _ _ _ TOKENLESS_REPAYMENTS_COMPLETE) in Hf; [|reflexivity].
    split; [|split; [reflexivity | discriminate]].
    unfold erase_risk, erase_flag_bits, with_flags, with_c, pb_flags, set_bank.
    cbn [px_bank pb_c cb_flags cb_cfg cb_emode pb_osetup pb_fixed_price pb_em_rate pb_em_remaining pb_em_mint pb_rest].
    unfold pb_flags in Hf. rewrite Hf. reflexivity.
  - apply Ok_inj in Hb. subst b. destruct w; simpl. auto.
Qed.

(* emissions: rate, mint, remaining amount and the two emissions bits of the flag word *)
Lemma em_transfer_inv w a w' :
  em_transfer w a = Ok w' -> px_bank w' = px_bank w /\ outside_emissions w' = outside_emissions w.
Proof.
  unfold em_transfer. intros H. apply bind_ok in H as (u & _ & H). apply Ok_inj in H. subst w'. auto.
Qed.

Definition is_emissions_ix (ix : pix) : bool :=
  match ix with PSetupEmissions _ _ _ _ | PUpdateEmissions _ _ _ _ _ => true | _ => false end.

Lemma override_emissions_inv flags x f :
  override_emissions_flag flags x = Ok f ->
  Z.land x EMISSION_FLAGS = x /\ Z.ldiff f EMISSION_FLAGS = Z.ldiff flags EMISSION_FLAGS /\
  (forall a, Z.land EMISSION_FLAGS a = 0 -> Z.land flags a = a -> Z.land f a = a).
Proof.
  unfold override_emissions_flag. destruct (Z.land x EMISSION_FLAGS =? x) eqn:E; [|discriminate].
  intros H. apply Ok_inj in H. subst f. apply Z.eqb_eq in E. split; [exact E|]. split.
  - rewrite (ldiff_lor_within _ _ _ E). apply ldiff_ldiff_within. reflexivity.
  - intros a Ha Hf. apply land_lor_keeps. apply land_ldiff_disjoint; assumption.
Qed.

Lemma erase_emissions_intro b f' r rm mt :
  Z.ldiff f' EMISSION_FLAGS = Z.ldiff (pb_flags b) EMISSION_FLAGS ->
  erase_emissions (mkPB (mkCBank (cb_cfg (pb_c b)) f' (cb_emode (pb_c b))) (pb_osetup b) (pb_fixed_price b) r rm mt (pb_rest b))
  = erase_emissions b.
Proof.
  destruct b as [[c f e] os fp r0 rm0 mt0 rest].
  unfold erase_emissions, erase_emissions_fields, erase_flag_bits, with_flags, with_c, pb_flags.
  cbn [pb_c cb_flags cb_cfg cb_emode pb_osetup pb_fixed_price pb_em_rate pb_em_remaining pb_em_mint pb_rest].
  intros ->. reflexivity.
Qed.

(* what an emissions instruction does to the bank: the flag word keeps every non-emissions bit *)
Lemma emissions_ix_bank g signer w ix w' :
  is_emissions_ix ix = true -> pstep g signer w ix = Ok w' ->
  signer = REmissionsAdmin /\ outside_emissions w' = outside_emissions w /\
  exists f' r rm mt,
    px_bank w' = mkPB (mkCBank (cb_cfg (pb_c (px_bank w))) f' (cb_emode (pb_c (px_bank w)))) (pb_osetup (px_bank w))
                      (pb_fixed_price (px_bank w)) r rm mt (pb_rest (px_bank w)) /\
    Z.ldiff f' EMISSION_FLAGS = Z.ldiff (pb_flags (px_bank w)) EMISSION_FLAGS /\
    (forall a, Z.land EMISSION_FLAGS a = 0 -> Z.land (pb_flags (px_bank w)) a = a -> Z.land f' a = a).
Proof.
  destruct ix; simpl; try discriminate; intros _ H.
  - unfold pstep in H. apply bind_ok in H as (u & Hr & H). apply require_role_inv in Hr. split; [exact Hr|].
    unfold ix_setup_emissions in H.
    apply bind_ok in H as (u1 & _ & H). apply bind_ok in H as (f & Hf & H).
    apply em_transfer_inv in H as (Hb & Ho). split; [rewrite Ho; reflexivity|].
    apply override_emissions_inv in Hf as (_ & Hd & Hk).
    exists f, rate, (of_int total), mint. split; [rewrite Hb; reflexivity|]. split; assumption.
  - unfold pstep in H. apply bind_ok in H as (u0 & _ & H).
    apply bind_ok in H as (u & Hr & H). apply require_role_inv in Hr. split; [exact Hr|].
    unfold ix_update_emissions in H.
    apply bind_ok in H as (u1 & _ & H). apply bind_ok in H as (u2 & _ & H).
    apply bind_ok in H as (f & Hf & H).
    assert (Hfl : Z.ldiff f EMISSION_FLAGS = Z.ldiff (pb_flags (px_bank w)) EMISSION_FLAGS /\
                  (forall a, Z.land EMISSION_FLAGS a = 0 -> Z.land (pb_flags (px_bank w)) a = a -> Z.land f a = a)).
    { destruct oflags as [x|].
      - apply bind_ok in Hf as (u3 & _ & Hf). apply override_emissions_inv in Hf as (_ & Hd & Hk). split; assumption.
      - apply Ok_inj in Hf. subst f. split; [reflexivity | intros a _ Ha; exact Ha]. }
    destruct Hfl as (Hd & Hk).
    destruct oadd as [a|].
    + apply bind_ok in H as (rem & _ & H). apply em_transfer_inv in H as (Hb & Ho). split; [rewrite Ho; reflexivity|].
      eexists f, _, rem, _. split; [rewrite Hb; reflexivity|]. split; assumption.
    + apply Ok_inj in H. subst w'. split; [reflexivity|].
      eexists f, _, _, _. split; [reflexivity|]. split; assumption.
Qed.

Theorem emissions_admin_frame g signer w ix w' :
  is_emissions_ix ix = true -> pstep g signer w ix = Ok w' ->
  signer = REmissionsAdmin /\ erase_emissions (px_bank w') = erase_emissions (px_bank w) /\
  outside_emissions w' = outside_emissions w.
Proof.
  intros Hix H. destruct (emissions_ix_bank _ _ _ _ _ Hix H) as (Hs & Ho & f' & r & rm & mt & Hb & Hd & _).
  split; [exact Hs|]. split; [|exact Ho]. rewrite Hb. apply erase_emissions_intro. exact Hd.
Qed.

(* a flag word with any bit outside EMISSION_FLAGS is refused *)
Theorem emissions_foreign_flags_rejected g signer w w' :
  (forall ac mint x orate oadd, pstep g signer w (PUpdateEmissions ac mint (Some x) orate oadd) = Ok w' -> Z.land x EMISSION_FLAGS = x) /\
  (forall mint x rate total, pstep g signer w (PSetupEmissions mint x rate total) = Ok w' -> Z.land x EMISSION_FLAGS = x).
Proof.
  split.
  - intros ac mint x orate oadd H. unfold pstep in H. apply bind_ok in H as (u0 & _ & H). apply bind_ok in H as (u & _ & H).
    unfold ix_update_emissions in H. apply bind_ok in H as (u1 & _ & H). apply bind_ok in H as (u2 & _ & H).
    apply bind_ok in H as (f & Hf & _). apply bind_ok in Hf as (u3 & Hc & _). apply check_inv in Hc. lia.
  - intros mint x rate total H. unfold pstep in H. apply bind_ok in H as (u & _ & H).
    unfold ix_setup_emissions in H. apply bind_ok in H as (u1 & _ & H). apply bind_ok in H as (f & Hf & _).
    apply override_emissions_inv in Hf as (Hx & _). exact Hx.
Qed.

(* the update with a foreign bit fails with IllegalFlag once the accounts and the bank's mint are accepted *)
Lemma emissions_update_illegal_flag g w mint x orate oadd :
  pb_em_mint (px_bank w) <> 0 -> pb_em_mint (px_bank w) = mint -> Z.land x EMISSION_FLAGS <> x ->
  pstep g REmissionsAdmin w (PUpdateEmissions (Ok tt) mint (Some x) orate oadd) = Err (E E_IllegalFlag).
Proof.
  intros Hm He Hx. unfold pstep, require_role. cbn [bind role_eqb check]. unfold ix_update_emissions.
  replace (negb (pb_em_mint (px_bank w) =? 0)) with true by lia.
  replace (pb_em_mint (px_bank w) =? mint) with true by lia. cbn [check bind].
  replace (Z.land x EMISSION_FLAGS =? x) with false by lia. reflexivity.
Qed.

Definition wit_cfg : bank_cfg := mkBC 0 0 ONE ONE 0 0 dummy_ir 0 OP_OPERATIONAL 0 0 0 60 0 0.
Definition wit_bank (flags em_mint : Z) : pbank := mkPB (mkCBank wit_cfg flags es_zeroed) 3 0 0 0 em_mint 0.
Definition wit_world (flags em_mint : Z) (vault : option Z) : pworld :=
  mkPX (wit_bank flags em_mint) (mkPM [] 0 [] 0) 1000 vault 0 0 0 0.
Definition wit_caps : caps := mkCaps 0 0.

(* ---------------------------------------------------------------- the group admin's configure: only its three flag bits *)
Theorem configure_touches_only_its_three_flags g signer w o w' :
  pstep g signer w (PConfigure o) = Ok w' ->
  signer = RAdmin /\
  Z.ldiff (pb_flags (px_bank w')) CONFIGURE_FLAGS = Z.ldiff (pb_flags (px_bank w)) CONFIGURE_FLAGS /\
  cb_emode (pb_c (px_bank w')) = cb_emode (pb_c (px_bank w)) /\
  erase_emissions_fields (with_c (px_bank w') (pb_c (px_bank w))) = erase_emissions_fields (px_bank w) /\
  pb_em_rate (px_bank w') = pb_em_rate (px_bank w) /\ pb_em_remaining (px_bank w') = pb_em_remaining (px_bank w) /\
  pb_em_mint (px_bank w') = pb_em_mint (px_bank w) /\
  outside w' = outside w.
Proof.
  unfold pstep. intros H. apply bind_ok in H as (u & Hr & H). apply require_role_inv in Hr.
  apply lift_c_inv in H as (c & Hc & ->). apply configure_bank_flags in Hc as (Hf & He).
  split; [exact Hr|]. split; [exact Hf|]. split; [exact He|].
  destruct w as [[? ? ? ? ? ? ?] ? ? ? ? ? ? ?]. repeat split; reflexivity.
Qed.

(* ---------------------------------------------------------------- the freeze *)
Theorem frozen_only_limits g signer w ix w' :
  pb_frozen (px_bank w) = true -> is_bank_config_ix ix = true -> pstep g signer w ix = Ok w' ->
  erase_dep_bor (px_bank w') = erase_dep_bor (px_bank w) /\ outside w' = outside w.
Proof.
  intros Hfr Hix H. unfold pb_frozen in Hfr.
  destruct ix; simpl in Hix; try discriminate; unfold pstep in H.
  - apply bind_ok in H as (u & _ & H). apply lift_c_inv in H as (c & Hc & ->).
    apply (configure_frozen _ _ _ _ Hfr) in Hc as (Hf & He & Hcfg). split; [|reflexivity].
    unfold erase_dep_bor, set_bank, with_c. cbn [px_bank pb_c pb_osetup pb_fixed_price pb_em_rate pb_em_remaining pb_em_mint pb_rest].
    rewrite Hf, He, Hcfg. reflexivity.
  - apply bind_ok in H as (u & _ & H). apply lift_c_inv in H as (c & Hc & ->).
    apply (interest_only_frozen _ _ _ Hfr) in Hc. subst c. split; [|reflexivity].
    destruct w as [[? ? ? ? ? ? ?] ? ? ? ? ? ? ?]. reflexivity.
  - apply bind_ok in H as (u & _ & H). apply lift_c_inv in H as (c & Hc & ->).
    apply (limits_only_frozen _ _ _ _ _ Hfr) in Hc as (Hf & He & Hcfg). split; [|reflexivity].
    unfold erase_dep_bor, set_bank, with_c. cbn [px_bank pb_c pb_osetup pb_fixed_price pb_em_rate pb_em_remaining pb_em_mint pb_rest].
    rewrite Hf, He, Hcfg. reflexivity.
  - apply bind_ok in H as (u & _ & H). apply lift_b_inv in H as (b & Hb & _).
    unfold ix_configure_oracle, pb_frozen in Hb. rewrite Hfr in Hb. discriminate.
  - apply bind_ok in H as (u & _ & H). apply lift_b_inv in H as (b & Hb & _).
    unfold ix_set_fixed_price, pb_frozen in Hb. rewrite Hfr in Hb. discriminate.
Qed.

(* the freeze bit after one instruction, whatever the instruction, its arguments and its signer *)
Lemma pstep_keeps_freeze g signer w ix w' :
  pb_frozen (px_bank w) = true -> pstep g signer w ix = Ok w' -> pb_frozen (px_bank w') = true.
Proof.
  intros Hfr H. pose proof Hfr as Hfr0. apply pb_frozen_iff in Hfr.
  apply pb_frozen_iff.
  assert (Hem : is_emissions_ix ix = true -> Z.land (pb_flags (px_bank w')) FREEZE_SETTINGS = FREEZE_SETTINGS).
  { intros Hix. destruct (emissions_ix_bank _ _ _ _ _ Hix H) as (_ & _ & f' & r & rm & mt & Hb & _ & Hk).
    rewrite Hb. unfold pb_flags at 1. cbn [pb_c cb_flags]. apply Hk; [reflexivity | exact Hfr]. }
  destruct ix; try (apply Hem; reflexivity); clear Hem; unfold pstep in H.
  - apply bind_ok in H as (u & _ & H). apply lift_c_inv in H as (c & Hc & ->).
    apply (configure_frozen _ _ _ _ Hfr0) in Hc as (Hf & _). unfold pb_flags in *. cbn [px_bank set_bank with_c pb_c]. rewrite Hf. exact Hfr.
  - apply bind_ok in H as (u & _ & H). apply lift_c_inv in H as (c & Hc & ->).
    apply interest_only_frame in Hc as (Hf & _). unfold pb_flags in *. cbn [px_bank set_bank with_c pb_c]. rewrite Hf. exact Hfr.
  - apply bind_ok in H as (u & _ & H). apply lift_c_inv in H as (c & Hc & ->).
    apply limits_only_frame in Hc as (Hf & _). unfold pb_flags in *. cbn [px_bank set_bank with_c pb_c]. rewrite Hf. exact Hfr.
  - apply bind_ok in H as (u & _ & H). apply lift_c_inv in H as (c & Hc & ->).
    apply emode_frame in Hc as (_ & Hf). unfold pb_flags in *. cbn [px_bank set_bank with_c pb_c]. rewrite Hf. exact Hfr.
  - apply bind_ok in H as (u & _ & H). apply lift_c_inv in H as (c & Hc & ->).
    apply clone_frame in Hc as (_ & Hf). unfold pb_flags in *. cbn [px_bank set_bank with_c pb_c]. rewrite Hf. exact Hfr.
  - apply bind_ok in H as (u & _ & H). apply lift_b_inv in H as (b & Hb & _).
    unfold ix_configure_oracle in Hb. rewrite Hfr0 in Hb. discriminate.
  - apply bind_ok in H as (u & _ & H). apply lift_b_inv in H as (b & Hb & _).
    unfold ix_set_fixed_price in Hb. rewrite Hfr0 in Hb. discriminate.
  - apply bind_ok in H as (u & _ & H). apply bind_ok in H as (m & _ & H). apply Ok_inj in H. subst w'. exact Hfr.
  - apply bind_ok in H as (u & _ & H). apply lift_b_inv in H as (b & Hb & ->).
    unfold ix_force_tokenless_complete in Hb.
    destruct (flag_set (pb_flags (px_bank w)) TOKENLESS_REPAYMENTS_ALLOWED).
    + apply bind_ok in Hb as (f & Hf & Hb). apply Ok_inj in Hb. subst b.
      unfold cb_update_flag in Hf. destruct (Z.land TOKENLESS_REPAYMENTS_COMPLETE GROUP_FLAGS =? TOKENLESS_REPAYMENTS_COMPLETE); [|discriminate].
      apply Ok_inj in Hf. subst f. unfold pb_flags at 1. cbn [px_bank set_bank with_flags with_c pb_c cb_flags].
      apply land_lor_keeps. exact Hfr.
    + apply Ok_inj in Hb. subst b. destruct w; exact Hfr.
  - apply lift_c_inv in H as (c & Hc & ->).
    apply propagate_flags in Hc as (Hf & _). unfold pb_flags in *. cbn [px_bank set_bank with_c pb_c]. rewrite Hf. exact Hfr.
Qed.

(* nobody can lift the freeze: any sequence of instructions, any arguments, any signers *)
Theorem freeze_sticky g w l :
  pb_frozen (px_bank w) = true -> pb_frozen (px_bank (prun g w l)) = true.
Proof.
  revert w. induction l as [|[s ix] rest IH]; intros w Hfr; [exact Hfr|].
  cbn [prun]. apply IH.
  destruct (pstep g s w ix) as [w'|e] eqn:E; [|exact Hfr].
  apply (pstep_keeps_freeze _ _ _ _ _ Hfr E).
Qed.

(* every instruction checks its signer *)
Theorem unauthorized_signer_rejected g signer w ix w' :
  pstep g signer w ix = Ok w' -> accepted_signers ix = [] \/ In signer (accepted_signers ix).
Proof.
  intros H. destruct ix; unfold pstep in H; simpl.
  - apply bind_ok in H as (u & Hr & _). apply require_role_inv in Hr. auto.
  - apply bind_ok in H as (u & Hr & _). apply require_role_inv in Hr. auto.
  - apply bind_ok in H as (u & Hr & _). apply require_role_inv in Hr. auto.
  - apply bind_ok in H as (u & Hr & _). apply require_role_inv in Hr. auto.
  - apply bind_ok in H as (u & Hr & _). apply check_inv in Hr.
    apply Bool.orb_true_iff in Hr as [Hr|Hr]; apply role_eqb_eq in Hr; subst; auto.
  - apply bind_ok in H as (u & Hr & _). apply require_role_inv in Hr. auto.
  - apply bind_ok in H as (u & Hr & _). apply require_role_inv in Hr. auto.
  - apply bind_ok in H as (u & Hr & _). apply require_role_inv in Hr. auto.
  - apply bind_ok in H as (u0 & _ & H). apply bind_ok in H as (u & Hr & _). apply require_role_inv in Hr. auto.
  - apply bind_ok in H as (u & Hr & _). apply require_role_inv in Hr. auto.
  - apply bind_ok in H as (u & Hr & _). apply require_role_inv in Hr. auto.
  - left. reflexivity.
Qed.

(* reported, not claimed: staked propagation rewrites weights of a frozen bank *)
Lemma propagate_ignores_freeze :
  exists g w s w', pb_frozen (px_bank w) = true /\ pstep g RStranger w (PPropagate s (Ok tt)) = Ok w' /\
                   bc_awi (cb_cfg (pb_c (px_bank w'))) <> bc_awi (cb_cfg (pb_c (px_bank w))).
Proof.
  exists wit_caps,
    (mkPX (mkPB (mkCBank (mkBC 0 0 ONE ONE 0 0 (mkIR 0 0 0 0 0 0 0 0 U32_MAXZ [] INTEREST_CURVE_SEVEN_POINT) 0 OP_OPERATIONAL 0 ASSET_TAG_STAKED 0 60 0 1)
                         24 es_zeroed) 5 0 0 0 0 0) (mkPM [] 0 [] 0) 0 None 0 0 0 0),
    (mkSS 1 (ONE / 2) (ONE / 2) 5 6 60 0).
  eexists. split; [vm_compute; reflexivity|]. split; [vm_compute; reflexivity|]. vm_compute. discriminate.
Qed.
