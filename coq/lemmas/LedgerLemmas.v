(* LedgerLemmas.v — C02: bank totals are at least the sum of all positions, for every sequence of
   operations of the level-B world (several banks, several lending accounts). *)
Require Import Base Constants Fixed Curve Bank BankOps Risk TransferFee Handlers.
Require Import FixedLemmas BankLemmas ValueLemmas CurveLemmas AccrualLemmas HandlerLemmas SolvencyLemmas.
From Coq Require Import ZifyBool.
Local Open Scope Z_scope.

(* contribution of one balance slot to bank key k *)
Definition ca (k : Z) (bl : balance) : Z := if bl_active bl && (bl_bank bl =? k) then bl_a bl else 0.
Definition cl (k : Z) (bl : balance) : Z := if bl_active bl && (bl_bank bl =? k) then bl_l bl else 0.

Fixpoint lsum (f : balance -> Z) (la : laccount) : Z :=
  match la with [] => 0 | x :: r => f x + lsum f r end.
Fixpoint wsum (f : balance -> Z) (accts : list laccount) : Z :=
  match accts with [] => 0 | la :: r => lsum f la + wsum f r end.

Lemma lsum_set_nth f la i bl v : nth_error la i = Some bl -> lsum f (set_nth i v la) = lsum f la - f bl + f v.
Proof.
  revert i; induction la as [|x r IH]; intros [|i] H; cbn in *; try discriminate.
  - inversion H; subst. lia.
  - rewrite (IH _ H). lia.
Qed.
Lemma wsum_set_nth f accts a la v : nth_error accts a = Some la -> wsum f (set_nth a v accts) = wsum f accts - lsum f la + lsum f v.
Proof.
  revert a; induction accts as [|x r IH]; intros [|a] H; cbn in *; try discriminate.
  - inversion H; subst. lia.
  - rewrite (IH _ H). lia.
Qed.
Lemma lsum_insert f x l : lsum f (insert_desc x l) = f x + lsum f l.
Proof. induction l as [|y ys IH]; cbn; [lia|]. destruct (bl_bank y <? bl_bank x); cbn; lia. Qed.
Lemma lsum_sort f l : lsum f (sort_balances l) = lsum f l.
Proof. unfold sort_balances. induction l as [|x r IH]; cbn; [reflexivity|]. rewrite lsum_insert. lia. Qed.

(* find_active *)
Lemma find_idx_spec f la : forall n i, find_idx f la n = Some i ->
  exists bl, nth_error la (i - n) = Some bl /\ f bl = true /\ (n <= i)%nat.
Proof.
  induction la as [|x r IH]; intros n i H; cbn in H; [discriminate|].
  destruct (f x) eqn:E.
  - inversion H; subst. exists x. replace (i - i)%nat with 0%nat by lia. cbn. auto.
  - apply IH in H as (bl & H1 & H2 & H3). exists bl.
    replace (i - n)%nat with (S (i - S n))%nat by lia. cbn. split; [exact H1|]. split; [exact H2 | lia].
Qed.
Lemma find_active_spec k la i : find_active k la = Some i ->
  exists bl, nth_error la i = Some bl /\ bl_active bl = true /\ bl_bank bl = k.
Proof.
  unfold find_active. intros H. apply find_idx_spec in H as (bl & H1 & H2 & _).
  rewrite Nat.sub_0_r in H1. exists bl. split; [exact H1|]. lia.
Qed.

(* the invariant *)
Definition bank_of (w : bworld) (k : nat) : option bank := nth_error (bw_banks w) k.

Record Ledger (w : bworld) : Prop := {
  lg_wf : Forall (Forall wf_bal) (bw_accts w);
  lg_sv : Forall wf_sv (bw_banks w);
  lg_tot : forall k bk, bank_of w k = Some bk ->
           wsum (ca (bank_pk k)) (bw_accts w) <= b_tas bk /\ wsum (cl (bank_pk k)) (bw_accts w) <= b_tls bk
}.

Lemma wf_nonneg_ca k bl : wf_bal bl -> 0 <= ca k bl /\ 0 <= cl k bl.
Proof. intros [? ?]. unfold ca, cl. destruct (bl_active bl && (bl_bank bl =? k)); lia. Qed.

Lemma bank_pk_inj a b : bank_pk a = bank_pk b -> a = b.
Proof. unfold bank_pk. lia. Qed.

(* ------------------------------------------------------------------------------------------ *)
(* slot located by find / find_or_create *)
Lemma Some_inj {A} (x y : A) : Some x = Some y -> x = y.
Proof. congruence. Qed.
Lemma slot_located k bk la now (create : bool) i la1 bl :
  (if create then wrapper_find_or_create k bk la now else let* i := wrapper_find k la in Ok (i, la)) = (Ok (i, la1) : res (nat * laccount)) ->
  nth_res i la1 = Ok bl -> Forall wf_bal la ->
  bl_active bl = true /\ bl_bank bl = k /\ wf_bal bl /\ Forall wf_bal la1 /\
  (forall kk, lsum (ca kk) la1 = lsum (ca kk) la /\ lsum (cl kk) la1 = lsum (cl kk) la).
Proof.
  intros H Hn Hf. apply nth_res_ok in Hn.
  assert (Hfound : forall j, find_active k la = Some j -> j = i -> la1 = la ->
            bl_active bl = true /\ bl_bank bl = k /\ wf_bal bl /\ Forall wf_bal la1 /\
            (forall kk, lsum (ca kk) la1 = lsum (ca kk) la /\ lsum (cl kk) la1 = lsum (cl kk) la)).
  { intros j Hj -> ->. apply find_active_spec in Hj as (bl0 & H1 & H2 & H3). rewrite Hn in H1. apply Some_inj in H1 as <-.
    split; [exact H2|]. split; [exact H3|]. split; [eapply Forall_nth_error; eauto|]. split; [exact Hf|]. intros kk; split; reflexivity. }
  destruct create.
  - unfold wrapper_find_or_create in H. destruct (find_active k la) as [j|] eqn:Ej.
    + apply pair_ok in H as [<- <-]. eapply Hfound; eauto.
    + apply bind_ok in H as (u & _ & H). destruct (find_idx _ la 0) as [j|] eqn:Ei; [|discriminate].
      apply pair_ok in H as [<- <-]. apply find_idx_spec in Ei as (bl0 & H1 & H2 & _). rewrite Nat.sub_0_r in H1.
      rewrite (nth_set_nth_same _ _ _ _ H1) in Hn. apply Some_inj in Hn as <-.
      cbn [bl_active bl_bank]. split; [reflexivity|]. split; [reflexivity|]. split; [unfold wf_bal; cbn; lia|].
      split; [apply Forall_set_nth; [exact Hf|]; unfold wf_bal; cbn; lia|]. intros kk. split.
      * rewrite (lsum_set_nth _ _ _ _ _ H1). unfold ca. cbn [bl_active bl_bank bl_a].
        assert (E0 : bl_active bl0 = false) by (destruct (bl_active bl0); [discriminate|reflexivity]).
        rewrite E0. cbn [andb]. destruct (k =? kk); lia.
      * rewrite (lsum_set_nth _ _ _ _ _ H1). unfold cl. cbn [bl_active bl_bank bl_l].
        assert (E0 : bl_active bl0 = false) by (destruct (bl_active bl0); [discriminate|reflexivity]).
        rewrite E0. cbn [andb]. destruct (k =? kk); lia.
  - unfold wrapper_find in H. destruct (find_active k la) as [j|] eqn:Ej; [|discriminate].
    cbn [bind] in H. apply pair_ok in H as [<- <-]. eapply Hfound; eauto.
Qed.

(* what one wrapper primitive must guarantee for the ledger *)
(* da / dl : shares of the position that the primitive abandons in the bank totals *)
Definition slot_ok (kk : Z) (bk : bank) (bl : balance) (bk' : bank) (bl' : balance) (da dl : Z) : Prop :=
  wf_sv bk' /\ wf_bal bl' /\
  (forall k, k <> kk -> ca k bl' = 0 /\ cl k bl' = 0) /\
  b_tas bk' - ca kk bl' = b_tas bk - ca kk bl + da /\ b_tls bk' - cl kk bl' = b_tls bk - cl kk bl + dl /\
  0 <= da /\ 0 <= dl.

Lemma ca_other k bl : bl_active bl = true -> bl_bank bl <> k -> ca k bl = 0 /\ cl k bl = 0.
Proof. intros H1 H2. unfold ca, cl. rewrite H1. cbn [andb]. replace (bl_bank bl =? k) with false by lia. auto. Qed.
Lemma ca_self bl : bl_active bl = true -> ca (bl_bank bl) bl = bl_a bl /\ cl (bl_bank bl) bl = bl_l bl.
Proof. intros H1. unfold ca, cl. rewrite H1, Z.eqb_refl. auto. Qed.
Lemma ca_empty k : ca k bal_empty = 0 /\ cl k bal_empty = 0.
Proof. split; reflexivity. Qed.

(* a primitive that keeps the slot's identity and moves totals exactly with the position *)
Lemma slot_ok_same kk bk bl bk' bl' :
  bl_active bl = true -> bl_bank bl = kk -> wf_sv bk' -> wf_bal bl' ->
  bl_active bl' = bl_active bl -> bl_bank bl' = bl_bank bl ->
  b_tas bk' - b_tas bk = bl_a bl' - bl_a bl -> b_tls bk' - b_tls bk = bl_l bl' - bl_l bl ->
  slot_ok kk bk bl bk' bl' 0 0.
Proof.
  intros Ha Hb Hsv Hwf Ha' Hb' Hta Htl. unfold slot_ok. split; [exact Hsv|]. split; [exact Hwf|].
  rewrite <- Hb. destruct (ca_self bl Ha) as [-> ->].
  assert (Ha2 : bl_active bl' = true) by congruence.
  rewrite <- Hb'. destruct (ca_self bl' Ha2) as [-> ->]. split; [|lia].
  intros k Hk. apply ca_other; congruence.
Qed.
(* a primitive that closes the slot *)
Lemma slot_ok_closed kk bk bl bk' :
  bl_active bl = true -> bl_bank bl = kk -> wf_sv bk' -> wf_bal bl ->
  b_tas bk - bl_a bl <= b_tas bk' -> b_tls bk - bl_l bl <= b_tls bk' ->
  slot_ok kk bk bl bk' bal_empty (b_tas bk' - (b_tas bk - bl_a bl)) (b_tls bk' - (b_tls bk - bl_l bl)).
Proof.
  intros Ha Hb Hsv Hwf Hta Htl. unfold slot_ok. split; [exact Hsv|]. split; [unfold wf_bal; cbn; lia|].
  rewrite <- Hb. destruct (ca_self bl Ha) as [-> ->]. destruct (ca_empty (bl_bank bl)) as [-> ->].
  split; [|lia]. intros k _. apply ca_empty.
Qed.

(* ------------------------------------------------------------------------------------------ *)
Lemma lsum_nonneg_ca k la : Forall wf_bal la -> 0 <= lsum (ca k) la /\ 0 <= lsum (cl k) la.
Proof. induction 1 as [|x r Hx _ IH]; cbn [lsum]; [lia|]. pose proof (wf_nonneg_ca k x Hx). lia. Qed.
Lemma wsum_nonneg_ca k accts : Forall (Forall wf_bal) accts -> 0 <= wsum (ca k) accts /\ 0 <= wsum (cl k) accts.
Proof. induction 1 as [|x r Hx _ IH]; cbn [wsum]; [lia|]. pose proof (lsum_nonneg_ca k x Hx). lia. Qed.

Lemma Ledger_tot_nonneg w k bk : Ledger w -> bank_of w k = Some bk -> 0 <= b_tas bk /\ 0 <= b_tls bk.
Proof.
  intros L Hk. destruct (lg_tot w L k bk Hk). pose proof (wsum_nonneg_ca (bank_pk k) _ (lg_wf w L)). lia.
Qed.

(* excess of the bank totals over the recorded positions *)
Definition exA (w : bworld) (k : nat) : Z :=
  match bank_of w k with Some bk => b_tas bk - wsum (ca (bank_pk k)) (bw_accts w) | None => 0 end.
Definition exL (w : bworld) (k : nat) : Z :=
  match bank_of w k with Some bk => b_tls bk - wsum (cl (bank_pk k)) (bw_accts w) | None => 0 end.

Definition step_delta (w w' : bworld) (b : nat) (da dl : Z) : Prop :=
  forall k, exA w' k = exA w k + (if (b =? k)%nat then da else 0) /\ exL w' k = exL w k + (if (b =? k)%nat then dl else 0).

(* generic step: replacing one located slot and its bank *)
Lemma put_ledger w a b bk la bkc now (create : bool) i la1 bl bk' bl' da dl :
  Ledger w -> nth_res b (bw_banks w) = Ok bk -> nth_res a (bw_accts w) = Ok la ->
  (if create then wrapper_find_or_create (bank_pk b) bkc la now else let* i := wrapper_find (bank_pk b) la in Ok (i, la)) = (Ok (i, la1) : res (nat * laccount)) ->
  nth_res i la1 = Ok bl ->
  slot_ok (bank_pk b) bk bl bk' bl' da dl ->
  Ledger (put w a b bk' (set_nth i bl' la1)) /\ step_delta w (put w a b bk' (set_nth i bl' la1)) b da dl.
Proof.
  intros L Hbk Hla Hloc Hbl (Hsv' & Hwbl' & Hoth & Hda & Hdl & Hda0 & Hdl0).
  pose proof (nth_res_ok _ _ _ Hbk) as Ebk. pose proof (nth_res_ok _ _ _ Hla) as Ela.
  pose proof (Forall_nth_error _ _ _ _ (lg_wf w L) Ela) as Hwla.
  destruct (slot_located _ _ _ _ _ _ _ _ Hloc Hbl Hwla) as (Hact & Hbank & Hwbl & Hwla1 & Hsum).
  pose proof (nth_res_ok _ _ _ Hbl) as Ebl.
  assert (Hex : step_delta w (put w a b bk' (set_nth i bl' la1)) b da dl).
  { intros k. unfold exA, exL, bank_of, put. cbn [bw_accts bw_banks].
    rewrite !(wsum_set_nth _ _ _ _ _ Ela), !(lsum_set_nth _ _ _ _ _ Ebl).
    destruct (Hsum (bank_pk k)) as [-> ->].
    destruct (Nat.eq_dec b k) as [<-|Hne].
    - rewrite (nth_set_nth_same _ _ _ _ Ebk), Ebk, Nat.eqb_refl. lia.
    - rewrite nth_set_nth_other by assumption. replace (b =? k)%nat with false by lia.
      destruct (nth_error (bw_banks w) k) as [bkk|]; [|lia].
      assert (Hpk : bank_pk k <> bank_pk b) by (intros E; apply bank_pk_inj in E; congruence).
      destruct (Hoth _ Hpk) as [-> ->].
      assert (Hbk2 : bl_bank bl <> bank_pk k) by congruence.
      destruct (ca_other (bank_pk k) bl Hact Hbk2) as [-> ->]. lia. }
  split; [|exact Hex].
  constructor; unfold put; cbn [bw_accts bw_banks].
  - apply Forall_set_nth; [exact (lg_wf w L)|]. apply Forall_set_nth; assumption.
  - apply Forall_set_nth; [exact (lg_sv w L)|assumption].
  - intros k bkk Hk. destruct (Hex k) as [E1 E2]. unfold exA, exL, bank_of, put in E1, E2, Hk.
    cbn [bw_accts bw_banks] in E1, E2, Hk. rewrite Hk in E1, E2.
    destruct (Nat.eq_dec b k) as [<-|Hne].
    + rewrite Ebk in E1, E2. destruct (lg_tot w L b bk Ebk). destruct (b =? b)%nat; lia.
    + rewrite nth_set_nth_other in Hk by assumption. unfold bank_of in *. rewrite Hk in E1, E2.
      destruct (lg_tot w L k bkk Hk). replace (b =? k)%nat with false in E1, E2 by lia. lia.
Qed.

(* generic step: an operation on one (bank, slot) *)
Lemma with_slot_ledger (P : bank -> Z -> Z -> Prop) w a b create f w' r :
  Ledger w -> with_slot w a b create f = Ok (w', r) ->
  (forall bk bl bk' bl' r', wf_sv bk -> 0 <= b_tas bk -> 0 <= b_tls bk -> wf_bal bl -> bl_active bl = true -> bl_bank bl = bank_pk b ->
       f bk bl = Ok (bk', bl', r') -> exists da dl, slot_ok (bank_pk b) bk bl bk' bl' da dl /\ P bk da dl) ->
  Ledger w' /\ exists bk da dl, bank_of w b = Some bk /\ P bk da dl /\ 0 <= da /\ 0 <= dl /\ step_delta w w' b da dl.
Proof.
  intros L H Hf. unfold with_slot in H.
  apply bind_ok in H as (bk & Hbk & H). apply bind_ok in H as (la & Hla & H).
  apply bind_ok in H as ([i la1] & Hloc & H). apply bind_ok in H as (bl & Hbl & H).
  apply bind_ok in H as ([[bk' bl'] r'] & Hfr & H). apply Ok_inj in H. apply pair_equal_spec in H as [<- _].
  pose proof (nth_res_ok _ _ _ Hbk) as Ebk. pose proof (nth_res_ok _ _ _ Hla) as Ela.
  pose proof (Forall_nth_error _ _ _ _ (lg_wf w L) Ela) as Hwla.
  destruct (slot_located _ _ _ _ _ _ _ _ Hloc Hbl Hwla) as (Hact & Hbank & Hwbl & Hwla1 & Hsum).
  destruct (Ledger_tot_nonneg w b bk L Ebk) as [Hta Htl].
  pose proof (Forall_nth_error _ _ _ _ (lg_sv w L) Ebk) as Hsv.
  destruct (Hf _ _ _ _ _ Hsv Hta Htl Hwbl Hact Hbank Hfr) as (da & dl & Hso & HP).
  destruct (put_ledger _ _ _ _ _ _ _ _ _ _ _ _ _ _ _ L Hbk Hla Hloc Hbl Hso) as (L' & Hex).
  split; [exact L'|]. destruct Hso as (_ & _ & _ & _ & _ & Hda0 & Hdl0).
  exists bk, da, dl. repeat (split; [assumption|]). exact Hex.
Qed.

(* sorting one account *)
Lemma sort_ledger w a la :
  Ledger w -> nth_res a (bw_accts w) = Ok la ->
  Ledger (mkBW (bw_banks w) (set_nth a (sort_balances la) (bw_accts w)) (bw_now w) (bw_pf w)) /\
  forall k, exA (mkBW (bw_banks w) (set_nth a (sort_balances la) (bw_accts w)) (bw_now w) (bw_pf w)) k = exA w k /\
            exL (mkBW (bw_banks w) (set_nth a (sort_balances la) (bw_accts w)) (bw_now w) (bw_pf w)) k = exL w k.
Proof.
  intros L Hla. pose proof (nth_res_ok _ _ _ Hla) as Ela.
  assert (Hs : forall k, wsum (ca k) (set_nth a (sort_balances la) (bw_accts w)) = wsum (ca k) (bw_accts w) /\
                         wsum (cl k) (set_nth a (sort_balances la) (bw_accts w)) = wsum (cl k) (bw_accts w)).
  { intros k. rewrite !(wsum_set_nth _ _ _ _ _ Ela), !lsum_sort. lia. }
  split.
  - constructor; cbn [bw_accts bw_banks].
    + apply Forall_set_nth; [exact (lg_wf w L)|]. apply Forall_sort. exact (Forall_nth_error _ _ _ _ (lg_wf w L) Ela).
    + exact (lg_sv w L).
    + intros k bkk Hk. destruct (Hs (bank_pk k)) as [-> ->]. exact (lg_tot w L k bkk Hk).
  - intros k. unfold exA, exL, bank_of. cbn [bw_accts bw_banks]. destruct (Hs (bank_pk k)) as [-> ->]. split; reflexivity.
Qed.

(* bank-only step *)
Lemma put_bank_ledger w b bk bk' :
  Ledger w -> nth_res b (bw_banks w) = Ok bk -> wf_sv bk' -> b_tas bk' = b_tas bk -> b_tls bk' = b_tls bk ->
  Ledger (put_bank w b bk') /\ forall k, exA (put_bank w b bk') k = exA w k /\ exL (put_bank w b bk') k = exL w k.
Proof.
  intros L Hbk Hsv Ha Hl. pose proof (nth_res_ok _ _ _ Hbk) as Ebk.
  split.
  - constructor; unfold put_bank; cbn [bw_accts bw_banks].
    + exact (lg_wf w L).
    + apply Forall_set_nth; [exact (lg_sv w L)|assumption].
    + intros k bkk Hk. unfold bank_of in Hk. cbn [bw_banks] in Hk.
      destruct (Nat.eq_dec b k) as [<-|Hne].
      * rewrite (nth_set_nth_same _ _ _ _ Ebk) in Hk. apply Some_inj in Hk as <-.
        destruct (lg_tot w L b bk Ebk). lia.
      * rewrite nth_set_nth_other in Hk by assumption. exact (lg_tot w L k bkk Hk).
  - intros k. unfold exA, exL, bank_of, put_bank. cbn [bw_accts bw_banks].
    destruct (Nat.eq_dec b k) as [<-|Hne].
    + rewrite (nth_set_nth_same _ _ _ _ Ebk), Ebk. lia.
    + rewrite nth_set_nth_other by assumption. split; reflexivity.
Qed.

Lemma lift2_ok r bk' bl' r' : lift2 r = Ok (bk', bl', r') -> r = Ok (bk', bl').
Proof. unfold lift2. intros H. apply bind_ok in H as ([x y] & -> & H). apply Ok_inj in H. congruence. Qed.
Lemma lift3_ok r bk' bl' r' : lift3 r = Ok (bk', bl', r') -> exists n, r = Ok (bk', bl', n).
Proof. unfold lift3. intros H. apply bind_ok in H as ([[x y] n] & -> & H). apply Ok_inj in H. exists n. congruence. Qed.

Definition no_dust (bk : bank) (da dl : Z) : Prop := da = 0 /\ dl = 0.
(* closing a position abandons shares worth less than 0.0001 native units on either side *)
Definition dust (bk : bank) (da dl : Z) : Prop :=
  da * b_asv bk / ONE < ZERO_AMOUNT_THRESHOLD /\ dl * b_lsv bk / ONE < ZERO_AMOUNT_THRESHOLD.

Lemma inc_slot_ok kk bk bl now amt t bk' bl' :
  wf_sv bk -> wf_bal bl -> bl_active bl = true -> bl_bank bl = kk -> 0 <= amt ->
  increase_balance bk bl now amt t = Ok (bk', bl') -> exists da dl, slot_ok kk bk bl bk' bl' da dl /\ no_dust bk da dl.
Proof.
  intros Hsv Hwf Ha Hb Hamt H. destruct (NAV_increase _ _ _ _ _ _ _ Hsv Hwf Hamt H) as (_ & _ & Hwf').
  pose proof (increase_balance_inv _ _ _ _ _ _ _ Hsv Hwf Hamt H) as F.
  destruct (if_meta _ _ _ _ _ _ F) as (M1 & M2 & _). destruct (if_sv _ _ _ _ _ _ F) as [S1 S2].
  pose proof (if_a _ _ _ _ _ _ F). pose proof (if_l _ _ _ _ _ _ F). pose proof (if_tas _ _ _ _ _ _ F). pose proof (if_tls _ _ _ _ _ _ F).
  exists 0, 0. split; [|split; reflexivity].
  apply slot_ok_same; auto; try lia. unfold wf_sv in *. lia.
Qed.
Lemma dec_slot_ok kk bk bl now amt t bk' bl' :
  wf_sv bk -> wf_bal bl -> bl_active bl = true -> bl_bank bl = kk -> 0 <= amt ->
  decrease_balance bk bl now amt t = Ok (bk', bl') -> exists da dl, slot_ok kk bk bl bk' bl' da dl /\ no_dust bk da dl.
Proof.
  intros Hsv Hwf Ha Hb Hamt H. destruct (NAV_decrease _ _ _ _ _ _ _ Hsv Hwf Hamt H) as (_ & Hwf').
  pose proof (decrease_balance_inv _ _ _ _ _ _ _ Hsv Hwf Hamt H) as F.
  destruct (df_meta _ _ _ _ _ _ F) as (M1 & M2 & _). destruct (df_sv _ _ _ _ _ _ F) as [S1 S2].
  pose proof (df_a _ _ _ _ _ _ F). pose proof (df_l _ _ _ _ _ _ F). pose proof (df_tas _ _ _ _ _ _ F). pose proof (df_tls _ _ _ _ _ _ F).
  exists 0, 0. split; [|split; reflexivity].
  apply slot_ok_same; auto; try lia. unfold wf_sv in *. lia.
Qed.

Lemma wall_slot_ok kk bk bl now bk' bl' n :
  wf_sv bk -> wf_bal bl -> bl_active bl = true -> bl_bank bl = kk ->
  withdraw_all bk bl now = Ok (bk', bl', n) -> exists da dl, slot_ok kk bk bl bk' bl' da dl /\ dust bk da dl.
Proof.
  intros Hsv Hwf Ha Hb H. pose proof (withdraw_all_inv _ _ _ _ _ _ Hsv Hwf H) as F.
  destruct (wa_sv _ _ _ _ _ F) as [S1 S2]. pose proof (wa_tas _ _ _ _ _ F) as T1. pose proof (wa_tls _ _ _ _ _ F) as T2.
  pose proof (wa_liab_dust _ _ _ _ _ F) as D.
  rewrite (wa_closed _ _ _ _ _ F). destruct Hwf. eexists _, _. split.
  - apply slot_ok_closed; auto; unfold wf_sv, wf_bal in *; lia.
  - unfold dust. rewrite T1, T2. replace (b_tas bk - bl_a bl - (b_tas bk - bl_a bl)) with 0 by lia.
    replace (b_tls bk - (b_tls bk - bl_l bl)) with (bl_l bl) by lia. rewrite Z.mul_0_l, Z.div_0_l by (rewrite ONE_val; lia).
    split; [reflexivity|exact D].
Qed.
Lemma rall_slot_ok kk bk bl now bk' bl' n :
  wf_sv bk -> wf_bal bl -> bl_active bl = true -> bl_bank bl = kk ->
  repay_all bk bl now = Ok (bk', bl', n) -> exists da dl, slot_ok kk bk bl bk' bl' da dl /\ dust bk da dl.
Proof.
  intros Hsv Hwf Ha Hb H. pose proof (repay_all_inv _ _ _ _ _ _ Hsv Hwf H) as F.
  destruct (ra_sv _ _ _ _ _ F) as [S1 S2]. pose proof (ra_tas _ _ _ _ _ F) as T1. pose proof (ra_tls _ _ _ _ _ F) as T2.
  pose proof (ra_asset_dust _ _ _ _ _ F) as D.
  rewrite (ra_closed _ _ _ _ _ F). destruct Hwf. eexists _, _. split.
  - apply slot_ok_closed; auto; unfold wf_sv, wf_bal in *; lia.
  - unfold dust. rewrite T1, T2. replace (b_tls bk - bl_l bl - (b_tls bk - bl_l bl)) with 0 by lia.
    replace (b_tas bk - (b_tas bk - bl_a bl)) with (bl_a bl) by lia. rewrite Z.mul_0_l, Z.div_0_l by (rewrite ONE_val; lia).
    split; [exact D|reflexivity].
Qed.
Lemma close_slot_ok kk bk bl now bk' bl' :
  wf_sv bk -> wf_bal bl -> bl_active bl = true -> bl_bank bl = kk ->
  close_balance bk bl now = Ok (bk', bl') -> exists da dl, slot_ok kk bk bl bk' bl' da dl /\ dust bk da dl.
Proof.
  intros Hsv Hwf Ha Hb H. destruct (close_balance_inv _ _ _ _ _ Hsv Hwf H) as (-> & T1 & T2 & S1 & S2 & _ & _ & _ & D1 & D2).
  destruct Hwf. eexists _, _. split.
  - apply slot_ok_closed; auto; unfold wf_sv, wf_bal in *; lia.
  - unfold dust. rewrite T1, T2. replace (b_tas bk - (b_tas bk - bl_a bl)) with (bl_a bl) by lia.
    replace (b_tls bk - (b_tls bk - bl_l bl)) with (bl_l bl) by lia. split; assumption.
Qed.
Lemma claim_slot_ok kk bk bl now bk' bl' :
  wf_sv bk -> wf_bal bl -> bl_active bl = true -> bl_bank bl = kk ->
  claim_emissions bk bl now = Ok (bk', bl') -> exists da dl, slot_ok kk bk bl bk' bl' da dl /\ no_dust bk da dl.
Proof.
  intros Hsv Hwf Ha Hb H. destruct (claim_emissions_core _ _ _ _ _ H) as [Cb Cl].
  destruct Cb as (S1 & S2 & T1 & T2 & _). destruct Cl as (M1 & M2 & _ & A1 & A2).
  exists 0, 0. split; [|split; reflexivity].
  apply slot_ok_same; auto; unfold wf_sv, wf_bal in *; lia.
Qed.
Lemma settle_slot_ok kk bk bl now bk' bl' n :
  wf_sv bk -> wf_bal bl -> bl_active bl = true -> bl_bank bl = kk ->
  settle_emissions bk bl now = Ok (bk', bl', n) -> exists da dl, slot_ok kk bk bl bk' bl' da dl /\ no_dust bk da dl.
Proof.
  intros Hsv Hwf Ha Hb H. unfold settle_emissions in H.
  apply bind_ok in H as ([b1 bl1] & Hc & H). apply bind_ok in H as (fl & _ & H).
  apply bind_ok in H as (rest & _ & H). apply bind_ok in H as (n' & _ & H).
  apply Ok_inj in H. apply pair_equal_spec in H as [H _]. apply pair_equal_spec in H as [<- <-].
  destruct (claim_emissions_core _ _ _ _ _ Hc) as [Cb Cl].
  destruct Cb as (S1 & S2 & T1 & T2 & _). destruct Cl as (M1 & M2 & _ & A1 & A2).
  exists 0, 0. split; [|split; reflexivity].
  apply slot_ok_same; auto; destruct bl1; cbn in *; unfold wf_sv, wf_bal in *; cbn; lia.
Qed.

(* operations carry amounts that come from u64 arguments *)
Definition bop_ok (o : bop) : Prop :=
  match o with
  | BDeposit _ _ n | BWithdraw _ _ n | BBorrow _ _ n | BRepay _ _ n
  | BDepositIgnoreCap _ _ n | BWithdrawIgnoreCap _ _ n | BSocialize _ n => 0 <= n
  | _ => True
  end.

Lemma socialize_sv b loss b' kill : wf_sv b -> 0 <= b_tas b -> socialize_loss b loss = Ok (b', kill) ->
  wf_sv b' /\ b_tas b' = b_tas b /\ b_tls b' = b_tls b.
Proof.
  intros [Ha Hl] Ht H. unfold socialize_loss in H. apply bind_ok in H as (total & Htot & H).
  apply math_ok, cmul_inv in Htot as [Htot _].
  destruct (total <=? loss) eqn:E.
  - apply Ok_inj, pair_equal_spec in H as [<- _]. unfold wf_sv. destruct b; cbn in *. lia.
  - apply bind_ok in H as (d & Hd & H). apply usub_inv in Hd as [Hd _].
    apply bind_ok in H as (nsv & Hn & H). apply Ok_inj, pair_equal_spec in H as [<- _].
    assert (Hd0 : 0 < d) by lia.
    assert (Htp : 0 < b_tas b).
    { destruct (Z.eq_dec (b_tas b) 0) as [E0|]; [|lia]. exfalso.
      apply math_ok in Hn. unfold cdiv in Hn. rewrite E0 in Hn. cbn in Hn. discriminate. }
    apply math_ok in Hn. apply cdiv_inv_nonneg in Hn as [_ Hn]; [|lia|lia].
    unfold wf_sv. destruct b; cbn in *. lia.
Qed.

(* the operations that close a position, and the bank they close it in *)
Definition closes (o : bop) : option nat :=
  match o with BWithdrawAll _ b | BRepayAll _ b | BCloseBalance _ b => Some b | _ => None end.

(* what one successful operation does to the excess of every bank *)
Definition bstep_effect (w : bworld) (o : bop) (w' : bworld) : Prop :=
  match closes o with
  | None => forall k, exA w' k = exA w k /\ exL w' k = exL w k
  | Some b => exists bk da dl, bank_of w b = Some bk /\ dust bk da dl /\ 0 <= da /\ 0 <= dl /\ step_delta w w' b da dl
  end.

Lemma step_delta_zero w w' b (bk : bank) : step_delta w w' b 0 0 -> forall k, exA w' k = exA w k /\ exL w' k = exL w k.
Proof. intros H k. destruct (H k) as [-> ->]. destruct (b =? k)%nat; lia. Qed.

Ltac slot_case L H lem :=
  let Hr := fresh "Hr" in
  pose proof (with_slot_ledger no_dust _ _ _ _ _ _ _ L H) as Hr;
  destruct Hr as (L' & bk0 & da & dl & _ & [-> ->] & _ & _ & Hd);
  [ intros bk bl bk' bl' r' ? ? ? ? ? ? Hf; apply lift2_ok in Hf; eapply lem; [| | | | |exact Hf]; assumption
  | split; [exact L'|]; cbn [bstep_effect closes]; eapply step_delta_zero; [exact bk0|exact Hd] ].

Theorem bstep_ledger w o w' r : Ledger w -> bop_ok o -> bstep w o = Ok (w', r) -> Ledger w' /\ bstep_effect w o w'.
Proof.
  intros L Hok H. destruct o; cbn [bstep bop_ok] in H, Hok; unfold bstep_effect; cbn [closes].
  - apply Ok_inj, pair_equal_spec in H as [<- _]. split; [|intros k; split; reflexivity].
    destruct L as [L1 L2 L3]. constructor; auto.
  - slot_case L H inc_slot_ok.
  - slot_case L H dec_slot_ok.
  - slot_case L H dec_slot_ok.
  - slot_case L H inc_slot_ok.
  - destruct (with_slot_ledger dust _ _ _ _ _ _ _ L H) as (L' & Hr).
    + intros bk bl bk' bl' r' ? ? ? ? ? ? Hf. apply lift3_ok in Hf as [n Hf]. eapply wall_slot_ok; eauto.
    + split; [exact L'|exact Hr].
  - destruct (with_slot_ledger dust _ _ _ _ _ _ _ L H) as (L' & Hr).
    + intros bk bl bk' bl' r' ? ? ? ? ? ? Hf. apply lift3_ok in Hf as [n Hf]. eapply rall_slot_ok; eauto.
    + split; [exact L'|exact Hr].
  - destruct (with_slot_ledger dust _ _ _ _ _ _ _ L H) as (L' & Hr).
    + intros bk bl bk' bl' r' ? ? ? ? ? ? Hf. apply lift2_ok in Hf. eapply close_slot_ok; eauto.
    + split; [exact L'|exact Hr].
  - slot_case L H inc_slot_ok.
  - slot_case L H dec_slot_ok.
  - apply bind_ok in H as (bk & Hbk & H). apply bind_ok in H as (bk' & Hacc & H).
    apply Ok_inj, pair_equal_spec in H as [<- _].
    pose proof (nth_res_ok _ _ _ Hbk) as Ebk. destruct (Ledger_tot_nonneg w b bk L Ebk) as [Hta Htl].
    destruct (Forall_nth_error _ _ _ _ (lg_sv w L) Ebk) as [Sa Sl].
    assert (Sl' : 0 <= b_lsv bk) by lia.
    destruct (accrue_monotone _ _ _ _ Sa Sl' Hta Htl Hacc) as (M1 & M2 & _ & _ & _ & _ & T1 & T2 & _).
    eapply put_bank_ledger; eauto; unfold wf_sv; lia.
  - apply bind_ok in H as (bk & Hbk & H). apply bind_ok in H as ([bk' kill] & Hs & H).
    apply Ok_inj, pair_equal_spec in H as [<- _].
    pose proof (nth_res_ok _ _ _ Hbk) as Ebk. destruct (Ledger_tot_nonneg w b bk L Ebk) as [Hta Htl].
    pose proof (Forall_nth_error _ _ _ _ (lg_sv w L) Ebk) as Hsv.
    destruct (socialize_sv _ _ _ _ Hsv Hta Hs) as (Hsv' & T1 & T2).
    eapply put_bank_ledger; eauto; lia.
  - pose proof (with_slot_ledger no_dust _ _ _ _ _ _ _ L H) as Hr.
    destruct Hr as (L' & bk0 & da & dl & _ & [-> ->] & _ & _ & Hd).
    + intros bk bl bk' bl' r' ? ? ? ? ? ? Hf. apply lift2_ok in Hf. eapply claim_slot_ok; eauto.
    + split; [exact L'|]. eapply step_delta_zero; [exact bk0|exact Hd].
  - pose proof (with_slot_ledger no_dust _ _ _ _ _ _ _ L H) as Hr.
    destruct Hr as (L' & bk0 & da & dl & _ & [-> ->] & _ & _ & Hd).
    + intros bk bl bk' bl' r' ? ? ? ? ? ? Hf. apply lift3_ok in Hf as [n Hf]. eapply settle_slot_ok; eauto.
    + split; [exact L'|]. eapply step_delta_zero; [exact bk0|exact Hd].
  - apply bind_ok in H as (la & Hla & H). apply Ok_inj, pair_equal_spec in H as [<- _].
    pose proof (nth_res_ok _ _ _ Hla) as Ela.
    assert (Hs : forall k, wsum (ca k) (set_nth a (sort_balances la) (bw_accts w)) = wsum (ca k) (bw_accts w) /\
                           wsum (cl k) (set_nth a (sort_balances la) (bw_accts w)) = wsum (cl k) (bw_accts w)).
    { intros k. rewrite !(wsum_set_nth _ _ _ _ _ Ela), !lsum_sort. lia. }
    split.
    + constructor; cbn [bw_accts bw_banks].
      * apply Forall_set_nth; [exact (lg_wf w L)|]. apply Forall_sort. exact (Forall_nth_error _ _ _ _ (lg_wf w L) Ela).
      * exact (lg_sv w L).
      * intros k bkk Hk. destruct (Hs (bank_pk k)) as [-> ->]. exact (lg_tot w L k bkk Hk).
    + intros k. unfold exA, exL, bank_of. cbn [bw_accts bw_banks]. destruct (Hs (bank_pk k)) as [-> ->]. split; reflexivity.
  - apply bind_ok in H as (bk & Hbk & H). apply bind_ok in H as (c & _ & H).
    apply Ok_inj, pair_equal_spec in H as [<- _]. split; [exact L|intros k; split; reflexivity].
Qed.

Theorem brun_ledger ops : forall w, Ledger w -> Forall bop_ok ops -> Ledger (brun w ops).
Proof.
  induction ops as [|o ops IH]; intros w L Hok; cbn [brun fold_left]; [exact L|].
  inversion Hok as [|? ? Ho Hops]; subst. apply IH; [|exact Hops].
  unfold bstep_total. destruct (bstep w o) as [[w' r]|e] eqn:E; [|exact L].
  eapply bstep_ledger; eauto.
Qed.

(* a bank whose totals are zero has no position with any shares left in it: closing a bank
   (close_bank requires zero totals) is only possible when every account's position is empty *)
Lemma wsum_zero_all f accts : (forall bl, 0 <= f bl) -> wsum f accts <= 0 ->
  forall la bl, In la accts -> In bl la -> f bl = 0.
Proof.
  intros Hf. assert (Hl : forall la, 0 <= lsum f la) by (induction la as [|x r IH]; cbn [lsum]; [lia|pose proof (Hf x); lia]).
  assert (Hw : forall ac, 0 <= wsum f ac) by (induction ac as [|x r IH]; cbn [wsum]; [lia|pose proof (Hl x); lia]).
  induction accts as [|la0 r IH]; intros Hs la bl Hin Hbl; [destruct Hin|].
  cbn [wsum] in Hs. pose proof (Hl la0). pose proof (Hw r).
  destruct Hin as [<-|Hin]; [|eapply IH; eauto; lia].
  assert (Hz : lsum f la0 <= 0) by lia. clear -Hf Hl Hz Hbl.
  induction la0 as [|x r IH]; [destruct Hbl|]. cbn [lsum] in Hz. pose proof (Hf x). pose proof (Hl r).
  destruct Hbl as [<-|Hbl]; [lia|]. apply IH; [exact Hbl|lia].
Qed.

Theorem zero_totals_no_positions w k bk : Ledger w -> bank_of w k = Some bk -> b_tas bk = 0 -> b_tls bk = 0 ->
  forall la bl, In la (bw_accts w) -> In bl la -> bl_active bl = true -> bl_bank bl = bank_pk k -> bl_a bl = 0 /\ bl_l bl = 0.
Proof.
  intros L Hk Ha Hl la bl Hla Hbl Hact Hbank. destruct (lg_tot w L k bk Hk) as [Sa Sl].
  assert (Hwf : forall la bl, In la (bw_accts w) -> In bl la -> wf_bal bl).
  { intros la0 bl0 H1 H2. pose proof (lg_wf w L) as F. rewrite Forall_forall in F. specialize (F la0 H1).
    rewrite Forall_forall in F. exact (F bl0 H2). }
  destruct (ca_self bl Hact) as [Ca Cl]. rewrite Hbank in Ca, Cl. rewrite <- Ca, <- Cl.
  pose proof (wsum_nonneg_ca (bank_pk k) _ (lg_wf w L)) as [N1 N2].
  (* sums are sums of non-negative contributions over wf balances; restrict f to be total-nonneg *)
  set (fa := fun x => Z.max 0 (ca (bank_pk k) x)). set (fl := fun x => Z.max 0 (cl (bank_pk k) x)).
  assert (Eq : forall f g accts, (forall la bl, In la accts -> In bl la -> f bl = g bl) -> wsum f accts = wsum g accts).
  { intros f g accts. induction accts as [|la0 r IH]; intros Hfg; cbn [wsum]; [reflexivity|].
    rewrite IH by (intros la1 bl1 ? ?; apply (Hfg la1 bl1); [right|]; assumption). f_equal.
    assert (Hl0 : forall b0, In b0 la0 -> f b0 = g b0) by (intros; apply (Hfg la0); [left; reflexivity|assumption]).
    clear -Hl0. induction la0 as [|x r IH]; cbn [lsum]; [reflexivity|]. rewrite IH by (intros; apply Hl0; right; assumption).
    rewrite (Hl0 x) by (left; reflexivity). reflexivity. }
  assert (Ea : wsum (ca (bank_pk k)) (bw_accts w) = wsum fa (bw_accts w)).
  { apply Eq. intros la0 bl0 H1 H2. unfold fa. pose proof (wf_nonneg_ca (bank_pk k) bl0 (Hwf _ _ H1 H2)). lia. }
  assert (El : wsum (cl (bank_pk k)) (bw_accts w) = wsum fl (bw_accts w)).
  { apply Eq. intros la0 bl0 H1 H2. unfold fl. pose proof (wf_nonneg_ca (bank_pk k) bl0 (Hwf _ _ H1 H2)). lia. }
  pose proof (wsum_zero_all fa (bw_accts w) (fun x => Z.le_max_l 0 _)) as Za.
  pose proof (wsum_zero_all fl (bw_accts w) (fun x => Z.le_max_l 0 _)) as Zl.
  specialize (Za ltac:(lia) la bl Hla Hbl). specialize (Zl ltac:(lia) la bl Hla Hbl).
  pose proof (wf_nonneg_ca (bank_pk k) bl (Hwf _ _ Hla Hbl)). unfold fa, fl in Za, Zl. lia.
Qed.

(* the initial world of the correspondence suite: no positions, no shares *)
Lemma ledger_init banks n now pf :
  Forall (fun b => wf_sv b /\ 0 <= b_tas b /\ 0 <= b_tls b) banks ->
  Ledger (mkBW banks (repeat la_empty n) now pf).
Proof.
  intros Hb. assert (Hz : forall (f : Z -> balance -> Z), (forall k, f k bal_empty = 0) -> forall k, wsum (f k) (repeat la_empty n) = 0).
  { intros f Hf k. induction n as [|n IH]; cbn [repeat wsum]; [reflexivity|]. rewrite IH.
    unfold la_empty. cbn [repeat lsum]. rewrite !Hf. reflexivity. }
  constructor; cbn [bw_accts bw_banks].
  - apply Forall_forall. intros la Hin. apply repeat_spec in Hin as ->. unfold la_empty.
    apply Forall_forall. intros bl Hin. apply repeat_spec in Hin as ->. unfold wf_bal. cbn. lia.
  - eapply Forall_impl; [|exact Hb]. intros b (H & _). exact H.
  - intros k bk Hk. unfold bank_of in Hk. cbn [bw_banks] in Hk.
    rewrite (Hz ca (fun k => proj1 (ca_empty k))), (Hz cl (fun k => proj2 (ca_empty k))).
    pose proof (Forall_nth_error _ _ _ _ Hb Hk). cbn in H. lia.
Qed.
