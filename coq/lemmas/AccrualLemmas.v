(* AccrualLemmas.v — C06: interest accrual is monotone, books non-negative fees, is idempotent at a
   fixed time, and never credits more than it charges (up to an explicit fixed-point allowance). *)
Require Import Base Constants Fixed Curve Bank FixedLemmas BankLemmas.
From Coq Require Import ZifyBool.
Local Open Scope Z_scope.

Definition YEAR : Z := 31536000.
Lemma SPY_val : SECONDS_PER_YEAR = YEAR * ONE. Proof. reflexivity. Qed.

Lemma assert_ok b u : assert b = Ok u -> b = true.
Proof. unfold assert. destruct b; [reflexivity | discriminate]. Qed.

(* the five rates returned by calc_interest_rate are non-negative (the code asserts it) and
   related to the base rate as the formulas say *)
Record rates_facts (c : ir_config) (pf : prog_fees) (ur : fx) (r : rates) : Prop := {
  rf_lend0 : 0 <= r_lending r;
  rf_bor0 : 0 <= r_borrowing r;
  rf_grp0 : 0 <= r_group r;
  rf_ins0 : 0 <= r_insurance r;
  rf_prot0 : 0 <= r_protocol r;
  rf_lend : r_lending r = r_base r * ur / ONE;
  rf_prot_off : pf_on pf = false -> r_protocol r = 0
}.

Lemma calc_fee_rate_zero base : calc_fee_rate base 0 0 = Ok 0.
Proof. reflexivity. Qed.

Lemma calc_interest_rate_facts c pf ur r : calc_interest_rate c pf ur = Ok r -> rates_facts c pf ur r.
Proof.
  intros H. unfold calc_interest_rate in H.
  apply bind_ok in H as (f1 & _ & H). apply bind_ok in H as (f2 & _ & H).
  apply bind_ok in H as (f3 & _ & H). apply bind_ok in H as (f4 & _ & H).
  apply bind_ok in H as (base & _ & H).
  apply bind_ok in H as (lend & Hl & H). apply cmul_inv in Hl as [Hl _].
  apply bind_ok in H as (onef & _ & H). apply bind_ok in H as (b0 & _ & H).
  apply bind_ok in H as (bor & _ & H).
  apply bind_ok in H as (g & _ & H). apply bind_ok in H as (i & _ & H).
  apply bind_ok in H as (p & Hp & H).
  apply bind_ok in H as (u1 & A1 & H). apply assert_ok in A1.
  apply bind_ok in H as (u2 & A2 & H). apply assert_ok in A2.
  apply bind_ok in H as (u3 & A3 & H). apply assert_ok in A3.
  apply bind_ok in H as (u4 & A4 & H). apply assert_ok in A4.
  apply bind_ok in H as (u5 & A5 & H). apply assert_ok in A5.
  apply Ok_inj in H. subst r. constructor; cbn [r_lending r_borrowing r_group r_insurance r_protocol r_base]; try lia.
  intros Hoff. rewrite Hoff in Hp. rewrite calc_fee_rate_zero in Hp. apply Ok_inj in Hp. auto.
Qed.

(* accrued_per_period / payment_for_period as floors *)
Lemma accrued_inv apr dt v r : 0 <= apr -> 0 <= dt -> accrued_per_period apr dt v = Ok r ->
  exists ir, ir = apr * dt / YEAR /\ 0 <= ir /\ r = v * (ONE + ir) / ONE.
Proof.
  intros Ha Hd H. unfold accrued_per_period in H. pose proof ONE_pos as HO.
  apply bind_ok in H as (a & Ha1 & H). apply cmul_inv in Ha1 as [Ha1 _].
  assert (Ea : a = apr * dt).
  { subst a. unfold of_int. replace (apr * (dt * ONE)) with (apr * dt * ONE) by ring. apply Z.div_mul. lia. }
  apply bind_ok in H as (ir & Hir & H). rewrite SPY_val in Hir.
  apply cdiv_inv_nonneg in Hir as [Hir Hir0]; [| rewrite Ea; nia | unfold YEAR; lia].
  apply bind_ok in H as (f & Hf & H). apply cadd_inv in Hf as [-> _].
  apply cmul_inv in H as [-> _].
  exists ir. split; [|split; [lia | reflexivity]].
  rewrite Hir, Ea. apply Z.div_mul_cancel_r; unfold YEAR; lia.
Qed.

Lemma payment_inv apr dt v r : 0 <= apr -> 0 <= dt -> 0 <= v -> payment_for_period apr dt v = Ok r ->
  r = (v * apr / ONE) * dt / YEAR /\ 0 <= r.
Proof.
  intros Ha Hd Hv H. unfold payment_for_period in H. pose proof ONE_pos as HO.
  destruct (apr =? 0) eqn:E.
  - apply Ok_inj in H. subst r. replace apr with 0 by lia. rewrite Z.mul_0_r.
    change (0 / ONE) with 0. rewrite Z.mul_0_l. change (0 / YEAR) with 0. lia.
  - apply bind_ok in H as (a & Ha1 & H). apply cmul_inv in Ha1 as [Ha1 _].
    apply bind_ok in H as (b & Hb & H). apply cmul_inv in Hb as [Hb _].
    assert (Ha0 : 0 <= a) by (subst a; apply Z.div_pos; nia).
    assert (Eb : b = a * dt).
    { subst b. unfold of_int. replace (a * (dt * ONE)) with (a * dt * ONE) by ring. apply Z.div_mul. lia. }
    rewrite SPY_val in H. apply cdiv_inv_nonneg in H as [Hr Hr0]; [| rewrite Eb; nia | unfold YEAR; lia].
    split; [|lia]. rewrite Hr, Eb, Ha1. apply Z.div_mul_cancel_r; unfold YEAR; lia.
Qed.

(* everything a "real" accrual (dt > 0, non-empty bank) does *)
Record accrue_facts (b : bank) (pf : prog_fees) (now : Z) (b' : bank)
                    (dt A L ur : Z) (r : rates) (irl irb : Z) : Prop := {
  af_dt_def : dt = now - b_last_update b /\ 0 < dt;
  af_A_def : A = b_tas b * b_asv b / ONE /\ A <> 0;
  af_L_def : L = b_tls b * b_lsv b / ONE /\ L <> 0;
  af_ur_def : cdiv L A = Ok ur;
  af_rates : calc_interest_rate (b_ir b) pf ur = Ok r;
  af_irl_def : irl = r_lending r * dt / YEAR /\ 0 <= irl;
  af_irb_def : irb = r_borrowing r * dt / YEAR /\ 0 <= irb;
  af_asv : b_asv b' = b_asv b * (ONE + irl) / ONE;
  af_lsv : b_lsv b' = b_lsv b * (ONE + irb) / ONE;
  af_ins : b_ins b' = b_ins b + (L * r_insurance r / ONE) * dt / YEAR;
  af_grp : b_grp b' = b_grp b + (L * r_group r / ONE) * dt / YEAR;
  af_prog : b_prog b' = b_prog b + (L * r_protocol r / ONE) * dt / YEAR;
  af_tot : b_tas b' = b_tas b /\ b_tls b' = b_tls b;
  af_lu : b_last_update b' = now
}.

(* the three ways accrue_interest can succeed *)
Lemma accrue_inv b pf now b' :
  0 <= b_tls b -> 0 <= b_lsv b ->
  accrue_interest b pf now = Ok b' ->
  (now = b_last_update b /\ b' = b) \/
  (b_last_update b < now /\ b' = set_b_last_update now b /\
     (b_tas b * b_asv b / ONE = 0 \/ b_tls b * b_lsv b / ONE = 0)) \/
  (exists dt A L ur r irl irb, accrue_facts b pf now b' dt A L ur r irl irb).
Proof.
  intros Htls Hlsv H. unfold accrue_interest in H. pose proof ONE_pos as HO.
  apply bind_ok in H as (d & Hd & H). apply chk_inv in Hd as [-> _].
  apply bind_ok in H as (dt & Hdt & H). apply chk_inv in Hdt as [-> Hdtr].
  unfold in_u64, in_range in Hdtr.
  destruct (now - b_last_update b =? 0) eqn:E0.
  { left. apply Ok_inj in H. split; [lia | auto]. }
  apply bind_ok in H as (ta & Hta & H). apply get_asset_amount_inv in Hta.
  apply bind_ok in H as (tl & Htl & H). apply get_liability_amount_inv in Htl.
  destruct ((ta =? 0) || (tl =? 0)) eqn:Ez.
  { right; left. apply Ok_inj in H. split; [lia|]. split; [auto|]. subst ta tl. lia. }
  right; right.
  apply bind_ok in H as (ch & Hch & H). apply math_ok in Hch.
  unfold accrual_state_changes in Hch.
  apply bind_ok in Hch as (ur & Hur & Hch).
  apply bind_ok in Hch as (r & Hr & Hch).
  pose proof (calc_interest_rate_facts _ _ _ _ Hr) as RF. destruct RF as [R1 R2 R3 R4 R5 R6 R7].
  assert (Hdt0 : 0 <= now - b_last_update b) by lia.
  assert (Htl0 : 0 <= tl) by (subst tl; apply Z.div_pos; nia).
  apply bind_ok in Hch as (nasv & Hna & Hch). apply accrued_inv in Hna as (irl & Hirl & Hirl0 & Hna); try lia.
  apply bind_ok in Hch as (nlsv & Hnl & Hch). apply accrued_inv in Hnl as (irb & Hirb & Hirb0 & Hnl); try lia.
  apply bind_ok in Hch as (ins & Hins & Hch). apply payment_inv in Hins as [Hins Hins0]; try lia.
  apply bind_ok in Hch as (grp & Hgrp & Hch). apply payment_inv in Hgrp as [Hgrp Hgrp0]; try lia.
  apply bind_ok in Hch as (prog & Hprog & Hch). apply payment_inv in Hprog as [Hprog Hprog0]; try lia.
  apply Ok_inj in Hch. subst ch. cbn [ac_asv ac_lsv ac_ins ac_grp ac_prog] in H.
  apply bind_ok in H as (dsv & _ & H). apply bind_ok in H as (acc & _ & H).
  exists (now - b_last_update b), ta, tl, ur, r, irl, irb.
  (* the three conditional fee-bucket updates *)
  set (b2 := set_b_lsv nlsv (set_b_asv nasv (set_b_last_update now b))) in H.
  apply bind_ok in H as (b3 & H3 & H). apply bind_ok in H as (b4 & H4 & H).
  assert (E3 : b3 = set_b_grp (b_grp b2 + grp) b2 \/ (grp = 0 /\ b3 = b2)).
  { destruct (0 <? grp) eqn:G.
    - left. apply bind_ok in H3 as (g & Hg & H3). apply math_ok, cadd_inv in Hg as [-> _].
      apply Ok_inj in H3. rewrite <- H3. f_equal. lia.
    - right. apply Ok_inj in H3. split; [lia | auto]. }
  assert (E4 : b4 = set_b_ins (b_ins b3 + ins) b3 \/ (ins = 0 /\ b4 = b3)).
  { destruct (0 <? ins) eqn:G.
    - left. apply bind_ok in H4 as (g & Hg & H4). apply math_ok, cadd_inv in Hg as [-> _].
      apply Ok_inj in H4. rewrite <- H4. f_equal. lia.
    - right. apply Ok_inj in H4. split; [lia | auto]. }
  assert (E5 : b' = set_b_prog (b_prog b4 + prog) b4 \/ (prog = 0 /\ b' = b4)).
  { destruct (0 <? prog) eqn:G.
    - left. apply bind_ok in H as (g & Hg & H). apply math_ok, cadd_inv in Hg as [-> _].
      apply Ok_inj in H. rewrite <- H. f_equal. lia.
    - right. apply Ok_inj in H. split; [lia | auto]. }
  assert (Fg : b_grp b' = b_grp b + grp /\ b_ins b' = b_ins b + ins /\ b_prog b' = b_prog b + prog /\
               b_asv b' = nasv /\ b_lsv b' = nlsv /\ b_tas b' = b_tas b /\ b_tls b' = b_tls b /\ b_last_update b' = now).
  { destruct E3 as [-> | [G3 ->]]; destruct E4 as [-> | [G4 ->]]; destruct E5 as [-> | [G5 ->]];
    unfold b2; cbn; repeat split; lia. }
  destruct Fg as (F1 & F2 & F3 & F4 & F5 & F6 & F7 & F8).
  constructor; try (split; [reflexivity|]); try assumption; try lia;
    try (split; [first [exact Hta | exact Htl] | lia]);
    try (rewrite ?F4, ?F5, ?F2, ?F1, ?F3, ?Hins, ?Hgrp, ?Hprog; first [exact Hna | exact Hnl | reflexivity]);
    try (split; assumption).
Qed.

(* ---------------------------------------------------------------- monotone, fees, idempotent *)
Lemma grow_ge v ir : 0 <= v -> 0 <= ir -> v <= v * (ONE + ir) / ONE.
Proof.
  intros Hv Hi. pose proof ONE_pos. apply Z.div_le_lower_bound; [lia|]. nia.
Qed.

Lemma pay_nonneg L apr dt : 0 <= L -> 0 <= apr -> 0 <= dt -> 0 <= L * apr / ONE * dt / YEAR.
Proof.
  intros. pose proof ONE_pos. assert (0 <= L * apr / ONE) by (apply Z.div_pos; nia).
  apply Z.div_pos; [nia | unfold YEAR; lia].
Qed.

Lemma accrue_monotone b pf now b' :
  0 <= b_asv b -> 0 <= b_lsv b -> 0 <= b_tas b -> 0 <= b_tls b ->
  accrue_interest b pf now = Ok b' ->
  b_asv b <= b_asv b' /\ b_lsv b <= b_lsv b' /\
  b_ins b <= b_ins b' /\ b_grp b <= b_grp b' /\ b_prog b <= b_prog b' /\
  (pf_on pf = false -> b_prog b' = b_prog b) /\
  b_tas b' = b_tas b /\ b_tls b' = b_tls b /\ b_last_update b' = now.
Proof.
  intros Ha Hl Hta Htl H. apply accrue_inv in H; try assumption.
  destruct H as [[E ->] | [[Hlt [-> _]] | (dt & A & L & ur & r & irl & irb & F)]].
  - repeat split; try lia.
  - cbn. repeat split; lia.
  - destruct F as [[_ Hdt] [HA _] [HL _] _ Hr [_ Hirl] [_ Hirb] Fa Fl Fi Fg Fp [Ft1 Ft2] Flu].
    pose proof (calc_interest_rate_facts _ _ _ _ Hr) as [R1 R2 R3 R4 R5 R6 R7].
    pose proof ONE_pos.
    assert (HL0 : 0 <= L) by (subst L; apply Z.div_pos; nia).
    pose proof (grow_ge _ _ Ha Hirl). pose proof (grow_ge _ _ Hl Hirb).
    pose proof (pay_nonneg L _ dt HL0 R4 ltac:(lia)). pose proof (pay_nonneg L _ dt HL0 R3 ltac:(lia)).
    pose proof (pay_nonneg L _ dt HL0 R5 ltac:(lia)).
    repeat split; try lia.
    intros Hoff. rewrite (R7 Hoff) in Fp. rewrite Z.mul_0_r in Fp.
    change (0 / ONE) with 0 in Fp. rewrite Z.mul_0_l in Fp. change (0 / YEAR) with 0 in Fp. lia.
Qed.

Lemma accrue_idempotent b pf now b' :
  0 <= b_tls b -> 0 <= b_lsv b ->
  accrue_interest b pf now = Ok b' -> accrue_interest b' pf now = Ok b'.
Proof.
  intros Htl Hl H. pose proof H as H0. apply accrue_inv in H; try assumption.
  assert (Hlu : b_last_update b' = now).
  { destruct H as [[E ->] | [[Hlt [-> _]] | (dt & A & L & ur & r & irl & irb & F)]]; [lia | reflexivity | exact (af_lu _ _ _ _ _ _ _ _ _ _ _ F)]. }
  unfold accrue_interest. rewrite Hlu. replace (now - now) with 0 by lia. reflexivity.
Qed.

(* ---------------------------------------------------------------- conservation *)
Lemma calc_fee_rate_le base rf ff v : calc_fee_rate base rf ff = Ok v -> v * ONE <= base * rf + ff * ONE.
Proof.
  unfold calc_fee_rate. pose proof ONE_pos. destruct (rf =? 0) eqn:E; intros H0.
  - apply Ok_inj in H0. subst v. replace rf with 0 by lia. lia.
  - apply bind_ok in H0 as (m & Hm & H0). apply cmul_inv in Hm as [-> _]. apply cadd_inv in H0 as [-> _].
    pose proof (Z.mul_div_le (base * rf) ONE ltac:(lia)). nia.
Qed.

(* base + the three fee rates never exceed the borrow rate *)
Lemma rates_sum_le_borrow c pf ur r : calc_interest_rate c pf ur = Ok r ->
  r_base r + r_group r + r_insurance r + r_protocol r <= r_borrowing r.
Proof.
  intros H. unfold calc_interest_rate in H. pose proof ONE_pos as HO.
  set (prate := if pf_on pf then pf_rate pf else 0) in *. set (pfix := if pf_on pf then pf_fixed pf else 0) in *.
  apply bind_ok in H as (f1 & Hf1 & H). apply uadd_inv in Hf1 as [-> _].
  apply bind_ok in H as (f2 & Hf2 & H). apply uadd_inv in Hf2 as [-> _].
  apply bind_ok in H as (f3 & Hf3 & H). apply uadd_inv in Hf3 as [-> _].
  apply bind_ok in H as (f4 & Hf4 & H). apply uadd_inv in Hf4 as [-> _].
  apply bind_ok in H as (base & _ & H).
  apply bind_ok in H as (lend & _ & H).
  apply bind_ok in H as (onef & Ho & H). apply cadd_inv in Ho as [-> _].
  apply bind_ok in H as (b0 & Hb0 & H). apply cmul_inv in Hb0 as [-> _].
  apply bind_ok in H as (bor & Hbor & H). apply cadd_inv in Hbor as [-> _].
  apply bind_ok in H as (g & Hg & H). apply calc_fee_rate_le in Hg.
  apply bind_ok in H as (i & Hi & H). apply calc_fee_rate_le in Hi.
  apply bind_ok in H as (p & Hp & H). apply calc_fee_rate_le in Hp.
  apply bind_ok in H as (u1 & _ & H). apply bind_ok in H as (u2 & _ & H). apply bind_ok in H as (u3 & _ & H).
  apply bind_ok in H as (u4 & _ & H). apply bind_ok in H as (u5 & _ & H).
  apply Ok_inj in H. subst r. cbn [r_base r_group r_insurance r_protocol r_borrowing].
  set (fi := ir_ins_rate c + ir_grp_rate c + prate) in *.
  pose proof (Z.div_mod (base * (ONE + fi)) ONE ltac:(lia)) as D. pose proof (Z.mod_pos_bound (base * (ONE + fi)) ONE HO) as M.
  (* (base + g + i + p) * ONE < borrow * ONE + ONE *)
  assert ((base + g + i + p) * ONE < (base * (ONE + fi) / ONE + (ir_ins_fixed c + ir_grp_fixed c + pfix)) * ONE + ONE) by (unfold fi in *; nia).
  nia.
Qed.

(* Accrual never credits (to depositors + the three fee buckets) more than it charges borrowers,
   beyond  L + total_liability_shares + ir_lend  raw units at scale 2^96, where L is the liability
   amount in I80F48 bits.  (For a bank owing 10^16 native units this is about 35 native units.) *)
Lemma accrue_conservation b pf now b' dt A L ur r irl irb :
  0 <= b_asv b -> 0 <= b_lsv b -> 0 <= b_tas b -> 0 <= b_tls b -> 0 <= r_base r ->
  accrue_facts b pf now b' dt A L ur r irl irb ->
  b_tas b * (b_asv b' - b_asv b)
    + ((b_ins b' - b_ins b) + (b_grp b' - b_grp b) + (b_prog b' - b_prog b)) * ONE
  < b_tls b * (b_lsv b' - b_lsv b) + (L + b_tls b + irl + 1) * 1 + 0 * dt.
Proof.
  intros Ha Hl Hta Htl Hbase F.
  destruct F as [[_ Hdt] [HA HA0] [HL HL0] Hur Hr [Hirl Hirl0] [Hirb Hirb0] Fa Fl Fi Fg Fp _ _].
  pose proof (calc_interest_rate_facts _ _ _ _ Hr) as [R1 R2 R3 R4 R5 R6 R7].
  pose proof (rates_sum_le_borrow _ _ _ _ Hr) as Rsum.
  pose proof ONE_pos as HO. assert (HY : 0 < YEAR) by (unfold YEAR; lia).
  assert (HAp : 0 < A) by (assert (0 <= A) by (subst A; apply Z.div_pos; nia); lia).
  assert (HLp : 0 < L) by (assert (0 <= L) by (subst L; apply Z.div_pos; nia); lia).
  apply cdiv_inv_nonneg in Hur as [Hur Hur0]; try lia.
  set (base := r_base r) in *. set (lend := r_lending r) in *. set (bor := r_borrowing r) in *.
  set (g := r_group r) in *. set (i := r_insurance r) in *. set (p := r_protocol r) in *.
  set (tas := b_tas b) in *. set (tls := b_tls b) in *. set (asv := b_asv b) in *. set (lsv := b_lsv b) in *.
  (* floors as two-sided inequalities *)
  pose proof (Z.mul_div_le (tas * asv) ONE HO) as A1. rewrite <- HA in A1.
  pose proof (Z.div_mod (tas * asv) ONE ltac:(lia)) as A2. pose proof (Z.mod_pos_bound (tas * asv) ONE HO) as A3. rewrite <- HA in A2.
  pose proof (Z.mul_div_le (tls * lsv) ONE HO) as L1. rewrite <- HL in L1.
  pose proof (Z.mul_div_le (L * ONE) A HAp) as U1. rewrite <- Hur in U1.
  pose proof (Z.mul_div_le (base * ur) ONE HO) as Le1. rewrite <- R6 in Le1.
  pose proof (Z.mul_div_le (lend * dt) YEAR HY) as I1. rewrite <- Hirl in I1.
  pose proof (Z.div_mod (bor * dt) YEAR ltac:(lia)) as B1. pose proof (Z.mod_pos_bound (bor * dt) YEAR HY) as B2. rewrite <- Hirb in B1.
  (* new share values *)
  pose proof (Z.mul_div_le (asv * (ONE + irl)) ONE HO) as S1. rewrite <- Fa in S1.
  pose proof (Z.div_mod (lsv * (ONE + irb)) ONE ltac:(lia)) as S2. pose proof (Z.mod_pos_bound (lsv * (ONE + irb)) ONE HO) as S3. rewrite <- Fl in S2.
  (* fee payments: pay_k * YEAR * ONE <= L * apr_k * dt *)
  assert (Pk : forall apr, 0 <= apr -> (L * apr / ONE * dt / YEAR) * YEAR * ONE <= L * apr * dt).
  { intros apr Hapr. pose proof (Z.mul_div_le (L * apr) ONE HO). pose proof (Z.mul_div_le (L * apr / ONE * dt) YEAR HY).
    assert (0 <= L * apr / ONE) by (apply Z.div_pos; nia). nia. }
  pose proof (Pk i R4) as Pi. pose proof (Pk g R3) as Pg. pose proof (Pk p R5) as Pp.
  set (pi := L * i / ONE * dt / YEAR) in *. set (pg := L * g / ONE * dt / YEAR) in *. set (pp := L * p / ONE * dt / YEAR) in *.
  rewrite Fi, Fg, Fp.
  replace (b_ins b + pi - b_ins b + (b_grp b + pg - b_grp b) + (b_prog b + pp - b_prog b)) with (pi + pg + pp) by ring.
  set (asv' := b_asv b') in *. set (lsv' := b_lsv b') in *.
  (* step 1: depositor credit  tas*(asv'-asv) <= (A+1)*irl *)
  assert (C1 : tas * (asv' - asv) <= (A + 1) * irl) by nia.
  (* step 2: A*irl*YEAR <= base*dt*L *)
  assert (C2 : A * irl * YEAR * ONE <= base * dt * L * ONE).
  { assert (E1 : irl * YEAR <= lend * dt) by lia.
    assert (E2 : lend * ONE <= base * ur) by lia.
    assert (E3 : ur * A <= L * ONE) by lia.
    assert (S1' : (irl * YEAR) * (A * ONE) <= (lend * dt) * (A * ONE)) by (apply Z.mul_le_mono_nonneg_r; nia).
    assert (S2' : (lend * ONE) * (dt * A) <= (base * ur) * (dt * A)) by (apply Z.mul_le_mono_nonneg_r; nia).
    assert (S3' : (ur * A) * (base * dt) <= (L * ONE) * (base * dt)) by (apply Z.mul_le_mono_nonneg_r; nia).
    replace (A * irl * YEAR * ONE) with ((irl * YEAR) * (A * ONE)) by ring.
    replace (base * dt * L * ONE) with ((L * ONE) * (base * dt)) by ring.
    replace ((lend * dt) * (A * ONE)) with ((lend * ONE) * (dt * A)) in S1' by ring.
    replace ((base * ur) * (dt * A)) with ((ur * A) * (base * dt)) in S2' by ring.
    lia. }
  assert (C2' : A * irl * YEAR <= base * dt * L) by nia.
  (* step 3: borrower charge  tls*(lsv'-lsv)*YEAR > L*(bor*dt - YEAR) - tls*YEAR *)
  assert (C3 : L * irb - tls < tls * (lsv' - lsv)) by nia.
  assert (C4 : L * (bor * dt) - L * YEAR < L * irb * YEAR) by nia.
  (* combine, everything multiplied by YEAR *)
  assert ((tas * (asv' - asv) + (pi + pg + pp) * ONE) * YEAR < (tls * (lsv' - lsv) + (L + tls + irl + 1)) * YEAR); [|nia].
  assert ((pi + pg + pp) * ONE * YEAR <= L * dt * (i + g + p)) by nia.
  assert (L * dt * (base + g + i + p) <= L * dt * bor) by (apply Z.mul_le_mono_nonneg_l; nia).
  nia.
Qed.

(* ---------------------------------------------------------------- top-level C06 statements *)
Require Import CurveLemmas.

Lemma calc_base_seven c pf ur r :
  calc_interest_rate c pf ur = Ok r -> ir_curve_type c = INTEREST_CURVE_SEVEN_POINT -> mpc c ur = Ok (r_base r).
Proof.
  intros H Hct. unfold calc_interest_rate in H. rewrite Hct in H.
  cbn [Z.eqb INTEREST_CURVE_SEVEN_POINT INTEREST_CURVE_LEGACY Pos.eqb] in H.
  apply bind_ok in H as (f1 & _ & H). apply bind_ok in H as (f2 & _ & H).
  apply bind_ok in H as (f3 & _ & H). apply bind_ok in H as (f4 & _ & H).
  apply bind_ok in H as (base & Hb & H). rewrite Hb.
  apply bind_ok in H as (lend & _ & H). apply bind_ok in H as (onef & _ & H). apply bind_ok in H as (b0 & _ & H).
  apply bind_ok in H as (bor & _ & H). apply bind_ok in H as (g & _ & H). apply bind_ok in H as (i & _ & H).
  apply bind_ok in H as (p & _ & H).
  apply bind_ok in H as (u1 & _ & H). apply bind_ok in H as (u2 & _ & H). apply bind_ok in H as (u3 & _ & H).
  apply bind_ok in H as (u4 & _ & H). apply bind_ok in H as (u5 & _ & H).
  apply Ok_inj in H. subst r. reflexivity.
Qed.

Definition wf_bank (b : bank) : Prop := 0 <= b_asv b /\ 0 <= b_lsv b /\ 0 <= b_tas b /\ 0 <= b_tls b.
Definition valid_curve (b : bank) : Prop :=
  cfg_ok (b_ir b) /\ validate_seven_point (b_ir b) = Ok tt /\ ir_curve_type (b_ir b) = INTEREST_CURVE_SEVEN_POINT.

(* D = deposits, L = liabilities (scale 2^96), F = the three fee buckets (scale 2^48) *)
Definition Dv (b : bank) : Z := b_tas b * b_asv b.
Definition Lv (b : bank) : Z := b_tls b * b_lsv b.
Definition Fv (b : bank) : Z := b_ins b + b_grp b + b_prog b.

Lemma accrue_credit_le_charge b pf now b' :
  wf_bank b -> valid_curve b -> accrue_interest b pf now = Ok b' ->
  exists irl, 0 <= irl /\ ((b' = b /\ irl = 0) \/ b_asv b' = b_asv b * (ONE + irl) / ONE \/ (b_asv b' = b_asv b /\ irl = 0)) /\
  (Dv b' - Dv b) + (Fv b' - Fv b) * ONE <= (Lv b' - Lv b) + (b_tls b * b_lsv b / ONE + b_tls b + irl + 1).
Proof.
  intros (Ha & Hl & Hta & Htl) (Hc & Hv & Hct) H. pose proof ONE_pos as HO.
  pose proof H as H0. apply accrue_inv in H; try assumption.
  assert (HLq : 0 <= b_tls b * b_lsv b / ONE) by (apply Z.div_pos; nia).
  destruct H as [[E ->] | [[Hlt [-> _]] | (dt & A & L & ur & r & irl & irb & F)]].
  - exists 0. split; [lia|]. split; [left; split; reflexivity|]. lia.
  - exists 0. split; [lia|]. split; [right; right; split; reflexivity|]. unfold Dv, Lv, Fv, set_b_last_update. cbn [b_tas b_asv b_tls b_lsv b_ins b_grp b_prog]. lia.
  - pose proof F as F0. destruct F as [_ _ [HL _] _ Hr [_ Hirl0] _ Fa Fl _ _ _ [Ft1 Ft2] _].
    pose proof (calc_base_seven _ _ _ _ Hr Hct) as Hb.
    destruct (curve_defined_bounded (b_ir b) ur Hc Hv) as (base & Hb' & Hbb & _).
    rewrite Hb in Hb'. apply Ok_inj in Hb'.
    destruct Hc as (Hz & _ & _). pose proof (Rf_range _ Hz).
    pose proof (accrue_conservation b pf now b' dt A L ur r irl irb Ha Hl Hta Htl ltac:(lia) F0) as C.
    exists irl. split; [lia|]. split; [right; left; exact Fa|].
    unfold Dv, Lv, Fv. rewrite Ft1, Ft2. rewrite <- HL. nia.
Qed.

(* accrual touches only share values, fee buckets and last_update *)
Definition bank_cfg_same (b b' : bank) : Prop :=
  b_ir b' = b_ir b /\ b_op_state b' = b_op_state b /\ b_flags b' = b_flags b /\
  b_dep_limit b' = b_dep_limit b /\ b_bor_limit b' = b_bor_limit b /\ b_asset_tag b' = b_asset_tag b /\
  b_decimals b' = b_decimals b /\ b_em_rate b' = b_em_rate b /\ b_em_rem b' = b_em_rem b /\
  b_lend_cnt b' = b_lend_cnt b /\ b_bor_cnt b' = b_bor_cnt b.

Lemma accrue_frame b pf now b' : accrue_interest b pf now = Ok b' -> bank_cfg_same b b'.
Proof.
  intros H. unfold accrue_interest in H.
  apply bind_ok in H as (d & _ & H). apply bind_ok in H as (dt & _ & H).
  destruct (dt =? 0). { apply Ok_inj in H. subst. repeat split. }
  apply bind_ok in H as (ta & _ & H). apply bind_ok in H as (tl & _ & H).
  destruct ((ta =? 0) || (tl =? 0)). { apply Ok_inj in H. subst. repeat split. }
  apply bind_ok in H as (ch & _ & H). apply bind_ok in H as (dsv & _ & H). apply bind_ok in H as (acc & _ & H).
  set (b2 := set_b_lsv (ac_lsv ch) (set_b_asv (ac_asv ch) (set_b_last_update now b))) in H.
  apply bind_ok in H as (b3 & H3 & H). apply bind_ok in H as (b4 & H4 & H).
  assert (E3 : bank_cfg_same b2 b3).
  { destruct (0 <? ac_grp ch); [apply bind_ok in H3 as (g & _ & H3)|]; apply Ok_inj in H3; subst b3; repeat split. }
  assert (E4 : bank_cfg_same b3 b4).
  { destruct (0 <? ac_ins ch); [apply bind_ok in H4 as (g & _ & H4)|]; apply Ok_inj in H4; subst b4; repeat split. }
  assert (E5 : bank_cfg_same b4 b').
  { destruct (0 <? ac_prog ch); [apply bind_ok in H as (g & _ & H)|]; apply Ok_inj in H; subst b'; repeat split. }
  assert (E2 : bank_cfg_same b b2) by (unfold b2; repeat split).
  unfold bank_cfg_same in *.
  destruct E2 as (?&?&?&?&?&?&?&?&?&?&?), E3 as (?&?&?&?&?&?&?&?&?&?&?), E4 as (?&?&?&?&?&?&?&?&?&?&?), E5 as (?&?&?&?&?&?&?&?&?&?&?).
  repeat split; congruence.
Qed.
